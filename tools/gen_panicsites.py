#!/usr/bin/env python3
"""One-off helper: (re)writes coq/theories/PanicSites.v from the current inventory with the
hand-written disposition rules below.  Run by hand when the inventory legitimately changes; the
CHECK never runs this (it only regenerates Gen_panics.v and compares)."""
import os, re, sys
sys.path.insert(0, os.path.join(os.path.dirname(os.path.abspath(__file__)), "..", "gen"))
import translate

RULES = [
 (r"fragment\.rs::reassemble::", "M FragProofs.reassemble_safe: length >= 4 is checked before split_to/get_*"),
 (r"fragment\.rs::timer::", "M pop_front runs partition_point times over the same deque; HashMap::remove does not panic"),
 (r"fragment\.rs::new::assert", "L mtu is the local QUIC transport's max_datagram_size (>= 1200 - overhead), not peer data; model site 5"),
 (r"fragment\.rs::new::as_u8", "M truncation of total modelled (mod 256); C11_fragments_cover states the bound"),
 (r"fragment\.rs::next::", "M sender side: data_len = min(remaining, mtu-4) bounds advance_mut / copy_to_slice / buf[4..]"),
 (r"fragment\.rs::(new|add_fragment|assemble)::", "M FragProofs.reassemble_safe: total in 1..127 and seq < total are checked before the bitmap shifts and the fragments[] accesses"),
 (r"frames\.rs::recv_from::truncate", "L size returned by recv_from is at most the buffer length"),
 (r"frames\.rs::read_head::", "G remaining() >= 12 is checked first (Frames.read_head)"),
 (r"frames\.rs::from_buffer::", "M C05_from_buffer_never_panics: len >= 12 and len >= 12+attr+body are checked before the cursor operations"),
 (r"frames\.rs::make_header::split_off", "L 12 <= the constant capacity 1024"),
 (r"frames\.rs::make_header::as_u16", "G Frame::check_encodable bounds both lengths (Frames.encodable)"),
 (r"frames\.rs::read::", "M Frames.sfr_read: split_to(ret) only when len >= ret; remaining is Some by construction; set_len follows reserve; truncate(len) with len <= 65536; from_buffer error is propagated"),
 (r"frames\.rs::decode_address::", "M C05_decode_address_never_panics: len >= 2 and len <= remaining are checked before the cursor operations"),
 (r"frames\.rs::encode_address::unwrap", "G addr.is_none() returns first"),
 (r"frames\.rs::encode_address::as_u8", "G Frame::check_encodable bounds the host length"),
 (r"quic\.rs::create_quic_(server|client)::unwrap", "S constant Duration -> IdleTimeout conversion at start-up"),
 (r"quic\.rs::write::unwrap", "G mtu.is_none() returns first"),
 (r"quic\.rs::quic_frames_thread::unwrap", "G is_err()/is_none() are tested first"),
 (r"quic\.rs::quic_frames_thread::remove", "L CHashMap::remove does not panic"),
 (r"h11c\.rs::h11c_connect::unwrap", "I extra(udp-bind-source) is set together with Feature::UdpBind in h11c_handshake, the only place that sets that feature"),
 (r"h11c\.rs::h11c_handshake(_request)?::unwrap", "I the listener installs the client stream before calling the handshake"),
 (r"h11c\.rs::on_connect::unwrap", "I the client stream is still owned by the context at on_connect (copy_bidi takes it later)"),
 (r"h11c\.rs::on_error::unwrap", "G socket.is_none() returns first"),
 (r"http\.rs::read_from::index", "G a.len() == 3 is tested first (Http.read_http_request / read_http_response)"),
 (r"socks\.rs::read_v5::unwrap", "G method.is_none() bails first"),
 (r"socks\.rs::write_v4::index", "L slice of the fixed 4-byte octet array"),
 (r"socks\.rs::write_v[45]::unreachable", "I TargetAddress::Unknown never reaches a connector: every listener sets the target before enqueue (model: Panic 20/21/23 under TUnknown only)"),
 (r"socks\.rs::write_v5::as_u8", "G lengths above 255 bail first (Socks.addr_v5); methods has at most 2 entries"),
 (r"socks\.rs::write_v5::insert0", "L Vec::insert(0, _) cannot be out of bounds"),
 (r"socks\.rs::auth_v5::unwrap", "M C05_socks_client_never_panics: method 2 is only offered, hence only accepted, when credentials are present"),
 (r"socks\.rs::auth_v5::as_u8", "G lengths above 255 bail first"),
 (r"socks\.rs::decode_socks_frame::", "M C05_decode_udp_never_panics: every cursor operation is preceded by a length check"),
 (r"socks\.rs::encode_socks_frame::as_u8", "G lengths above 255 return an error first"),
 (r"udp\.rs::udp_socket::unwrap", "L address family of a SocketAddr is always known"),
 (r"listeners/socks\.rs::on_connect::unwrap", "I the client stream is installed before the context is enqueued"),
 (r"listeners/socks\.rs::on_error::unwrap#1", "S constant address literal"),
 (r"listeners/socks\.rs::on_error::unwrap#2", "G socket.is_none() returns first"),
 (r"listeners/reverse\.rs::", "L map removal does not panic"),
 (r"listeners/quic\.rs::listen::", "S start-up (endpoint creation)"),
 (r"copy\.rs::<top>::unwrap", "S metric registration at first use"),
 (r"copy\.rs::into_owned_fd::unwrap#1", "G has_raw_fd() is tested by the caller"),
 (r"copy\.rs::into_owned_fd::unwrap#2", "L deregistration of a live socket"),
 (r"copy\.rs::(read|write|shutdown)::unreachable", "G NullFn is only installed when have_rawfd is false, and then never called"),
 (r"copy\.rs::(write|shutdown)::unwrap", "G each select arm is enabled only when both halves of that kind are present (have_stream / have_frames)"),
 (r"copy\.rs::(write|shutdown)::index", "L len returned by read is at most the buffer length"),
 (r"copy\.rs::copy_bidi::unwrap#1", "I process_request sets the connector name before copy_bidi"),
 (r"copy\.rs::copy_bidi::unwrap", "R dup()/AsyncFd::new on a live socket: fails only when the process is out of file descriptors (see DESIGN.md, finding D32)"),
]

def main():
    sites = translate.panic_sites(translate.PANIC_FILES)
    out = ["(* Expected inventory of potential panic sites with the reason each one cannot be reached by",
           "   peer-controlled data.  Written by hand (tools/gen_panicsites.py holds the rules); compared",
           "   with the inventory regenerated from the source on every run (Gen/Gen_panics.v).",
           "   Disposition letters: M = mapped to a Panic outcome of the model and proved unreachable (theorem",
           "   named); G = guarded by an explicit check just before; I = internal invariant of the call",
           "   order; L = local/library fact independent of peer data; S = start-up / constant only;",
           "   R = resource exhaustion (recorded finding). *)",
           "From Coq Require Import String List.", "Import ListNotations.", "Local Open Scope string_scope.", "",
           "Definition expected : list (string * string) := ["]
    rows = []
    for s in sites:
        for rx, why in RULES:
            if re.search(rx, s):
                rows.append('  ("%s", "%s")' % (s, why.replace('"', "'")))
                break
        else:
            raise SystemExit("no disposition rule for " + s)
    out.append(";\n".join(rows))
    out.append("].")
    open(os.path.join(os.path.dirname(os.path.abspath(__file__)), "..", "coq", "theories", "PanicSites.v"), "w").write("\n".join(out) + "\n")
    print(len(rows), "sites")

main()
