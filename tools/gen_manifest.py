#!/usr/bin/env python3
"""Regenerate MANIFEST.json from the table below (claimed checks) and properties.jsonl."""
import json, os, subprocess
V = os.path.dirname(os.path.dirname(os.path.abspath(__file__)))
props = [json.loads(l) for l in open(os.path.join(V, "properties.jsonl"))]

CLAIMED = {
 "C08": dict(
   text="Gallina model of the milu type checker and evaluator exactly as the crate implements them (lazy arrays/tuples, let bindings as environment-carrying thunks, one-level forcing, Any wildcard, every builtin body with checked i64 arithmetic) in the redproxy script environment. Proved: TYPE SOUNDNESS for the whole let-free fragment (every expression the parser builds without `let` and `[]`, every request, every oracle behaviour, every fuel: accepted with T => value of type T or an inherently dynamic error, never a panic, never a type error), at value_of level and at the real_type_of/real_value_of entry points; checker totality and Any-freeness; totality/typing of integer and comparison builtins; accessor tables agree; REFUTATION theorems with concrete witnesses for the two recorded soundness holes. The hypothesis wf_lf is tied to the parser by an executable test (proved sound) evaluated on every parsed program. Tie: extracted parser+checker+evaluator vs the real milu crate on typed-generated, depth-2 exhaustive and random programs under 5 requests with the property itself as oracle.",
   note="Partial: programs with `let` are not covered by the soundness theorem (differential check + two known-finding classes cover them); parse => wf_lf is checked at run time, not proved; regex crate and IP/CIDR text parsing are Section-variable oracles; template strings are outside the model; termination is by fuel.",
   tech="Rocq proof (soundness by induction on evaluation fuel over an executable checker/evaluator model) + differential correspondence with a property oracle"),
 "C02": dict(
   text="Rocq theorems over Dispatch.v (process_request, set_rules, Rule::evaluate on top of the milu evaluator model): first-match-wins as an iff characterisation over all rule lists, default deny, filterless rules match, failing filters do not match, an upstream is contacted only for the first matching rule with the requested feature, nothing is forwarded / recorded / connected on deny, payload is forwarded only after establishment, and CIDR containment is range membership for every width and prefix length. Tie: the real process_request/set_rules with recording connectors vs the extracted model on random rule lists x requests x feature sets; independent oracle recomputes the decision from each filter's own evaluation; cidr_match vs Python ipaddress on every IPv4 prefix length and sampled IPv6 ones.",
   note="Trusted: Coq kernel, extraction, glue; IP/CIDR text parsing (std, cidr crate - lenient about text forms) and regex are oracles; the relay after establishment is C01's subject (here only that the payload reaches the selected upstream in buffered mode).",
   tech="Rocq proof over an effect-trace model + differential correspondence with an independent decision oracle"),
 "C09": dict(
   text="The parser model (a PEG interpreter mirroring the nom combinators) is instantiated with the operator ladder REGENERATED from milu/src/parser.rs on every run and checked inside Rocq against the documented table regenerated from milu/readme.md. Unbounded theorem C09_parse_print_roundtrip (MiluRoundtrip.v, induction over trees and fuel): every well-formed expression tree of any size and depth - identifiers, decimal literals, every binary operator of every ladder level, unary operators, index, member access, calls, the conditional - printed with only the parentheses precedence and associativity require parses back to exactly the documented AST, with the fuel parse itself supplies; C09_blank_irrelevant: any run of white space and closed # and /* */ comments is skipped whatever it contains. Finite theorems by complete enumeration (vm_compute): every documented operator and spelling, every ordered pair and triple (precedence, associativity), unary/postfix/conditional/scope interactions, tag-shadowing discipline of ordered choice. Tie: the extracted parser model vs milu::parser::parse on exhaustive pairs/triples, random trees in four spellings and a lexical edge list with an independently written expected-tree oracle; the theorem's own printer m_print is run on random well-formed trees and the real parser must return m_denote.",
   note="Partial: the round-trip theorem is stated for the one-space canonical printing; blank/comment fillers at arbitrary token boundaries are covered by the skip lemma plus finite enumerations, not by one combined theorem; let/array/tuple/string literals are outside the theorem's tree type (covered by the differential check); template strings are outside the model; nom is modelled. Trusted: Coq kernel, vm_compute, translator, extraction, glue.",
   tech="Rocq proof (unbounded parse/print round trip by induction over a translator-instantiated parser model; finite-domain enumeration theorems) + differential correspondence"),
 "C11": dict(
   text="Rocq theorems over a Gallina model of src/common/fragment.rs: sender cover, refinement of reassembly to a seen-set spec for every arrival order with duplicates, exactly-once outside the known duplicate-cover class, id independence for every interleaving, garbage and inconsistent fragments yield nothing, timer discards, no panic in any reachable state. The model is tied to the code by a differential correspondence check of the extracted model against the hook-built implementation plus an implementation-only oracle.",
   note="Trusted: Coq kernel, ExtrOcamlBasic extraction, driver/model_run glue and generators; bytes/HashMap/VecDeque/Instant modelled not verified. Known finding C11-dup-cover (second complete copy re-delivers).",
   tech="Rocq proof (induction, bitmap invariant, refinement) + extracted-model differential correspondence"),
 "C12": dict(
   text="Rocq theorem chunking_irrelevant for EVERY reader program (the free monad in which all SOCKS/HTTP decoders are written): operational BufReader-style interpretation over any segment list equals the whole-input interpretation incl. bytes left unread; strictness of every decoder gives truncation_never_ok; StreamFrameReader stitching theorem. Tie: the same decoder programs are extracted and run on the same segment lists as the real decoders behind the real BufReader.",
   note="Trusted: Coq kernel, extraction, glue; tokio BufReader/read_exact/read_until/read_line are the modelled primitives (re-implemented by the operational interpreter and compared on every case).",
   tech="Rocq proof (free-monad reader programs, induction over programs and segment lists) + differential correspondence"),
 "C05": dict(
   text="Rocq theorems: every stream decoder of the model is a crash-free reader program, and crash-free programs never report a panic under ANY input, segmentation and EOF point; Frame::from_buffer, decode_address, decode_socks_frame, StreamFrameReader and the fragment reassembler never panic for any byte string / datagram sequence; the SOCKS5 connector never panics on any upstream reply; the inventory of potential panic sites (unwrap, indexing, Buf cursor ops, shifts, narrowing casts) regenerated from the source on every run equals the audited list (sites_fingerprint); Cargo profile premise (panic=abort). Tie: hostile inputs through every real decoder vs the extracted model with a 'no panic / no hang' oracle.",
   note="Partial: decoder level only. Kernel/TLS/QUIC library behaviour, stalls (C13/C14) and resource exhaustion by connection count (finding D32) are not covered by the theorems; tproxy needs CAP_NET_ADMIN and is not exercised. Trusted: Coq kernel, extraction, translator gen/translate.py, driver glue.",
   tech="Rocq proof (crash-freedom by induction over reader programs, totality of buffer decoders) + regenerated panic-site fingerprint + differential hostile-input correspondence"),
 "C15": dict(
   text="Rocq theorems over Reload.v (set_rules / identity post / probe op sequences on top of Dispatch.v): set_rules succeeds iff every rule compiles, type-checks to boolean and names deny or an existing connector; an invalid rule at ANY position rejects the whole replacement; all-or-nothing state transition; probes use the list in force; get-then-post is the identity on every reachable state (consistency invariant). The atomicity of a decision against a concurrent replacement rests on skeleton facts re-extracted from src/main.rs on every run (single write after all fallible steps; one read guard, no await inside the find_map closure) and proved equal to the expected values. Tie: real set_rules/process_request op sequences vs the extracted model, plus a concurrent stress run whose only admissible decisions are those of the two lists.",
   note="Trusted: tokio RwLock semantics (modelled), serde (de)serialisation of rules (validated by the identity op), translator, extraction, glue.",
   tech="Rocq proof over an op-sequence model + regenerated lock skeleton + differential correspondence"),
 "C17": dict(
   text="Rocq theorems over Lb.v: round robin hits every position exactly k times in ANY k*n consecutive tickets from any counter value (sliding-window induction), and under ANY interleaving of the atomic fetch_adds of any number of tasks (tickets are consecutive, counts are permutation invariant); selection is total on non-empty lists and only ever yields members; hash-by is a function of the key value; every member is possible for random. Tie: the real LoadBalanceConnector (from YAML through from_value/init/verify) in front of recording members, sequential and from 2-32 concurrent tasks; laws checked on the observed selections, recorded connector = member whose connect ran.",
   note="DefaultHasher and thread_rng are parameters of the model; usize wrap-around of the counter is outside the window theorem (needs 2^64 requests). Trusted: AtomicUsize atomicity, Coq kernel, glue.",
   tech="Rocq proof (induction, permutation invariance) + law checking on the real connector"),
 "C06": dict(
   text="Rocq theorems over Callbacks.v (ConnectCallback / FrameChannelCallback of h11c.rs and the SOCKS Callback applied to the event sequences of Dispatch.process_request): for every listener protocol and session kind exactly one reply is written, it is the success reply iff on_connect ran, on_connect only follows a successful connector connect, success and failure replies are different messages, the SOCKS4/5 failure replies parse with the model's own reply reader leaving nothing behind, and for EVERY body the HTTP 503 parses as status line + headers whose Content-Length is the decimal length of exactly the bytes that follow. The shape facts the model stands on (single on_connect after connect, early returns, stream taken before the relay can fail, replied flag, flush after body) are regenerated from the source on every run (Gen_callbacks.v) and are proof obligations. Tie: the hook-built binary in normal mode on loopback; raw HTTP/SOCKS5/SOCKS4 clients driven through 16 routes x outcome classes and listener-level refusals against fake origins and upstream proxies; bytes received until EOF must equal the extracted model's client_bytes for the class; origin accept counts bound the number of success replies; slow-upstream timing; SOCKS5 UDP association idling out.",
   note="Partial: the text of the 503 body is a parameter; TLS listeners and the QUIC listener are not exercised end to end; the timing clause (only after) is a theorem about event order plus one slow-upstream timing scenario. Trusted: Coq kernel, translator regexes, extraction, fake endpoints in checks/e2e.py. Fixed finding: failure reply after success reply on a SOCKS5 UDP association (e98a482).",
   tech="Rocq proof over callback/event model + regenerated source-shape obligations + end-to-end correspondence against the real binary"),
 "C01": dict(
   text="Rocq theorems over Relay.v (copy_half / copy_bidi / drain_buffers of src/copy.rs as a small-step machine whose environment chooses the size of every read and of every splice): for every input, buffer size > 0, oracle and mode the destination always holds a prefix of the source (in order, once, unmodified), every run given enough steps delivers the whole input and then the end-of-stream mark, any number of tunnels under any interleaving never exchange a byte (world invariant by induction over the schedule), and - on top of chunking_irrelevant for every reader program - the tunnel starts exactly behind what the handshake decoder consumed for every segmentation of handshake + pipelined data; the pre-fix splice loop is shown to lose the tail (refutation witness). Loop shapes (write_all+flush, splice-out until pending = 0, drain before unwrapping, two halves) are regenerated from src/copy.rs and are proof obligations. Tie: two chained instances of the real binary (entry -> exit) so that every connector kind (direct, http, https, socks5, socks4, quic, load balancer) meets the matching listener kind; 7 client kinds incl. TLS and reverse; origins that echo / speak first / stream / close first / only read; sizes 0..6 MB, 1-byte to 70000-byte writes, early data glued to the handshake, 16 tunnels in flight with connection-tagged content; splice on/off, bufferSize 1..1 MiB; stalled-reader scan for partial splices.",
   note="Partial: kernel, tokio, rustls and quinn are byte pipes with arbitrary chunking in the model; QUIC and TLS are exercised end to end only through the chain; tproxy needs CAP_NET_ADMIN and is not exercised. Fixed finding: splice mode dropped the tail of a stream after a partial splice into a full socket (dd0dab2). Trusted: Coq kernel, translator regexes, fake endpoints.",
   tech="Rocq proof (small-step relay machine with environment oracles, invariant by induction, progress measure) + regenerated loop shape + end-to-end correspondence against chained real binaries"),
 "C04": dict(
   text="Rocq theorems over Relay.v: the destination's write side is shut down only after every byte before it was delivered, every finished direction does shut it down, a step of one direction never changes the other (the opposite direction keeps flowing), and buffered and splice loops give the same bytes and the same end-of-stream for any two environments; the pre-fix splice loop ends without the mark (refutation witness). The three shutdown sites (stream, frames, raw fd with SHUT_WR) are regenerated from src/copy.rs as proof obligations. Tie: chained real binaries in both I/O modes: client closes first while the origin streams, origin closes first and the client sends afterwards, both at once, RST from client, RST from origin, x 4 plain client kinds x 7 connectors; byte-exactness before each end-of-stream, time until the far endpoint observes it (3 s threshold), clean close after both ends, /api/history record with a final state, equality of outcomes between modes.",
   note="Partial: promptness is a wall-clock threshold, not a theorem; TLS half-close from the client side cannot be produced with Python's ssl module (TLS legs inside the chain are exercised); RST is modelled only as end of run. Fixed finding: splice mode never relayed a half-close (f9fc70e). Noted, not demonstrated: common/splice.rs test_read_write_readiness compares poll revents by equality rather than by mask.",
   tech="Rocq proof (relay machine: FIN ordering, mode equivalence) + regenerated shutdown sites + end-to-end correspondence in both I/O modes"),
 "C03": dict(
   text="Rocq round-trip theorems writer->reader for every destination codec (SOCKS5 address and full request exchange, SOCKS4/4a, RPFM frame header, SOCKS-UDP header, HTTP CONNECT line incl. Host header) with exact characterisation of refusals; every theorem also states that exactly the following bytes are left. Tie: three-stage differential correspondence (inbound decode, outbound encode, next-hop decode) against the real codecs plus the implementation-only oracle reader(writer(t)) = t or refused.",
   note="Trusted: Coq kernel, extraction, glue. std's SocketAddr text form (IPv6 in particular) is an explicit premise (sockaddr_text_ok) of the CONNECT theorem; invalid UTF-8 inbound hosts are replaced by from_utf8_lossy before rules see them and are outside the theorem domain (compared for panics only).",
   tech="Rocq proof (codec round trips over reader programs) + differential correspondence"),
}

def main():
    hook_commits = subprocess.run(["git", "-C", "/repo", "log", "--format=%h %s"], capture_output=True, text=True).stdout.splitlines()
    hooks = [l.split()[0] for l in hook_commits if l.split(" ", 1)[1].startswith("verif hook")]
    checks = []
    for p in props:
        pid = p["id"]
        if pid not in CLAIMED:
            continue
        c = CLAIMED[pid]
        checks.append({
            "property_id": pid,
            "quick_cmd": "./check %s quick" % pid,
            "thorough_cmd": "./check %s thorough" % pid,
            "evidence_file": "/verif/evidence/%s.json" % pid,
            "replay_cmd_template": "./check %s --replay {path}" % pid,
            "engine": "rocq",
            "level_claimed": {"category": "proof", "text": c["text"], "design_ref": "DESIGN.md §5 " + pid},
            "level_note": c["note"],
            "technique": c["tech"],
        })
    na = [{"property_id": p["id"], "reason": "check under construction in this session (model and tie not yet committed); see DESIGN.md §5"}
          for p in props if p["id"] not in CLAIMED]
    m = {
        "version": 1,
        "setup_cmd": "./check setup",
        "hooks": {"guard": "redproxy_verif",
                  "enable": "RUSTFLAGS=\"--cfg redproxy_verif\" cargo build --offline --bin redproxy-rs --config 'profile.dev.panic=\"unwind\"'",
                  "baseline_off_cmd": "cd /repo && cargo test --workspace --no-fail-fast --offline",
                  "source_commits": hooks, "add_only": True},
        "engines": [{"name": "rocq", "path": "/verif/coq", "serves_properties": sorted(CLAIMED),
                     "kind_free_text": "Coq 8.16.1 development (models, proofs, property files) + extraction to OCaml for the correspondence check"}],
        "checks": checks,
        "not_applicable": na,
        "notes": "See DESIGN.md. Checks rebuild the Coq development, the extracted model runner and the hook-built driver from the current /repo working tree.",
    }
    if not na:
        del m["not_applicable"]
    json.dump(m, open(os.path.join(V, "MANIFEST.json"), "w"), indent=1)

main()
