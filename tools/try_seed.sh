#!/bin/bash
# usage: tools/try_seed.sh <patch.diff> <Cxx> [<Cyy> ...]   applies the patch to /repo, runs the quick checks, restores /repo
set -u
patch="$1"; shift
cd /repo || exit 2
if ! git diff --quiet; then echo "/repo has uncommitted changes"; exit 2; fi
git apply "$patch" || { echo "patch does not apply"; exit 2; }
cd /verif
rm -rf /root/scratch/evidence.bak; cp -r /verif/evidence /root/scratch/evidence.bak   # a seeded run must not leave its evidence behind
for p in "$@"; do
  echo "=== $p"
  ./check "$p" quick 2>&1 | grep -E "^(VIOLATION|KNOWN-FINDING|OK)|violation:" | cut -c1-300 | head -8
done
git -C /repo checkout -- . 
rm -rf /verif/evidence; mv /root/scratch/evidence.bak /verif/evidence
python3 /verif/gen/translate.py >/dev/null 2>&1
echo "restored: $(git -C /repo status --short | wc -l) changes left"
