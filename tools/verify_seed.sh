#!/bin/bash
# usage: tools/verify_seed.sh <worktree> : confirms (a) builds, (b) 78 tests pass with the change, (c) demo fails with / passes without
wt="$1"; cd "$wt" || exit 2
echo "## changed files:"; git status --short | grep -v SEED
echo "## cargo test --workspace (with the change)"
CARGO_NET_OFFLINE=true cargo test --workspace --offline 2>&1 | grep -E "^test result|FAILED|error(\[|:)" | head
echo "## demo"
if [ -x SEED/run_demo.sh ]; then (bash SEED/run_demo.sh 2>&1 | grep -E "test result|FAILED|panicked|passed|failed|WITH|WITHOUT|===|ok$" | head -40); fi
echo "## after demo:"; git status --short | grep -v SEED
