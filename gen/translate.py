#!/usr/bin/env python3
"""Translator: regenerates coq/theories/Gen/*.v from /repo's current working tree.
Only table-like facts are translated (see DESIGN.md §3.3); function bodies are modelled by hand
and tied by the correspondence check.  A construct the translator cannot handle raises."""
import os
import re
import sys

REPO = os.environ.get("VERIF_REPO", "/repo")
OUT = os.path.join(os.path.dirname(os.path.dirname(os.path.abspath(__file__))), "coq", "theories", "Gen")


def write_if_changed(path, text):
    os.makedirs(os.path.dirname(path), exist_ok=True)
    if os.path.exists(path) and open(path).read() == text:
        return False
    open(path, "w").write(text)
    return True


def strip_rust(src):
    """remove comments and the contents of string / char literals (keeps line structure)"""
    out = []
    i, n = 0, len(src)
    while i < n:
        c = src[i]
        if src.startswith("//", i):
            while i < n and src[i] != "\n":
                i += 1
        elif src.startswith("/*", i):
            depth = 1
            i += 2
            while i < n and depth:
                if src.startswith("/*", i):
                    depth += 1
                    i += 2
                elif src.startswith("*/", i):
                    depth -= 1
                    i += 2
                else:
                    if src[i] == "\n":
                        out.append("\n")
                    i += 1
        elif c == '"':
            out.append('"')
            i += 1
            while i < n and src[i] != '"':
                if src[i] == "\\":
                    i += 1
                if i < n and src[i] == "\n":
                    out.append("\n")
                i += 1
            out.append('"')
            i += 1
        elif c == "r" and re.match(r'r#*"', src[i:]):
            m = re.match(r'r(#*)"', src[i:])
            end = src.find('"' + m.group(1), i + len(m.group(0)))
            out.append('""')
            i = end + 1 + len(m.group(1))
        elif c == "'" and re.match(r"'(\\.|[^\\'])'", src[i:]):
            m = re.match(r"'(\\.|[^\\'])'", src[i:])
            out.append("' '")
            i += len(m.group(0))
        else:
            out.append(c)
            i += 1
    return "".join(out)


def drop_test_module(src):
    m = re.search(r"#\[cfg\(test\)\]\s*mod\s+tests\s*\{", src)
    return src[:m.start()] if m else src


def drop_cfg_windows(src):
    """remove `#[cfg(windows)] let x = {...};` style blocks and windows-only items (never built here)"""
    out = []
    i = 0
    while True:
        m = re.search(r"#\[cfg\((?:windows|target_os\s*=\s*\"windows\")\)\]", src[i:])
        if not m:
            out.append(src[i:])
            break
        out.append(src[i:i + m.start()])
        j = i + m.end()
        # skip the following item: up to matching close of first brace block, or to ';'
        k = j
        depth = 0
        seen = False
        while k < len(src):
            ch = src[k]
            if ch == "{":
                depth += 1
                seen = True
            elif ch == "}":
                depth -= 1
                if seen and depth == 0:
                    k += 1
                    break
            elif ch == ";" and not seen:
                k += 1
                break
            k += 1
        i = k
    return "".join(out)


TOKENS = [
    (r"\.unwrap\(\)", "unwrap"), (r"\.expect\(", "expect"), (r"\bpanic!\s*\(", "panic!"),
    (r"\bunreachable!\s*\(", "unreachable!"), (r"\bunimplemented!\s*\(", "unimplemented!"), (r"\btodo!\s*\(", "todo!"),
    (r"\bassert!\s*\(", "assert!"), (r"\bassert_eq!\s*\(", "assert_eq!"),
    (r"\.split_to\(", "split_to"), (r"\.split_off\(", "split_off"), (r"\.advance\(", "advance"),
    (r"\.get_u8\(\)", "get_u8"), (r"\.get_u16\(\)", "get_u16"), (r"\.get_u32\(\)", "get_u32"),
    (r"\.copy_to_slice\(", "copy_to_slice"), (r"\.remove\(", "remove"), (r"\.insert\(0", "insert0"),
    (r"\.truncate\(", "truncate"), (r"\.set_len\(", "set_len"), (r"\.advance_mut\(", "advance_mut"),
    (r"[A-Za-z0-9_\)\]]\[[^\]\n]*\]", "index"),
    (r"<<", "shl"), (r"\bas u8\b", "as_u8"), (r"\bas u16\b", "as_u16"),
]


def panic_sites(files):
    sites = []
    for rel in files:
        path = os.path.join(REPO, rel)
        if not os.path.exists(path):
            raise SystemExit("translator: anchored file missing: " + rel)
        src = drop_cfg_windows(drop_test_module(strip_rust(open(path).read())))
        fn = "<top>"
        counts = {}
        for line in src.splitlines():
            m = re.search(r"\bfn\s+(\w+)", line)
            if m:
                fn = m.group(1)
            if re.match(r"\s*#\[", line):
                continue
            for rx, name in TOKENS:
                for _ in re.finditer(rx, line):
                    if name == "index" and re.search(r"\bvec!\s*\[", line) and not re.search(r"[A-Za-z0-9_\)\]]\[[^\]\n]*\]", re.sub(r"vec!\s*\[[^\]]*\]", "", line)):
                        continue
                    key = (rel, fn, name)
                    counts[key] = counts.get(key, 0) + 1
                    sites.append("%s::%s::%s#%d" % (rel, fn, name, counts[key]))
    return sites


PANIC_FILES = [
    "src/common/fragment.rs", "src/common/frames.rs", "src/common/quic.rs", "src/common/h11c.rs",
    "src/common/http.rs", "src/common/socks.rs", "src/common/udp.rs", "src/listeners/socks.rs",
    "src/listeners/http.rs", "src/listeners/reverse.rs", "src/listeners/quic.rs", "src/copy.rs",
]


def coq_string(s):
    return '"' + s.replace('"', '""') + '"'


def gen_panics():
    sites = panic_sites(PANIC_FILES)
    body = "(* GENERATED by gen/translate.py from /repo's working tree: inventory of potential panic\n   sites (unwrap, expect, panic!, indexing, Buf cursor ops, shifts, narrowing casts) in the\n   files that handle peer-controlled data.  Do not edit. *)\nFrom Coq Require Import String List.\nImport ListNotations.\nLocal Open Scope string_scope.\n\nDefinition sites : list string := [\n"
    body += ";\n".join("  " + coq_string(s) for s in sites)
    body += "\n].\n"
    return body, sites


def gen_profile():
    txt = open(os.path.join(REPO, "Cargo.toml")).read()
    prof = {}
    cur = None
    for line in txt.splitlines():
        m = re.match(r"\[profile\.(\w+)\]", line.strip())
        if m:
            cur = m.group(1)
            continue
        if line.strip().startswith("["):
            cur = None
        m = re.match(r"\s*panic\s*=\s*['\"](\w+)['\"]", line)
        if m and cur:
            prof[cur] = m.group(1)
        m = re.match(r"\s*overflow-checks\s*=\s*(\w+)", line)
        if m and cur:
            prof[cur + ".overflow"] = m.group(1)
    rel_abort = prof.get("release") == "abort"
    dev_abort = prof.get("dev") == "abort"
    rel_ovf = prof.get("release.overflow", "false") == "true"
    body = "(* GENERATED by gen/translate.py from /repo/Cargo.toml.  Do not edit. *)\n"
    body += "Definition release_panic_aborts : bool := %s.\n" % ("true" if rel_abort else "false")
    body += "Definition dev_panic_aborts : bool := %s.\n" % ("true" if dev_abort else "false")
    body += "Definition release_overflow_checks : bool := %s.\n" % ("true" if rel_ovf else "false")
    return body


# ---- milu operator ladder ---------------------------------------------------------------

def coq_str_list(xs):
    return "[" + "; ".join(coq_string(x) for x in xs) + "]"


def gen_ladder():
    src = strip_comments_keep_strings(open(os.path.join(REPO, "milu/src/parser.rs")).read())
    src = drop_test_module(src)
    levels = []
    for m in re.finditer(r"op_rule!\(\s*(\w+)\s*,\s*(\w+)\s*,(.*?)\);", src, re.S):
        name, nxt, body = m.group(1), m.group(2), m.group(3)
        tags = [(t.group(2), bool(t.group(1))) for t in re.finditer(r"tag(_no_case)?\(\s*\"((?:[^\"\\]|\\.)*)\"\s*\)", body)]
        if not tags:
            raise SystemExit("translator: op_rule! %s without tags" % name)
        levels.append((name, nxt, tags))
    if not levels:
        raise SystemExit("translator: no op_rule! invocations found in milu/src/parser.rs")

    def arms(fn):
        m = re.search(r"fn\s+%s\s*\(.*?\{(.*?)\n\}" % fn, src, re.S)
        if not m:
            raise SystemExit("translator: fn %s not found" % fn)
        out = []
        for a in re.finditer(r'((?:"[^"]*"\s*\|\s*)*"[^"]*")\s*=>\s*\{?\s*(?://[^\n]*\n\s*)*(\w+)::(\w+)', m.group(1)):
            names = re.findall(r'"([^"]*)"', a.group(1))
            for n in names:
                out.append((n, a.group(2) if a.group(2) != "Call" else "Call"))
        return out
    p2 = arms("parse2")
    p1 = arms("parse1")
    pm = arms("parse_many")
    m = re.search(r"rule!\(op_7\(i\)\s*->\s*Value,\s*\{(.*?)\}\);", src, re.S)
    if not m:
        raise SystemExit("translator: op_7 not found")
    unary = [t.group(1) for t in re.finditer(r'tag\(\s*"([^"]*)"\s*\)', m.group(1))]
    m = re.search(r"rule!\(op_0\s*->\s*Value,\s*\{\s*alt\(\((.*?)\)\)", src, re.S)
    if m:
        # combinator form: alt((op_if, op_let, <plain>)) with the `cond ? yes : no` form inside op_if
        op0_alts = [x.strip() for x in m.group(1).split(",") if x.strip()]
        m = re.search(r"terminated\(\s*(\w+)\s*,\s*ws\(tag\(\"\?\"\)\)\)", src)
        if not m:
            raise SystemExit("translator: ternary condition rule not found")
        cond_level = m.group(1)
    else:
        # hand-sequenced form: op_if(i) first; `let plain = <rule>(i)` parsed once and used both as the condition of
        # `? :` and as the plain alternative; op_let(i) between the two uses
        m = re.search(r"rule!\(op_0\s*->\s*Value,\s*\{(.*?)\n\}\);", src, re.S)
        if not m:
            raise SystemExit("translator: op_0 not found")
        b0 = m.group(1)
        calls = [(c.start(), c.group(1)) for c in re.finditer(r"\b(op_\w+)\s*\(\s*i\s*\)", b0)]
        pl = re.search(r"let\s+plain\s*=\s*(op_\w+)\s*\(\s*i\s*\)", b0)
        q, c = b0.find('tag("?")'), b0.find('tag(":")')
        if not pl or [n for _, n in calls] != ["op_if", pl.group(1), "op_let"] or not (calls[1][0] < q < c < calls[2][0]) \
                or not re.search(r"Err\(nom::Err::Error\(_\)\)\s*=>\s*plain", b0[calls[2][0]:]):
            raise SystemExit("translator: op_0 has an unknown shape")
        op0_alts = ["op_if", "op_let", pl.group(1)]
        cond_level = pl.group(1)
    # documented table
    doc = []
    for line in open(os.path.join(REPO, "milu/readme.md")).read().splitlines():
        if not line.startswith("|") or line.startswith("|Prec") or line.startswith("|---"):
            continue
        cells = [c.strip() for c in re.split(r"(?<!\\)\|", line)[1:-1]]
        if len(cells) != 4 or not re.match(r"^[0-9.]+$", cells[0]):
            continue
        spell = [x.replace("\\|", "|") for x in re.findall(r"`([^`]*)`", cells[3])]
        doc.append((cells[0], cells[1].replace("\\|", "|"), cells[2], spell))
    body = "(* GENERATED by gen/translate.py from milu/src/parser.rs and milu/readme.md.  Do not edit. *)\n"
    body += "From Coq Require Import String List NArith.\nImport ListNotations.\nFrom RP Require Import MiluSyntax.\nLocal Open Scope string_scope.\n\n"
    body += "Definition levels : list level := [\n" + ";\n".join(
        "  mk_level %s %s [%s]" % (coq_string(n), coq_string(nx), "; ".join("(%s, %s)" % (coq_string(t), "true" if nc else "false") for t, nc in tags))
        for n, nx, tags in levels) + "\n].\n\n"
    body += "Definition parse2_table : list (string * string) := [\n" + ";\n".join("  (%s, %s)" % (coq_string(a), coq_string(b)) for a, b in p2) + "\n].\n\n"
    body += "Definition parse1_table : list (string * string) := [\n" + ";\n".join("  (%s, %s)" % (coq_string(a), coq_string(b)) for a, b in p1) + "\n].\n\n"
    body += "Definition parse_many_table : list (string * string) := [\n" + ";\n".join("  (%s, %s)" % (coq_string(a), coq_string(b)) for a, b in pm) + "\n].\n\n"
    body += "Definition unary_tags : list string := %s.\n" % coq_str_list(unary)
    body += "Definition op0_alternatives : list string := %s.\n" % coq_str_list(op0_alts)
    body += "Definition ternary_cond_rule : string := %s.\n\n" % coq_string(cond_level)
    # keywords: if / then / else / let / in are matched by keyword(..) = terminated(tag(k), not(peek(satisfy(ident char)))),
    # never by a bare tag, and neither rule commits with cut() (a failed `if` must fall back to the plain expression)
    def rule_body(name):
        mm = re.search(r"rule!\(%s(?:\(i\))?\s*->\s*Value,\s*\{(.*?)\n\}\);" % name, src, re.S)
        return mm.group(1) if mm else ""
    b_if, b_let = rule_body("op_if"), rule_body("op_let")
    kwf = re.search(r"fn\s+keyword\b.*?\{(.*?)\n\}", src, re.S)
    kw_shape = bool(kwf) and bool(re.search(r"terminated\(\s*tag\(k\)\s*,\s*not\(peek\(satisfy\(\|c:\s*char\|\s*c\.is_ascii_alphanumeric\(\)\s*\|\|\s*c\s*==\s*'_'\)\)\)\s*,?\s*\)", kwf.group(1)))
    kws_if = re.findall(r'keyword\(\s*"(\w+)"\s*\)', b_if)
    kws_let = re.findall(r'keyword\(\s*"(\w+)"\s*\)', b_let)
    bare = re.findall(r'tag\(\s*"(if|then|else|let|in)"\s*\)', b_if + b_let)
    bounded = kw_shape and kws_if == ["if", "then", "else"] and kws_let == ["let", "in"] and not bare
    no_cut = bool(b_if) and bool(b_let) and "cut(" not in b_if and "cut(" not in b_let
    body += "Definition keywords_word_bounded : bool := %s.\n" % ("true" if bounded else "false")
    body += "Definition keyword_rules_do_not_commit : bool := %s.\n\n" % ("true" if no_cut else "false")
    # documented operator tokens: precedence x 10, spelling, associativity
    dbin, dun = [], []
    for prec, name, assoc, spell in doc:
        p10 = int(round(float(prec) * 10))
        for sp in spell:
            toks = sp.replace("\u2026", " ").split()
            raw = sp.strip()
            if raw.startswith("\u2026") and raw.endswith("\u2026") and len(toks) == 1:
                dbin.append((p10, toks[0], assoc))
            elif raw.endswith("\u2026") and not raw.startswith("\u2026") and len(toks) == 1 and p10 < 99:
                dun.append((p10, toks[0], assoc))
    body += "Definition doc_binary : list (N * string * string) := [\n" + ";\n".join("  (%d%%N, %s, %s)" % (a, coq_string(b), coq_string(c)) for a, b, c in dbin) + "\n].\n"
    body += "Definition doc_unary : list (N * string * string) := [\n" + ";\n".join("  (%d%%N, %s, %s)" % (a, coq_string(b), coq_string(c)) for a, b, c in dun) + "\n].\n\n"
    body += "(* precedence, operator, associativity, documented spellings *)\n"
    body += "Definition doc_table : list (string * string * string * list string) := [\n" + ";\n".join(
        "  (%s, %s, %s, %s)" % (coq_string(a), coq_string(b), coq_string(c), coq_str_list(d)) for a, b, c, d in doc) + "\n].\n"
    return body


def strip_comments_keep_strings(src):
    out = []
    i, n = 0, len(src)
    while i < n:
        if src.startswith("//", i):
            while i < n and src[i] != "\n":
                i += 1
        elif src.startswith("/*", i) and not (i > 0 and src[i - 1] == '"'):
            j = src.find("*/", i + 2)
            i = n if j < 0 else j + 2
        elif src[i] == '"':
            j = i + 1
            while j < n and src[j] != '"':
                if src[j] == "\\":
                    j += 1
                j += 1
            out.append(src[i:j + 1])
            i = j + 1
        else:
            out.append(src[i])
            i += 1
    return "".join(out)


# ---- rule reload / decision skeleton ------------------------------------------------------

def fn_body(src, name):
    m = re.search(r"\bfn\s+%s\b" % name, src)
    if not m:
        raise SystemExit("translator: fn %s not found" % name)
    i = src.index("{", m.end())
    depth, j = 0, i
    while j < len(src):
        if src[j] == "{":
            depth += 1
        elif src[j] == "}":
            depth -= 1
            if depth == 0:
                return src[i:j + 1]
        j += 1
    raise SystemExit("translator: unbalanced braces in fn %s" % name)


def gen_reload():
    src = strip_rust(open(os.path.join(REPO, "src/main.rs")).read())
    sr = fn_body(src, "set_rules")
    writes = [m.start() for m in re.finditer(r"self\s*\.\s*rules\s*\.\s*write\s*\(\)", sr)]
    fallible_after = False
    if writes:
        tail = sr[writes[-1]:]
        fallible_after = ("?" in tail) or ("bail!" in tail) or ("return Err" in tail)
    fallible_before = sum(1 for _ in re.finditer(r"\?", sr[:writes[0]])) if writes else 0
    pr = fn_body(src, "process_request")
    m = re.search(r"let\s+connector\s*=\s*\{", pr)
    if not m:
        raise SystemExit("translator: decision block of process_request not found")
    i = m.end() - 1
    depth, j = 0, i
    while j < len(pr):
        if pr[j] == "{":
            depth += 1
        elif pr[j] == "}":
            depth -= 1
            if depth == 0:
                break
        j += 1
    block = pr[i:j + 1]
    rules_reads = len(re.findall(r"\.rules\(\)\s*\.\s*await", block))
    fm = block.find("find_map")
    closure_awaits = len(re.findall(r"\.await", block[fm:])) if fm >= 0 else 99
    uses_find_map = fm >= 0
    body = "(* GENERATED by gen/translate.py from src/main.rs (set_rules, process_request).  Do not edit. *)\n"
    body += "From Coq Require Import NArith.\n"
    body += "Definition set_rules_write_count : N := %d%%N.\n" % len(writes)
    body += "Definition set_rules_fallible_steps_before_write : N := %d%%N.\n" % fallible_before
    body += "Definition set_rules_fallible_after_write : bool := %s.\n" % ("true" if fallible_after else "false")
    body += "Definition decide_block_rules_reads : N := %d%%N.\n" % rules_reads
    body += "Definition decide_uses_find_map : bool := %s.\n" % ("true" if uses_find_map else "false")
    body += "Definition decide_closure_awaits : N := %d%%N.\n" % closure_awaits
    return body


def gen_lb():
    """round_robin of src/connectors/loadbalance.rs: which operations touch the shared counter, and how the ticket is
    reduced to an index.  The concurrency theorem of LbProofs.v is about a counter touched by exactly one atomic
    fetch_add(1) per selection and an index ticket mod len."""
    src = strip_rust(open(os.path.join(REPO, "src/connectors/loadbalance.rs")).read())
    rr = fn_body(src, "round_robin")
    ops = re.findall(r"self\s*\.\s*idx\s*\.\s*([a-z_]+)\s*\(", rr)
    other_idx = len(re.findall(r"\bidx\b", rr)) - len(ops)
    step_one = bool(re.search(r"fetch_add\s*\(\s*1\s*,", rr))
    mod_len = bool(re.search(r"\[\s*next\s*%\s*self\s*\.\s*connectors\s*\.\s*len\s*\(\)\s*\]", rr))
    # the counter must not be touched anywhere else in the file
    total_idx = len(re.findall(r"\.\s*idx\b", src))
    hb = fn_body(src, "hash_by")
    hash_mod_len = bool(re.search(r"\[\s*hash\s*%\s*self\s*\.\s*connectors\s*\.\s*len\s*\(\)\s*\]", hb))
    body = "(* GENERATED by gen/translate.py from src/connectors/loadbalance.rs (round_robin, hash_by).  Do not edit. *)\n"
    body += "From Coq Require Import NArith List String.\nImport ListNotations.\nLocal Open Scope string_scope.\n"
    body += "Definition rr_counter_ops : list string := [%s].\n" % "; ".join('"%s"' % o for o in ops)
    body += "Definition rr_counter_other_mentions : N := %d%%N.\n" % max(other_idx, 0)
    body += "Definition rr_counter_mentions_in_file : N := %d%%N.\n" % total_idx
    body += "Definition rr_step_is_one : bool := %s.\n" % ("true" if step_one else "false")
    body += "Definition rr_index_is_ticket_mod_len : bool := %s.\n" % ("true" if mod_len else "false")
    body += "Definition hash_index_is_hash_mod_len : bool := %s.\n" % ("true" if hash_mod_len else "false")
    # connect: the selected member is recorded on the context before the request is handed to it, and nothing can leave the
    # function between the two (no `?`, no return)
    blk = block_after(src, r"impl\s+Connector\s+for\s+LoadBalanceConnector\s*\{")
    cb = fn_body(blk, "connect")
    i_rec = cb.find("set_connector(")
    m_del = re.search(r"\bconn\s*\.\s*connect\s*\(", cb)
    before = i_rec >= 0 and m_del is not None and i_rec < m_del.start() and "?" not in cb[i_rec:m_del.start()] and "return" not in cb[i_rec:m_del.start()] \
        and cb.count("set_connector(") == 1
    body += "Definition lb_records_member_before_delegating : bool := %s.\n" % ("true" if before else "false")
    return body


def block_after(src, pattern):
    m = re.search(pattern, src)
    if not m:
        raise SystemExit("translator: %s not found" % pattern)
    i = src.index("{", m.end() - 1)
    depth, j = 0, i
    while j < len(src):
        if src[j] == "{":
            depth += 1
        elif src[j] == "}":
            depth -= 1
            if depth == 0:
                return src[i:j + 1]
        j += 1
    raise SystemExit("translator: unbalanced braces after %s" % pattern)


def before(body, first, second):
    """first occurs in body, and before the first occurrence of second (if any)"""
    a = re.search(first, body)
    b = re.search(second, body)
    return bool(a) and (b is None or a.start() < b.start())


def gen_callbacks():
    """Who writes what to the client, in which order (C06): process_request (src/main.rs), the callbacks of
    src/common/h11c.rs and src/listeners/socks.rs, copy_bidi (src/copy.rs)."""
    main = strip_rust(open(os.path.join(REPO, "src/main.rs")).read())
    pr = fn_body(main, "process_request")
    n_on_connect = len(re.findall(r"\.on_connect\s*\(", pr))
    conn = re.search(r"if\s+let\s+Err\s*\(\s*\w+\s*\)\s*=\s*connector\s*\.\s*connect\s*\(", pr)
    connect_err_returns = False
    if conn:
        blk = block_after(pr[conn.start():], r"\.await\s*\{")
        connect_err_returns = bool(re.search(r"return\s+ctx\s*\.\s*on_error", blk))
    on_connect_after_connect = bool(conn) and before(pr[conn.start():], r"connector\s*\.\s*connect", r"\.on_connect\s*\(") and \
        not re.search(r"\.on_connect\s*\(", pr[:conn.start()])
    # every other on_error of process_request is a `return ctx.on_error(..)` before connect, or the relay failure after on_connect
    pre = pr[:conn.start()] if conn else pr
    pre_errors_return = len(re.findall(r"\.on_error\s*\(", pre)) == len(re.findall(r"return\s+ctx\s*\.\s*on_error\s*\(", pre))
    h11c = strip_rust(open(os.path.join(REPO, "src/common/h11c.rs")).read())
    cc = block_after(h11c, r"impl\s+ContextCallback\s+for\s+ConnectCallback\s*\{")
    fc = block_after(h11c, r"impl\s+ContextCallback\s+for\s+FrameChannelCallback\s*\{")
    def guard_none(impl):
        b = fn_body(impl, "on_error")
        return before(b, r"is_none\s*\(\s*\)\s*\{\s*return", r"write_(to|with_body)\s*\(")
    frame_takes = before(fn_body(fc, "on_connect"), r"take_client_stream\s*\(", r"write_to\s*\(")
    socks = strip_rust(open(os.path.join(REPO, "src/listeners/socks.rs")).read())
    sc = block_after(socks, r"impl\s+ContextCallback\s+for\s+Callback\s*\{")
    s_on_connect, s_on_error = fn_body(sc, "on_connect"), fn_body(sc, "on_error")
    socks_sets = before(s_on_connect, r"self\s*\.\s*replied\s*\.\s*store\s*\(\s*true", r"write_to\s*\(")
    socks_checks = before(s_on_error, r"if\s+self\s*\.\s*replied\s*\.\s*load\s*\([^)]*\)\s*\{\s*return", r"write_to\s*\(")
    socks_none = before(s_on_error, r"is_none\s*\(\s*\)\s*\{\s*return", r"write_to\s*\(")
    copy = strip_rust(open(os.path.join(REPO, "src/copy.rs")).read())
    cb = fn_body(copy, "copy_bidi")
    takes_first = before(cb, r"take_streams\s*\(", r"\?|return\s+Err|bail!")
    http = strip_rust(open(os.path.join(REPO, "src/common/http.rs")).read())
    resp_impl = block_after(http, r"impl\s+HttpResponse\s*\{")
    wb = fn_body(resp_impl, "write_with_body")
    wt = fn_body(resp_impl, "write_to")
    body_flushed = bool(re.search(r"write_all\s*\(\s*body\s*\)", wb)) and bool(re.search(r"flush\s*\(\s*\)[^;]*$", wb.strip().rstrip("}").strip()))
    head_flushed = bool(re.search(r"flush\s*\(\s*\)[^;]*$", wt.strip().rstrip("}").strip()))
    # Content-Length must be the length of the very byte slice that is written as the body
    raw = open(os.path.join(REPO, "src/common/h11c.rs")).read()
    pairs = re.findall(r'with_header\(\s*"Content-Length"\s*,\s*(.*?)\)\s*\.write_with_body\(\s*[^,]*,\s*(.*?)\)\s*\.await', raw, re.S)
    norm = lambda x: re.sub(r"\s+", "", x)
    cl_is_body_len = len(pairs) == 2 and all(norm(a) == norm(b) + ".len()" for a, b in pairs)
    B = lambda b: "true" if b else "false"
    body = "(* GENERATED by gen/translate.py from src/main.rs, src/common/h11c.rs, src/listeners/socks.rs, src/copy.rs, src/common/http.rs.  Do not edit. *)\n"
    body += "From Coq Require Import NArith.\n"
    body += "Definition pr_on_connect_calls : N := %d%%N.\n" % n_on_connect
    body += "Definition pr_connect_error_returns : bool := %s.\n" % B(connect_err_returns)
    body += "Definition pr_on_connect_after_connect : bool := %s.\n" % B(on_connect_after_connect)
    body += "Definition pr_errors_before_connect_return : bool := %s.\n" % B(pre_errors_return)
    body += "Definition http_on_error_checks_stream : bool := %s.\n" % B(guard_none(cc) and guard_none(fc))
    body += "Definition http_udp_on_connect_takes_stream : bool := %s.\n" % B(frame_takes)
    body += "Definition socks_on_connect_sets_replied : bool := %s.\n" % B(socks_sets)
    body += "Definition socks_on_error_checks_replied : bool := %s.\n" % B(socks_checks)
    body += "Definition socks_on_error_checks_stream : bool := %s.\n" % B(socks_none)
    body += "Definition copy_bidi_takes_streams_first : bool := %s.\n" % B(takes_first)
    body += "Definition http_body_written_and_flushed : bool := %s.\n" % B(body_flushed)
    body += "Definition http_head_flushed : bool := %s.\n" % B(head_flushed)
    body += "Definition http_content_length_is_body_len : bool := %s.\n" % B(cl_is_body_len)
    return body


def gen_relay():
    """copy_half / copy_bidi / drain_buffers of src/copy.rs: the loop shapes Relay.v stands for (C01, C04)."""
    copy = strip_rust(open(os.path.join(REPO, "src/copy.rs")).read())
    ch = fn_body(copy, "copy_half")
    # the three select! arms
    i_stream = ch.find("have_stream =>")
    i_frames = ch.find("have_frames =>")
    i_rawfd = ch.find("have_rawfd =>")
    i_else = ch.find("else =>", i_rawfd if i_rawfd >= 0 else 0)
    ok_arms = 0 <= i_stream < i_frames < i_rawfd < i_else
    arm_stream = ch[i_stream:i_frames] if ok_arms else ""
    arm_rawfd = ch[i_rawfd:i_else] if ok_arms else ""
    tail = ch[i_else:] if ok_arms else ""
    buffered_ok = before(arm_stream, r"write_all\s*\(\s*&\s*sbuf\s*\[\s*\.\.\s*len\s*\]\s*\)", r"flush\s*\(") and \
        bool(re.search(r"if\s+len\s*>\s*0", arm_stream)) and bool(re.search(r"else\s*\{\s*break", arm_stream))
    m = re.search(r"while\s+pending\s*>\s*0\s*\{", arm_rawfd)
    splice_loop = False
    if m and re.search(r"let\s+mut\s+pending\s*=\s*len\s*;", arm_rawfd[:m.start()]):
        blk = block_after(arm_rawfd[m.start():], r"while\s+pending\s*>\s*0\s*\{")
        wr = re.search(r"let\s+(\w+)\s*=\s*pipe_fn\s*\.\s*write\s*\(", blk)
        if wr:
            v = wr.group(1)
            splice_loop = bool(re.search(r"pending\s*=\s*pending\s*\.\s*saturating_sub\s*\(\s*%s\s*\)|pending\s*-=\s*%s\b" % (v, v), blk))
    splice_breaks_on_zero = bool(re.search(r"if\s+len\s*>\s*0", arm_rawfd)) and bool(re.search(r"else\s*\{\s*break", arm_rawfd))
    n_splice_writes = len(re.findall(r"pipe_fn\s*\.\s*write\s*\(", ch))
    rawfd_shutdown = bool(re.search(r"if\s+have_rawfd\s*\{\s*pipe_fn\s*\.\s*shutdown\s*\(\s*\)", tail))
    stream_shutdown = bool(re.search(r"dst\s*\.\s*stream\s*\{\s*s\s*\.\s*shutdown\s*\(\s*\)", tail))
    frames_shutdown = bool(re.search(r"dst\s*\.\s*frames\s*\{\s*s\s*\.\s*shutdown\s*\(\s*\)", tail))
    try:
        pf = block_after(copy, r"impl\s+SpliceFn\s+for\s+PipeFn\s*\{")
        sd = fn_body(pf, "shutdown")
    except SystemExit:
        sd = ""
    shutdown_is_shut_wr = bool(re.search(r"libc\s*::\s*shutdown\s*\(\s*self\s*\.\s*dfd\s*\.\s*as_raw_fd\s*\(\s*\)\s*,\s*libc\s*::\s*SHUT_WR\s*\)", sd))
    cb = fn_body(copy, "copy_bidi")
    drain_both = len(re.findall(r"drain_buffers\s*\(", cb)) == 2 and before(cb, r"drain_buffers\s*\(\s*&mut\s+client\s*,\s*&mut\s+server", r"into_inner") and \
        before(cb, r"drain_buffers\s*\(\s*&mut\s+server\s*,\s*&mut\s+client", r"into_inner")
    db = fn_body(copy, "drain_buffers")
    drain_ok = before(db, r"from\s*\.\s*buffer\s*\(\s*\)", r"write_all") and before(db, r"write_all\s*\(\s*left_over\s*\)", r"flush")
    both_halves = len(re.findall(r"copy_half\s*\(", cb)) == 2 and bool(re.search(r"while\s+c2s\s*\.\s*is_none\s*\(\s*\)\s*\|\|\s*s2c\s*\.\s*is_none\s*\(\s*\)", cb))
    # errors (reset, broken pipe, ...) are not end-of-stream: every arm hands them on, and copy_bidi aborts both directions
    def arm_propagates(arm):
        # the first statement of the arm binds the result with `?`
        return bool(re.match(r"have_\w+\s*=>\s*\{\s*let\s+\w+\s*=\s*ret\s*\.\s*with_context\s*\([^;]*?\)\s*\?\s*;", arm, re.S))
    arm_frames = ch[i_frames:i_rawfd] if ok_arms else ""
    errors_propagate = ok_arms and all(arm_propagates(a) for a in (arm_stream, arm_frames, arm_rawfd)) and \
        len(re.findall(r"Some\s*\(\s*ret\s*\?\s*\)", cb)) == 2
    B = lambda b: "true" if b else "false"
    body = "(* GENERATED by gen/translate.py from src/copy.rs (copy_half, copy_bidi, drain_buffers).  Do not edit. *)\n"
    body += "From Coq Require Import NArith.\n"
    body += "Definition buffered_read_writeall_flush_break : bool := %s.\n" % B(ok_arms and buffered_ok)
    body += "Definition splice_writes_until_pending_zero : bool := %s.\n" % B(splice_loop)
    body += "Definition splice_breaks_on_zero_read : bool := %s.\n" % B(splice_breaks_on_zero)
    body += "Definition splice_write_call_sites : N := %d%%N.\n" % n_splice_writes
    body += "Definition rawfd_destination_shut_down : bool := %s.\n" % B(rawfd_shutdown and shutdown_is_shut_wr)
    body += "Definition stream_destination_shut_down : bool := %s.\n" % B(stream_shutdown)
    body += "Definition frames_destination_shut_down : bool := %s.\n" % B(frames_shutdown)
    body += "Definition read_ahead_drained_both_ways_before_unwrap : bool := %s.\n" % B(drain_both and drain_ok)
    body += "Definition bidi_runs_two_halves_until_both_done : bool := %s.\n" % B(both_halves)
    body += "Definition io_errors_abort_both_directions : bool := %s.\n" % B(errors_propagate)
    # accounting (C16): each hand-over and each relay direction is credited to its own counter
    credit = bool(re.search(r"drain_buffers\s*\(\s*&mut\s+client\s*,\s*&mut\s+server\s*\)[^;]*;\s*client_stat\s*\.\s*incr_sent_bytes\s*\(\s*len\s*\)\s*;[^;]*drain_buffers\s*\(\s*&mut\s+server\s*,\s*&mut\s+client\s*\)[^;]*;\s*server_stat\s*\.\s*incr_sent_bytes\s*\(\s*len\s*\)", cb, re.S))
    halves = re.findall(r"copy_half\s*\(\s*params\s*,\s*(\w+)\s*,\s*(\w+)\s*,\s*(\w+)\s*\.\s*clone\s*\(\s*\)", cb)
    halves_ok = halves == [("csrc", "sdst", "client_stat"), ("ssrc", "cdst", "server_stat")]
    counted = len(re.findall(r"stat\s*\.\s*incr_sent_bytes\s*\(\s*len\s*\)", ch)) == 3
    body += "Definition handover_credited_to_own_direction : bool := %s.\n" % B(credit)
    body += "Definition relay_halves_use_own_counters : bool := %s.\n" % B(halves_ok)
    body += "Definition every_relay_arm_counts : bool := %s.\n" % B(counted)
    return body


def gen_startup():
    """the start-up block of main() in src/main.rs: does ContextManager::default_timeout receive the configured
    timeouts.idle?  And the constants of src/config.rs / src/context.rs the idle model uses."""
    main = strip_rust(open(os.path.join(REPO, "src/main.rs")).read())
    body_main = fn_body(main, "main")
    a = re.search(r"st_mut\s*\.\s*timeouts\s*=\s*cfg\s*\.\s*timeouts\s*;", body_main)
    d = re.search(r"ctx_mut\s*\.\s*default_timeout\s*=\s*([^;]*);", body_main)
    reads_cfg = False
    if d:
        rhs = re.sub(r"\s+", "", d.group(1))
        if rhs == "cfg.timeouts.idle":
            reads_cfg = a is None or d.start() < a.start()       # cfg.timeouts not yet moved
        elif rhs == "st_mut.timeouts.idle":
            reads_cfg = a is not None and a.start() < d.start()
    cfgsrc = strip_rust(open(os.path.join(REPO, "src/config.rs")).read())
    m = re.search(r"fn\s+default_timeout\s*\(\s*\)\s*->\s*u64\s*\{\s*(\d+)\s*\}", cfgsrc)
    default_period = int(m.group(1)) if m else -1
    ctx = strip_rust(open(os.path.join(REPO, "src/context.rs")).read())
    it = fn_body(ctx, "is_timeout")
    zero_disables = before(it, r"if\s+timeout\s*\.\s*is_zero\s*\(\s*\)\s*\{\s*return\s+false", r"last_read")
    wraps = bool(re.search(r"now\s*-\s*last_read\s*>\s*timeout\s*\.\s*as_millis\s*\(\s*\)", it))
    saturates = bool(re.search(r"now\s*\.\s*saturating_sub\s*\(\s*last_read\s*\)\s*>\s*timeout\s*\.\s*as_millis\s*\(\s*\)", it))
    strict_ms = wraps or saturates
    copy = strip_rust(open(os.path.join(REPO, "src/copy.rs")).read())
    cb = fn_body(copy, "copy_bidi")
    both = bool(re.search(r"server_stat\s*\.\s*is_timeout\s*\(\s*idle_timeout\s*\)\s*&&\s*client_stat\s*\.\s*is_timeout\s*\(\s*idle_timeout\s*\)", cb))
    tick = re.search(r"interval\s*\(\s*Duration\s*::\s*from_secs\s*\(\s*(\d+)\s*\)", cb)
    B = lambda b: "true" if b else "false"
    out = "(* GENERATED by gen/translate.py from src/main.rs, src/config.rs, src/context.rs, src/copy.rs.  Do not edit. *)\n"
    out += "From Coq Require Import NArith.\n"
    out += "Definition default_timeout_reads_configured_value : bool := %s.\n" % B(reads_cfg)
    out += "Definition config_default_period_s : N := %d%%N.\n" % max(default_period, 0)
    out += "Definition zero_period_disables : bool := %s.\n" % B(zero_disables)
    out += "Definition comparison_is_strict_in_ms : bool := %s.\n" % B(strict_ms)
    out += "Definition elapsed_saturates : bool := %s.\n" % B(saturates)
    out += "Definition close_needs_both_directions_idle : bool := %s.\n" % B(both)
    out += "Definition ticker_period_s : N := %d%%N.\n" % (int(tick.group(1)) if tick else 0)
    sit = re.sub(r"\s+", "", fn_body(ctx, "set_idle_timeout"))
    out += "Definition set_idle_timeout_assigns_unconditionally : bool := %s.\n" % B(sit == "{Arc::make_mut(&mutself.props).idle_timeout=timeout;self}")
    udp_sites = 0
    for path in ("src/listeners/socks.rs", "src/listeners/reverse.rs", "src/listeners/tproxy.rs"):
        udp_sites += len(re.findall(r"set_idle_timeout\s*\(\s*state\s*\.\s*timeouts\s*\.\s*udp\s*\)", strip_rust(open(os.path.join(REPO, path)).read())))
    out += "Definition udp_sessions_take_the_udp_timeout : N := %d%%N.\n" % udp_sites
    # UDP associations of the http and quic listeners (CONNECT + Proxy-Protocol: udp): the udp branch of the handshake sets the
    # period it is given, and both listeners give it timeouts.udp
    raw_h = open(os.path.join(REPO, "src/common/h11c.rs")).read()
    m_udp = re.search(r'eq_ignore_ascii_case\(\s*"udp"\s*\)\s*\{', raw_h)
    branch = block_after(raw_h[m_udp.start():], r'eq_ignore_ascii_case\(\s*"udp"\s*\)\s*\{') if m_udp else ""
    sets = bool(re.search(r"\.\s*set_idle_timeout\s*\(\s*udp_timeout\s*\)", branch))
    callers = 0
    for path in ("src/listeners/http.rs", "src/listeners/quic.rs"):
        t = strip_rust(open(os.path.join(REPO, path)).read())
        if re.search(r"h11c_handshake\s*\(\s*ctx\s*,\s*queue(?:\s*\.\s*clone\s*\(\s*\))?\s*,\s*(?:state\s*\.\s*timeouts\s*\.\s*udp|udp_timeout)\s*,", t) and \
                (re.search(r"h11c_handshake\s*\([^;]*state\s*\.\s*timeouts\s*\.\s*udp", t) or re.search(r"let\s+udp_timeout\s*=\s*state\s*\.\s*timeouts\s*\.\s*udp\s*;", t)):
            callers += 1
    out += "Definition connect_udp_sessions_take_the_udp_timeout : bool := %s.\n" % B(sets and callers == 2)
    return out


LOCK_RE = re.compile(r"([A-Za-z_][\w\.]*(?:\(\))?)\s*\.\s*(write|read|lock|read_owned|write_owned)\s*\(\s*\)\s*\.\s*await")
EXT_RE = re.compile(r"(?:HttpRequest|HttpResponse|SocksRequest|SocksResponse)\s*::\s*read_from\s*\(|\.\s*accept\s*\([^)]*\)\s*\.\s*await|TcpStream\s*::\s*connect\s*\(|\brx\s*\.\s*recv\s*\(\s*\)\s*\.\s*await|\bcopy_bidi\s*\(|connector\s*\.\s*connect\s*\(|time\s*::\s*sleep\s*\(")


def lock_rank(receiver):
    """0 = history list, 1 = registry of live contexts, 3 = rule list, 2 = a context (any other async lock)"""
    if "terminated" in receiver:
        return 0
    if "alive" in receiver:
        return 1
    if "rules" in receiver:
        return 3
    return 2


def lock_program(body):
    """the sequence of lock events of one function body, in source order:
    ("acq", rank) / ("rel", rank) / ("ext",) .  A guard bound by `let` lives until drop(name) or the end of the
    block that declares it; any other lock expression is a temporary that lives until the end of its statement."""
    events = []           # (position, order, kind, rank)
    n = len(body)
    # brace depth at every position
    depth, d = [0] * (n + 1), 0
    for i, ch in enumerate(body):
        if ch == "{":
            d += 1
        elif ch == "}":
            d -= 1
        depth[i + 1] = d
    def block_end(pos):
        d0 = depth[pos]
        for j in range(pos, n):
            if depth[j + 1] < d0:
                return j
        return n
    def stmt_end(pos):
        # next ';' at the brace depth of the statement start and outside parentheses opened after pos
        d0, par = depth[pos], 0
        for j in range(pos, n):
            ch = body[j]
            if ch in "([":
                par += 1
            elif ch in ")]":
                par -= 1
            elif ch == ";" and par <= 0 and depth[j] <= d0:
                return j
            if depth[j + 1] < d0 and par <= 0:
                return j
        return n
    def stmt_start(pos):
        d0 = depth[pos]
        for j in range(pos - 1, -1, -1):
            ch = body[j]
            if (ch == ";" and depth[j] == d0) or (ch in "{}" and depth[j + 1] == d0):
                return j + 1
        return 0
    RULES_RE = re.compile(r"[A-Za-z_][\w\.]*\s*\.\s*rules\s*\(\s*\)\s*\.\s*await")     # GlobalState::rules() returns the read guard
    found = [(m, lock_rank(m.group(1))) for m in LOCK_RE.finditer(body)] + [(m, 3) for m in RULES_RE.finditer(body)]
    for m, rank in found:
        st = stmt_start(m.start())
        head = body[st:m.start()]
        after = body[m.end():m.end() + 3].strip()
        named = re.match(r"\s*let\s+(?:mut\s+)?(\w+)\s*(?::[^=]*)?=\s*(?:&\s*)?$", head)
        events.append((m.start(), 0, "acq", rank))
        if named and (after.startswith(";") or after.startswith("?")):
            name = named.group(1)
            dm = re.search(r"\bdrop\s*\(\s*%s\s*\)" % re.escape(name), body[m.end():])
            end = m.end() + dm.start() if dm else block_end(m.end())
            events.append((end, -1, "rel", rank))
        else:
            events.append((stmt_end(m.end()), -1, "rel", rank))
    for m in EXT_RE.finditer(body):
        events.append((m.start(), 1, "ext", -1))
    events.sort()
    return [(k, r) for _, _, k, r in events]


def gen_locks():
    """lock programs of the functions that touch the context registry or a context while a client may be waited
    for (C14): src/common/h11c.rs, src/listeners/socks.rs, src/metrics.rs, src/context.rs, src/main.rs, src/copy.rs"""
    def src(path):
        return strip_rust(open(os.path.join(REPO, path)).read())
    progs = []
    h11c = src("src/common/h11c.rs")
    progs.append(("h11c_handshake", lock_program(fn_body(h11c, "h11c_handshake"))))
    if re.search(r"\bfn\s+h11c_handshake_request\b", h11c):
        progs.append(("h11c_handshake_request", lock_program(fn_body(h11c, "h11c_handshake_request"))))
    progs.append(("h11c_connect", lock_program(fn_body(h11c, "h11c_connect"))))
    socks = src("src/listeners/socks.rs")
    progs.append(("socks_handshake", lock_program(fn_body(socks, "handshake"))))
    if re.search(r"\bfn\s+handshake_request\b", socks):
        progs.append(("socks_handshake_request", lock_program(fn_body(socks, "handshake_request"))))
    metrics = src("src/metrics.rs")
    for name in ("get_alive", "get_history", "get_rules", "post_rules"):
        m = re.search(r"handler!\s*\(\s*%s\b" % name, metrics)
        if m:
            progs.append((name, lock_program(block_after(metrics[m.start():], r"->\s*[^{]*\{"))))
    ctx = src("src/context.rs")
    for name in ("create_context", "gc_thread"):
        progs.append((name, lock_program(fn_body(ctx, name))))
    ops = block_after(ctx, r"impl\s+ContextRefOps\s+for\s+ContextRef\s*\{")
    for name in ("enqueue", "on_connect", "on_error", "on_finish"):
        progs.append((name, lock_program(fn_body(ops, name))))
    mainrs = src("src/main.rs")
    progs.append(("process_request", lock_program(fn_body(mainrs, "process_request"))))
    progs.append(("set_rules", lock_program(fn_body(mainrs, "set_rules"))))
    copy = src("src/copy.rs")
    progs.append(("copy_bidi", lock_program(fn_body(copy, "copy_bidi"))))
    def show(ev):
        k, r = ev
        return "Acq %d" % r if k == "acq" else "Rel %d" % r if k == "rel" else "Ext"
    out = "(* GENERATED by gen/translate.py: lock events in source order of the functions that lock the registry, the\n   history list, the rule list or a context.  Ranks: 0 history, 1 registry, 2 a context, 3 rule list.  Do not edit. *)\n"
    out += "From Coq Require Import List String.\nImport ListNotations.\nLocal Open Scope string_scope.\n"
    out += "Inductive step := Acq (l : nat) | Rel (l : nat) | Ext.\n"
    out += "Definition programs : list (string * list step) := [\n"
    out += ";\n".join('  ("%s", [%s])' % (n, "; ".join(show(e) for e in evs)) for n, evs in progs)
    out += "\n].\n"
    # loops that serve many peers one after the other (accept loops): what such a loop awaits between two peers.  A handshake
    # (TLS accept, QUIC `conn.await`, protocol handshake) must be awaited inside a task spawned for that peer, never in the loop
    def loop_waits_inline(path, fn, accept_pat, inline_pats):
        try:
            body = fn_body(src(path), fn)
        except SystemExit:
            return True
        m = re.search(accept_pat, body)
        if not m:
            return True
        loop = body[m.end():]
        # text of the loop body outside every tokio::spawn( ... ) argument
        outside, i = "", 0
        while i < len(loop):
            j = loop.find("tokio::spawn(", i)
            if j < 0:
                outside += loop[i:]
                break
            outside += loop[i:j]
            depth, k = 0, j + len("tokio::spawn")
            while k < len(loop):
                if loop[k] == "(":
                    depth += 1
                elif loop[k] == ")":
                    depth -= 1
                    if depth == 0:
                        break
                k += 1
            i = k + 1
        return any(re.search(pt, outside) for pt in inline_pats)
    waits = {
        "http": loop_waits_inline("src/listeners/http.rs", "accept", r"listener\s*\.\s*accept\s*\(\s*\)\s*\.\s*await", [r"create_context\s*\(", r"h11c_handshake\s*\(", r"acceptor\s*\.\s*accept"]),
        "socks": loop_waits_inline("src/listeners/socks.rs", "accept", r"listener\s*\.\s*accept\s*\(\s*\)\s*\.\s*await", [r"\.\s*handshake\s*\([^)]*\)\s*\.\s*await", r"acceptor\s*\.\s*accept"]),
        "quic": loop_waits_inline("src/listeners/quic.rs", "accept", r"endpoint\s*\.\s*accept\s*\(\s*\)\s*\.\s*await", [r"\bconn\s*\.\s*await", r"client_thread\s*\([^)]*\)\s*\.\s*await"]),
    }
    out += "Definition accept_loop_awaits_handshake_inline : list (string * bool) := [%s].\n" % "; ".join('("%s", %s)' % (k, "true" if v else "false") for k, v in waits.items())
    return out


def gen_udp():
    """reverse UDP listener and UDP frame reader facts (C10): src/listeners/reverse.rs, src/common/udp.rs, src/common/quic.rs"""
    rev = strip_rust(open(os.path.join(REPO, "src/listeners/reverse.rs")).read())
    ua = fn_body(rev, "udp_accept")
    m = re.search(r"\}\s*else\s*\{", ua)
    first_forwarded = False
    if m:
        els = block_after(ua[m.start():], r"else\s*\{")
        first_forwarded = bool(re.search(r"\btx\s*\.\s*send\s*\(\s*buf\s*\)", els)) and bool(re.search(r"sessions\s*\.\s*insert\s*\(\s*source\s*,", els))
    known_forwarded = bool(re.search(r"sessions\s*\.\s*get\s*\(\s*&source\s*\)[^{]*\{\s*tx\s*\.\s*send\s*\(\s*buf\s*\)", ua))
    udp = strip_rust(open(os.path.join(REPO, "src/common/udp.rs")).read())
    rd = block_after(udp, r"impl\s+FrameReader\s+for\s+UdpFrameReader\s*\{")
    body = fn_body(rd, "read")
    # `_ = buf.recv_from(..)` discards the result; `r = buf.recv_from(..) => { r?; ..` (or a match) propagates it
    discards = bool(re.search(r"\b_\s*=\s*buf\s*\.\s*recv_from", body))
    m_r = re.search(r"\b(\w+)\s*=\s*buf\s*\.\s*recv_from", body)
    if m_r and m_r.group(1) != "_":
        v = re.escape(m_r.group(1))
        # the result is bound: it is handed on only if the arm returns the error (`r?`, `Err(e) => return Err(e)`, `return r.map(..)`)
        hands_on = bool(re.search(v + r"\s*\?", body)) or bool(re.search(r"Err\s*\(\s*\w+\s*\)\s*=>\s*(?:return\s+)?Err", body)) or bool(re.search(r"return\s+" + v + r"\b", body))
        discards = not hands_on
    quic = strip_rust(open(os.path.join(REPO, "src/common/quic.rs")).read())
    qt = fn_body(quic, "quic_frames_thread")
    by_sid = bool(re.search(r"let\s+sid\s*=\s*frame\s*\.\s*session_id\s*;", qt)) and bool(re.search(r"sessions\s*\.\s*get\s*\(\s*&sid\s*\)", qt))
    # fragment ids: the peer reassembles every session of a connection in one table keyed by the id alone, so the id of a
    # write must come from a counter shared by all writers (a static atomic, fetch_add), not from a field of the writer
    wr = block_after(quic, r"impl\s+FrameWriter\s+for\s+QuicFrameWriter\s*\{")
    wbody = fn_body(wr, "write") if wr else ""
    m_id = re.search(r"make_fragments\s*\(\s*[^,]+,\s*&mut\s+([A-Za-z_][\w\.]*)\s*,", wbody)
    ids_shared = False
    if m_id and not m_id.group(1).startswith("self."):
        var = re.escape(m_id.group(1))
        m_src = re.search(r"let\s+mut\s+" + var + r"\s*=\s*([A-Z_][A-Z0-9_]*)\s*\.\s*fetch_add\s*\(\s*1\s*,", wbody)
        if m_src:
            ids_shared = bool(re.search(r"\bstatic\s+" + re.escape(m_src.group(1)) + r"\s*:\s*AtomicU16\b", quic))
    one_table = bool(re.search(r"let\s+mut\s+f\s*:\s*Fragments\s*<\s*Frame\s*>\s*=\s*Fragments\s*::\s*new", qt)) and len(re.findall(r"\.\s*reassemble\s*\(", qt)) == 1
    # the loop that serves every session of a connection must never wait for one of them: frames go into the session's
    # queue with try_send (full queue: the frame is dropped), never with send(..).await
    demux_never_waits = bool(re.search(r"\.\s*try_send\s*\(\s*frame\s*\)", qt)) and not re.search(r"\.\s*send\s*\(\s*frame\s*\)\s*\.\s*await", qt) \
        and not re.search(r"\.\s*send_timeout\s*\(|\.\s*reserve\s*\(\s*\)\s*\.\s*await|blocking_send", qt)
    cq = fn_body(quic, "create_quic_frames")
    mcap = re.search(r"channel\s*\(\s*(\d+)\s*\)", cq)
    qcap = int(mcap.group(1)) if mcap else 0
    B = lambda b: "true" if b else "false"
    out = "(* GENERATED by gen/translate.py from src/listeners/reverse.rs, src/common/udp.rs, src/common/quic.rs.  Do not edit. *)\n"
    out += "Definition reverse_first_datagram_forwarded : bool := %s.\n" % B(first_forwarded)
    out += "Definition reverse_known_session_forwarded : bool := %s.\n" % B(known_forwarded)
    out += "Definition udp_reader_propagates_recv_error : bool := %s.\n" % B(not discards)
    out += "Definition quic_frames_dispatched_by_session_id : bool := %s.\n" % B(by_sid)
    out += "Definition quic_fragment_ids_shared_by_all_writers : bool := %s.\n" % B(ids_shared)
    out += "Definition quic_one_reassembly_table_per_connection : bool := %s.\n" % B(one_table)
    # the session socket of the reverse / tproxy listeners: bound before it is connected (udp_socket), and its reader ignores
    # a datagram whose source is not the session's client
    us = fn_body(udp, "udp_socket")
    i_b, i_c = us.find("bind(fd"), us.find("connect(fd")
    bound_first = 0 <= i_b < i_c
    ignores = bool(re.search(r"source\s*!=\s*super\s*::\s*try_map_v4_addr\s*\(\s*self\s*\.\s*remote\s*\)\s*\{[^}]*continue\s*;", body, re.S)) and bool(re.search(r"\bloop\s*\{", body))
    out += "Definition session_socket_bound_before_connected : bool := %s.\n" % B(bound_first)
    out += "Definition session_reader_ignores_other_sources : bool := %s.\n" % B(ignores)
    out += "Definition quic_demux_never_waits_for_a_session : bool := %s.\n" % B(demux_never_waits)
    out += "Definition quic_session_queue_capacity : nat := %d.\n" % qcap
    return out


def gen_quic():
    """transport parameters of the QUIC client and the cache discipline of the QUIC connector (C19)"""
    q = strip_rust(open(os.path.join(REPO, "src/common/quic.rs")).read())
    cc = fn_body(q, "create_quic_client")
    ka = re.search(r"keep_alive_interval\s*\(\s*Some\s*\(\s*Duration\s*::\s*from_secs\s*\(\s*(\d+)\s*\)", cc)
    idle = re.search(r"max_idle_timeout\s*\(\s*Some\s*\(\s*Duration\s*::\s*from_secs\s*\(\s*(\d+)\s*\)", cc)
    conn = strip_rust(open(os.path.join(REPO, "src/connectors/quic.rs")).read())
    raw = open(os.path.join(REPO, "src/connectors/quic.rs")).read()
    cnt = fn_body(conn, "connect")
    clears = bool(re.search(r"starts_with\s*\(", cnt)) and bool(re.search(r"clear_connection\s*\(\s*\)", cnt)) and bool(re.search(r'starts_with\(\s*"quic:"\s*\)', raw))
    hs_raw = raw[raw.find("async fn handshake"):raw.find("async fn get_connection")]
    open_bi_tagged = bool(re.search(r'open_bi\s*\(\s*\)\s*\.\s*await\s*\.\s*context\s*\(\s*"quic:', hs_raw))
    gc = fn_body(conn, "get_connection")
    creates_when_empty = bool(re.search(r"if\s+c\s*\.\s*is_none\s*\(\s*\)\s*\{[^}]*create_connection", gc))
    out = "(* GENERATED by gen/translate.py from src/common/quic.rs, src/connectors/quic.rs.  Do not edit. *)\n"
    out += "From Coq Require Import NArith.\n"
    out += "Definition client_keep_alive_s : N := %d%%N.\n" % (int(ka.group(1)) if ka else 0)
    out += "Definition client_idle_timeout_s : N := %d%%N.\n" % (int(idle.group(1)) if idle else 0)
    out += "Definition quic_errors_clear_the_cache : bool := %s.\n" % ("true" if clears else "false")
    out += "Definition open_bi_error_is_tagged_quic : bool := %s.\n" % ("true" if open_bi_tagged else "false")
    out += "Definition connection_created_when_cache_empty : bool := %s.\n" % ("true" if creates_when_empty else "false")
    return out


def gen_auth():
    """where authentication decisions are taken (C07): src/common/socks.rs, src/common/auth.rs, src/listeners/socks.rs,
    src/listeners/http.rs, src/common/tls.rs, src/common/quic.rs, src/connectors/{http,socks,quic}.rs"""
    def src(path):
        return strip_rust(open(os.path.join(REPO, path)).read())
    socks = src("src/common/socks.rs")
    pa = block_after(socks, r"impl\s+SocksAuthServer\s*<\s*Option\s*<\s*\(\s*String\s*,\s*String\s*\)\s*>\s*>\s*for\s+PasswordAuth\s*\{")
    sm = re.sub(r"\s+", "", fn_body(pa, "select_method"))
    select_ok = sm.startswith("{ifmethods.contains(&SOCKS_AUTH_NONE)&&!self.required{Some(SOCKS_AUTH_NONE)}elseifmethods.contains(&SOCKS_AUTH_USRPWD){Some(SOCKS_AUTH_USRPWD)}else{None}")
    auth = src("src/common/auth.rs")
    ad = block_after(auth, r"impl\s+AuthData\s*\{")
    ck = re.sub(r"\s+", "", fn_body(ad, "check"))
    check_ok = ck == "{if!self.required{true}elseifletSome(user)=user{self.users.iter().any(|e|e.username==user.0&&e.password==user.1)||self.auth_cmd(user).await}else{false}}"
    ac = fn_body(ad, "auth_cmd")
    cmd_ok = before(ac, r"self\s*\.\s*cmd\s*\.\s*is_empty\s*\(\s*\)\s*\{\s*return\s+false", r"cache\s*\.\s*check") and \
        before(ac, r"self\s*\.\s*cache\s*\.\s*check\s*\(\s*user\s*\)", r"Command\s*::\s*new") and bool(re.search(r"self\s*\.\s*cache\s*\.\s*set\s*\(\s*user\s*,\s*status\s*\.\s*success\s*\(\s*\)\s*\)", ac))
    cache = block_after(auth, r"impl\s+Cache\s*\{")
    cset = fn_body(cache, "set")
    cache_ok = bool(re.search(r"data\s*\.\s*get\s*\(\s*user\s*\)", fn_body(cache, "check"))) and \
        bool(re.search(r"sleep\s*\(\s*Duration\s*::\s*from_secs\s*\(\s*timeout\s*\)\s*\)", cset)) and bool(re.search(r"data\s*\.\s*remove\s*\(\s*&key\s*\)", cset))
    sl = src("src/listeners/socks.rs")
    hb = fn_body(sl, "handshake_request") if re.search(r"\bfn\s+handshake_request\b", sl) else fn_body(sl, "handshake")
    chk = re.search(r"if\s*!\s*self\s*\.\s*auth\s*\.\s*check\s*\(\s*&request\s*\.\s*auth\s*\)\s*\.\s*await\s*\{", hb)
    gate = False
    if chk:
        blk = block_after(hb[chk.start():], r"\.\s*await\s*\{")
        gate = bool(re.search(r"return\s+Ok\s*\(\s*\(\s*\)\s*\)", blk)) and "enqueue" not in blk and "enqueue" not in hb[:chk.start()]
    tls = src("src/common/tls.rs")
    tsc = block_after(tls, r"impl\s+TlsServerConfig\s*\{")
    init_uses = bool(re.search(r"with_client_cert_verifier\s*\(\s*client_auth\s*\)", fn_body(tsc, "init"))) and bool(re.search(r"let\s+client_auth\s*=\s*self\s*\.\s*client_auth\s*\(\s*\)\s*\?", fn_body(tsc, "init")))
    ver = re.sub(r"\s+", "", fn_body(block_after(tls, r"impl\s+TlsClientVerifyConfig\s*\{"), "verifier"))
    verifier_ok = "ifself.required{AllowAnyAuthenticatedClient::new(self.root_store()?)}else{AllowAnyAnonymousOrAuthenticatedClient::new(self.root_store()?)}" in ver
    def uses_acceptor(path):
        b = src(path)
        return bool(re.search(r"options\s*\.\s*acceptor\s*\(\s*\)", b)) and bool(re.search(r"acceptor\s*\.\s*accept\s*\(\s*socket\s*\)", b))
    quic = src("src/common/quic.rs")
    qs = fn_body(quic, "create_quic_server")
    quic_uses = bool(re.search(r"with_client_cert_verifier\s*\(\s*tls\s*\.\s*client_auth\s*\(\s*\)\s*\?\s*\)", qs)) and "with_no_client_auth" not in qs
    tcc = block_after(tls, r"impl\s+TlsClientConfig\s*\{")
    ci = re.sub(r"\s+", "", fn_body(tcc, "init"))
    webpki = "ifself.insecure{config.with_custom_certificate_verifier(self.insecure_verifier())}else{config.with_custom_certificate_verifier(Arc::new(WebPkiVerifier::new(root_store,None)))}" in ci
    names = []
    for path in ("src/connectors/http.rs", "src/connectors/socks.rs"):
        b = re.sub(r"\s+", "", src(path))
        names.append("ServerName::try_from(self.server.as_str()).or_else(|e|{iftls_insecure{ServerName::try_from(\"\")}else{Err(e)}})" in b)
    qc = re.sub(r"\s+", "", src("src/connectors/quic.rs"))
    names.append("letserver=ifself.tls.insecure{\"\"}else{self.server.as_str()};" in qc)
    B = lambda b: "true" if b else "false"
    out = "(* GENERATED by gen/translate.py (authentication decision points).  Do not edit. *)\n"
    out += "Definition select_method_shape : bool := %s.\n" % B(select_ok)
    out += "Definition check_shape : bool := %s.\n" % B(check_ok and cmd_ok)
    out += "Definition cache_keyed_by_exact_pair_and_expires : bool := %s.\n" % B(cache_ok)
    out += "Definition socks_check_gates_every_enqueue : bool := %s.\n" % B(gate)
    out += "Definition http_listener_uses_policy : bool := %s.\n" % B(init_uses and verifier_ok and uses_acceptor("src/listeners/http.rs"))
    out += "Definition socks_listener_uses_policy : bool := %s.\n" % B(init_uses and verifier_ok and uses_acceptor("src/listeners/socks.rs"))
    out += "Definition quic_listener_uses_policy : bool := %s.\n" % B(quic_uses and verifier_ok)
    out += "Definition connectors_verify_unless_insecure : bool := %s.\n" % B(webpki)
    out += "Definition connectors_use_configured_server_name : bool := %s.\n" % B(all(names))
    return out


def main(which=None):
    changed = []
    gens = {"Gen_panics.v": lambda: gen_panics()[0], "Gen_profile.v": gen_profile, "Gen_ladder.v": gen_ladder, "Gen_reload.v": gen_reload, "Gen_lb.v": gen_lb, "Gen_callbacks.v": gen_callbacks, "Gen_relay.v": gen_relay, "Gen_startup.v": gen_startup, "Gen_locks.v": gen_locks, "Gen_udp.v": gen_udp, "Gen_quic.v": gen_quic, "Gen_auth.v": gen_auth}
    for name, fn in gens.items():
        if which and name not in which:
            continue
        if write_if_changed(os.path.join(OUT, name), fn()):
            changed.append(name)
    return changed


if __name__ == "__main__":
    ch = main(sys.argv[1:] or None)
    print("regenerated:", ch)
