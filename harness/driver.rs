// Verification driver for redproxy-rs.  Included into the crate as `mod verif_driver`
// (src/main.rs, under --cfg redproxy_verif).  Line protocol: one case per stdin line,
// `<op> <arg> <arg> ...`, one result line per case on stdout.  Every op runs under
// catch_unwind; a panic is reported as `PANIC <file>:<line>`.
#![allow(dead_code, unused_imports, clippy::all)]

use futures::FutureExt;
use std::cell::RefCell;
use std::io::{BufRead, Write};
use std::panic::AssertUnwindSafe;

#[path = "util.rs"]
pub mod util;
#[path = "ops_frag.rs"]
mod ops_frag;
#[path = "ops_codec.rs"]
mod ops_codec;
#[path = "ops_milu.rs"]
mod ops_milu;
#[path = "ops_dispatch.rs"]
mod ops_dispatch;
#[path = "ops_config.rs"]
mod ops_config;

thread_local! {
    static LAST_PANIC: RefCell<String> = RefCell::new(String::new());
}

pub async fn run_line(line: &str) -> String {
    let mut it = line.split(' ');
    let op = it.next().unwrap_or("");
    let args: Vec<&str> = it.collect();
    match op {
        "frag_seq" => ops_frag::frag_seq(&args),
        "frag_make" => ops_frag::frag_make(&args),
        "dgram_hop" => ops_frag::dgram_hop(&args),
        "frag_rt" => ops_frag::frag_roundtrip(&args),
        "dispatch" => ops_dispatch::dispatch(&args).await,
        "reload_seq" => ops_dispatch::reload_seq(&args).await,
        "reload_conc" => ops_dispatch::reload_conc(&args).await,
        "lb_seq" => ops_dispatch::lb_seq(&args).await,
        "lb_stress" => ops_dispatch::lb_stress(&args).await,
        "idle_check" => ops_dispatch::idle_check(&args),
        "config_load" => ops_config::config_load(&args).await,
        "udp_reader_error" => ops_config::udp_reader_error(&args).await,
        "socks_select" => ops_config::socks_select(&args),
        "auth_check" => ops_config::auth_check(&args).await,
        "milu_parse" => ops_milu::milu_parse(&args),
        "milu_eval" => ops_milu::milu_eval(&args),
        "req_texts" => ops_milu::req_texts(&args),
        "socks_req_read" => ops_codec::socks_req_read(&args).await,
        "socks_req_write" => ops_codec::socks_req_write(&args).await,
        "socks_resp_read" => ops_codec::socks_resp_read(&args).await,
        "socks_resp_write" => ops_codec::socks_resp_write(&args).await,
        "http_req_read" => ops_codec::http_req_read(&args).await,
        "http_resp_read" => ops_codec::http_resp_read(&args).await,
        "http_req_write" => ops_codec::http_req_write(&args).await,
        "http_resp_write" => ops_codec::http_resp_write(&args).await,
        "frame_decode" => ops_codec::frame_decode(&args),
        "frame_encode" => ops_codec::frame_encode(&args).await,
        "frame_stream" => ops_codec::frame_stream(&args).await,
        "udp_decode" => ops_codec::udp_decode(&args),
        "udp_encode" => ops_codec::udp_encode(&args),
        "target_parse" => ops_codec::target_parse(&args),
        "target_print" => ops_codec::target_print(&args),
        "connect_write" => ops_codec::connect_write(&args).await,
        _ => format!("UNKNOWN-OP {}", op),
    }
}

pub async fn main() {
    std::panic::set_hook(Box::new(|info| {
        let loc = info
            .location()
            .map(|l| format!("{}:{}", l.file(), l.line()))
            .unwrap_or_else(|| "?".into());
        LAST_PANIC.with(|p| *p.borrow_mut() = loc);
    }));
    let stdin = std::io::stdin();
    let stdout = std::io::stdout();
    let mut out = std::io::BufWriter::new(stdout.lock());
    for line in stdin.lock().lines() {
        let line = match line {
            Ok(l) => l,
            Err(_) => break,
        };
        let line = line.trim_end().to_string();
        if line.is_empty() {
            continue;
        }
        let res = AssertUnwindSafe(run_line(&line)).catch_unwind().await;
        let res = match res {
            Ok(s) => s,
            Err(_) => format!("PANIC {}", LAST_PANIC.with(|p| p.borrow().clone())),
        };
        writeln!(out, "{}", res).unwrap();
    }
    out.flush().unwrap();
}
