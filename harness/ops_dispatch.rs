// Dispatch ops (properties C02, C15, C17, C06, C16): the real process_request / set_rules
// against recording connectors and a scripted client.
use super::ops_codec::{parse_chunks, parse_target, ScriptedStream, Shared};
use super::util::{hex, unhex};
use crate::connectors::Connector;
use crate::context::{make_buffered_stream, Context, ContextCallback, ContextRef, ContextRefOps, Feature};
use async_trait::async_trait;
use easy_error::{err_msg, Error};
use std::collections::HashMap;
use std::sync::{Arc, Mutex};

pub type Log = Arc<Mutex<Vec<String>>>;

pub struct RecConnector {
    pub name: String,
    pub features: Vec<Feature>,
    pub ok: bool,
    pub log: Log,
    pub server: Arc<Mutex<Option<Arc<Mutex<Shared>>>>>,
}

#[async_trait]
impl Connector for RecConnector {
    async fn connect(self: Arc<Self>, _state: Arc<crate::GlobalState>, ctx: ContextRef) -> Result<(), Error> {
        self.log.lock().unwrap().push(format!("connect:{}", hex(self.name.as_bytes())));
        if !self.ok {
            return Err(err_msg("upstream refused"));
        }
        let (st, sh) = ScriptedStream::new(vec![]);
        *self.server.lock().unwrap() = Some(sh);
        ctx.write().await.set_server_stream(make_buffered_stream(st));
        Ok(())
    }
    fn name(&self) -> &str {
        &self.name
    }
    fn features(&self) -> &[Feature] {
        &self.features
    }
}

pub struct RecCallback(pub Log);
#[async_trait]
impl ContextCallback for RecCallback {
    async fn on_connect(&self, _ctx: &mut Context) {
        self.0.lock().unwrap().push("on_connect".into());
    }
    async fn on_error(&self, _ctx: &mut Context, _e: Error) {
        self.0.lock().unwrap().push("on_error".into());
    }
    async fn on_finish(&self, _ctx: &mut Context) {
        self.0.lock().unwrap().push("on_finish".into());
    }
}

pub fn parse_features(s: &str) -> Vec<Feature> {
    let mut v = vec![];
    for c in s.chars() {
        match c {
            't' => v.push(Feature::TcpForward),
            'u' => v.push(Feature::UdpForward),
            'b' => v.push(Feature::UdpBind),
            'B' => v.push(Feature::TcpBind),
            _ => {}
        }
    }
    v
}

pub fn rules_from_spec(spec: &str) -> Result<Vec<Arc<crate::rules::Rule>>, Error> {
    // `;`-separated  <target hex>:<filter hex | ->
    let mut vals = vec![];
    if spec != "-" {
        for r in spec.split(';') {
            let (t, f) = r.split_once(':').unwrap();
            let mut m = serde_yaml::Mapping::new();
            m.insert("target".into(), String::from_utf8_lossy(&unhex(t)).to_string().into());
            if f != "-" {
                m.insert("filter".into(), String::from_utf8_lossy(&unhex(f)).to_string().into());
            }
            vals.push(serde_yaml::Value::Mapping(m));
        }
    }
    crate::rules::from_config(&vals)
}

pub struct World {
    pub state: Arc<crate::GlobalState>,
    pub log: Log,
    pub servers: HashMap<String, Arc<Mutex<Option<Arc<Mutex<Shared>>>>>>,
}

// conns: `,`-separated <name hex>:<features>:<ok|err>
pub fn build_world(conns: &str, lbs: &str) -> World {
    let log: Log = Default::default();
    let mut state: crate::GlobalState = Default::default();
    let mut servers = HashMap::new();
    if conns != "-" {
        for c in conns.split(',') {
            let p: Vec<&str> = c.split(':').collect();
            let name = String::from_utf8_lossy(&unhex(p[0])).to_string();
            let server = Arc::new(Mutex::new(None));
            servers.insert(name.clone(), server.clone());
            state.connectors.insert(
                name.clone(),
                Arc::new(RecConnector { name, features: parse_features(p[1]), ok: p[2] == "ok", log: log.clone(), server }),
            );
        }
    }
    // lbs: `,`-separated yaml documents in hex (real LoadBalanceConnector via connectors::from_value)
    if lbs != "-" {
        for l in lbs.split(',') {
            let doc = String::from_utf8_lossy(&unhex(l)).to_string();
            let v: serde_yaml::Value = serde_yaml::from_str(&doc).unwrap();
            let c = crate::connectors::from_value(&v).unwrap();
            state.connectors.insert(c.name().to_owned(), c.into());
        }
    }
    World { state: Arc::new(state), log, servers }
}

fn state_names(ctx_states: &serde_json::Value) -> String {
    ctx_states
        .as_array()
        .map(|a| a.iter().map(|s| s["state"].as_str().unwrap_or("?").to_string()).collect::<Vec<_>>().join(">"))
        .unwrap_or_default()
}

pub async fn run_one(w: &World, req: &[&str], payload: &str) -> String {
    // req = listener source target feature
    let ctx = w
        .state
        .contexts
        .create_context(String::from_utf8_lossy(&unhex(req[0])).to_string(), match parse_target(req[1]) {
            crate::context::TargetAddress::SocketAddr(a) => a,
            _ => "0.0.0.0:0".parse().unwrap(),
        })
        .await;
    let (st, csh) = ScriptedStream::new(parse_chunks(payload));
    {
        let mut c = ctx.write().await;
        c.set_target(parse_target(req[2]));
        c.set_feature(parse_features(req[3]).first().cloned().unwrap_or(Feature::TcpForward));
        c.set_client_stream(make_buffered_stream(st));
        c.set_callback(RecCallback(w.log.clone()));
    }
    let start = w.log.lock().unwrap().len();
    super::super::process_request(ctx.clone(), w.state.clone()).await;
    let props = ctx.read().await.props().clone();
    let js = serde_json::to_value(&*props).unwrap();
    let events = w.log.lock().unwrap()[start..].join(",");
    let conn = props.connector.clone();
    let fwd = conn
        .as_ref()
        .and_then(|c| w.servers.get(c))
        .and_then(|s| s.lock().unwrap().clone())
        .map(|sh| hex(&sh.lock().unwrap().written))
        .unwrap_or_else(|| "-".into());
    let any_fwd: usize = w.servers.values().map(|s| s.lock().unwrap().as_ref().map(|sh| sh.lock().unwrap().written.len()).unwrap_or(0)).sum();
    format!(
        "ev={} client={} fwd={} anyfwd={} conn={} states={} err={}",
        if events.is_empty() { "-".to_string() } else { events },
        hex(&csh.lock().unwrap().written),
        fwd,
        any_fwd,
        conn.map(|c| hex(c.as_bytes())).unwrap_or_else(|| "-".into()),
        state_names(&js["state"]),
        if props.error.is_some() { 1 } else { 0 }
    )
}

// dispatch <rules> <conns> <lbs> <listener> <source> <target> <feature> <payload chunks>
pub async fn dispatch(args: &[&str]) -> String {
    let w = build_world(args[1], args[2]);
    let rules = match rules_from_spec(args[0]) {
        Ok(r) => r,
        Err(_) => return "RULES-ERR".into(),
    };
    if w.state.set_rules(rules).await.is_err() {
        return "RULES-ERR".into();
    }
    run_one(&w, &args[3..7], args[7]).await
}
