// Dispatch ops (properties C02, C15, C17, C06, C16): the real process_request / set_rules
// against recording connectors and a scripted client.
use super::ops_codec::{parse_chunks, parse_target, ScriptedStream, Shared};
use super::util::{hex, unhex};
use crate::connectors::Connector;
use crate::context::{make_buffered_stream, Context, ContextCallback, ContextRef, ContextRefOps, Feature};
use async_trait::async_trait;
use easy_error::{err_msg, Error};
use std::collections::HashMap;
use std::sync::{Arc, Mutex};

pub type Log = Arc<Mutex<Vec<String>>>;

pub struct RecConnector {
    pub name: String,
    pub features: Vec<Feature>,
    pub ok: bool,
    pub log: Log,
    pub server: Arc<Mutex<Option<Arc<Mutex<Shared>>>>>,
}

#[async_trait]
impl Connector for RecConnector {
    async fn connect(self: Arc<Self>, _state: Arc<crate::GlobalState>, ctx: ContextRef) -> Result<(), Error> {
        let id = ctx.read().await.props().id;
        self.log.lock().unwrap().push(format!("{}#connect:{}", id, hex(self.name.as_bytes())));
        if !self.ok {
            return Err(err_msg("upstream refused"));
        }
        let (st, sh) = ScriptedStream::new(vec![]);
        *self.server.lock().unwrap() = Some(sh);
        ctx.write().await.set_server_stream(make_buffered_stream(st));
        Ok(())
    }
    fn name(&self) -> &str {
        &self.name
    }
    fn features(&self) -> &[Feature] {
        &self.features
    }
}

pub struct RecCallback(pub Log);
#[async_trait]
impl ContextCallback for RecCallback {
    async fn on_connect(&self, ctx: &mut Context) {
        self.0.lock().unwrap().push(format!("{}#on_connect", ctx.props().id));
    }
    async fn on_error(&self, ctx: &mut Context, _e: Error) {
        self.0.lock().unwrap().push(format!("{}#on_error", ctx.props().id));
    }
    async fn on_finish(&self, ctx: &mut Context) {
        self.0.lock().unwrap().push(format!("{}#on_finish", ctx.props().id));
    }
}

pub fn parse_features(s: &str) -> Vec<Feature> {
    let mut v = vec![];
    for c in s.chars() {
        match c {
            't' => v.push(Feature::TcpForward),
            'u' => v.push(Feature::UdpForward),
            'b' => v.push(Feature::UdpBind),
            'B' => v.push(Feature::TcpBind),
            _ => {}
        }
    }
    v
}

pub fn rules_from_spec(spec: &str) -> Result<Vec<Arc<crate::rules::Rule>>, Error> {
    // `;`-separated  <target hex>:<filter hex | ->
    let mut vals = vec![];
    if spec != "-" {
        for r in spec.split(';') {
            let (t, f) = r.split_once(':').unwrap();
            let mut m = serde_yaml::Mapping::new();
            m.insert("target".into(), String::from_utf8_lossy(&unhex(t)).to_string().into());
            if f != "-" {
                m.insert("filter".into(), String::from_utf8_lossy(&unhex(f)).to_string().into());
            }
            vals.push(serde_yaml::Value::Mapping(m));
        }
    }
    crate::rules::from_config(&vals)
}

pub struct World {
    pub state: Arc<crate::GlobalState>,
    pub log: Log,
    pub servers: HashMap<String, Arc<Mutex<Option<Arc<Mutex<Shared>>>>>>,
}

// conns: `,`-separated <name hex>:<features>:<ok|err>
pub fn build_world(conns: &str, lbs: &str) -> World {
    let log: Log = Default::default();
    let mut state: crate::GlobalState = Default::default();
    let mut servers = HashMap::new();
    if conns != "-" {
        for c in conns.split(',') {
            let p: Vec<&str> = c.split(':').collect();
            let name = String::from_utf8_lossy(&unhex(p[0])).to_string();
            let server = Arc::new(Mutex::new(None));
            servers.insert(name.clone(), server.clone());
            state.connectors.insert(
                name.clone(),
                Arc::new(RecConnector { name, features: parse_features(p[1]), ok: p[2] == "ok", log: log.clone(), server }),
            );
        }
    }
    // lbs: `,`-separated yaml documents in hex (real LoadBalanceConnector via connectors::from_value)
    if lbs != "-" {
        for l in lbs.split(',') {
            let doc = String::from_utf8_lossy(&unhex(l)).to_string();
            let v: serde_yaml::Value = serde_yaml::from_str(&doc).unwrap();
            let c = crate::connectors::from_value(&v).unwrap();
            state.connectors.insert(c.name().to_owned(), c.into());
        }
    }
    World { state: Arc::new(state), log, servers }
}

fn state_names(ctx_states: &serde_json::Value) -> String {
    ctx_states
        .as_array()
        .map(|a| a.iter().map(|s| s["state"].as_str().unwrap_or("?").to_string()).collect::<Vec<_>>().join(">"))
        .unwrap_or_default()
}

pub async fn run_one(w: &World, req: &[&str], payload: &str) -> String {
    // req = listener source target feature
    let ctx = w
        .state
        .contexts
        .create_context(String::from_utf8_lossy(&unhex(req[0])).to_string(), match parse_target(req[1]) {
            crate::context::TargetAddress::SocketAddr(a) => a,
            _ => "0.0.0.0:0".parse().unwrap(),
        })
        .await;
    let (st, csh) = ScriptedStream::new(parse_chunks(payload));
    {
        let mut c = ctx.write().await;
        c.set_target(parse_target(req[2]));
        c.set_feature(parse_features(req[3]).first().cloned().unwrap_or(Feature::TcpForward));
        c.set_client_stream(make_buffered_stream(st));
        c.set_callback(RecCallback(w.log.clone()));
    }
    super::super::process_request(ctx.clone(), w.state.clone()).await;
    let props = ctx.read().await.props().clone();
    let js = serde_json::to_value(&*props).unwrap();
    let tag = format!("{}#", props.id);
    let events = w
        .log
        .lock()
        .unwrap()
        .iter()
        .filter_map(|e| e.strip_prefix(tag.as_str()).map(|x| x.to_string()))
        .collect::<Vec<_>>()
        .join(",");
    let conn = props.connector.clone();
    let fwd = conn
        .as_ref()
        .and_then(|c| w.servers.get(c))
        .and_then(|s| s.lock().unwrap().clone())
        .map(|sh| hex(&sh.lock().unwrap().written))
        .unwrap_or_else(|| "-".into());
    let any_fwd: usize = w.servers.values().map(|s| s.lock().unwrap().as_ref().map(|sh| sh.lock().unwrap().written.len()).unwrap_or(0)).sum();
    format!(
        "ev={} client={} fwd={} anyfwd={} conn={} states={} err={}",
        if events.is_empty() { "-".to_string() } else { events },
        hex(&csh.lock().unwrap().written),
        fwd,
        any_fwd,
        conn.map(|c| hex(c.as_bytes())).unwrap_or_else(|| "-".into()),
        state_names(&js["state"]),
        if props.error.is_some() { 1 } else { 0 }
    )
}

// dispatch <rules> <conns> <lbs> <listener> <source> <target> <feature> <payload chunks>
pub async fn dispatch(args: &[&str]) -> String {
    let w = build_world(args[1], args[2]);
    let rules = match rules_from_spec(args[0]) {
        Ok(r) => r,
        Err(_) => return "RULES-ERR".into(),
    };
    if w.state.set_rules(rules).await.is_err() {
        return "RULES-ERR".into();
    }
    run_one(&w, &args[3..7], args[7]).await
}

// reload_seq <conns> <steps> <listener> <source> <target> <feature>
//   steps: `|`-separated:  S<rules spec>   set_rules
//                          R               one probe request through process_request
//                          I               serialise the current rules (as GET /api/rules does) and post them back
pub async fn reload_seq(args: &[&str]) -> String {
    let w = build_world(args[0], "-");
    let mut out = vec![];
    for step in args[1].split('|') {
        if let Some(spec) = step.strip_prefix('S') {
            let r = match rules_from_spec(spec) {
                Ok(r) => w.state.set_rules(r).await.is_ok(),
                Err(_) => false,
            };
            out.push(if r { "OK".to_string() } else { "ERR".to_string() });
        } else if step == "I" {
            let js = serde_json::to_string(&*w.state.rules().await).unwrap();
            let back: Result<Vec<Arc<crate::rules::Rule>>, _> = serde_json::from_str(&js);
            let r = match back {
                Ok(r) => w.state.set_rules(r).await.is_ok(),
                Err(_) => false,
            };
            out.push(if r { "OK".to_string() } else { "ERR".to_string() });
        } else {
            let t = run_one(&w, &args[2..6], "-").await;
            // decision only: events and connector
            let f: Vec<&str> = t.split(' ').collect();
            out.push(format!("{}/{}", f[0], f[4]));
        }
    }
    out.join("|")
}

// reload_conc <conns> <rulesA> <rulesB> <tasks> <iterations> <listener> <source> <target> <feature>
// evaluator tasks decide the same request in a loop while one task toggles between two rule lists;
// reports the set of distinct decisions observed
pub async fn reload_conc(args: &[&str]) -> String {
    let w = Arc::new(build_world(args[0], "-"));
    let ra = args[1].to_string();
    let rb = args[2].to_string();
    let tasks: usize = args[3].parse().unwrap();
    let iters: usize = args[4].parse().unwrap();
    w.state.set_rules(rules_from_spec(&ra).unwrap()).await.unwrap();
    let req: Vec<String> = args[5..9].iter().map(|s| s.to_string()).collect();
    let stop = Arc::new(std::sync::atomic::AtomicBool::new(false));
    let setter = {
        let w = w.clone();
        let stop = stop.clone();
        tokio::spawn(async move {
            let mut n = 0usize;
            while !stop.load(std::sync::atomic::Ordering::Relaxed) {
                let spec = if n % 2 == 0 { &rb } else { &ra };
                w.state.set_rules(rules_from_spec(spec).unwrap()).await.unwrap();
                n += 1;
                tokio::task::yield_now().await;
            }
            n
        })
    };
    let mut hs = vec![];
    for _ in 0..tasks {
        let w = w.clone();
        let req = req.clone();
        hs.push(tokio::spawn(async move {
            let mut seen = std::collections::BTreeSet::new();
            for _ in 0..iters {
                let r: Vec<&str> = req.iter().map(|s| s.as_str()).collect();
                let t = run_one(&w, &r, "-").await;
                let f: Vec<&str> = t.split(' ').collect();
                seen.insert(format!("{}/{}", f[0], f[4]));
                tokio::task::yield_now().await;
            }
            seen
        }));
    }
    let mut all = std::collections::BTreeSet::new();
    for h in hs {
        all.extend(h.await.unwrap());
    }
    stop.store(true, std::sync::atomic::Ordering::Relaxed);
    let toggles = setter.await.unwrap();
    format!("toggles>0={} decisions={}", toggles > 0, all.into_iter().collect::<Vec<_>>().join(";"))
}

// lb_seq <lb yaml hex> <conns> <count> <tasks> <listener> <source> <targets `,`-separated> <feature>
// `count` requests (cycling through the targets) routed by a single filterless rule to the load balancer;
// tasks = 1: sequential, the selected members in order; tasks > 1: concurrent, members sorted
pub async fn lb_seq(args: &[&str]) -> String {
    let mut w = build_world(args[1], "-");
    let doc = String::from_utf8_lossy(&unhex(args[0])).to_string();
    let v: serde_yaml::Value = match serde_yaml::from_str(&doc) {
        Ok(v) => v,
        Err(_) => return "LB-ERR".into(),
    };
    let mut lb = match crate::connectors::from_value(&v) {
        Ok(c) => c,
        Err(_) => return "LB-ERR".into(),
    };
    if lb.init().await.is_err() {
        return "LB-INIT-ERR".into();
    }
    // optional 9th argument: further load balancers (`,`-separated yaml documents in hex) that the entry balancer may
    // name as members (nested balancers)
    if args.len() > 8 && args[8] != "-" {
        for l in args[8].split(',') {
            let doc = String::from_utf8_lossy(&unhex(l)).to_string();
            let v: serde_yaml::Value = match serde_yaml::from_str(&doc) {
                Ok(v) => v,
                Err(_) => return "LB-ERR".into(),
            };
            let mut inner = match crate::connectors::from_value(&v) {
                Ok(c) => c,
                Err(_) => return "LB-ERR".into(),
            };
            if inner.init().await.is_err() {
                return "LB-INIT-ERR".into();
            }
            let n = inner.name().to_owned();
            Arc::get_mut(&mut w.state).unwrap().connectors.insert(n, inner.into());
        }
    }
    let name = lb.name().to_owned();
    Arc::get_mut(&mut w.state).unwrap().connectors.insert(name.clone(), lb.into());
    let w = Arc::new(w);
    for c in w.state.connectors.values() {
        if c.verify(w.state.clone()).await.is_err() {
            return "LB-VERIFY-ERR".into();
        }
    }
    let spec = format!("{}:-", hex(name.as_bytes()));
    w.state.set_rules(rules_from_spec(&spec).unwrap()).await.unwrap();
    let count: usize = args[2].parse().unwrap();
    let tasks: usize = args[3].parse().unwrap();
    let targets: Vec<String> = args[6].split(',').map(|s| s.to_string()).collect();
    let one = |w: Arc<World>, i: usize, l: String, s: String, t: String, f: String| async move {
        let req = [l.as_str(), s.as_str(), t.as_str(), f.as_str()];
        let tr = run_one(&w, &req, "-").await;
        let _ = i;
        let fl: Vec<&str> = tr.split(' ').collect();
        // recorded connector and the connector whose connect() ran must agree
        let rec = fl[4].trim_start_matches("conn=").to_string();
        let ran = fl[0].trim_start_matches("ev=").split(',').find(|e| e.starts_with("connect:")).map(|e| e[8..].to_string()).unwrap_or("-".into());
        if rec == ran { rec } else { format!("MISMATCH({}!={})", rec, ran) }
    };
    let mut picks = vec![];
    if tasks <= 1 {
        for i in 0..count {
            picks.push(one(w.clone(), i, args[4].into(), args[5].into(), targets[i % targets.len()].clone(), args[7].into()).await);
        }
    } else {
        let mut hs = vec![];
        for t in 0..tasks {
            let w = w.clone();
            let (l, s, f) = (args[4].to_string(), args[5].to_string(), args[7].to_string());
            let targets = targets.clone();
            let n = count / tasks + if t < count % tasks { 1 } else { 0 };
            hs.push(tokio::spawn(async move {
                let mut v = vec![];
                for i in 0..n {
                    v.push(one(w.clone(), i, l.clone(), s.clone(), targets[i % targets.len()].clone(), f.clone()).await);
                    tokio::task::yield_now().await;
                }
                v
            }));
        }
        for h in hs {
            picks.extend(h.await.unwrap());
        }
        picks.sort();
    }
    picks.join(",")
}

// lb_stress <lb yaml hex> <conns> <per_task> <tasks>: many tasks call the load balancer's connect() in a
// tight loop (no relay, no rules); reports how often each member was recorded
pub async fn lb_stress(args: &[&str]) -> String {
    let mut w = build_world(args[1], "-");
    let doc = String::from_utf8_lossy(&unhex(args[0])).to_string();
    let v: serde_yaml::Value = serde_yaml::from_str(&doc).unwrap();
    let mut lb = crate::connectors::from_value(&v).unwrap();
    lb.init().await.unwrap();
    let name = lb.name().to_owned();
    Arc::get_mut(&mut w.state).unwrap().connectors.insert(name.clone(), lb.into());
    let w = Arc::new(w);
    let per: usize = args[2].parse().unwrap();
    let tasks: usize = args[3].parse().unwrap();
    let lbc = w.state.connectors.get(&name).unwrap().clone();
    let mut hs = vec![];
    for _ in 0..tasks {
        let w = w.clone();
        let lbc = lbc.clone();
        hs.push(tokio::spawn(async move {
            let mut counts: HashMap<String, usize> = HashMap::new();
            let ctx = w.state.contexts.create_context("l".into(), "127.0.0.1:1".parse().unwrap()).await;
            for _ in 0..per {
                let _ = lbc.clone().connect(w.state.clone(), ctx.clone()).await;
                let c = ctx.read().await.props().connector.clone().unwrap_or_default();
                *counts.entry(c).or_insert(0) += 1;
            }
            counts
        }));
    }
    let mut total: std::collections::BTreeMap<String, usize> = Default::default();
    for h in hs {
        for (k, v) in h.await.unwrap() {
            *total.entry(k).or_insert(0) += v;
        }
    }
    w.log.lock().unwrap().clear();
    total.into_iter().map(|(k, v)| format!("{}={}", hex(k.as_bytes()), v)).collect::<Vec<_>>().join(",")
}

// idle_check <period_s> <client_delta_ms> <server_delta_ms>: ContextStatistics::is_timeout on two fresh statistics
// whose last_read is placed delta ms from the wall clock (negative = in the past)
pub fn idle_check(args: &[&str]) -> String {
    let period: u64 = args[0].parse().unwrap();
    let dc: i64 = args[1].parse().unwrap();
    let ds: i64 = args[2].parse().unwrap();
    let c = crate::context::ContextStatistics::default();
    let s = crate::context::ContextStatistics::default();
    c.verif_shift_last_read(dc);
    s.verif_shift_last_read(ds);
    let t = std::time::Duration::from_secs(period);
    let tc = c.is_timeout(t);
    let ts = s.is_timeout(t);
    format!("OK c={} s={} close={}", tc, ts, ts && tc)
}
