// milu ops (properties C09, C08, C02, C15, C17, C18): parser, checker, evaluator.
use super::util::{hex, unhex};
use milu::parser::parse;
use milu::script::{Evaluatable, ScriptContext, ScriptContextRef, Type, Value};
use std::sync::Arc;

pub fn sexp(v: &Value) -> String {
    match v {
        Value::Integer(i) => format!("(int {})", i),
        Value::Boolean(b) => format!("(bool {})", b),
        Value::String(s) => format!("(str {})", hex(s.as_bytes())),
        Value::Identifier(s) => format!("(id {})", hex(s.as_bytes())),
        Value::Array(a) => format!("(arr{})", a.iter().map(|x| format!(" {}", sexp(x))).collect::<String>()),
        Value::Tuple(a) => format!("(tup{})", a.iter().map(|x| format!(" {}", sexp(x))).collect::<String>()),
        Value::OpCall(c) => {
            let (f, args) = c.verif_parts();
            format!("(call {}{})", sexp(f), args.iter().map(|x| format!(" {}", sexp(x))).collect::<String>())
        }
        Value::NativeObject(o) => format!("(nat {:?})", o),
    }
}

pub fn show_type(t: &Type) -> String {
    match t {
        Type::String => "string".into(),
        Type::Integer => "integer".into(),
        Type::Boolean => "boolean".into(),
        Type::Array(a) => format!("[{}]", show_type(a)),
        Type::Tuple(ts) => format!("({})", ts.iter().map(show_type).collect::<Vec<_>>().join(",")),
        Type::NativeObject(_) => "native".into(),
        Type::Any => "any".into(),
    }
}

// milu_parse <hex source>
pub fn milu_parse(args: &[&str]) -> String {
    let src = String::from_utf8_lossy(&unhex(args[0])).to_string();
    match parse(&src) {
        Ok(v) => format!("OK {}", sexp(&v)),
        Err(_) => "ERR".into(),
    }
}

fn classify(e: &easy_error::Error) -> &'static str {
    let m = e.to_string();
    if m.starts_with("division by zero") || m.starts_with("integer overflow") {
        "arith"
    } else if m.starts_with("index out of bounds") || m.starts_with("failed to cast index") {
        "index"
    } else if m.starts_with("failed to compile regex") {
        "regex"
    } else if m.starts_with("failed to parse integer") {
        "parse"
    } else {
        "type"
    }
}

pub fn make_props(listener: &str, connector: &str, feature: &str, source: &str, target: &str) -> crate::context::ContextProps {
    use crate::context::{ContextProps, Feature, TargetAddress};
    let src = match super::ops_codec::parse_target(source) {
        TargetAddress::SocketAddr(a) => a,
        _ => "0.0.0.0:0".parse().unwrap(),
    };
    ContextProps {
        listener: String::from_utf8_lossy(&unhex(listener)).to_string(),
        connector: if connector == "-" { None } else { Some(String::from_utf8_lossy(&unhex(connector)).to_string()) },
        source: src,
        target: super::ops_codec::parse_target(target),
        request_feature: match feature {
            "udp" => Feature::UdpForward,
            "udpbind" => Feature::UdpBind,
            "tcpbind" => Feature::TcpBind,
            _ => Feature::TcpForward,
        },
        ..Default::default()
    }
}

// req_texts <feature> <source> <target>: the strings the script environment exposes
pub fn req_texts(args: &[&str]) -> String {
    let p = make_props("-", "-", args[0], args[1], args[2]);
    let ctx: ScriptContextRef = Arc::new(crate::rules::script_ext::create_context(Arc::new(p)));
    let mut out = vec![];
    for src in ["request.feature", "request.source.host", "request.source.type", "to_string(request.source.port)", "strcat([request.source])",
                "request.target.host", "request.target.type", "to_string(request.target.port)", "strcat([request.target])"] {
        let v = parse(src).unwrap().real_value_of(ctx.clone());
        out.push(match v {
            Ok(Value::String(s)) => hex(s.as_bytes()),
            _ => "ERR".into(),
        });
    }
    out.join(" ")
}

// milu_eval <hex source> [<listener> <connector> <feature> <source> <target>]
// parse, type_of / real_type_of and real_value_of in the redproxy script environment
pub fn milu_eval(args: &[&str]) -> String {
    let src = String::from_utf8_lossy(&unhex(args[0])).to_string();
    let v = match parse(&src) {
        Ok(v) => v,
        Err(_) => return "SYNTAX".into(),
    };
    let props = if args.len() >= 6 {
        make_props(args[1], args[2], args[3], args[4], args[5])
    } else {
        make_props("-", "-", "tcp", "400000000:0", "U")
    };
    let ctx: ScriptContextRef = Arc::new(crate::rules::script_ext::create_context(Arc::new(props)));
    let t = std::panic::catch_unwind(std::panic::AssertUnwindSafe(|| v.type_of(ctx.clone())));
    let ts = match t {
        Err(_) => return "T=PANIC".into(),
        Ok(Err(_)) => return "T=ERR".into(),
        Ok(Ok(t)) => show_type(&t),
    };
    let rt = std::panic::catch_unwind(std::panic::AssertUnwindSafe(|| v.real_type_of(ctx.clone())));
    let rts = match rt {
        Err(_) => return format!("T={} RT=PANIC", ts),
        Ok(Err(_)) => return format!("T={} RT=ERR", ts),
        Ok(Ok(t)) => show_type(&t),
    };
    let r = std::panic::catch_unwind(std::panic::AssertUnwindSafe(|| v.real_value_of(ctx.clone())));
    match r {
        Err(_) => format!("T={} RT={} V=PANIC", ts, rts),
        Ok(Err(e)) => format!("T={} RT={} V=ERR:{}", ts, rts, classify(&e)),
        Ok(Ok(val)) => format!("T={} RT={} V={}", ts, rts, sexp(&val)),
    }
}
