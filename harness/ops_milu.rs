// milu ops (properties C09, C08, C02, C15, C17, C18): parser, checker, evaluator.
use super::util::{hex, unhex};
use milu::parser::parse;
use milu::script::{Evaluatable, ScriptContext, ScriptContextRef, Type, Value};
use std::sync::Arc;

pub fn sexp(v: &Value) -> String {
    match v {
        Value::Integer(i) => format!("(int {})", i),
        Value::Boolean(b) => format!("(bool {})", b),
        Value::String(s) => format!("(str {})", hex(s.as_bytes())),
        Value::Identifier(s) => format!("(id {})", hex(s.as_bytes())),
        Value::Array(a) => format!("(arr{})", a.iter().map(|x| format!(" {}", sexp(x))).collect::<String>()),
        Value::Tuple(a) => format!("(tup{})", a.iter().map(|x| format!(" {}", sexp(x))).collect::<String>()),
        Value::OpCall(c) => {
            let (f, args) = c.verif_parts();
            format!("(call {}{})", sexp(f), args.iter().map(|x| format!(" {}", sexp(x))).collect::<String>())
        }
        Value::NativeObject(o) => format!("(nat {:?})", o),
    }
}

pub fn show_type(t: &Type) -> String {
    match t {
        Type::String => "string".into(),
        Type::Integer => "integer".into(),
        Type::Boolean => "boolean".into(),
        Type::Array(a) => format!("[{}]", show_type(a)),
        Type::Tuple(ts) => format!("({})", ts.iter().map(show_type).collect::<Vec<_>>().join(",")),
        Type::NativeObject(_) => "native".into(),
        Type::Any => "any".into(),
    }
}

// milu_parse <hex source>
pub fn milu_parse(args: &[&str]) -> String {
    let src = String::from_utf8_lossy(&unhex(args[0])).to_string();
    match parse(&src) {
        Ok(v) => format!("OK {}", sexp(&v)),
        Err(_) => "ERR".into(),
    }
}

// milu_eval <hex source>: parse, type_of and value_of in the default context
pub fn milu_eval(args: &[&str]) -> String {
    let src = String::from_utf8_lossy(&unhex(args[0])).to_string();
    let v = match parse(&src) {
        Ok(v) => v,
        Err(_) => return "SYNTAX".into(),
    };
    let ctx: ScriptContextRef = Arc::new(ScriptContext::new(Some(Default::default())));
    let t = std::panic::catch_unwind(std::panic::AssertUnwindSafe(|| v.real_type_of(ctx.clone())));
    let ts = match t {
        Err(_) => return "T=PANIC".into(),
        Ok(Err(_)) => return "T=ERR".into(),
        Ok(Ok(t)) => show_type(&t),
    };
    let r = std::panic::catch_unwind(std::panic::AssertUnwindSafe(|| v.real_value_of(ctx.clone())));
    match r {
        Err(_) => format!("T={} V=PANIC", ts),
        Ok(Err(_)) => format!("T={} V=ERR", ts),
        Ok(Ok(val)) => format!("T={} V={}", ts, sexp(&val)),
    }
}
