// Codec ops (properties C03, C05, C12, C06): real readers/writers over a scripted stream.
use super::util::{hex, unhex};
use crate::common::frames::{frames_from_stream, Frame};
use crate::common::http::{HttpRequest, HttpResponse};
use crate::common::socks::frames::{decode_socks_frame, encode_socks_frame};
use crate::common::socks::{PasswordAuth, SocksRequest, SocksResponse};
use crate::context::{make_buffered_stream, IOBufStream, TargetAddress};
use bytes::Bytes;
use std::collections::VecDeque;
use std::net::{Ipv4Addr, Ipv6Addr, SocketAddr, SocketAddrV4, SocketAddrV6};
use std::pin::Pin;
use std::sync::{Arc, Mutex};
use std::task::{Context as TaskCx, Poll};
use tokio::io::{AsyncRead, AsyncWrite, ReadBuf};

#[derive(Default)]
pub struct Shared {
    pub chunks: VecDeque<Vec<u8>>,
    pub written: Vec<u8>,
    pub shutdown: bool,
}

/// A stream that delivers exactly the scripted segments (then EOF) and records what is
/// written to it.
pub struct ScriptedStream(pub Arc<Mutex<Shared>>);

impl ScriptedStream {
    pub fn new(chunks: Vec<Vec<u8>>) -> (Self, Arc<Mutex<Shared>>) {
        let sh = Arc::new(Mutex::new(Shared {
            chunks: chunks.into_iter().collect(),
            written: vec![],
            shutdown: false,
        }));
        (ScriptedStream(sh.clone()), sh)
    }
}

impl AsyncRead for ScriptedStream {
    fn poll_read(self: Pin<&mut Self>, _cx: &mut TaskCx<'_>, buf: &mut ReadBuf<'_>) -> Poll<std::io::Result<()>> {
        let mut sh = self.0.lock().unwrap();
        if let Some(mut c) = sh.chunks.pop_front() {
            let n = c.len().min(buf.remaining());
            buf.put_slice(&c[..n]);
            if n < c.len() {
                let rest = c.split_off(n);
                sh.chunks.push_front(rest);
            }
        }
        Poll::Ready(Ok(()))
    }
}

impl AsyncWrite for ScriptedStream {
    fn poll_write(self: Pin<&mut Self>, _cx: &mut TaskCx<'_>, buf: &[u8]) -> Poll<std::io::Result<usize>> {
        self.0.lock().unwrap().written.extend_from_slice(buf);
        Poll::Ready(Ok(buf.len()))
    }
    fn poll_flush(self: Pin<&mut Self>, _cx: &mut TaskCx<'_>) -> Poll<std::io::Result<()>> {
        Poll::Ready(Ok(()))
    }
    fn poll_shutdown(self: Pin<&mut Self>, _cx: &mut TaskCx<'_>) -> Poll<std::io::Result<()>> {
        self.0.lock().unwrap().shutdown = true;
        Poll::Ready(Ok(()))
    }
}

pub fn parse_chunks(s: &str) -> Vec<Vec<u8>> {
    if s == "-" || s.is_empty() {
        return vec![];
    }
    s.split(',').map(unhex).collect()
}

pub fn show_target(t: &TargetAddress) -> String {
    match t {
        TargetAddress::DomainPort(h, p) => format!("D{}:{}", if h.is_empty() { "".to_string() } else { hex(h.as_bytes()) }, p),
        TargetAddress::SocketAddr(SocketAddr::V4(a)) => format!("4{}:{}", hex(&a.ip().octets()), a.port()),
        TargetAddress::SocketAddr(SocketAddr::V6(a)) => format!("6{}:{}", hex(&a.ip().octets()), a.port()),
        TargetAddress::Unknown => "U".to_string(),
    }
}

pub fn parse_target(s: &str) -> TargetAddress {
    if s == "U" {
        return TargetAddress::Unknown;
    }
    let (kind, rest) = s.split_at(1);
    let (h, p) = rest.rsplit_once(':').unwrap();
    let port: u16 = p.parse().unwrap();
    let hb = unhex(h);
    match kind {
        "D" => TargetAddress::DomainPort(String::from_utf8(hb).unwrap(), port),
        "4" => TargetAddress::SocketAddr(SocketAddr::V4(SocketAddrV4::new(Ipv4Addr::new(hb[0], hb[1], hb[2], hb[3]), port))),
        _ => {
            let mut a = [0u8; 16];
            a.copy_from_slice(&hb);
            TargetAddress::SocketAddr(SocketAddr::V6(SocketAddrV6::new(Ipv6Addr::from(a), port, 0, 0)))
        }
    }
}

fn leftover(s: &IOBufStream, sh: &Arc<Mutex<Shared>>) -> Vec<u8> {
    let mut v = s.buffer().to_vec();
    for c in sh.lock().unwrap().chunks.iter() {
        v.extend_from_slice(c);
    }
    v
}

fn show_auth(a: &Option<(String, String)>) -> String {
    match a {
        None => "none".into(),
        Some((u, p)) => format!("{}/{}", hex(u.as_bytes()), hex(p.as_bytes())),
    }
}

fn parse_auth(s: &str) -> Option<(String, String)> {
    if s == "none" {
        return None;
    }
    let (u, p) = s.split_once('/').unwrap();
    Some((String::from_utf8(unhex(u)).unwrap(), String::from_utf8(unhex(p)).unwrap()))
}

// socks_req_read <required 0|1> <chunks>
pub async fn socks_req_read(args: &[&str]) -> String {
    let required = args[0] == "1";
    let (st, sh) = ScriptedStream::new(parse_chunks(args[1]));
    let mut s = make_buffered_stream(st);
    let r = SocksRequest::read_from(&mut s, PasswordAuth { required }).await;
    let lo = leftover(&s, &sh);
    drop(s);
    let w = hex(&sh.lock().unwrap().written);
    match r {
        Ok(q) => format!("OK v={} c={} t={} a={} W={} L={}", q.version, q.cmd, show_target(&q.target), show_auth(&q.auth), w, hex(&lo)),
        Err(_) => format!("ERR W={}", w),
    }
}

// socks_req_write <ver> <cmd> <target> <auth> <reply chunks>
pub async fn socks_req_write(args: &[&str]) -> String {
    let req = SocksRequest {
        version: args[0].parse().unwrap(),
        cmd: args[1].parse().unwrap(),
        target: parse_target(args[2]),
        auth: parse_auth(args[3]),
    };
    let (st, sh) = ScriptedStream::new(parse_chunks(args[4]));
    let mut s = make_buffered_stream(st);
    let r = req.write_to(&mut s, PasswordAuth::optional()).await;
    drop(s);
    let w = hex(&sh.lock().unwrap().written);
    match r {
        Ok(()) => format!("OK W={}", w),
        Err(_) => format!("ERR W={}", w),
    }
}

// socks_resp_read <chunks>
pub async fn socks_resp_read(args: &[&str]) -> String {
    let (st, sh) = ScriptedStream::new(parse_chunks(args[0]));
    let mut s = make_buffered_stream(st);
    let r = SocksResponse::read_from(&mut s).await;
    let lo = leftover(&s, &sh);
    match r {
        Ok(p) => format!("OK v={} c={} t={} L={}", p.version, p.cmd, show_target(&p.target), hex(&lo)),
        Err(_) => "ERR".to_string(),
    }
}

// socks_resp_write <ver> <cmd> <target>
pub async fn socks_resp_write(args: &[&str]) -> String {
    let resp = SocksResponse {
        version: args[0].parse().unwrap(),
        cmd: args[1].parse().unwrap(),
        target: parse_target(args[2]),
    };
    let (st, sh) = ScriptedStream::new(vec![]);
    let mut s = make_buffered_stream(st);
    let r = resp.write_to(&mut s).await;
    drop(s);
    let w = hex(&sh.lock().unwrap().written);
    match r {
        Ok(()) => format!("OK W={}", w),
        Err(_) => format!("ERR W={}", w),
    }
}

fn show_headers(h: &[(String, String)]) -> String {
    if h.is_empty() {
        return "-".into();
    }
    h.iter()
        .map(|(k, v)| format!("{}={}", hex(k.as_bytes()), hex(v.as_bytes())))
        .collect::<Vec<_>>()
        .join(";")
}

fn parse_headers(s: &str) -> Vec<(String, String)> {
    if s == "-" {
        return vec![];
    }
    s.split(';')
        .map(|kv| {
            let (k, v) = kv.split_once('=').unwrap();
            (String::from_utf8(unhex(k)).unwrap(), String::from_utf8(unhex(v)).unwrap())
        })
        .collect()
}

// http_req_read <chunks>
pub async fn http_req_read(args: &[&str]) -> String {
    let (st, sh) = ScriptedStream::new(parse_chunks(args[0]));
    let mut s = make_buffered_stream(st);
    let r = HttpRequest::read_from(&mut s).await;
    let lo = leftover(&s, &sh);
    match r {
        Ok(q) => format!(
            "OK m={} r={} v={} h={} L={}",
            hex(q.method.as_bytes()), hex(q.resource.as_bytes()), hex(q.version.as_bytes()), show_headers(&q.headers), hex(&lo)
        ),
        Err(_) => "ERR".to_string(),
    }
}

// http_resp_read <chunks>
pub async fn http_resp_read(args: &[&str]) -> String {
    let (st, sh) = ScriptedStream::new(parse_chunks(args[0]));
    let mut s = make_buffered_stream(st);
    let r = HttpResponse::read_from(&mut s).await;
    let lo = leftover(&s, &sh);
    match r {
        Ok(p) => format!(
            "OK v={} c={} s={} h={} L={}",
            hex(p.version.as_bytes()), p.code, hex(p.status.as_bytes()), show_headers(&p.headers), hex(&lo)
        ),
        Err(_) => "ERR".to_string(),
    }
}

// http_req_write <method> <resource> <version> <headers>
pub async fn http_req_write(args: &[&str]) -> String {
    let q = HttpRequest {
        method: String::from_utf8(unhex(args[0])).unwrap(),
        resource: String::from_utf8(unhex(args[1])).unwrap(),
        version: String::from_utf8(unhex(args[2])).unwrap(),
        headers: parse_headers(args[3]),
    };
    let (st, sh) = ScriptedStream::new(vec![]);
    let mut s = make_buffered_stream(st);
    let r = q.write_to(&mut s).await;
    drop(s);
    let w = hex(&sh.lock().unwrap().written);
    match r {
        Ok(()) => format!("OK W={}", w),
        Err(_) => format!("ERR W={}", w),
    }
}

// http_resp_write <version> <code> <status> <headers> [<body>]
pub async fn http_resp_write(args: &[&str]) -> String {
    let p = HttpResponse {
        version: String::from_utf8(unhex(args[0])).unwrap(),
        code: args[1].parse().unwrap(),
        status: String::from_utf8(unhex(args[2])).unwrap(),
        headers: parse_headers(args[3]),
    };
    let (st, sh) = ScriptedStream::new(vec![]);
    let mut s = make_buffered_stream(st);
    let r = if args.len() > 4 {
        p.write_with_body(&mut s, &unhex(args[4])).await
    } else {
        p.write_to(&mut s).await
    };
    drop(s);
    let w = hex(&sh.lock().unwrap().written);
    match r {
        Ok(()) => format!("OK W={}", w),
        Err(_) => format!("ERR W={}", w),
    }
}

pub fn show_frame(f: &Frame) -> String {
    let addr = match &f.addr {
        None => "none".to_string(),
        Some(a) => show_target(a),
    };
    format!("F/{}/{}/{}", f.session_id, addr, hex(&f.body))
}

fn parse_frame(sid: &str, addr: &str, body: &str) -> Frame {
    let mut f = Frame::from_body(Bytes::from(unhex(body)));
    f.session_id = sid.parse().unwrap();
    f.addr = if addr == "none" { None } else { Some(parse_target(addr)) };
    f
}

pub fn parse_frame_pub(sid: &str, addr: &str, body: &str) -> Frame {
    parse_frame(sid, addr, body)
}

// frame_decode <hex>
pub fn frame_decode(args: &[&str]) -> String {
    match Frame::from_buffer(Bytes::from(unhex(args[0]))) {
        Ok(f) => format!("OK {}", show_frame(&f)),
        Err(_) => "ERR".into(),
    }
}

// frame_encode <sid> <addr> <body>: Frame::write_to on a scripted stream
pub async fn frame_encode(args: &[&str]) -> String {
    let f = parse_frame(args[0], args[1], args[2]);
    let (mut st, sh) = ScriptedStream::new(vec![]);
    let r = f.write_to(&mut st).await;
    let w = hex(&sh.lock().unwrap().written);
    match r {
        Ok(_) => format!("OK W={}", w),
        Err(_) => format!("ERR W={}", w),
    }
}

// frame_stream <chunks>: the real StreamFrameReader (via frames_from_stream) until end or error
pub async fn frame_stream(args: &[&str]) -> String {
    let (st, _sh) = ScriptedStream::new(parse_chunks(args[0]));
    let (mut r, _w) = frames_from_stream(0, st);
    let mut out = Vec::new();
    loop {
        match r.read().await {
            Ok(Some(f)) => out.push(show_frame(&f)),
            Ok(None) => {
                out.push("END".into());
                break;
            }
            Err(_) => {
                out.push("ERR".into());
                break;
            }
        }
        if out.len() > 10000 {
            break;
        }
    }
    out.join(",")
}

// udp_decode <hex>
pub fn udp_decode(args: &[&str]) -> String {
    let f = Frame::from_body(Bytes::from(unhex(args[0])));
    match decode_socks_frame(f) {
        Ok(f) => format!("OK {}", show_frame(&f)),
        Err(_) => "ERR".into(),
    }
}

// udp_encode <addr> <body>
pub fn udp_encode(args: &[&str]) -> String {
    let f = parse_frame("0", args[0], args[1]);
    match encode_socks_frame(f) {
        Ok(b) => format!("OK W={}", hex(&b)),
        Err(_) => "ERR".into(),
    }
}

// target_parse <hex of the text>
pub fn target_parse(args: &[&str]) -> String {
    let s = String::from_utf8_lossy(&unhex(args[0])).to_string();
    match s.parse::<TargetAddress>() {
        Ok(t) => format!("OK {}", show_target(&t)),
        Err(_) => "ERR".into(),
    }
}

// target_print <target>
pub fn target_print(args: &[&str]) -> String {
    hex(parse_target(args[0]).to_string().as_bytes())
}

// connect_write <target> <reply chunks>: the real h11c_connect (TCP) against a scripted next hop
pub async fn connect_write(args: &[&str]) -> String {
    let gs: Arc<crate::context::GlobalState> = Default::default();
    let ctx = gs.create_context("l".into(), "127.0.0.1:1".parse().unwrap()).await;
    ctx.write().await.set_target(parse_target(args[0]));
    if args.len() > 2 && args[2] == "udp" {
        ctx.write().await.set_feature(crate::context::Feature::UdpForward);
    }
    let (st, sh) = ScriptedStream::new(parse_chunks(args[1]));
    let s = make_buffered_stream(st);
    let a: SocketAddr = "127.0.0.1:2".parse().unwrap();
    let r = crate::common::h11c::h11c_connect(s, ctx.clone(), a, a, "inline", |_| async { panic!("not supported") }).await;
    let w = hex(&sh.lock().unwrap().written);
    match r {
        Ok(()) => format!("OK W={}", w),
        Err(_) => format!("ERR W={}", w),
    }
}
