// config_load <yaml hex> [probe]: the start-up block of main() (src/main.rs) on a configuration document given
// as text, without listening.  Reports the stage that rejected it, or OK; with `probe`, an accepted
// configuration additionally serves one request per connector through process_request with the target
// 127.0.0.1:1 (nothing listens there): it must return, not crash or recurse for ever.
use super::util::unhex;
use crate::context::ContextRefOps;
use std::sync::Arc;

pub async fn config_load(args: &[&str]) -> String {
    let s = match String::from_utf8(unhex(args[0])) {
        Ok(s) => s,
        Err(_) => return "ERR utf8".into(),
    };
    let cfg: crate::config::Config = match serde_yaml::from_str(&s) {
        Ok(c) => c,
        Err(_) => return "ERR yaml".into(),
    };
    let mut state: Arc<crate::GlobalState> = Default::default();
    {
        let st_mut = Arc::get_mut(&mut state).unwrap();
        st_mut.timeouts = cfg.timeouts;
        st_mut.listeners = match crate::listeners::from_config(&cfg.listeners) {
            Ok(x) => x,
            Err(_) => return "ERR listeners".into(),
        };
        st_mut.connectors = match crate::connectors::from_config(&cfg.connectors) {
            Ok(x) => x,
            Err(_) => return "ERR connectors".into(),
        };
        #[cfg(feature = "metrics")]
        if let Some(mut metrics) = cfg.metrics {
            if metrics.init().is_err() {
                return "ERR metrics-init".into();
            }
        }
        if let Some(mut log) = cfg.access_log {
            if log.init().await.is_err() {
                return "ERR access-log-init".into();
            }
            // the writer task opens the file on its own: give it the time to fail
            tokio::time::sleep(std::time::Duration::from_millis(50)).await;
            Arc::get_mut(&mut st_mut.contexts).unwrap().access_log = Some(log);
        }
        for l in st_mut.listeners.values_mut() {
            if Arc::get_mut(l).unwrap().init().await.is_err() {
                return "ERR listener-init".into();
            }
        }
        for c in st_mut.connectors.values_mut() {
            if Arc::get_mut(c).unwrap().init().await.is_err() {
                return "ERR connector-init".into();
            }
        }
        let rules = match crate::rules::from_config(&cfg.rules) {
            Ok(r) => r,
            Err(_) => return "ERR rules".into(),
        };
        if st_mut.set_rules(rules).await.is_err() {
            return "ERR set-rules".into();
        }
        st_mut.io_params = cfg.io_params;
    }
    for l in state.listeners.values() {
        if l.verify(state.clone()).await.is_err() {
            return "ERR listener-verify".into();
        }
    }
    for c in state.connectors.values() {
        if c.verify(state.clone()).await.is_err() {
            return "ERR connector-verify".into();
        }
    }
    if args.len() > 1 && args[1] == "probe" {
        let mut names: Vec<String> = state.connectors.keys().cloned().collect();
        names.sort();
        // connectors the caller excludes from the probe (QUIC: an unreachable server is waited for, see C19)
        let skip: Vec<String> = if args.len() > 2 && args[2] != "-" {
            args[2].split(',').map(|h| String::from_utf8_lossy(&unhex(h)).to_string()).collect()
        } else {
            vec![]
        };
        for n in names {
            if skip.contains(&n) {
                continue;
            }
            let conn = state.connectors.get(&n).unwrap().clone();
            let ctx = state.contexts.create_context("probe".into(), "127.0.0.1:9".parse().unwrap()).await;
            ctx.write().await.set_target("127.0.0.1:1".parse().unwrap());
            let st = state.clone();
            let c2 = ctx.clone();
            let r = tokio::time::timeout(std::time::Duration::from_secs(5), async move { conn.connect(st, c2).await }).await;
            if r.is_err() {
                return format!("HANG connector {}", super::util::hex(n.as_bytes()));
            }
            ctx.on_error(easy_error::err_msg("probe done")).await;
        }
    }
    "OK".into()
}

// udp_reader_error: a UDP session whose peer port is closed: one frame is written (answered by ICMP port unreachable),
// then the session's frame reader is read once.  Reports what the reader yields for the failed receive.
pub async fn udp_reader_error(_args: &[&str]) -> String {
    use crate::common::frames::Frame;
    let closed = {
        let s = std::net::UdpSocket::bind("127.0.0.1:0").unwrap();
        s.local_addr().unwrap()
    }; // socket dropped: the port is closed again
    let (_tx, rx) = tokio::sync::mpsc::channel(4);
    let io = crate::common::udp::setup_udp_session("127.0.0.1:9".parse().unwrap(), "127.0.0.1:0".parse().unwrap(), closed, rx, false);
    let (mut reader, mut writer) = match io {
        Ok(x) => x,
        Err(e) => return format!("ERR setup {}", e),
    };
    let mut f = Frame::new();
    f.body = bytes::Bytes::from_static(b"probe");
    if let Err(e) = writer.write(f).await {
        return format!("ERR first write {}", e);
    }
    tokio::time::sleep(std::time::Duration::from_millis(200)).await;
    match tokio::time::timeout(std::time::Duration::from_secs(2), reader.read()).await {
        Err(_) => "OK reader=pending".into(),
        Ok(Err(e)) => format!("OK reader=error kind={:?}", e.kind()),
        Ok(Ok(None)) => "OK reader=end".into(),
        Ok(Ok(Some(fr))) => format!("OK reader=frame len={}", fr.body().len()),
    }
}

// socks_select <required 0|1> <methods hex>: PasswordAuth::select_method
pub fn socks_select(args: &[&str]) -> String {
    use crate::common::socks::{PasswordAuth, SocksAuthServer};
    let a = PasswordAuth { required: args[0] == "1" };
    match a.select_method(&unhex(args[1])) {
        Some(m) => format!("OK {}", m),
        None => "OK none".into(),
    }
}

// auth_check <required 0|1> <users u:p,.. (hex)> <creds u:p (hex) | ->: AuthData::check without external command
pub async fn auth_check(args: &[&str]) -> String {
    fn pair(s: &str) -> Option<(String, String)> {
        let mut it = s.split(':');
        let u = String::from_utf8(unhex(it.next()?)).ok()?;
        let p = String::from_utf8(unhex(it.next()?)).ok()?;
        Some((u, p))
    }
    let mut users = vec![];
    if args[1] != "-" {
        for u in args[1].split(',') {
            match pair(u) {
                Some((a, b)) => users.push(serde_json::json!({"username": a, "password": b})),
                None => return "OPAQUE".into(),
            }
        }
    }
    let doc = serde_json::json!({"required": args[0] == "1", "users": users});
    let data: crate::common::auth::AuthData = match serde_json::from_value(doc) {
        Ok(d) => d,
        Err(e) => return format!("ERR {}", e),
    };
    let key = if args[2] == "-" {
        None
    } else {
        match pair(args[2]) {
            Some(k) => Some(k),
            None => return "OPAQUE".into(),
        }
    };
    format!("OK {}", data.check(&key).await)
}
