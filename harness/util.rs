pub fn unhex(s: &str) -> Vec<u8> {
    let s = s.trim();
    if s == "-" || s.is_empty() {
        return vec![];
    }
    let b = s.as_bytes();
    let mut v = Vec::with_capacity(b.len() / 2);
    let mut i = 0;
    while i + 1 < b.len() {
        let h = (b[i] as char).to_digit(16).unwrap() as u8;
        let l = (b[i + 1] as char).to_digit(16).unwrap() as u8;
        v.push(h << 4 | l);
        i += 2;
    }
    v
}

pub fn hex(b: &[u8]) -> String {
    if b.is_empty() {
        return "-".into();
    }
    let mut s = String::with_capacity(b.len() * 2);
    for x in b {
        s.push_str(&format!("{:02x}", x));
    }
    s
}
