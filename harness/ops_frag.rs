// Fragmentation / reassembly ops (properties C11, C05).
use super::util::{hex, unhex};
use crate::common::fragment::{Fragmentable, Fragments};
use crate::common::frames::Frame;
use bytes::Bytes;
use std::time::Duration;

// identity payload: exposes the fragment layer alone
pub struct Raw(pub Bytes);
impl Fragmentable for Raw {
    type Buffer = Bytes;
    fn as_buffer(&self) -> Bytes {
        self.0.clone()
    }
    fn from_buffer(buf: Bytes) -> Option<Self> {
        Some(Raw(buf))
    }
}

fn show_frame(f: &Frame) -> String {
    let addr = match &f.addr {
        None => "none".to_string(),
        Some(a) => super::ops_codec::show_target(a),
    };
    format!("F:{}:{}:{}", f.session_id, addr, hex(&f.body))
}

// frag_seq <kind raw|frame> <timeout z|l> <op,op,...>   op = r<hex> | t
// output: per op `-` (nothing) or the emitted frame, joined by ','
pub fn frag_seq(args: &[&str]) -> String {
    let kind = args[0];
    let timeout = if args[1] == "z" {
        Duration::from_secs(0)
    } else if args[1] == "m" {
        Duration::from_millis(500)
    } else {
        Duration::from_secs(3600)
    };
    let ops: Vec<&str> = if args.len() > 2 { args[2].split(',').collect() } else { vec![] };
    let mut out = Vec::new();
    if kind == "raw" {
        let mut f: Fragments<Raw> = Fragments::new(timeout);
        for op in ops {
            if let Some(h) = op.strip_prefix('r') {
                match f.reassemble(Bytes::from(unhex(h))) {
                    None => out.push("-".to_string()),
                    Some(Raw(b)) => out.push(format!("E{}", hex(&b))),
                }
            } else if op == "w" {
                // a wait longer than the medium lifetime (mode m)
                std::thread::sleep(Duration::from_millis(1000));
                out.push("w".to_string());
            } else {
                std::thread::sleep(Duration::from_micros(50));
                f.timer();
                out.push("t".to_string());
            }
        }
    } else {
        let mut f: Fragments<Frame> = Fragments::new(timeout);
        for op in ops {
            if let Some(h) = op.strip_prefix('r') {
                match f.reassemble(Bytes::from(unhex(h))) {
                    None => out.push("-".to_string()),
                    Some(fr) => out.push(show_frame(&fr)),
                }
            } else {
                std::thread::sleep(Duration::from_micros(50));
                f.timer();
                out.push("t".to_string());
            }
        }
    }
    out.join(",")
}

// frag_make <mtu> <next_id> <hex payload>  -> <new next_id> <frag,frag,...>
pub fn frag_make(args: &[&str]) -> String {
    let mtu: usize = args[0].parse().unwrap();
    let mut next_id: u16 = args[1].parse().unwrap();
    let payload = Bytes::from(unhex(args[2]));
    let frags: Vec<String> = Fragments::<Raw>::make_fragments(mtu, &mut next_id, Raw(payload))
        .map(|b| hex(&b))
        .collect();
    format!("{} {}", next_id, frags.join(","))
}

// frag_rt <mtu> <next_id> <hex payload> <perm: comma separated indices into the fragment list>
// make fragments with the real code, feed them in the given order (indices may repeat),
// report what is emitted per step.
pub fn frag_roundtrip(args: &[&str]) -> String {
    let mtu: usize = args[0].parse().unwrap();
    let mut next_id: u16 = args[1].parse().unwrap();
    let payload = Bytes::from(unhex(args[2]));
    let frags: Vec<Bytes> =
        Fragments::<Raw>::make_fragments(mtu, &mut next_id, Raw(payload)).collect();
    let mut f: Fragments<Raw> = Fragments::new(Duration::from_secs(3600));
    let mut out = Vec::new();
    for ix in args[3].split(',') {
        let i: usize = ix.parse().unwrap();
        match f.reassemble(frags[i % frags.len().max(1)].clone()) {
            None => out.push("-".to_string()),
            Some(Raw(b)) => out.push(format!("E{}", hex(&b))),
        }
    }
    format!("{} {}", frags.len(), out.join(","))
}

// dgram_hop <mtu> <ids: shared:<start> | own | i,j,..> <writes sid/addr/body;...> <sched k.i,...>
// the sending half of QuicFrameWriter::write (stamp the session id, check_encodable, make_fragments with the id the case gives
// the write) for every write, the wire the schedule induces, and one Fragments<Frame> table for all of them
pub fn dgram_hop(args: &[&str]) -> String {
    let mtu: usize = args[0].parse().unwrap();
    let writes: Vec<Vec<&str>> = args[2].split(';').map(|w| w.split('/').collect()).collect();
    let ids: Vec<u16> = if let Some(start) = args[1].strip_prefix("shared:") {
        let start: u32 = start.parse().unwrap();
        (0..writes.len() as u32).map(|k| ((start + k) % 65536) as u16).collect()
    } else if args[1] == "own" {
        let mut seen: std::collections::HashMap<&str, u32> = Default::default();
        writes
            .iter()
            .map(|w| {
                let c = seen.entry(w[0]).or_insert(0);
                let id = (*c % 65536) as u16;
                *c += 1;
                id
            })
            .collect()
    } else {
        args[1].split(',').map(|i| i.parse().unwrap()).collect()
    };
    let mut sent: Vec<Vec<Bytes>> = Vec::new();
    for (w, id) in writes.iter().zip(ids.iter()) {
        let mut f = super::ops_codec::parse_frame_pub("0", w[1], if w[2] == "-" { "" } else { w[2] });
        f.session_id = w[0].parse().unwrap();
        if f.check_encodable().is_err() {
            return "SEND-ERR".into();
        }
        let mut next = *id;
        sent.push(Fragments::<Frame>::make_fragments(mtu, &mut next, f).collect());
    }
    let mut table: Fragments<Frame> = Fragments::new(Duration::from_secs(3600));
    let mut out = Vec::new();
    if args[3] != "-" {
        for e in args[3].split(',') {
            let (k, i) = e.split_once('.').unwrap();
            let (k, i): (usize, usize) = (k.parse().unwrap(), i.parse().unwrap());
            let dg = sent.get(k).and_then(|frs| frs.get(i)).cloned().unwrap_or_default();
            match table.reassemble(dg) {
                None => out.push("-".to_string()),
                Some(fr) => out.push(super::ops_codec::show_frame(&fr)),
            }
        }
    }
    format!("ids={} {}", ids.iter().map(|i| i.to_string()).collect::<Vec<_>>().join(","), out.join(","))
}
