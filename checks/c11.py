"""C11 — fragmentation / reassembly exact under reordering and duplication.
Proof: coq/theories/Props/C11.v.  Tie: differential correspondence of the extracted model
(Frag.v) with src/common/fragment.rs through the hook-built driver, plus the property's own
oracle on the implementation outputs."""
import itertools
import json

from common import *


def payload(r, n):
    return bytes(r.randrange(256) for _ in range(n))


def gen_make(r, tier):
    lens = list(range(1, 41)) + [63, 64, 65, 100, 255, 256, 1000, 1195, 1196, 1197, 2392, 2393, 5000, 65535, 65535 + 12 + 257]
    mtus = [5, 6, 8, 64, 523, 1200, 1452, 65535]
    if tier == "thorough":
        lens += list(range(41, 300, 7)) + [r.randrange(1, 70000) for _ in range(60)]
        mtus += [7, 9, 100, 1199, 1201]
    cases = []
    for L in lens:
        for m in mtus:
            if L // (m - 4) > 2000:
                continue
            nid = r.choice([0, 1, 255, 256, 65534, 65535, r.randrange(65536)])
            cases.append(("make", "frag_make %d %d %s" % (m, nid, hexs(payload(r, L))), dict(mtu=m, nid=nid, L=L)))
    return cases


def gen_rt(r, tier):
    cases = []
    kmax = 6 if tier == "thorough" else 5
    for k in range(1, kmax + 1):
        size = r.choice([1, 2, 3, 7])
        for perm in itertools.permutations(range(k)):
            L = size * (k - 1) + r.randrange(1, size + 1)
            p = payload(r, L)
            cases.append(("rt", "frag_rt %d %d %s %s" % (size + 4, r.randrange(65536), hexs(p), ",".join(map(str, perm))),
                          dict(k=k, ixs=list(perm), payload=p.hex())))
    # duplicates: one extra copy of any fragment at any position (exhaustive for k<=4), then random
    for k in range(1, 5):
        size = 2
        for perm in itertools.permutations(range(k)):
            for d in range(k):
                for pos in range(k + 1):
                    ixs = list(perm)
                    ixs.insert(pos, d)
                    L = size * (k - 1) + 1
                    p = payload(r, L)
                    cases.append(("rt", "frag_rt %d %d %s %s" % (size + 4, r.randrange(65536), hexs(p), ",".join(map(str, ixs))),
                                  dict(k=k, ixs=ixs, payload=p.hex())))
    nrand = 4000 if tier == "thorough" else 600
    for _ in range(nrand):
        k = r.choice([1, 2, 3, 4, 5, 6, 7, 8, 12, 20, 60, 127])
        size = r.choice([1, 2, 5, 16])
        n = r.randrange(1, 2 * k + 3)
        if r.random() < 0.6:
            ixs = list(range(k))
            r.shuffle(ixs)
            ixs += [r.randrange(k) for _ in range(r.randrange(0, 4))]
            if r.random() < 0.5:
                r.shuffle(ixs)
        else:
            ixs = [r.randrange(k) for _ in range(n)]
        L = size * (k - 1) + r.randrange(1, size + 1)
        p = payload(r, L)
        cases.append(("rt", "frag_rt %d %d %s %s" % (size + 4, r.randrange(65536), hexs(p), ",".join(map(str, ixs))),
                      dict(k=k, ixs=ixs, payload=p.hex())))
    return cases


def frag(idv, total, seq, body):
    return bytes([idv >> 8, idv & 255, total, seq]) + body


def gen_seq(r, tier):
    cases = []
    # malformed headers, alone and against an existing entry
    grid = []
    if tier == "thorough":
        grid = [(t, s) for t in range(256) for s in range(256)]
    else:
        edge = [0, 1, 2, 3, 63, 64, 126, 127, 128, 129, 130, 131, 200, 254, 255]
        grid = [(t, s) for t in edge for s in edge] + [(r.randrange(256), r.randrange(256)) for _ in range(400)]
    for (t, s) in grid:
        for blen in ([0, 1] if tier == "thorough" else [r.choice([0, 1, 3])]):
            body = payload(r, blen)
            ops = ["r" + hexs(frag(7, t, s, body))]
            cases.append(("hdr", "frag_seq raw l " + ",".join(ops), dict(total=t, seq=s)))
            ops2 = ["r" + hexs(frag(7, 3, 0, b"a")), "r" + hexs(frag(7, t, s, body)), "r" + hexs(frag(7, 3, 1, b"b")), "r" + hexs(frag(7, 3, 2, b"c"))]
            cases.append(("hdr2", "frag_seq raw l " + ",".join(ops2), dict(total=t, seq=s)))
    for n in range(0, 4):
        for _ in range(4):
            cases.append(("short", "frag_seq raw l r" + hexs(payload(r, n)) + ",r" + hexs(frag(1, 2, 0, b"x")) + ",r" + hexs(payload(r, n)) + ",r" + hexs(frag(1, 2, 1, b"y")), dict(n=n)))
    # interleavings of several frames, some with timers
    nint = 3000 if tier == "thorough" else 500
    for _ in range(nint):
        m = r.randrange(1, 5)
        ids = r.sample([0, 1, 2, 255, 256, 65534, 65535, r.randrange(65536)], m) if r.random() < 0.8 else [5] * m
        streams = []
        for idv in ids:
            k = r.randrange(1, 6)
            bodies = [payload(r, r.randrange(0, 4)) for _ in range(k)]
            fr = [frag(idv, k, i, bodies[i]) for i in range(k)]
            order = list(range(k))
            r.shuffle(order)
            if r.random() < 0.3:
                order.append(r.randrange(k))
            if r.random() < 0.2 and order:
                order.pop()
            streams.append([fr[i] for i in order])
        ops = []
        while any(streams):
            s = r.choice([x for x in streams if x])
            ops.append("r" + hexs(s.pop(0)))
            if r.random() < 0.08:
                ops.append("t")
            if r.random() < 0.05:
                ops.append("r" + hexs(payload(r, r.randrange(0, 8))))
        tmo = r.choice(["l", "l", "z"])
        cases.append(("mix", "frag_seq raw %s %s" % (tmo, ",".join(ops)), dict(m=m, tmo=tmo)))
    # a medium lifetime with explicit waits: at a timer call some queued frames have expired and others have not, so
    # that which end of the deadline queue is discarded matters
    for _ in range(40 if tier == "thorough" else 10):
        nf = r.randrange(2, 5)
        frames = []
        for j in range(nf):
            k = r.randrange(2, 5)
            idv = 100 + j
            bodies = [payload(r, r.randrange(1, 4)) for _ in range(k)]
            frames.append([frag(idv, k, i, bodies[i]) for i in range(k)])
        ops = []
        cut = r.randrange(1, nf)                      # frames before `cut` start early and expire
        for fr in frames[:cut]:
            ops.append("r" + hexs(fr[0]))
        ops.append("w")
        for fr in frames[cut:]:
            ops.append("r" + hexs(fr[0]))
        ops.append("t")
        rest = [x for fr in frames for x in fr[1:]]
        r.shuffle(rest)
        ops += ["r" + hexs(x) for x in rest]
        if r.random() < 0.5:
            ops += ["w", "t", "r" + hexs(frames[0][0])]
        fresh = sorted(b"".join(f[4:] for f in fr).hex() for fr in frames[cut:])
        cases.append(("mix-medium", "frag_seq raw m " + ",".join(ops), dict(m=nf, tmo="m", fresh=fresh, cut=cut)))
    return cases


def count_covers(k, ixs):
    """number of consecutive disjoint complete covers (greedy) of 0..k-1 in ixs"""
    seen, n = set(), 0
    for i in ixs:
        seen.add(i)
        if len(seen) == k:
            n += 1
            seen = set()
    return n


def oracle(kind, line, out, meta):
    """Property oracle on the implementation output alone.  Returns (ok, what, tags)."""
    if out.startswith("PANIC") or out.startswith("CRASH"):
        return False, "reassembler/fragmenter panicked: " + out, ()
    if kind == "make":
        nid, _, frs = out.partition(" ")
        frs = [bytes.fromhex(f) if f != "-" else b"" for f in frs.split(",")] if frs else []
        m, L = meta["mtu"], meta["L"]
        want_n = -(-L // (m - 4))
        if want_n > 127:
            return True, "", ()       # outside the contract (total does not fit 7 bits)
        pl = bytes.fromhex(line.split(" ")[3]) if line.split(" ")[3] != "-" else b""
        if len(frs) != want_n:
            return False, "fragment count %d != %d" % (len(frs), want_n), ()
        if b"".join(f[4:] for f in frs) != pl:
            return False, "fragment payloads do not concatenate to the frame", ()
        for i, f in enumerate(frs):
            if len(f) > m:
                return False, "fragment longer than the MTU", ()
            if f[:4] != bytes([meta["nid"] >> 8, meta["nid"] & 255, want_n, i]):
                return False, "bad fragment header %s" % f[:4].hex(), ()
        if int(nid) != (meta["nid"] + 1) % 65536:
            return False, "next id %s" % nid, ()
        return True, "", ()
    if kind == "rt":
        k, ixs = meta["k"], meta["ixs"]
        parts = out.split(" ")
        if int(parts[0]) != k:
            return False, "fragment count %s != %d" % (parts[0], k), ()
        outs = parts[1].split(",")
        em = [o for o in outs if o != "-"]
        if any(o != "E" + meta["payload"] for o in em):
            return False, "emitted frame differs from the original", ()
        covers = count_covers(k, ixs)
        if covers == 0 and em:
            return False, "frame emitted from an incomplete fragment set", ()
        if covers >= 1 and len(em) == 0:
            return False, "complete fragment set delivered nothing", ()
        if covers == 1 and len(em) != 1:
            return False, "frame delivered %d times" % len(em), ()
        if covers >= 2:
            if len(em) > covers:
                return False, "frame delivered %d times for %d complete copies" % (len(em), covers), ()
            if len(em) > 1:
                return False, "a second complete copy of the fragments delivers the frame again", ("C11-dup-cover",)
        return True, "", ()
    if kind == "mix-medium":
        # frames whose first fragment arrived before the wait have expired at the timer call and are discarded; the
        # frames started after the wait are within their lifetime: each is delivered exactly once, unmodified
        em = sorted(o[1:] for o in out.split(",") if o.startswith("E"))
        if em != meta["fresh"]:
            return False, "frames within their lifetime when the timer ran: %d, delivered: %d (%s)" % (len(meta["fresh"]), len(em), "a frame that had not expired was discarded" if len(em) < len(meta["fresh"]) else "an expired or foreign frame was delivered"), ()
        return True, "", ()
    return True, "", ()


def nontrivial(kind, out):
    return ("E" in out) or kind in ("hdr", "hdr2", "short")


def run(tier, seed, replay=None):
    rep = Report("C11", tier, seed)
    coq = coq_build("C11")
    proof_coverage(rep, coq)
    broken = handle_coq_result(rep, coq)
    model = ensure_model_run()
    driver, blog = ensure_driver("release")
    if driver is None:
        rep.coverage.update({"evaluations": 0, "distinct_nontrivial": 0})
        rep.broken_obligation("correspondence C11: hook-built driver does not build from /repo", blog[-3000:])
        return rep.finish()
    r = rng(seed, "C11")
    if replay:
        rp = json.load(open(replay))
        cases = [(c["kind"], c["line"], c["meta"]) for c in rp.get("cases", [])]
    else:
        cases = gen_make(r, tier) + gen_rt(r, tier) + gen_seq(r, tier)
    lines = [c[1] for c in cases]
    impl = run_impl(driver, lines)
    mod = run_model(model, lines, "release")
    dist = {}
    seen_nt = set()
    n_diff = 0
    first_diff = None
    for (kind, line, meta), oi, om in zip(cases, impl, mod):
        dist[kind] = dist.get(kind, 0) + 1
        ok, what, tags = oracle(kind, line, oi, meta)
        if not ok:
            rep.fail("C11 oracle: " + what, {"kind": "failing-input", "cases": [dict(kind=kind, line=line, meta=meta)],
                                             "observed": oi, "model": om,
                                             "rerun": "./check C11 --replay <this file>"}, tags)
        if canon(oi) != canon(om):
            n_diff += 1
            if first_diff is None:
                first_diff = dict(kind=kind, line=line, meta=meta, impl=oi, model=om)
        if nontrivial(kind, oi):
            seen_nt.add(line)
    if tier == "thorough" and not replay:
        drv_dbg, _ = ensure_driver("debug")
        if drv_dbg:
            impl_d = run_impl(drv_dbg, lines)
            mod_d = run_model(model, lines, "debug")
            for (kind, line, meta), oi, om in zip(cases, impl_d, mod_d):
                if canon(oi) != canon(om):
                    n_diff += 1
                    if first_diff is None:
                        first_diff = dict(kind=kind, line=line, meta=meta, impl=oi, model=om, arith="debug")
            rep.coverage["debug_arithmetic_cases"] = len(lines)
    if n_diff and not rep.violations:
        rep.broken_obligation("correspondence C11: model Frag.v and src/common/fragment.rs differ on %d case(s)" % n_diff,
                              json.dumps(first_diff))
        rep.violations[-1][1]["cases"] = [dict(kind=first_diff["kind"], line=first_diff["line"], meta=first_diff["meta"])]
    if broken and not rep.violations:
        rep.broken_obligation(broken[0], broken[1])
    rep.coverage.update({
        "evaluations": len(cases),
        "distinct_nontrivial": len(seen_nt),
        "rule": "cases: sender grid (length x MTU), all permutations of <=%d fragments, every single-duplicate insertion for <=4 fragments, random index sequences up to 127 fragments, (total,seq) header grid alone and against a queued frame, short datagrams, random interleavings of 1-4 frames with timers; non-trivial = distinct case whose implementation output delivers a frame or exercises a refused header" % (6 if tier == "thorough" else 5),
        "input_distribution": dist,
        "model_impl_disagreements": n_diff,
        "samples": [dict(case=cases[i][1][:200], impl=impl[i][:120], model=mod[i][:120]) for i in range(0, len(cases), max(1, len(cases) // 6))][:6],
        "exhaustive": False,
    })
    rep.assumptions = ["the logical clock of the model (one tick per op) stands for Instant::now(); timer tests use a zero or a one-hour lifetime only",
                       "shipped arithmetic is the release profile (wrapping); overflow-checked arithmetic is compared in the thorough tier"]
    return rep.finish()
