"""Two chained instances of the real binary on loopback (entry P1 -> exit P2 -> origins) so that every
connector kind talks to the matching listener kind of the same code base: http, https (TLS), socks5,
socks4, quic, load balancer, direct.  Used by the relay checks (C01, C04)."""
import os
import socket
import ssl
import struct
import subprocess
import threading
import time

from common import CACHE, log
import e2e
from e2e import LOOP

CONNECTORS = ["direct", "c_http", "c_https", "c_socks5", "c_socks4", "c_quic", "lb"]
CLIENTS = ["http", "https", "socks5", "socks4", "socks4a", "socks5tls", "reverse"]
BEHAVIOURS = ["echo", "banner", "source", "closefirst", "sink"]
BANNER = b"220 origin ready " + bytes(range(33, 127)) * 10 + b"\r\n"
SOURCE_LEN = {"quick": 700_000, "thorough": 5_000_000, "tiny": 40_000}


def tls_material():
    d = os.path.join(CACHE, "tls")
    crt, key = os.path.join(d, "test.crt"), os.path.join(d, "test.key")
    if not (os.path.exists(crt) and os.path.exists(key)):
        os.makedirs(d, exist_ok=True)
        p = subprocess.run(["openssl", "req", "-x509", "-newkey", "rsa:2048", "-nodes", "-keyout", key, "-out", crt, "-days", "3650",
                            "-subj", "/CN=localhost", "-addext", "subjectAltName=DNS:localhost,IP:127.0.0.1"],
                           stdout=subprocess.PIPE, stderr=subprocess.STDOUT, text=True)
        if p.returncode != 0:
            raise RuntimeError("openssl: " + p.stdout[-500:])
    return crt, key


def source_bytes(n):
    blk = bytes((i * 131 + (i >> 8) * 7 + 3) & 0xff for i in range(65536))
    return (blk * (n // 65536 + 1))[:n]


def make_origin(behaviour, tier):
    src = source_bytes(SOURCE_LEN[tier])
    close_first = source_bytes(100_000)

    def h(c, a, rec):
        c.settimeout(30)
        rec["behaviour"] = behaviour
        if behaviour == "hold":
            # read until end-of-stream, then keep writing: a proxy that has closed its side answers with a reset
            while True:
                d = c.recv(65536)
                if not d:
                    break
                rec["rx"] += d
            rec["eof"] = True
            rec["eof_at"] = time.time()
            rec["write_failed_at"] = None
            for _ in range(40):
                try:
                    c.sendall(b"h")
                except OSError:
                    rec["write_failed_at"] = time.time()
                    break
                time.sleep(0.1)
            return
        if behaviour == "idlehold":
            # read until end-of-stream, then stay silent and keep the connection for a while
            while True:
                d = c.recv(65536)
                if not d:
                    break
                rec["rx"] += d
            rec["eof"] = True
            rec["eof_at"] = time.time()
            time.sleep(5.0)
            return
        if behaviour == "rst":
            # read a little, then abort the connection (RST)
            d = c.recv(10)
            rec["rx"] += d
            c.setsockopt(socket.SOL_SOCKET, socket.SO_LINGER, struct.pack("ii", 1, 0))
            rec["rst_at"] = time.time()
            c.close()
            return
        if behaviour == "banner":
            c.sendall(BANNER)
            rec["tx"] += BANNER
        if behaviour == "source":
            t = threading.Thread(target=lambda: (c.sendall(src), rec.__setitem__("tx_done", time.time())), daemon=True)
            t.start()
            rec["tx"] = src
        if behaviour == "closefirst":
            c.sendall(close_first)
            c.shutdown(socket.SHUT_WR)
            rec["tx"] = close_first
            rec["shut_at"] = time.time()
        while True:
            d = c.recv(65536)
            if not d:
                rec["eof"] = True
                rec["eof_at"] = time.time()
                break
            rec["rx"] += d
            if behaviour in ("echo", "banner"):
                c.sendall(d)
                rec["tx"] += d
        if behaviour == "source":
            t.join(30)
        if behaviour != "closefirst":
            c.shutdown(socket.SHUT_WR)
    return h


class Chain:
    def __init__(self, binary, tier, splice=True, bufsz=65536, name="relay", idle=600, behaviours=None, history=None):
        crt, key = tls_material()
        self.tier = tier
        self.servers = []
        # one origin per connector route and behaviour
        self.origin = {}
        BEHAVIOURS = behaviours or globals()["BEHAVIOURS"]
        for cn in CONNECTORS:
            for b in BEHAVIOURS:
                s = e2e.Server(make_origin(b, tier))
                self.servers.append(s)
                self.origin[(cn, b)] = s
        io = {"useSplice": splice, "bufferSize": bufsz}
        p2l = {k: e2e.free_port() for k in ("http", "https", "socks")}
        p2l["quic"] = e2e.free_port(socket.SOCK_DGRAM)
        l2 = [
            {"name": "http", "bind": "%s:%d" % (LOOP, p2l["http"])},
            {"name": "https", "type": "http", "bind": "%s:%d" % (LOOP, p2l["https"]), "tls": {"cert": crt, "key": key}},
            {"name": "socks", "bind": "%s:%d" % (LOOP, p2l["socks"])},
            {"name": "quic", "bind": "%s:%d" % (LOOP, p2l["quic"]), "tls": {"cert": crt, "key": key}},
        ]
        self.p2 = e2e.Proxy(binary, l2, [{"name": "direct"}], [{"target": "direct"}], io=io, metrics=True, name=name + "-exit",
                            timeouts={"idle": idle, "udp": idle})
        conns = [
            {"name": "direct"},
            {"name": "c_http", "type": "http", "server": LOOP, "port": p2l["http"]},
            {"name": "c_https", "type": "http", "server": LOOP, "port": p2l["https"], "tls": {"insecure": True}},
            {"name": "c_socks5", "type": "socks", "server": LOOP, "port": p2l["socks"]},
            {"name": "c_socks4", "type": "socks", "server": LOOP, "port": p2l["socks"], "version": 4},
            {"name": "c_quic", "type": "quic", "server": LOOP, "port": p2l["quic"], "tls": {"insecure": True}},
            {"name": "lb", "type": "loadbalance", "connectors": ["direct", "c_http"]},
        ]
        rules = []
        for cn in CONNECTORS:
            ports = [self.origin[(cn, b)].port for b in BEHAVIOURS]
            rules.append({"filter": " || ".join("request.target.port == %d" % p for p in ports), "target": cn})
        self.lp = {k: e2e.free_port() for k in ("http", "https", "socks", "sockstls")}
        l1 = [
            {"name": "http", "bind": "%s:%d" % (LOOP, self.lp["http"])},
            {"name": "https", "type": "http", "bind": "%s:%d" % (LOOP, self.lp["https"]), "tls": {"cert": crt, "key": key}},
            {"name": "socks", "bind": "%s:%d" % (LOOP, self.lp["socks"])},
            {"name": "sockstls", "type": "socks", "bind": "%s:%d" % (LOOP, self.lp["sockstls"]), "tls": {"cert": crt, "key": key}},
        ]
        self.rev = {}
        for cn in CONNECTORS:
            for b in BEHAVIOURS:
                p = e2e.free_port()
                self.rev[(cn, b)] = p
                l1.append({"name": "rev-%s-%s" % (cn, b), "type": "reverse", "bind": "%s:%d" % (LOOP, p),
                           "target": "%s:%d" % (LOOP, self.origin[(cn, b)].port)})
        self.p1 = e2e.Proxy(binary, l1, conns, rules, io=io, metrics=True, name=name + "-entry", timeouts={"idle": idle, "udp": idle}, history=history)
        self.p2.start()
        try:
            self.p1.start()
        except Exception:
            self.p2.stop()
            raise

    def close(self):
        rc1 = self.p1.stop()
        rc2 = self.p2.stop()
        import shutil
        shutil.rmtree(self.p1.dir, ignore_errors=True)
        shutil.rmtree(self.p2.dir, ignore_errors=True)
        for s in self.servers:
            s.close()
        return rc1, rc2

    def alive(self):
        return self.p1.alive() and self.p2.alive()


def _ctx():
    c = ssl.SSLContext(ssl.PROTOCOL_TLS_CLIENT)
    c.check_hostname = False
    c.verify_mode = ssl.CERT_NONE
    return c


def open_tunnel(w, kind, conn, behaviour, early=b"", timeout=10.0):
    """returns (sock, established: bool, bytes already read beyond the handshake reply, reply bytes)"""
    port = w.origin[(conn, behaviour)].port
    if kind == "reverse":
        c = socket.create_connection((LOOP, w.rev[(conn, behaviour)]), timeout=timeout)
        if early:
            c.sendall(early)
        return c, True, b"", b""
    if kind in ("http", "https"):
        c = socket.create_connection((LOOP, w.lp[kind]), timeout=timeout)
        if kind == "https":
            c = _ctx().wrap_socket(c, server_hostname="localhost")
        req = b"CONNECT %s:%d HTTP/1.1\r\nHost: %s:%d\r\n\r\n" % (LOOP.encode(), port, LOOP.encode(), port)
        c.sendall(req + early)
        buf = e2e.recv_until(c, b"\r\n\r\n", timeout=timeout)
        i = buf.find(b"\r\n\r\n")
        head = buf[:i + 4] if i >= 0 else buf
        return c, head.startswith(b"HTTP/1.1 200"), (buf[i + 4:] if i >= 0 else b""), head
    if kind in ("socks5", "socks5tls"):
        c = socket.create_connection((LOOP, w.lp["socks" if kind == "socks5" else "sockstls"]), timeout=timeout)
        if kind == "socks5tls":
            c = _ctx().wrap_socket(c, server_hostname="localhost")
        c.sendall(b"\x05\x01\x00")
        sel = e2e.recv_exact(c, 2, timeout)
        c.sendall(b"\x05\x01\x00\x01" + socket.inet_aton(LOOP) + struct.pack(">H", port) + early)
        rep = e2e.recv_exact(c, 10, timeout)
        return c, rep[:2] == b"\x05\x00" and len(rep) == 10, b"", sel + rep
    if kind in ("socks4", "socks4a"):
        c = socket.create_connection((LOOP, w.lp["socks"]), timeout=timeout)
        if kind == "socks4":
            req = b"\x04\x01" + struct.pack(">H", port) + socket.inet_aton(LOOP) + b"user\0"
        else:
            req = b"\x04\x01" + struct.pack(">H", port) + b"\0\0\0\x01" + b"user\0" + LOOP.encode() + b"\0"
        c.sendall(req + early)
        rep = e2e.recv_exact(c, 8, timeout)
        return c, rep[:2] == b"\x00\x5a" and len(rep) == 8, b"", rep
    raise ValueError(kind)
