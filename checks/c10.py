"""C10 — UDP datagram fidelity and session isolation through every UDP path.
Proof: Props/C10.v (Udp.v + the C03 codecs): every datagram - the first of a session included - is handed to the
session of the client that sent it, exactly once and in order, for every sequence of datagrams from any number of
clients; a datagram never changes what another session has been handed; one session per client address; frames
carried over a shared hop reach the session whose id they carry and no other; the SOCKS5 UDP header round-trips every
payload and destination.  The facts about the source (the opening datagram is forwarded, dispatch by session id) are
regenerated on every run (Gen_udp.v).
Tie: the real binaries on loopback (entry -> exit): SOCKS5 UDP associations and reverse UDP listeners, each through
direct, HTTP CONNECT (inline), QUIC inline, QUIC datagrams and SOCKS5 upstream paths, to a recording UDP echo origin;
payload sizes 0 .. 8000 bytes, IPv4 and domain destinations, interleaved concurrent sessions with session-tagged
payloads: every datagram must arrive exactly once with identical payload, every reply must come back to the session
that sent the request, labelled with the origin's address, and the origin must see nothing that no client sent."""
import collections
import concurrent.futures
import hashlib
import socket
import time

from common import *
import e2e
import udp_world as uw
from e2e import LOOP


def payload(tag, i, size):
    head = ("<%s#%d>" % (tag, i)).encode()
    if size <= len(head):
        return head          # a tag is always carried, so sizes below it are raised to it (size 0 is a separate case)
    body = hashlib.sha256(head).digest()
    return head + (body * (size // 32 + 1))[:size - len(head)]


def session_rev(w, pth, tag, sizes, gap):
    """a client of the reverse UDP listener: sends datagrams, collects replies"""
    s = socket.socket(socket.AF_INET, socket.SOCK_DGRAM)
    s.bind((LOOP, 0))
    sent, got = [], []
    s.settimeout(0.01)
    try:
        for i, sz in enumerate(sizes):
            p = payload(tag, i, sz)
            s.sendto(p, (LOOP, w.rev[pth]))
            sent.append(p)
            t_end = time.time() + gap
            while time.time() < t_end:
                try:
                    d, a = s.recvfrom(70000)
                    got.append(d)
                except socket.timeout:
                    pass
        t_end = time.time() + 8.0
        s.settimeout(0.2)
        while time.time() < t_end and len(got) < len(sent):
            try:
                d, a = s.recvfrom(70000)
                got.append(d)
            except socket.timeout:
                pass
    finally:
        s.close()
    return dict(kind="reverse", path=pth, tag=tag, sent=sent, got=got, labels=[])


def session_socks(w, pth, tag, sizes, gap, domain=False):
    try:
        c = uw.SocksUdpClient(w.socks[pth])
    except OSError as e:
        return dict(kind="socks5", path=pth, tag=tag, error="associate: %s" % e)
    if not c.ok:
        c.close()
        return dict(kind="socks5", path=pth, tag=tag, error="associate refused: %s" % c.reply.hex())
    sent, got, labels = [], [], []
    host = "localhost" if domain else LOOP
    t0 = time.time()
    try:
        for i, sz in enumerate(sizes):
            p = payload(tag, i, sz)
            c.send(host, w.origin.port, p)
            sent.append(p)
            t_end = time.time() + gap
            while time.time() < t_end:
                r_ = c.recv(timeout=0.01)
                if r_ is not None:
                    labels.append(r_[0])
                    got.append(r_[1])
        t_end = time.time() + 8.0          # name resolution at the exit proxy can take seconds without a network
        while time.time() < t_end and len(got) < len(sent):
            r_ = c.recv(timeout=0.2)
            if r_ is not None:
                labels.append(r_[0])
                got.append(r_[1])
    finally:
        c.close()
    return dict(kind="socks5" + ("-domain" if domain else ""), path=pth, tag=tag, sent=sent, got=got, labels=labels, t0=t0, t1=time.time(), relay=getattr(c, "relay", None))


def run(tier, seed, replay=None):
    rep = Report("C10", tier, seed)
    coq, model, driver, blog = standard_setup("C10")
    proof_coverage(rep, coq, ["the network (loopback UDP) does not lose or duplicate datagrams at the rates used",
                              "QUIC datagram fragmentation / reassembly is C11's subject; here it is exercised end to end with payloads above one QUIC packet",
                              "what a frame reader yields for a failed receive is not claimed: the source discards the result of recv_from, but under tokio a queued socket error does not wake a pending receive and the situation could not be produced (see DESIGN.md)"])
    broken = handle_coq_result(rep, coq)
    if driver is None:
        rep.coverage.update({"evaluations": 0, "distinct_nontrivial": 0})
        rep.broken_obligation("correspondence C10: hook-built binary does not build from /repo", blog[-3000:])
        return rep.finish()
    r = rng(seed, "C10")
    w = uw.UdpWorld(driver, "c10")
    n_eval, dist, shapes = 0, collections.Counter(), set()
    all_extra = []
    try:
        jobs = []
        n = 0
        reps = 3 if tier == "quick" else 12
        for pth in uw.PATHS:
            for _ in range(reps):
                for kind in ("reverse", "socks5", "socks5-domain"):
                    n += 1
                    tag = "%s/%s/%d" % (kind, pth, n)
                    k = r.randint(3, 8)
                    big = [1200, 1400, 3000, 8000] if pth != "c_socks5" or True else [1200]
                    sizes = [r.choice([1, 16, 100, 512, 1000] + big) for _ in range(k)]
                    gap = r.choice([0.0, 0.01, 0.05])
                    if kind == "reverse" or kind == "socks5":
                        jobs.append((kind, pth, tag, sizes, gap))
                    elif pth in ("c_http", "c_quic_inline", "c_quic_dgram"):
                        # a domain destination travels as a domain through the hop and is resolved by the exit proxy
                        jobs.append((kind, pth, tag, sizes, gap))
        r.shuffle(jobs)

        def guarded(j):
            kind, pth, tag, sizes, gap = j
            try:
                if kind == "reverse":
                    return session_rev(w, pth, tag, sizes, gap)
                return session_socks(w, pth, tag, sizes, gap, domain=(kind == "socks5-domain"))
            except Exception as e:
                return dict(kind=kind, path=pth, tag=tag, error="harness: %s" % str(e)[:100])

        def session_ok(h):
            if "error" in h:
                return False
            at = collections.Counter(d for t, d, a in w.origin.rx)
            return all(at[p_] == 1 for p_ in h["sent"]) and collections.Counter(h["got"]) == collections.Counter(h["sent"])
        with concurrent.futures.ThreadPoolExecutor(10) as ex:
            hs = list(ex.map(guarded, jobs))
        # loopback UDP and QUIC datagrams may drop under the load of 10 concurrent sessions: a session that failed is
        # run again on its own, twice; only a failure that shows every time is reported
        time.sleep(0.3)
        retried = 0
        superseded = []                  # payloads of sessions that were repeated: they were sent, and may be at the origin
        for i, (j, h) in enumerate(zip(jobs, hs)):
            if session_ok(h):
                continue
            for attempt in (1, 2):
                superseded += hs[i].get("sent", [])
                retried += 1
                j2 = (j[0], j[1], j[2] + "/retry%d" % attempt, j[3], j[4])          # same sizes and pacing, on its own
                h2 = guarded(j2)
                time.sleep(0.3)
                if session_ok(h2):
                    hs[i] = h2
                    break
                hs[i] = h2
        # an empty datagram, on its own (it cannot carry a tag)
        s = socket.socket(socket.AF_INET, socket.SOCK_DGRAM)
        s.bind((LOOP, 0))
        s.settimeout(1.5)
        before = len([1 for t, d, a in w.origin.rx if d == b""])
        s.sendto(b"warm", (LOOP, w.rev["direct"]))
        try:
            s.recvfrom(100)
        except socket.timeout:
            pass
        s.sendto(b"", (LOOP, w.rev["direct"]))
        try:
            d, a = s.recvfrom(100)
            empty_back = d == b""
        except socket.timeout:
            empty_back = False
        s.close()
        time.sleep(0.5)
        empties = len([1 for t, d, a in w.origin.rx if d == b""]) - before
        n_eval += 1
        if empties != 1 or not empty_back:
            rep.fail("C10: an empty datagram through the reverse UDP listener: the origin received %d empty datagram(s), reply came back: %s" % (empties, empty_back),
                     {"kind": "failing-input", "scenario": "empty datagram", "empties_at_origin": empties})
        # empty payloads through SOCKS5 UDP, for every address form of the destination, each followed by a tagged datagram
        # on the same association
        for pth in ("direct", "c_http"):
            for host in (LOOP, "localhost"):
                n_eval += 1
                what = "SOCKS5 UDP via %s, destination %s, empty payload then a follow-up" % (pth, host)
                try:
                    c = uw.SocksUdpClient(w.socks[pth])
                    before = len([1 for t, d, a in w.origin.rx if d == b""])
                    c.send(host, w.origin.port, b"warm-" + pth.encode() + host.encode())
                    c.recv(timeout=3.0)
                    c.send(host, w.origin.port, b"")
                    r0 = c.recv(timeout=3.0)
                    follow = b"after-empty-" + pth.encode() + host.encode()
                    c.send(host, w.origin.port, follow)
                    r1 = c.recv(timeout=3.0)
                    c.close()
                    time.sleep(0.3)
                    empties = len([1 for t, d, a in w.origin.rx if d == b""]) - before
                    got_follow = any(d == follow for t, d, a in w.origin.rx)
                    if empties != 1 or r0 is None or r0[1] != b"" or not got_follow or r1 is None or r1[1] != follow:
                        rep.fail("C10: %s: empty datagram at the origin %d time(s), its reply %s, the follow-up %s" % (
                            what, empties, "came back" if r0 is not None and r0[1] == b"" else "did not come back", "was delivered" if got_follow else "was lost"),
                            {"kind": "failing-input", "scenario": what})
                    all_extra.append(b"warm-" + pth.encode() + host.encode())
                    all_extra.append(follow)
                except OSError as e:
                    rep.fail("C10: %s: %s" % (what, e), {"kind": "failing-input", "scenario": what})
        # a hand-written client of the http listener's UDP mode (CONNECT + Proxy-Protocol: udp, frames inline on the same
        # connection): redproxy's own connector waits for the 200 before its first frame, a client need not.  The frames
        # are produced by the MODEL's encoder (Frames.v) and the replies decoded by the model's stream frame reader.
        import codec_cases as cdc
        tgt = cdc.tgt_v4(socket.inet_aton(LOOP), w.origin.port)

        def raw_session(m, mode, sizes, attempt):
            pays = [(b"raw-%d-%d-%d-" % (m, attempt, i)).ljust(sz, b"r")[:sz] + bytes([i]) for i, sz in enumerate(sizes)]
            enc = run_model(model, ["frame_encode 0 %s %s" % (tgt, p_.hex()) for p_ in pays])
            if not all(e.startswith("OK W=") for e in enc):
                return pays, "model", str(enc)[:300]
            frames = [bytes.fromhex(e[5:]) for e in enc]
            npipe = 0 if mode.startswith("waits") else 3 if mode.startswith("three") else 1
            req = ("CONNECT %s:%d HTTP/1.1\r\nHost: x\r\nProxy-Protocol: udp\r\nProxy-Channel: inline\r\n\r\n" % (LOOP, w.origin.port)).encode()
            got_raw, err = b"", None
            try:
                c = socket.create_connection((LOOP, w.p2l["http"]), timeout=5)
                c.setsockopt(socket.IPPROTO_TCP, socket.TCP_NODELAY, 1)
                c.sendall(req + b"".join(frames[:npipe]))
                head = e2e.recv_until(c, b"\r\n\r\n")
                i = head.find(b"\r\n\r\n")
                if not head.startswith(b"HTTP/1.1 200"):
                    err = "refused: %r" % head[:60]
                else:
                    got_raw = head[i + 4:]
                    for f in frames[npipe:]:
                        time.sleep(0.05)
                        c.sendall(f)
                    c.settimeout(1.5)
                    want_bytes = sum(len(f) for f in frames)
                    try:
                        while len(got_raw) < want_bytes:
                            d = c.recv(65536)
                            if not d:
                                break
                            got_raw += d
                    except socket.timeout:
                        pass
                e2e.close_quiet(c)
            except OSError as e:
                err = str(e)
            time.sleep(0.2)
            dec = run_model(model, ["frame_stream %s" % (got_raw.hex() or "-")])[0]
            back = [bytes.fromhex(x.split("/")[3]) for x in dec.split(",") if x.startswith("F/") and len(x.split("/")) > 3]
            at = collections.Counter(d for t, d, a in w.origin.rx)
            once = [len(p_) for p_ in pays if at[p_] == 1]
            if err or len(once) != len(pays) or collections.Counter(back) != collections.Counter(pays):
                return pays, "fail", "%s; datagrams of %s bytes sent, %s reached the origin exactly once, %d of %d replies came back" % (
                    err or "handshake ok", [len(p_) for p_ in pays], once, len([b_ for b_ in back if b_ in pays]), len(pays))
            return pays, "ok", ""
        RAW_MODES = (("waits for the 200", [17, 900]), ("first frame in the same write as the request", [17, 23]),
                     ("three frames in the same write as the request", [5, 1200, 64, 31]),
                     ("first frame of 20000 bytes in the same write as the request", [20000, 17]),
                     ("first frame of 9000 bytes in the same write as the request", [9000, 33, 34]))
        for m, (mode, sizes) in enumerate(RAW_MODES):
            n_eval += 1
            what = "HTTP CONNECT udp/inline client that %s" % mode
            for attempt in (0, 1):              # a loopback datagram may be dropped: only a failure that repeats is reported
                pays, res, msg = raw_session(m, mode, sizes, attempt)
                all_extra += pays
                if res != "fail":
                    break
            if res == "model":
                rep.broken_obligation("correspondence C10: the model's frame encoder refuses a plain frame", msg)
                break
            if res == "fail":
                rep.fail("C10: %s: %s" % (what, msg), {"kind": "failing-input", "scenario": what, "sizes": sizes})
            dist["raw-http-inline"] += len(sizes)
        # sessions that share one QUIC connection, each sending datagrams larger than one QUIC packet at the same time: the
        # fragments of different sessions interleave on the connection and meet in the peer's single reassembly table.
        # A datagram that arrives with another session's bytes in it, or at a client that did not send it, is corruption,
        # not loss: it is reported without a second try.  (Plain loss under load is excused as everywhere in this check.)
        storm_stats = []
        for pth in ("c_quic_dgram", "c_quic_inline"):
            n_storm = 5 if tier == "quick" else 8
            per = 120 if tier == "quick" else 300
            for attempt in (0, 1, 2):
                res = {}

                def storm_session(k, pth=pth, attempt=attempt):
                    s_ = socket.socket(socket.AF_INET, socket.SOCK_DGRAM)
                    s_.bind((LOOP, 0))
                    s_.settimeout(0.002)
                    sent, got = [], []
                    try:
                        for i in range(per):
                            p_ = payload("storm-%s-%d-%d" % (pth, attempt, k), i, 2500 + 700 * (k % 3))
                            s_.sendto(p_, (LOOP, w.rev[pth]))
                            sent.append(p_)
                            t_end = time.time() + 0.004
                            while time.time() < t_end:
                                try:
                                    got.append(s_.recvfrom(70000)[0])
                                except socket.timeout:
                                    pass
                        t_end = time.time() + 3.0
                        s_.settimeout(0.2)
                        while time.time() < t_end and len(got) < len(sent):
                            try:
                                got.append(s_.recvfrom(70000)[0])
                            except socket.timeout:
                                pass
                    finally:
                        s_.close()
                    res[k] = (sent, got)
                with concurrent.futures.ThreadPoolExecutor(n_storm) as ex:
                    list(ex.map(storm_session, range(n_storm)))
                n_eval += 1
                mine = set(p_ for k in res for p_ in res[k][0])
                all_extra += list(mine)
                marker = ("<storm-%s-%d-" % (pth, attempt)).encode()
                at = collections.Counter(d for t, d, a in w.origin.rx if d.startswith(marker))
                corrupt = [d for d in at if d not in mine]
                dup = [d for d in at if d in mine and at[d] > 1]
                # replies a client received that it never sent - counted when they belong to this run (its marker): a late reply of an
                # earlier scenario at a reused client port is not what this scenario is about
                foreign = [(k, g) for k in res for g in res[k][1] if g not in res[k][0] and g.startswith(marker)]
                lost = sum(1 for p_ in mine if at[p_] == 0)
                noreply = sum(1 for k in res for p_ in res[k][0] if p_ not in res[k][1])
                storm_stats.append(dict(path=pth, attempt=attempt, sessions=n_storm, datagrams=len(mine), corrupt=len(corrupt), duplicated=len(dup), foreign_replies=len(foreign), lost=lost, no_reply=noreply))
                dist["storm|" + pth] += len(mine)
                all_extra += corrupt                    # reported here, not again as a stray below
                what = "%d concurrent reverse-UDP sessions via %s, %d datagrams of 2500-3900 bytes each (several QUIC packets per datagram)" % (n_storm, pth, per)
                rp = {"kind": "failing-input", "scenario": what, "stats": storm_stats[-1]}
                if foreign:
                    # say what the foreign reply is: another session's datagram delivered intact to the wrong client, or bytes nobody sent
                    owner = {p_: k for k in res for p_ in res[k][0]}
                    storm_stats[-1]["foreign_detail"] = [dict(received_by=k, intact_datagram_of=owner.get(g), bytes=len(g), head=g[:32].decode("latin1")) for k, g in foreign[:5]]
                if corrupt or foreign or dup:
                    ex_ = corrupt[0] if corrupt else (foreign[0][1] if foreign else dup[0])
                    rep.fail("C10: %s: %d datagram(s) reached the origin with a payload nobody sent (a session's head with other bytes behind it), %d reached it twice, %d repl(ies) went to a client that never sent that payload; e.g. %r (%d bytes)" % (
                        what, len(corrupt), len(dup), len(foreign), ex_[:24], len(ex_)), rp)
                    break
                if not lost and not noreply:
                    break
                if attempt == 2:
                    rep.fail("C10: %s: in three runs out of three datagrams were lost (last run: %d never reached the origin, %d replies never came back)" % (what, lost, noreply), rp)
        # sessions that start at the same instant on one reverse-UDP listener: the session sockets share the listener's address,
        # a datagram of one new client must never be handled (and answered) by another client's session
        sim_stats = {}
        for pth in ("direct", "c_quic_dgram"):
            K, rounds_s = 8, (25 if tier == "quick" else 150)
            foreign_s, missing_s, total_s = [], 0, 0
            for r_ in range(rounds_s):
                socks_ = [socket.socket(socket.AF_INET, socket.SOCK_DGRAM) for _ in range(K)]
                for s_ in socks_:
                    s_.bind((LOOP, 0))
                    s_.settimeout(0.5)
                pls = [[b"sim-%s-%d-%d-%d" % (pth.encode(), r_, k, i) for i in range(3)] for k in range(K)]
                for i in range(3):
                    for k, s_ in enumerate(socks_):
                        s_.sendto(pls[k][i], (LOOP, w.rev[pth]))
                for k, s_ in enumerate(socks_):
                    got_ = []
                    try:
                        while len(got_) < 3:
                            got_.append(s_.recvfrom(70000)[0])
                    except (socket.timeout, OSError):
                        pass
                    total_s += 3
                    missing_s += len([x for x in pls[k] if x not in got_])
                    # a datagram of ANOTHER session of this round (a late reply of an earlier round at a reused client port is not
                    # what this scenario is about and is not counted)
                    round_all = set(x for pl_ in pls for x in pl_)
                    foreign_s += [(k, g) for g in got_ if g not in pls[k] and g in round_all]
                    all_extra += pls[k]
                    s_.close()
            n_eval += 1
            dist["simultaneous-start|" + pth] += total_s
            sim_stats[pth] = dict(rounds=rounds_s, sessions_per_round=K, datagrams=total_s, replies_missing=missing_s, replies_at_another_client=len(foreign_s))
            if foreign_s:
                rep.fail("C10: %d rounds of %d reverse-UDP sessions via %s starting at the same moment: %d replies were delivered to the client of ANOTHER session, e.g. client %d received %r" % (
                    rounds_s, K, pth, len(foreign_s), foreign_s[0][0], foreign_s[0][1][:40]), {"kind": "failing-input", "scenario": "simultaneous session starts", "path": pth, "stats": sim_stats[pth]})
            elif missing_s:
                rep.fail("C10: %d rounds of %d reverse-UDP sessions via %s starting at the same moment: %d of %d datagrams got no reply" % (rounds_s, K, pth, missing_s, total_s),
                         {"kind": "failing-input", "scenario": "simultaneous session starts", "path": pth, "stats": sim_stats[pth]}, tags=["C10-simultaneous-start-first-datagrams-lost"])
        # destinations of both address families through ONE association, on every path (the exit's socket must reach both, and
        # label each reply with the address that replied)
        import c06 as _c06
        import struct as _struct
        import threading as _threading
        g6m = _c06.global_ipv6()
        if g6m:
            try:
                s6m = socket.socket(socket.AF_INET6, socket.SOCK_DGRAM)
                s6m.bind((g6m, 0))
            except OSError:
                s6m = None
            if s6m is not None:
                def _echo6():
                    while True:
                        try:
                            d_, a_ = s6m.recvfrom(70000)
                            s6m.sendto(d_, a_)
                        except OSError:
                            return
                _threading.Thread(target=_echo6, daemon=True).start()
                h4 = b"\x00\x00\x00\x01" + socket.inet_aton(LOOP) + _struct.pack(">H", w.origin.port)
                h6 = b"\x00\x00\x00\x04" + socket.inet_pton(socket.AF_INET6, g6m) + _struct.pack(">H", s6m.getsockname()[1])
                for pth in uw.PATHS:
                    for attempt in (0, 1):
                        bad_m = None
                        try:
                            am = uw.SocksUdpClient(w.socks[pth])
                        except OSError as e:
                            bad_m = "associate: %s" % e
                            continue
                        if not am.ok:
                            bad_m = "associate refused: %s" % am.reply.hex()
                        else:
                            for i, (hdr, fam_name) in enumerate(((h4, "IPv4"), (h6, "IPv6"), (h4, "IPv4"))):
                                pay = b"mixed-%s-%d-%d" % (pth.encode(), attempt, i)
                                all_extra.append(pay)
                                d_ = b""
                                try:
                                    am.udp.sendto(hdr + pay, am.relay)
                                    am.udp.settimeout(2)
                                    d_, _a = am.udp.recvfrom(70000)
                                except (socket.timeout, OSError):
                                    pass
                                if d_[3:] != hdr[3:] + pay:
                                    bad_m = "datagram %d (to an %s destination) of one association: reply %s" % (i + 1, fam_name, d_.hex()[:60] or "missing")
                                    break
                        am.close()
                        if bad_m is None:
                            break
                    n_eval += 1
                    dist["mixed-family|" + pth] += 3
                    if bad_m:
                        rep.fail("C10: SOCKS5 UDP association via %s addressing IPv4, IPv6 and IPv4 destinations in turn: %s" % (pth, bad_m), {"kind": "failing-input", "scenario": "mixed-family association", "path": pth})
                try:
                    s6m.close()
                except OSError:
                    pass
        # a neighbour that does not read: session A (CONNECT udp client, TCP) asks a chatty origin for 12000 datagrams and
        # stops reading; session B shares the upstream path (one QUIC connection in datagram mode).  B's datagrams must go on
        # being delivered and echoed - A's backlog is A's problem (its datagrams may be dropped, as on any UDP socket)
        neighbours = []
        for pth in ("c_quic_dgram", "c_quic_inline", "c_http"):
            for attempt in (0, 1):
                nb = uw.stalled_neighbour(w, pth, b"nb%d" % attempt)
                if nb.get("a_established") and min(nb.get("during", 0), nb.get("later", 0)) >= 4 or not nb.get("a_established") or nb["before"] < 5:
                    break
            n_eval += 1
            neighbours.append(nb)
            dist["stalled-neighbour|" + pth] += 1
            if nb["before"] < 5 or not nb.get("a_established"):
                rep.fail("C10: stalled-neighbour scenario via %s could not be set up: %s" % (pth, nb), {"kind": "failing-input", "scenario": "stalled neighbour", "history": nb})
            elif min(nb.get("during", 0), nb.get("later", 0)) < 4:
                rep.fail("C10: via %s: while another session's client does not read its connection, a session on the same path got %d and then %d of 5 echoes (5 before, %d after the other client left)" % (
                    pth, nb.get("during", 0), nb.get("later", 0), nb.get("after", 0)), {"kind": "failing-input", "scenario": "stalled neighbour", "history": nb})
        all_extra += [d for t, d, a in w.origin.rx if d.startswith(b"nb") or d.startswith(b"burst ")]
        alive = w.alive()
        rx = list(w.origin.rx)
        try:
            logs = {"entry": open(w.p1.dir + "/stderr.log").read()[-6000:], "exit": open(w.p2.dir + "/stderr.log").read()[-6000:]}
        except OSError:
            logs = {}
    finally:
        w.close()
    if not alive:
        rep.fail("C10: a proxy process died during the UDP scenarios", {"kind": "failing-input", "scenario": "alive"})
    at_origin = collections.Counter(d for t, d, a in rx)
    all_sent = collections.Counter(superseded)
    origin_label = "%s:%d" % (LOOP, w.origin.port)
    for h in hs:
        n_eval += 1
        desc = "%s session via %s (%s)" % (h["kind"], h["path"], h["tag"])
        if "error" in h:
            rep.fail("C10: %s: %s" % (desc, h["error"]), {"kind": "failing-input", "scenario": desc})
            continue
        shapes.add((h["kind"], h["path"]))
        dist[h["kind"] + "|" + h["path"]] += len(h["sent"])
        rp = {"kind": "failing-input", "scenario": desc, "sizes": [len(p) for p in h["sent"]], "got": len(h["got"]), "labels": h["labels"][:8],
              "at_origin": [(round(t, 3), a[1]) for t, d, a in rx if h["tag"].encode() in d][:12], "t0": h.get("t0"), "t1": h.get("t1"), "logs": logs}
        for i, p in enumerate(h["sent"]):
            all_sent[p] += 1
            if at_origin[p] != 1:
                rep.fail("C10: %s: datagram %d of the session (%d bytes%s) reached the origin %d times" % (desc, i, len(p), ", the first of the session" if i == 0 else "", at_origin[p]), rp)
        want = collections.Counter(h["sent"])
        got = collections.Counter(h["got"])
        if got != want:
            missing = sum((want - got).values())
            foreign = [g for g in (got - want) if g not in want]
            rep.fail("C10: %s: %d of %d replies did not come back%s" % (desc, missing, len(h["sent"]), "; received %d datagram(s) that belong to no request of this session, e.g. %r" % (len(foreign), foreign[0][:40]) if foreign else ""), rp)
        for lab in h["labels"]:
            if lab not in (origin_label, "localhost:%d" % w.origin.port):
                rep.fail("C10: %s: a reply is labelled %s, the replying address is %s" % (desc, lab, origin_label), rp)
                break
    # nothing at the origin that nobody sent (a receive error must not materialise as a datagram)
    for d, c in at_origin.items():
        if d not in all_sent and d not in (b"warm", b"") and d not in all_extra:
            rep.fail("C10: the origin received a datagram no client sent: %r (%d bytes, %d times)" % (d[:40], len(d), c), {"kind": "failing-input", "scenario": "stray datagram at the origin"})
    # ---- a SOCKS5 UDP client that reaches the proxy over IPv6 and sends to an IPv4 and to an IPv6 destination: each reply must
    #      be labelled with the address that replied (the proxy's dual-stack socket sees the IPv4 one as ::ffff:a.b.c.d) ------
    import c06
    import struct
    import threading
    g6 = c06.global_ipv6()
    v6_runs = []
    if g6:
        def echo_origin(fam, addr):
            s_ = socket.socket(fam, socket.SOCK_DGRAM)
            s_.bind((addr, 0))
            def run_():
                while True:
                    try:
                        d_, a_ = s_.recvfrom(70000)
                        s_.sendto(d_, a_)
                    except OSError:
                        return
            threading.Thread(target=run_, daemon=True).start()
            return s_
        try:
            o4, o6 = echo_origin(socket.AF_INET, LOOP), echo_origin(socket.AF_INET6, g6)
        except OSError:
            o4 = o6 = None
        if o4 is not None:
            lp6 = e2e.free_port()
            lp4 = e2e.free_port()
            px = e2e.Proxy(driver, [{"name": "socks6", "type": "socks", "bind": "[%s]:%d" % (g6, lp6)}, {"name": "socks4c", "type": "socks", "bind": "%s:%d" % (LOOP, lp4)}],
                           [{"name": "direct"}], [{"target": "direct"}], metrics=False, name="c10-v6")
            try:
                px.start()
                c = socket.socket(socket.AF_INET6)
                c.settimeout(3)
                c.bind((g6, 0))
                c.connect((g6, lp6))
                c.sendall(b"\x05\x01\x00")
                e2e.recv_exact(c, 2)
                c.sendall(b"\x05\x03\x00\x01\x00\x00\x00\x00\x00\x00")
                rp_ = c.recv(100)
                if len(rp_) >= 22 and rp_[1] == 0 and rp_[3] == 4:
                    relay = (socket.inet_ntop(socket.AF_INET6, rp_[4:20]), struct.unpack(">H", rp_[20:22])[0])
                    u = socket.socket(socket.AF_INET6, socket.SOCK_DGRAM)
                    u.bind((g6, 0))
                    u.settimeout(2)
                    dests = (("IPv4", b"\x00\x00\x00\x01" + socket.inet_aton(LOOP) + struct.pack(">H", o4.getsockname()[1])),
                             ("IPv6", b"\x00\x00\x00\x04" + socket.inet_pton(socket.AF_INET6, g6) + struct.pack(">H", o6.getsockname()[1])))
                    for fam_name, hdr in dests:
                        for i in range(3):
                            pay = b"v6client-%s-%d" % (fam_name.encode(), i)
                            n_eval += 1
                            dist["socks5-from-ipv6|" + fam_name] += 1
                            try:
                                u.sendto(hdr + pay, relay)
                                d_, a_ = u.recvfrom(70000)
                            except (socket.timeout, OSError):
                                d_ = b""
                            ok_ = d_[3:] == hdr[3:] + pay and d_[2:3] == b"\x00"
                            v6_runs.append(dict(dest=fam_name, ok=ok_))
                            if not ok_:
                                rep.fail("C10: SOCKS5 UDP client connected from %s, datagram to an %s destination: the reply is %s, expected the payload labelled with the destination's own address (header %s)" % (
                                    g6, fam_name, d_.hex()[:80] or "missing", hdr.hex()), {"kind": "failing-input", "scenario": "socks5 udp from ipv6", "dest": fam_name, "reply": d_.hex()[:200]})
                                break
                    u.close()
                else:
                    rep.fail("C10: SOCKS5 UDP ASSOCIATE from %s was answered %s" % (g6, rp_.hex()), {"kind": "failing-input", "scenario": "socks5 udp from ipv6"})
                e2e.close_quiet(c)
                # the other way round: the client reaches the proxy over IPv4 and addresses an IPv4, an IPv6 and again an IPv4
                # destination through ONE association
                a4 = uw.SocksUdpClient(lp4)
                if a4.ok:
                    seq = (("IPv4", LOOP, o4.getsockname()[1], b"\x00\x00\x00\x01" + socket.inet_aton(LOOP)), ("IPv6", g6, o6.getsockname()[1], b"\x00\x00\x00\x04" + socket.inet_pton(socket.AF_INET6, g6)),
                           ("IPv4", LOOP, o4.getsockname()[1], b"\x00\x00\x00\x01" + socket.inet_aton(LOOP)))
                    for i, (fam_name, host_, port_, h_) in enumerate(seq):
                        pay = b"v4client-%d" % i
                        n_eval += 1
                        dist["socks5-from-ipv4|" + fam_name] += 1
                        hdr = h_ + struct.pack(">H", port_)
                        d_ = b""
                        try:
                            a4.udp.sendto(hdr + pay, a4.relay)
                            a4.udp.settimeout(2)
                            d_, _a = a4.udp.recvfrom(70000)
                        except (socket.timeout, OSError):
                            pass
                        ok_ = d_[3:] == hdr[3:] + pay
                        v6_runs.append(dict(client="ipv4", dest=fam_name, ok=ok_))
                        if not ok_:
                            rep.fail("C10: SOCKS5 UDP client connected over IPv4, datagram %d of one association, to an %s destination (after %s): the reply is %s, expected the payload labelled with the destination's own address" % (
                                i + 1, fam_name, "nothing" if i == 0 else "a datagram to an %s destination" % seq[i - 1][0], d_.hex()[:80] or "missing"),
                                {"kind": "failing-input", "scenario": "socks5 udp from ipv4 to both families", "datagram": i, "dest": fam_name, "reply": d_.hex()[:200]})
                            break
                else:
                    rep.fail("C10: SOCKS5 UDP ASSOCIATE over IPv4 was refused: %s" % a4.reply.hex(), {"kind": "failing-input", "scenario": "socks5 udp from ipv4 to both families"})
                a4.close()
            except OSError as e:
                rep.fail("C10: SOCKS5 UDP from IPv6: %s" % e, {"kind": "failing-input", "scenario": "socks5 udp from ipv6"})
            finally:
                px.stop()
                o4.close()
                o6.close()
                import shutil
                shutil.rmtree(px.dir, ignore_errors=True)
    rep.coverage["socks5_udp_from_ipv6"] = {"address": g6, "datagrams": len(v6_runs)}
    # ---- the datagram hop of C10_quic_datagram_hop_exact against the real sender half, fragmenter and reassembly table ----
    # writes of 1-4 sessions, fragment ids as the source assigns them (one shared counter, incl. wrap-around at 65535) or - to
    # keep model and code tied where they mix - one counter per writer; complete schedules (every fragment once, any order),
    # and schedules with loss and duplicates
    import codec_cases as cdc
    rh = rng(seed, "C10-hop")
    hop_lines, hop_meta = [], []
    n_hop = 400 if tier == "quick" else 6000
    for _ in range(n_hop):
        mtu = rh.choice([12, 20, 30, 64, 200, 1200])
        nw = rh.randrange(1, 7)
        sids = [rh.choice([1, 2, 3, 4294967295]) for _ in range(nw)]
        ws = []
        for k in range(nw):
            addr = rh.choice(["none", cdc.tgt_v4(bytes([10, 0, k, 9]), 53 + k), cdc.tgt_domain(b"h%d.example" % k, 443)])
            nfr = rh.choice([1, 1, 2, 3, 5, 5, 63, 64, 65, 127] if mtu <= 30 else [1, 1, 2, 3, 5])
            blen = max(0, rh.randrange((nfr - 1) * (mtu - 4) + 1, nfr * (mtu - 4) + 1) - 12 - (0 if addr == "none" else 8 if addr[0] == "4" else 14))
            body = bytes((17 * k + i) & 255 for i in range(min(blen, 6000)))
            ws.append((sids[k], addr, body))
        mode = rh.choice(["shared", "shared", "shared", "own"])
        ids = "shared:%d" % rh.choice([0, 7, 65533, 65535, rh.randrange(65536)]) if mode == "shared" else "own"
        hop_lines.append(("probe", mtu, ids, ws))
    # fragment counts are needed for the schedules: ask the model for each write's fragment count through a complete in-order probe
    probe = ["dgram_hop %d %s %s -" % (mtu, ids, ";".join("%d/%s/%s" % (sid, a, b.hex() or "-") for sid, a, b in ws)) for _, mtu, ids, ws in hop_lines]
    lines2, meta2 = [], []
    for (_, mtu, ids, ws), pr in zip(hop_lines, probe):
        counts = []
        for sid, a, b in ws:
            enc = 12 + (0 if a == "none" else 8 if a[0] == "4" else 2 + len(bytes.fromhex(a[1:].rpartition(":")[0])) + 2) + len(b)
            counts.append(max(1, -(-enc // (mtu - 4))))
        if max(counts) > 127:
            continue
        sched = [(k, i) for k, c in enumerate(counts) for i in range(c)]
        kind = rh.choice(["perm", "perm", "perm", "lossy", "dups"])
        rh.shuffle(sched)
        if kind == "lossy" and len(sched) > 1:
            sched = sched[:-1 - rh.randrange(len(sched) // 2 + 1)]
        elif kind == "dups":
            sched += [rh.choice(sched) for _ in range(rh.randrange(1, 4))]
            rh.shuffle(sched)
        lines2.append(pr[:-1] + (",".join("%d.%d" % e for e in sched) or "-"))
        meta2.append((mtu, ids, ws, counts, kind, sched))
    hi, hm = run_pair(driver, model, lines2)
    n_hop_diff = 0
    for line, (mtu, ids, ws, counts, kind, sched), oi, om in zip(lines2, meta2, hi, hm):
        n_eval += 1
        dist["hop:%s:%s" % (ids.split(":")[0], kind)] += 1
        rp = {"kind": "failing-input", "scenario": "dgram_hop", "line": line[:2000], "observed": oi[:600], "model": om[:600]}
        if "PANIC" in oi or oi.startswith("CRASH"):
            rep.fail("C10: the sender half / reassembly table panicked: %s" % oi[:120], rp)
            continue
        if oi != om:
            n_hop_diff += 1
            if n_hop_diff <= 3:
                rep.fail("C10: datagram hop: implementation and model (QuicDgram.v) differ: %s vs %s" % (oi[:100], om[:100]), rp)
            continue
        # the property's own oracle, where the theorem speaks: ids from the shared counter, every fragment exactly once
        if ids.startswith("shared") and kind == "perm" and " " in oi:
            outs = [x for x in oi.split(" ", 1)[1].split(",") if x != "-"]
            want = sorted("F/%d/%s/%s" % (sid, a, b.hex() or "-") for sid, a, b in ws)
            if sorted(outs) != want:
                rep.fail("C10: datagram hop with ids from the shared counter, every fragment delivered once in some order: the table yields %s, the writes were %s" % (sorted(outs)[:3], want[:3]), rp)
    rep.coverage.update({
        "datagram_hop_cases": len(lines2), "datagram_hop_disagreements": n_hop_diff,
        "evaluations": n_eval, "distinct_nontrivial": len(shapes),
        "rule": "sessions: reverse UDP client, SOCKS5 UDP association with IPv4 destination, with domain destination (through hops) x paths %s, 3-8 datagrams of 1..8000 bytes each with gaps 0/10/50 ms, 10 sessions in flight at a time with session-tagged payloads; one empty datagram; a hand-written HTTP CONNECT udp/inline client (frames from the model's encoder) that waits for the 200 or sends its first 1-3 frames (17..20000 bytes) in the same write as the request; 5 (thorough 8) concurrent sessions on one QUIC connection (datagram and inline mode) sending 120 (300) datagrams of 2500-3900 bytes each every 4 ms; a session whose TCP client stops reading while a chatty origin sends it 12000 datagrams, next to a session on the same path that must keep being served (QUIC datagram, QUIC inline, HTTP paths); driver op dgram_hop: 400 (thorough 6000) runs of the real sender half + fragmenter + one reassembly table on 1-6 writes of 1-4 sessions, datagram sizes 12..1200, ids shared (incl. wrap at 65535) or per writer, schedules complete / lossy / with duplicates, against the extracted QuicDgram.v" % uw.PATHS,
        "input_distribution": dict(dist), "datagrams_at_origin": len(rx), "sessions_retried": retried, "concurrent_large_datagram_runs": storm_stats, "simultaneous_session_starts": sim_stats, "stalled_neighbour_runs": neighbours,
    })
    rep.assumptions = ["loopback UDP and QUIC datagrams may drop under concurrent load: a failing session is repeated alone twice and reported only if it fails every time", "the RSV bytes of the SOCKS5 UDP reply header (05 03 instead of 00 00) are not part of the property"]
    if broken and not rep.violations:
        rep.broken_obligation(broken[0], broken[1])
    return rep.finish()
