"""C03 — destination integrity through every protocol re-encoding.
Proof: Props/C03.v (round trips writer -> reader for SOCKS5, SOCKS4/4a, CONNECT line, RPFM
frame, SOCKS-UDP header; refusal exactly for unrepresentable destinations).
Tie: differential correspondence of the extracted codec models with the real writers and
readers, in three stages (inbound decode, outbound encode, next-hop decode), plus the
implementation-only oracle reader(writer(t)) = t or writer refused."""
import json
import re

from common import *
from codec_cases import *

OK200 = hx(b"HTTP/1.1 200 OK\r\n\r\n")


def stage0(r, tier):
    """inbound messages built byte by byte, hosts may be any byte string"""
    cases = []
    hs = hosts(r, tier) + bad_utf8_hosts()
    for h in hs:
        p = r.choice(PORTS)
        lossy = not is_utf8(h)
        if len(h) <= 255:
            m = socks_req_msg(r, ("domain", h, p), 5)
            cases.append(("in-s5", "socks_req_read 0 %s" % hx(m), dict(host=h.hex(), port=p, lossy=lossy)))
        if b"\0" not in h:
            m = socks_req_msg(r, ("domain", h, p), 4, auth=(b"u", b""))
            cases.append(("in-s4a", "socks_req_read 0 %s" % hx(m), dict(host=h.hex(), port=p, lossy=lossy)))
        if len(h) <= 253:
            cases.append(("in-rpfm", "frame_decode %s" % hx(rpfm_msg(5, ("domain", h, p), b"xy")), dict(host=h.hex(), port=p, lossy=lossy)))
        if len(h) <= 255:
            body = bytes([0, 0, 0, 3, len(h)]) + h + bytes([p >> 8, p & 255]) + b"data"
            cases.append(("in-udp", "udp_decode %s" % hx(body), dict(host=h.hex(), port=p, lossy=lossy)))
        if not lossy:
            cases.append(("in-text", "target_parse %s" % hx(h + b":" + str(p).encode()), dict(host=h.hex(), port=p, lossy=False)))
    # the bound of the SOCKS4 string reader (1024 bytes): hosts and user ids around it and far beyond; a field that does
    # not fit must be refused, never cut short or continued in the next field
    for L in (1000, 1021, 1022, 1023, 1024, 1025, 1026, 2047, 2048, 2049, 3000):
        h = bytes(97 + (i % 26) for i in range(L))
        p = r.choice(PORTS)
        cases.append(("in-s4a", "socks_req_read 0 %s" % hx(socks_req_msg(r, ("domain", h, p), 4, auth=(b"u", b""))), dict(host=h.hex(), port=p, lossy=False)))
        uid = bytes(65 + (i % 26) for i in range(L)) + b"evil.example"
        cases.append(("in-s4a", "socks_req_read 0 %s" % hx(socks_req_msg(r, ("domain", b"good.example", p), 4, auth=(uid, b""))), dict(host=b"good.example".hex(), port=p, lossy=False)))
        cases.append(("in-s4a", "socks_req_read 0 %s" % hx(socks_req_msg(r, ("v4", b"\x01\x02\x03\x04", p), 4, auth=(uid, b""))), dict(lossy=False)))
    for txt in [b"1.2.3.4:80", b"01.2.3.4:80", b"1.2.3.4:080", b"1.2.3.4:65536", b"256.1.1.1:1", b"1.2.3:4", b"1.2.3.4.5:6", b"a:+80", b"a:-1",
                b"a:", b":", b"", b"a", b"a:b:c:99", b"1.2.3.4:+80", b"1.2.3.4", b"0.0.0.0:0", b"255.255.255.255:65535", b"1.2.3.4: 80",
                b"[::1]:80", b"[::ffff:1.2.3.4]:1", b"::1:80", b"a:00080", b"a:99999"]:
        cases.append(("in-text", "target_parse %s" % hx(txt), dict(text=txt.hex(), lossy=False)))
    return cases


TRE = re.compile(r"t=(\S+)")


def extract_target(out):
    m = TRE.search(out)
    if m:
        return m.group(1)
    m = re.match(r"OK F/\d+/(\S+?)/", out)
    if m and m.group(1) != "none":
        return m.group(1)
    m = re.match(r"OK ([D46U]\S*)$", out)
    if m:
        return m.group(1)
    return None


def stage1(targets_s):
    """outbound encodings of each destination"""
    cases = []
    for t in targets_s:
        cases.append(("out-s5", "socks_req_write 5 1 %s none 0500" % t, dict(t=t)))
        cases.append(("out-s5auth", "socks_req_write 5 1 %s %s/%s 0502,0100" % (t, hx(b"user"), hx(b"pass")), dict(t=t)))
        cases.append(("out-s4", "socks_req_write 4 1 %s none -" % t, dict(t=t)))
        cases.append(("out-s4id", "socks_req_write 4 1 %s %s/- -" % (t, hx(b"me")), dict(t=t)))
        cases.append(("out-s5resp", "socks_resp_write 5 0 %s" % t, dict(t=t)))
        cases.append(("out-connect", "connect_write %s %s" % (t, OK200), dict(t=t)))
        cases.append(("out-rpfm", "frame_encode 9 %s %s" % (t, hx(b"body")), dict(t=t)))
        cases.append(("out-udp", "udp_encode %s %s" % (t, hx(b"body")), dict(t=t)))
        cases.append(("out-text", "target_print %s" % t, dict(t=t)))
    return cases


READER = {"out-s5": "socks_req_read 0 %s", "out-s5auth": "socks_req_read 1 %s", "out-s4": "socks_req_read 0 %s",
          "out-s4id": "socks_req_read 0 %s", "out-s5resp": "socks_resp_read %s", "out-connect": "http_req_read %s",
          "out-rpfm": "frame_decode %s", "out-udp": "udp_decode %s", "out-text": "target_parse %s"}


def run(tier, seed, replay=None):
    rep = Report("C03", tier, seed)
    coq, model, driver, blog = standard_setup("C03")
    proof_coverage(rep, coq, ["std SocketAddr text form (Display / FromStr) is a Section parameter of the CONNECT-line theorem; the executable model implements the IPv4 form and treats IPv6 text as opaque"])
    broken = handle_coq_result(rep, coq)
    if driver is None:
        rep.coverage.update({"evaluations": 0, "distinct_nontrivial": 0})
        rep.broken_obligation("correspondence C03: hook-built driver does not build from /repo", blog[-3000:])
        return rep.finish()
    r = rng(seed, "C03")
    all_cases, all_impl, all_mod = [], [], []

    def go(cases):
        lines = [c[1] for c in cases]
        impl, mod = run_pair(driver, model, lines)
        all_cases.extend(cases)
        all_impl.extend(impl)
        all_mod.extend(mod)
        return impl, mod

    if replay:
        rp = json.load(open(replay))
        tset = rp.get("targets", [])
        c0 = [(c["kind"], c["line"], c["meta"]) for c in rp.get("cases", []) if c["kind"].startswith("in-")]
    else:
        c0 = stage0(r, tier)
        tset = [tstr(t) for t in targets(r, tier)]
    i0, m0 = go(c0)
    # destinations the inbound decoders produced (implementation's view) join the target set
    for (kind, line, meta), oi in zip(c0, i0):
        if oi.startswith("PANIC") or oi.startswith("CRASH"):
            rep.fail("C03: inbound decoder panicked", {"kind": "failing-input", "cases": [dict(kind=kind, line=line, meta=meta)], "observed": oi})
        t = extract_target(oi) if oi.startswith("OK") else None
        if t and t not in tset and not replay:
            tset.append(t)
        # inbound fidelity: a valid UTF-8 host is delivered to the rules byte for byte
        if t and "host" in meta and not meta["lossy"] and kind != "in-text":
            want = "D%s:%d" % (meta["host"], meta["port"])
            if t != want:
                rep.fail("C03 oracle: inbound %s decoded %s as %s" % (kind, want, t),
                         {"kind": "failing-input", "cases": [dict(kind=kind, line=line, meta=meta)], "observed": oi})
    tset = sorted(set(tset))
    c1 = stage1(tset)
    i1, m1 = go(c1)
    c2 = []
    for (kind, line, meta), oi in zip(c1, i1):
        if oi.startswith("PANIC") or oi.startswith("CRASH"):
            rep.fail("C03: encoder panicked", {"kind": "failing-input", "targets": [meta["t"]], "cases": [dict(kind=kind, line=line, meta=meta)], "observed": oi})
            continue
        if kind == "out-text":
            w = oi
        else:
            if not oi.startswith("OK"):
                continue            # the writer refused: allowed
            w = oi.split("W=")[1]
        c2.append(("rt-" + kind[4:], READER[kind] % w, dict(t=meta["t"], via=line)))
    i2, m2 = go(c2)
    c3 = []
    for (kind, line, meta), oi in zip(c2, i2):
        bad = None
        if oi.startswith("PANIC") or oi.startswith("CRASH"):
            bad = "decoder panicked on the writer's output"
        elif kind == "rt-connect":
            m = re.search(r" r=(\S+) ", oi)
            if not oi.startswith("OK") and beyond_reader_limit(kind, meta["t"]):
                pass
            elif not oi.startswith("OK") or not m:
                bad = "next hop cannot parse the CONNECT request written for %s: %s" % (meta["t"], oi[:60])
            else:
                if not oi.endswith("L=-"):
                    bad = "bytes spill behind the CONNECT head: " + oi[-40:]
                c3.append(("rt-connect-target", "target_parse %s" % m.group(1), dict(t=meta["t"], via=meta["via"])))
        else:
            got = extract_target(oi) if oi.startswith("OK") else None
            if got is None and beyond_reader_limit(kind, meta["t"]):
                pass
            elif got != meta["t"] and not canon_equal(meta["t"], got):
                bad = "%s: wrote %s, next hop reads %s" % (kind, meta["t"], got if got else oi[:60])
            elif kind not in ("rt-rpfm", "rt-udp", "rt-text") and "L=" in oi and not oi.endswith("L=-"):
                bad = "%s: bytes spill behind the message: %s" % (kind, oi[-40:])
            elif kind in ("rt-rpfm", "rt-udp") and not oi.endswith("/" + hx(b"body")):
                bad = "%s: body changed: %s" % (kind, oi[-40:])
        if bad:
            rep.fail("C03 oracle: " + bad, {"kind": "failing-input", "targets": [meta["t"]], "cases": [], "via": meta["via"], "observed": oi})
    i3, m3 = go(c3)
    for (kind, line, meta), oi in zip(c3, i3):
        got = extract_target(oi) if oi.startswith("OK") else None
        if got != meta["t"] and not canon_equal(meta["t"], got):
            rep.fail("C03 oracle: CONNECT line for %s is read by the next hop as %s" % (meta["t"], got if got else oi[:60]),
                     {"kind": "failing-input", "targets": [meta["t"]], "cases": [], "via": meta["via"], "observed": oi})
    n_diff, first = diff_stats(rep, all_cases, all_impl, all_mod, "C03", "", lossy=lambda m: m.get("lossy", False))
    if n_diff and not rep.violations:
        rep.broken_obligation("correspondence C03: codec models (Socks.v/Http.v/Frames.v/Target.v) and the implementation differ on %d case(s)" % n_diff, json.dumps(first))
        rep.violations[-1][1]["cases"] = [dict(kind=first["kind"], line=first["line"], meta=first["meta"])]
        rep.violations[-1][1]["targets"] = [first["meta"]["t"]] if "t" in first["meta"] else []
    # ---- IPv6 destinations end to end, through every connector kind ---------------------------------------------
    v6_res = None
    if not replay:
        import c06
        import v6_world
        g6 = c06.global_ipv6()
        if g6:
            try:
                v6_res, alive6 = v6_world.run(driver, g6, name="c03-v6")
                for h6 in v6_res:
                    what = "%s client asking for [%s] through %s" % (h6["client"], g6, h6["connector"])
                    rp6 = {"kind": "failing-input", "targets": [], "cases": [], "scenario": h6}
                    if h6["connector"] == "c_socks4":
                        if h6["established"] or h6["origin_contacts"]:
                            rep.fail("C03: %s: SOCKS4 cannot carry an IPv6 destination, yet the request was %s (origin contacted %d times)" % (
                                what, "established" if h6["established"] else "forwarded", h6["origin_contacts"]), rp6)
                    elif not (h6["established"] and h6["echoed"] and h6["origin_contacts"] == 1):
                        rep.fail("C03: %s: established=%s, echo=%s, the origin at that address was contacted %d time(s) (reply %s)" % (
                            what, h6["established"], h6["echoed"], h6["origin_contacts"], h6["reply"]), rp6)
                if not alive6:
                    rep.fail("C03: a proxy died during the IPv6 destination scenarios", {"kind": "failing-input", "targets": [], "cases": []})
            except (OSError, RuntimeError) as e:
                rep.fail("C03: IPv6 destination world: %s" % str(e)[-200:], {"kind": "failing-input", "targets": [], "cases": []})
    if broken and not rep.violations:
        rep.broken_obligation(broken[0], broken[1])
    dist = {}
    for k, _, _ in all_cases:
        dist[k] = dist.get(k, 0) + 1
    nt = set(l for (k, l, m), oi in zip(all_cases, all_impl) if oi.startswith("OK") or k == "out-text")
    refused = sum(1 for (k, l, m), oi in zip(all_cases, all_impl) if k.startswith("out-") and oi.startswith("ERR"))
    rep.coverage.update({
        "ipv6_destinations_end_to_end": v6_res,
        "evaluations": len(all_cases) + len(v6_res or []), "distinct_nontrivial": len(nt),
        "rule": "stage 0: inbound SOCKS5/SOCKS4a/RPFM/SOCKS-UDP/text decodes of hosts of length 0..512 (dense around 250-260), every delimiter/control byte at first/middle/last position, IP-looking domains, invalid UTF-8; stage 1: every destination (generated + decoded by stage 0) through all 9 writers; stage 2/3: the writers' bytes through the matching readers; non-trivial = distinct case the implementation accepted",
        "input_distribution": dist, "destinations": len(tset), "writer_refusals": refused,
        "model_impl_disagreements": n_diff,
        "samples": [dict(case=all_cases[i][1][:160], impl=all_impl[i][:160], model=all_mod[i][:160]) for i in range(0, len(all_cases), max(1, len(all_cases) // 6))][:6],
    })
    rep.assumptions = ["std's IP text formatting/parsing is trusted (hypotheses of the CONNECT theorem); hosts that are not valid UTF-8 are replaced by from_utf8_lossy before rules see them and are outside the theorem domain"]
    return rep.finish()


def host_len(t):
    if not t.startswith("D"):
        return 0
    return len(t[1:].rpartition(":")[0]) // 2


def beyond_reader_limit(kind, t):
    """documented bounds of the readers: SOCKS4 strings 1024 bytes, HTTP head lines 65536"""
    if kind in ("rt-s4", "rt-s4id"):
        return host_len(t) >= 1023
    if kind in ("rt-connect", "rt-connect-target"):
        return host_len(t) > 64000
    return False


def canon_equal(t, got):
    """a domain that is an IP literal comes back as that address; a v4-mapped v6 text may too"""
    if got is None or not t.startswith("D"):
        return False
    h, _, p = t[1:].rpartition(":")
    try:
        host = bytes.fromhex(h).decode()
    except Exception:
        return False
    import ipaddress
    try:
        if host.startswith("[") and host.endswith("]"):
            ip = ipaddress.IPv6Address(host[1:-1].split("%")[0])
            return got == "6%s:%s" % (ip.packed.hex(), p)
        ip = ipaddress.IPv4Address(host)
        if host != str(ip):
            return False
        return got == "4%s:%s" % (ip.packed.hex(), p)
    except Exception:
        return False
