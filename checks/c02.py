"""C02 — routing: first matching rule wins, default deny, nothing leaks on deny; request
attributes are the connection's; cidr_match is CIDR containment.
Proof: Props/C02.v (Dispatch.v over MiluEval.v).
Tie: the real process_request / set_rules / Rule::evaluate with recording connectors vs the
extracted model; independent oracle: each filter is evaluated on its own through the real
evaluator, the expected decision is recomputed here and compared with the observed effects;
cidr_match is compared with Python's ipaddress on boundary-rich samples."""
import ipaddress
import json
import re
import time

from common import *
import c08

FEATS = ["t", "u", "b"]


def h(s):
    if isinstance(s, str):
        s = s.encode()
    return s.hex() if s else "-"


REQ_POOL = [
    ("l1", "40a000001:1234", "D" + b"example.com".hex() + ":443"),
    ("socks", "47f000001:5555", "401020304:80"),
    ("http", "6" + (bytes(15) + b"\x01").hex() + ":9", "6" + bytes.fromhex("20010db8000000000000000000000001").hex() + ":53"),
    ("l1", "4c0a80107:40000", "D" + b"a.b".hex() + ":65535"),
    ("x", "40a010203:1", "D" + b"internal.corp".hex() + ":0"),
]

FILTERS = [
    "true", "false", "request.target.port == 443", "request.target.port < 1024", "request.target.host == \"example.com\"",
    "request.target.type == \"domain\"", "request.target.type == \"ipv4\" || request.target.type == \"ipv6\"",
    "request.listener == \"socks\"", "request.listener _: [\"l1\", \"http\"]", "request.source.host == \"10.0.0.1\"",
    "cidr_match(request.source.host, \"10.0.0.0/8\")", "cidr_match(request.source.host, \"127.0.0.0/8\")", "cidr_match(request.source.host, \"::/0\")",
    "request.feature == \"UdpForward\"", "request.feature == \"TcpForward\"", "request.target.host =~ \"corp\"", "request.target =~ \"example\"",
    "request.source.port > 1000 && request.target.port != 80", "!(request.target.port == 80)",
    "1 / (request.target.port - 443) == 1", "to_integer(request.target.host) == 1", "[true][1]", "request.target.port / 0 == 1",
    "request.connector == \"\"", "split(request.target.host, \".\")[1] == \"com\"", "let p = request.target.port in p > 100 && p < 500",
]
BAD_FILTERS = ["1 +", "request.target.port", "\"str\"", "request.nope == 1", "1 == \"a\"", "to_string()", "[1, \"a\"][0] == 1"]


OPAQUE_OBJ = re.compile(r"let\s+(\w+)\s*=\s*request\.(source|target)\s+in\s+to_string\(\1\)")


NEAR_RESERVED = ["Deny", "DENY", "dEnY", "deny2", "denyx", "xdeny", "den", "deny ", " deny", "deny\t", "C0", "c0 ", "direct", "allow", "nosuc", "nosuch2", "dény", "-", "0"]


def gen(r, tier, g):
    cases = []
    n = 12000 if tier == "thorough" else 350
    for _ in range(n):
        nconn = r.randrange(1, 4)
        conns = []
        for i in range(nconn):
            feats = "".join(f for f in FEATS if r.random() < (0.9 if f == "t" else 0.4)) or "t"
            # connector names are the user's: besides plain ones, names next to the reserved word `deny` (another case, a
            # prefix, a suffix, with a blank) and names that differ from each other in case only
            nm = "c%d" % i if r.random() < 0.7 else r.choice(NEAR_RESERVED)
            if nm in [c[0] for c in conns]:
                nm = "c%d" % i
            conns.append((nm, feats, r.random() < 0.8))
        nrules = r.choice([0, 1, 1, 2, 3, 3, 4, 6, 8])
        rules = []
        for _ in range(nrules):
            tgt = r.choice(["deny"] + [c[0] for c in conns] * 2)
            k = r.random()
            if k < 0.15:
                flt = None
            elif k < 0.8:
                flt = r.choice(FILTERS)
            else:
                flt = g.bool_(r.choice([1, 2, 3]), {})
            rules.append((tgt, flt))
        if r.random() < 0.08:
            rules.insert(r.randrange(len(rules) + 1), (r.choice(["deny", "c0", "nosuch", "Deny", "DENY", "deny "]), r.choice(BAD_FILTERS + [None])))
        if r.random() < 0.05 and rules:
            rules[r.randrange(len(rules))] = ("nosuch", rules[0][1])
        req = r.choice(REQ_POOL)
        feat = r.choice(["t", "t", "t", "u", "b"])
        payload = bytes(r.randrange(256) for _ in range(r.choice([0, 1, 7, 300])))
        cases.append(dict(conns=conns, rules=rules, req=req, feat=feat, payload=payload))
    return cases


def feature_text(f):
    return {"t": "tcp", "u": "udp", "b": "udpbind"}[f]


def cidr_cases(r, tier):
    """(ip text, cidr text, expected)"""
    out = []

    def add(ip, cidr):
        try:
            a = ipaddress.ip_address(ip)
        except ValueError:
            out.append((ip, cidr, False))
            return
        if cidr == "any":
            out.append((ip, cidr, True))
            return
        try:
            net = ipaddress.ip_network(cidr, strict=True)
            if "/" in cidr and not cidr.split("/")[1].isdigit():
                raise ValueError
        except ValueError:
            out.append((ip, cidr, False))
            return
        out.append((ip, cidr, a.version == net.version and a in net))

    for length in range(0, 33):
        base = r.getrandbits(32) & (0xffffffff << (32 - length)) & 0xffffffff if length else 0
        net = ipaddress.ip_network((base, length))
        lo, hi = int(net.network_address), int(net.broadcast_address)
        for a in {max(lo - 1, 0), lo, hi, min(hi + 1, 0xffffffff), r.randrange(lo, hi + 1)}:
            add(str(ipaddress.IPv4Address(a)), str(net))
        if length < 32:
            add(str(ipaddress.IPv4Address(lo)), "%s/%d" % (ipaddress.IPv4Address(lo | 1), length))   # host bits set
    for length in list(range(0, 129, 1 if tier == "thorough" else 7)) + [128, 127, 64, 1]:
        base = (r.getrandbits(128) >> (128 - length)) << (128 - length) if length else 0
        net = ipaddress.ip_network((base, length))
        lo, hi = int(net.network_address), int(net.broadcast_address)
        for a in {max(lo - 1, 0), lo, hi, min(hi + 1, (1 << 128) - 1)}:
            add(str(ipaddress.IPv6Address(a)), str(net))
    for ip, c in [("10.0.0.1", "any"), ("::1", "any"), ("10.0.0.1", "::/0"), ("::1", "0.0.0.0/0"), ("10.0.0.1", "10.0.0.1"), ("10.0.0.1", "10.0.0.2"),
                  ("10.0.0.1", "10.0.0.0/33"), ("10.0.0.1", "10.0.0.0/-1"), ("10.0.0.1", "10.0.0.0/"), ("10.0.0.1", "/8"), ("10.0.0.1", ""), ("", "10.0.0.0/8"),
                  ("010.0.0.1", "10.0.0.0/8"), ("10.0.0", "10.0.0.0/8"), ("example.com", "0.0.0.0/0"),
                  ("1.2.3.4", "1.2.3.4/32"), ("::ffff:1.2.3.4", "1.2.3.0/24"), ("1.2.3.4", "::ffff:1.2.3.0/120"), ("fe80::1", "fe80::/10"), ("fe80::1", "fe80::1/10")]:
        add(ip, c)
    return out


def run(tier, seed, replay=None):
    rep = Report("C02", tier, seed)
    coq, model, driver, blog = standard_setup("C02")
    proof_coverage(rep, coq, ["oracles (Section variables): regex crate, IP/CIDR text parsing (std, cidr crate)"])
    broken = handle_coq_result(rep, coq)
    if driver is None:
        rep.coverage.update({"evaluations": 0, "distinct_nontrivial": 0})
        rep.broken_obligation("correspondence C02: hook-built driver does not build from /repo", blog[-3000:])
        return rep.finish()
    r = rng(seed, "C02")
    g = c08.G(r)
    scen = json.load(open(replay)).get("scenarios") if replay else None
    if scen is None:
        scen = gen(r, tier, g)
    else:
        for s in scen:
            s["payload"] = bytes.fromhex(s["payload"])
    # texts of each (feature, request)
    keys = sorted(set((s["feat"], tuple(s["req"])) for s in scen))
    texts = dict(zip(keys, run_impl(driver, ["req_texts %s %s %s" % (feature_text(f), q[1], q[2]) for f, q in keys], shards=1)))
    lines, evals = [], []
    for s in scen:
        q = tuple(s["req"])
        tx = texts[(s["feat"], q)]
        rules = ";".join("%s:%s" % (h(t), h(f) if f is not None else "-") for t, f in s["rules"]) or "-"
        conns = ",".join("%s:%s:%s" % (h(n), fs, "ok" if ok else "err") for n, fs, ok in s["conns"])
        lines.append("dispatch %s %s - %s %s %s %s %s %s" % (rules, conns, h(q[0]), q[1], q[2], s["feat"], h(s["payload"]), tx))
        for t, f in s["rules"]:
            if f is not None:
                evals.append("milu_eval %s %s - %s %s %s %s" % (h(f), h(q[0]), feature_text(s["feat"]), q[1], q[2], tx))
    evals = sorted(set(evals))
    impl, mod = run_pair(driver, model, lines)
    ev_impl = dict(zip(evals, run_impl(driver, evals)))
    dist = {"allow": 0, "deny": 0, "nomatch": 0, "nofeature": 0, "connect-failed": 0, "rules-rejected": 0}
    nt = set()
    for s, line, oi, om in zip(scen, lines, impl, mod):
        q = tuple(s["req"])
        tx = texts[(s["feat"], q)]
        rj = dict(s, payload=s["payload"].hex())
        if "PANIC" in oi or oi.startswith("CRASH"):
            rep.fail("C02: dispatch %s" % ("hung: no answer for 90 s (a lock taken twice, or a wait nobody ends)" if "hang" in oi else "panicked"), {"kind": "failing-input", "scenarios": [rj], "observed": oi})
            continue
        # expected decision from the filters' own truth values
        verdicts, loadable = [], True
        for t, f in s["rules"]:
            if t != "deny" and t not in [c[0] for c in s["conns"]]:
                loadable = False
            if f is None:
                verdicts.append(True)
                continue
            e = ev_impl["milu_eval %s %s - %s %s %s %s" % (h(f), h(q[0]), feature_text(s["feat"]), q[1], q[2], tx)]
            if e == "SYNTAX" or e.startswith("T=ERR") or not e.startswith("T=boolean"):
                # Filter::validate demands boolean (Any would pass too; the generator has no Any-typed filter)
                if not e.startswith("T=any"):
                    loadable = False
            verdicts.append(e.endswith("V=(bool true)"))
        if not loadable:
            dist["rules-rejected"] += 1
            if oi != "RULES-ERR":
                rep.fail("C02 oracle: a rule list with an invalid rule was accepted: %s" % oi[:100], {"kind": "failing-input", "scenarios": [rj], "observed": oi})
            continue
        if oi == "RULES-ERR":
            rep.fail("C02 oracle: a valid rule list was rejected", {"kind": "failing-input", "scenarios": [rj], "observed": oi})
            continue
        first = next((i for i, v in enumerate(verdicts) if v), None)
        fields = dict(kv.split("=", 1) for kv in oi.split(" "))
        want_conn = None
        if first is None:
            cls = "nomatch"
        elif s["rules"][first][0] == "deny":
            cls = "deny"
        else:
            c = next(c for c in s["conns"] if c[0] == s["rules"][first][0])
            if s["feat"] not in c[1]:
                cls = "nofeature"
            else:
                want_conn = c
                cls = "allow" if c[2] else "connect-failed"
        dist[cls] += 1
        nt.add(line)
        bad = None
        if cls in ("nomatch", "deny", "nofeature"):
            if "connect:" in fields["ev"] or fields["anyfwd"] != "0" or fields["conn"] != "-" or fields["ev"] != "on_error":
                bad = "refused request (%s) had effects: %s" % (cls, oi[:140])
        else:
            nm = h(want_conn[0])
            if not fields["ev"].startswith("connect:" + nm) or fields["conn"] != nm:
                bad = "request should be served by %s (first matching rule #%d): %s" % (want_conn[0], first, oi[:140])
            elif cls == "allow" and (fields["fwd"] != h(s["payload"]) or "on_connect" not in fields["ev"]):
                bad = "payload not forwarded to the selected upstream: %s" % oi[:140]
            elif cls == "connect-failed" and (fields["anyfwd"] != "0" or "on_error" not in fields["ev"]):
                bad = "failed upstream still received payload or no error reported: %s" % oi[:140]
            elif fields["ev"].count("connect:") != 1:
                bad = "more than one upstream contacted: %s" % oi[:140]
        if bad:
            rep.fail("C02 oracle: " + bad, {"kind": "failing-input", "scenarios": [rj], "observed": oi, "model": om})
    n_diff = 0
    first_d = None
    for s, line, oi, om in zip(scen, lines, impl, mod):
        if "OPAQUE" in om:
            continue
        # the debug text of a let-bound request object is an opaque marker in the model and does not survive string
        # operators applied to it (see checks/c08.py); such rule lists are judged by the oracle above only
        if any(OPAQUE_OBJ.search(f or "") for _, f in s["rules"]):
            continue
        if canon(oi) != canon(om):
            n_diff += 1
            first_d = first_d or dict(line=line[:2000], impl=oi, model=om, scenario=dict(s, payload=s["payload"].hex()))
    # cidr_match against ipaddress
    cc = cidr_cases(r, tier)
    cl = ["milu_eval %s" % h('cidr_match("%s", "%s")' % (ip, c)) for ip, c, _ in cc]
    ci, cm = run_pair(driver, model, cl)
    ncidr = 0
    for (ip, c, want), oi, om in zip(cc, ci, cm):
        ncidr += 1
        got = oi.endswith("V=(bool true)")
        if not oi.startswith("T=boolean") or got != want:
            rep.fail("C02 oracle: cidr_match(%r, %r) = %s, CIDR containment says %s" % (ip, c, oi[-20:], want),
                     {"kind": "failing-input", "scenarios": [], "cidr": [ip, c], "observed": oi})
        if "OPAQUE" not in om and canon(oi) != canon(om):
            n_diff += 1
            first_d = first_d or dict(line=cl[0], impl=oi, model=om)
    if n_diff and not rep.violations:
        rep.broken_obligation("correspondence C02: Dispatch.v / MiluEval.v and the implementation differ on %d case(s)" % n_diff, json.dumps(first_d)[:3000])
        if first_d and "scenario" in first_d:
            rep.violations[-1][1]["scenarios"] = [first_d["scenario"]]
    # ---- the attributes filters see are the real connection's: clients of the real listeners from every kind of address ----
    # one SOCKS and one HTTP listener per local address; a rule per listener serves the request only when request.source.host
    # is the text of the address the client really connected from and cidr_match agrees; everything else is denied
    import socket as _s
    import struct as _st
    import e2e
    import c06
    def can_bind(a, fam):
        try:
            t_ = _s.socket(fam, _s.SOCK_STREAM)
            t_.bind((a, 0))
            t_.close()
            return True
        except OSError:
            return False
    addrs = [("v4-loopback", "127.0.0.1", _s.AF_INET)]
    if can_bind("::1", _s.AF_INET6):
        addrs.append(("v6-loopback", "::1", _s.AF_INET6))
    g6 = c06.global_ipv6()
    if g6 and can_bind(g6, _s.AF_INET6):
        addrs.append(("v6-global", g6, _s.AF_INET6))
    have_dual = can_bind("::", _s.AF_INET6)
    org_a = e2e.Server(e2e.echo_handler)
    ls, rules_a, ports_a = [], [], {}
    for name, a, fam in addrs:
        for kind in ("socks", "http"):
            ports_a[(name, kind)] = e2e.free_port()
            b = "%s:%d" % (a if fam == _s.AF_INET else "[%s]" % a, ports_a[(name, kind)])
            ls.append({"name": "%s-%s" % (kind, name), "type": kind, "bind": b})
        pre = "/32" if fam == _s.AF_INET else "/128"
        rules_a.append({"filter": "(request.listener == \"socks-%s\" || request.listener == \"http-%s\") && request.source.host == \"%s\" && cidr_match(request.source.host, \"%s%s\") && request.source.port > 0" % (
            name, name, a, a, pre), "target": "direct"})
    # a dual-stack listener reached over IPv4: the client is an IPv4 client
    ports_a[("dual", "socks")] = e2e.free_port()
    if have_dual:
        ls.append({"name": "socks-dual", "type": "socks", "bind": "[::]:%d" % ports_a[("dual", "socks")]})
    rules_a.append({"filter": "request.listener == \"socks-dual\" && request.source.host == \"127.0.0.1\" && cidr_match(request.source.host, \"127.0.0.0/8\")", "target": "direct"})
    pa = e2e.Proxy(driver, ls, [{"name": "direct"}], rules_a, metrics=True, name="c02-attrs")
    attr_stats = {}
    try:
        pa.start()
        cases_a = [(n_, k_, a_, f_) for n_, a_, f_ in addrs for k_ in ("socks", "http")] + ([("dual", "socks", "127.0.0.1", _s.AF_INET)] if have_dual else [])
        for name, kind, a, fam in cases_a:
            c = _s.socket(fam, _s.SOCK_STREAM)
            c.settimeout(4)
            ok, got = False, b""
            try:
                c.connect((a, ports_a[(name, kind)]))
                src_port = c.getsockname()[1]
                if kind == "socks":
                    c.sendall(b"\x05\x01\x00\x05\x01\x00\x01" + _s.inet_aton("127.0.0.1") + _st.pack(">H", org_a.port))
                    got = e2e.recv_exact(c, 12, timeout=4)
                    ok = got[:4] == b"\x05\x00\x05\x00"
                else:
                    c.sendall(("CONNECT 127.0.0.1:%d HTTP/1.1\r\n\r\n" % org_a.port).encode())
                    got = e2e.recv_until(c, b"\r\n\r\n")
                    ok = got.startswith(b"HTTP/1.1 200")
                time.sleep(0.2)
                live_src = [x["source"] for x in pa.api("live")[1]] if ok else []
            except OSError as e:
                got, live_src, src_port = str(e).encode(), [], 0
            finally:
                e2e.close_quiet(c)
            attr_stats["%s/%s" % (name, kind)] = ok
            want_src = ("%s:%d" if fam == _s.AF_INET else "[%s]:%d") % (a, src_port)
            if not ok:
                rep.fail("C02: a %s client connecting from %s to listener %s-%s was not served by the rule that asks for request.source.host == \"%s\" (reply %r): the attribute filters see is not the connection's address" % (
                    kind, a, kind, name, a, got[:40]), {"kind": "failing-input", "scenarios": [], "client_address": a, "listener": "%s-%s" % (kind, name), "reply": got.hex()[:200]})
            elif want_src not in live_src:
                rep.fail("C02: a %s client connecting from %s: the connection is listed with source %s" % (kind, want_src, live_src), {"kind": "failing-input", "scenarios": [], "client_address": a})
    except RuntimeError as e:
        rep.fail("C02: attribute world did not start: %s" % str(e)[-300:], {"kind": "failing-input", "scenarios": []})
    finally:
        pa.stop()
        org_a.close()
        import shutil
        shutil.rmtree(pa.dir, ignore_errors=True)
    if broken and not rep.violations:
        rep.broken_obligation(broken[0], broken[1])
    rep.coverage.update({
        "source_attribute_clients": attr_stats,
        "evaluations": len(lines) + len(cl) + len(attr_stats), "distinct_nontrivial": len(nt) + ncidr,
        "rule": "random rule lists (0-8 rules; filters from a pool over every request attribute incl. failing ones, typed-generated boolean filters, filterless and deny rules anywhere, occasional invalid rules / unknown targets) x 5 requests x feature x connector feature sets and outcomes; cidr_match on every IPv4 prefix length and sampled IPv6 prefix lengths at network-1/network/last/last+1 plus malformed texts; non-trivial = distinct loadable scenario, or cidr sample",
        "input_distribution": dist, "cidr_samples": ncidr, "filter_evaluations": len(evals), "model_impl_disagreements": n_diff,
        "samples": [dict(case=lines[i][:200], impl=impl[i][:160]) for i in range(0, len(lines), max(1, len(lines) // 5))][:5],
    })
    rep.assumptions = ["IP / CIDR text parsing (std, cidr crate) and the regex crate are oracles of the model; Python's ipaddress is the reference for containment"]
    return rep.finish()
