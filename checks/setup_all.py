"""Build everything the checks share: the whole Coq development (full .vo), the extracted model
runner and the hook-built driver.  Offline, from files on disk only."""
from common import *


def main():
    changed, terr = regenerate()
    if terr:
        print(terr)
        return 1
    rc, out = sh("coq_makefile -f _CoqProject -o Makefile", cwd=COQ, timeout=120)
    if rc != 0:
        print(out)
        return 1
    with flock("coq"):
        rc, out = sh("timeout 3000 make -j%d" % NCPU, cwd=COQ, timeout=3100)
    print(out[-3000:])
    if rc != 0:
        return 1
    ensure_model_run()
    drv, blog = ensure_driver("release")
    if drv is None:
        print(blog[-3000:])
        return 1
    print("setup ok")
    return 0
