"""C16 — every connection is accounted for exactly once with a truthful record.
Proof: Props/C16.v (Registry.v): for every sequence of create / end / collect operations and every history size:
ids are distinct, a connection is live exactly while it is registered and has not ended, everything that ended is
either waiting for the collector or in the log - never both, never twice -, the history is the `size` newest log
entries newest first, a collection leaves nothing pending; the state log of every outcome class follows the
lifecycle and ends in exactly one terminal state.
Tie: the real binary with an access log and history sizes 0, 3 and 1000, both I/O modes: a concurrent mix of
successful (with early data, either side closing first), denied, refused, aborted and handshake-failed
connections on http / socks / reverse listeners, with log rotation in the middle; /api/live sampled while tunnels
are held open; afterwards /api/history and the log files are compared with what the clients and origins did and
with the extracted model (state_log, lifecycle_ok, history = firstn size (rev log))."""
import collections
import concurrent.futures
import json
import os
import socket
import struct
import threading
import time

from common import *
import e2e
from e2e import LOOP


def sc_success(w, kind, n_up, early, client_first):
    port = w["org"].port
    payload = bytes((i * 7 + 1) & 0xff for i in range(n_up))
    e = payload[:early]
    if kind == "http":
        c, head, extra = e2e.http_connect(w["lp"]["http"], "%s:%d" % (LOOP, port), early=e)
        ok = head.startswith(b"HTTP/1.1 200")
    elif kind == "socks5":
        c, sel, rp_ = e2e.socks5_connect(w["lp"]["socks"], LOOP, port, early=e)
        ok, extra = rp_[:2] == b"\x05\x00", b""
    else:
        c = socket.create_connection((LOOP, w["lp"]["rev"]), timeout=5)
        if e:
            c.sendall(e)
        ok, extra = True, b""
    src = "%s:%d" % c.getsockname()
    if not ok:
        e2e.close_quiet(c)
        return dict(cls="setup-failed", source=src, kind=kind)
    c.sendall(payload[early:])
    got = extra + e2e.recv_exact(c, n_up - len(extra), timeout=10)
    if client_first:
        c.shutdown(socket.SHUT_WR)
        e2e.recv_all(c, timeout=5)
    else:
        # ask the origin to finish first: the echo origin closes when it reads the marker
        pass
    e2e.close_quiet(c)
    return dict(cls="finished", source=src, kind=kind, up=n_up, down=len(got), target="%s:%d" % (LOOP, port), connector="direct", client_first=client_first,
                listener={"http": "http", "socks5": "socks", "reverse": "rev"}[kind])


BANNER = b"220 banner from the far side, coalesced with the upstream's 200\r\n"


def sc_banner(w, kind, n_up):
    """through an upstream HTTP proxy that sends its 200 and the first tunnel bytes in one segment"""
    port = w["org2"].port
    if kind == "http":
        c, head, extra = e2e.http_connect(w["lp"]["http"], "%s:%d" % (LOOP, port))
        ok = head.startswith(b"HTTP/1.1 200")
    else:
        c, sel, rp_ = e2e.socks5_connect(w["lp"]["socks"], LOOP, port)
        ok, extra = rp_[:2] == b"\x05\x00", b""
    src = "%s:%d" % c.getsockname()
    if not ok:
        e2e.close_quiet(c)
        return dict(cls="setup-failed", source=src, kind=kind)
    c.sendall(b"b" * n_up)
    want = len(BANNER) + n_up
    got = extra + e2e.recv_exact(c, want - len(extra), timeout=10)
    c.shutdown(socket.SHUT_WR)
    e2e.recv_all(c, timeout=5)
    e2e.close_quiet(c)
    return dict(cls="finished", source=src, kind=kind, up=n_up, down=len(got), target="%s:%d" % (LOOP, port), connector="up", client_first=True,
                listener="http" if kind == "http" else "socks", banner_ok=got.startswith(BANNER))


def stall_origin(c, a, rec):
    """does not read for a second (its small receive buffer fills, the proxy's writes towards it become partial),
    then reads to the end of the stream; or, asked with the first byte 'D', sends that many bytes while the client stalls"""
    first = e2e.recv_exact(c, 1, timeout=5)
    if first == b"D":
        n = int(e2e.recv_exact(c, 8, timeout=5))
        c.sendall(b"d" * n)
        c.shutdown(socket.SHUT_WR)
        e2e.recv_all(c, timeout=20)
        return
    time.sleep(1.0)
    got, how = e2e.recv_all(c, timeout=10, limit=1 << 30)
    rec["n"] = len(first) + len(got)


def sc_stalled(w, upload, n):
    """3-6 MB towards a receiver that stalls for a second: the bytes counted must be the bytes relayed"""
    port = w["org3"].port
    c = socket.socket()
    c.setsockopt(socket.SOL_SOCKET, socket.SO_RCVBUF, 8192)
    c.settimeout(30)
    c.connect((LOOP, w["lp"]["http"]))
    c.sendall(b"CONNECT %s:%d HTTP/1.1\r\n\r\n" % (LOOP.encode(), port))
    head = e2e.recv_exact(c, 39)
    src = "%s:%d" % c.getsockname()
    if not head.startswith(b"HTTP/1.1 200"):
        e2e.close_quiet(c)
        return dict(cls="setup-failed", source=src, kind="http")
    if upload:
        c.sendall(b"U" + b"u" * (n - 1))
        c.shutdown(socket.SHUT_WR)
        e2e.recv_all(c, timeout=20)
        up, down = n, 0
    else:
        c.sendall(b"D%08d" % n)
        time.sleep(1.0)
        got, how = e2e.recv_all(c, timeout=20, limit=1 << 30)
        up, down = 9, len(got)
        c.shutdown(socket.SHUT_WR)
    e2e.close_quiet(c)
    return dict(cls="finished", source=src, kind="http-stalled-%s" % ("origin" if upload else "client"), up=up, down=down, target="%s:%d" % (LOOP, port), connector="direct",
                client_first=upload, listener="http")


def sc_denied(w, kind):
    if kind == "http":
        c, head, extra = e2e.http_connect(w["lp"]["http"], "%s:9" % LOOP)
    else:
        c, sel, rp_ = e2e.socks5_connect(w["lp"]["socks"], LOOP, 9)
    src = "%s:%d" % c.getsockname()
    e2e.recv_all(c, timeout=3)
    e2e.close_quiet(c)
    return dict(cls="refused", source=src, kind=kind, target="%s:9" % LOOP, connector=None, listener="http" if kind == "http" else "socks")


def sc_refused(w, kind):
    port = w["closed"]
    if kind == "http":
        c, head, extra = e2e.http_connect(w["lp"]["http"], "%s:%d" % (LOOP, port))
    else:
        c, sel, rp_ = e2e.socks5_connect(w["lp"]["socks"], LOOP, port)
    src = "%s:%d" % c.getsockname()
    e2e.recv_all(c, timeout=3)
    e2e.close_quiet(c)
    return dict(cls="connect-failed", source=src, kind=kind, target="%s:%d" % (LOOP, port), connector="direct", listener="http" if kind == "http" else "socks")


def sc_abort(w, kind, n_up):
    port = w["org"].port
    if kind == "http":
        c, head, extra = e2e.http_connect(w["lp"]["http"], "%s:%d" % (LOOP, port))
    else:
        c, sel, rp_ = e2e.socks5_connect(w["lp"]["socks"], LOOP, port)
        extra = b""
    src = "%s:%d" % c.getsockname()
    c.sendall(b"a" * n_up)
    e2e.recv_exact(c, n_up - len(extra), timeout=5)
    c.setsockopt(socket.SOL_SOCKET, socket.SO_LINGER, struct.pack("ii", 1, 0))
    c.close()
    return dict(cls="relay-failed", source=src, kind=kind, up=n_up, down=n_up, target="%s:%d" % (LOOP, port), connector="direct", listener="http" if kind == "http" else "socks")


def sc_handshake_failed(w, kind, what):
    port = w["lp"]["http" if kind == "http" else "socks"]
    c = socket.create_connection((LOOP, port), timeout=5)
    src = "%s:%d" % c.getsockname()
    if what == "garbage":
        c.sendall(b"\x09garbage\r\n\r\n")
        e2e.recv_all(c, timeout=3)
    elif what == "partial":
        c.sendall(b"CONNECT 1" if kind == "http" else b"\x05\x01")
        time.sleep(0.1)
    e2e.close_quiet(c)
    return dict(cls="handshake-failed", source=src, kind=kind, listener="http" if kind == "http" else "socks")


def class_arg(h, rec):
    """the model's outcome class for a record, from what the harness did and the record's own shutdown states"""
    states = [s["state"] for s in rec["state"]]
    if h["cls"] == "handshake-failed":
        return "H"
    if h["cls"] == "refused":
        return "R"
    if h["cls"] == "connect-failed":
        return "C"
    if h["cls"] == "finished":
        # which direction ended first is decided by the endpoints' timing; take it from the record
        first = [s for s in states if s in ("ClientShutdown", "ServerShutdown")][:1]
        return "F1" if first == ["ClientShutdown"] else "F0"
    c = "1" if "ClientShutdown" in states else "0"
    s = "1" if "ServerShutdown" in states else "0"
    return "X" + c + s


def run_world(rep, driver, model, r, tier, splice, hsize, n_eval, dist):
    org = e2e.Server(e2e.echo_handler)
    closed = e2e.free_port()
    lp = {"http": e2e.free_port(), "socks": e2e.free_port(), "rev": e2e.free_port()}
    listeners = [{"name": "http", "bind": "%s:%d" % (LOOP, lp["http"])}, {"name": "socks", "bind": "%s:%d" % (LOOP, lp["socks"])},
                 {"name": "rev", "type": "reverse", "bind": "%s:%d" % (LOOP, lp["rev"]), "target": "%s:%d" % (LOOP, org.port)}]
    org2 = e2e.Server(e2e.echo_handler)
    org3 = e2e.Server(stall_origin)
    org3.sock.setsockopt(socket.SOL_SOCKET, socket.SO_RCVBUF, 8192)      # inherited by the accepted connections
    upsrv = e2e.Server(e2e.http_upstream(verdict=b"HTTP/1.1 200 OK\r\n\r\n" + BANNER, relay_to=(LOOP, org2.port)))
    p = e2e.Proxy(driver, listeners, [{"name": "direct"}, {"name": "up", "type": "http", "server": LOOP, "port": upsrv.port}],
                  [{"filter": "request.target.port == 9", "target": "deny"}, {"filter": "request.target.port == %d" % org2.port, "target": "up"}, {"target": "direct"}],
                  metrics=True, access_log=True, name="c16-%s-%d" % ("s" if splice else "b", hsize), history=hsize, io={"useSplice": splice, "bufferSize": 65536})
    w = {"org": org, "org2": org2, "org3": org3, "closed": closed, "lp": lp}
    io = [splice, hsize]
    try:
        p.start()
        time.sleep(0.3)          # the listeners' accept of the start-up probes may lag behind the probes' connect
        t_start = time.time()
        jobs = []
        n = 40 if tier == "quick" else 300
        for _ in range(n):
            k = r.random()
            kind = r.choice(["http", "socks5", "reverse"])
            if k < 0.12:
                jobs.append(lambda kind=r.choice(["http", "socks5"]), up=r.choice([0, 13, 4000]): sc_banner(w, kind, up))
            elif k < 0.45:
                up = r.choice([0, 1, 100, 5000, 70000])
                jobs.append(lambda kind=kind, up=up, e=r.choice([0, 0, min(up, 10), up]), cf=True: sc_success(w, kind, up, e, cf))
            elif k < 0.55:
                jobs.append(lambda kind=r.choice(["http", "socks5"]): sc_denied(w, kind))
            elif k < 0.65:
                jobs.append(lambda kind=r.choice(["http", "socks5"]): sc_refused(w, kind))
            elif k < 0.78:
                jobs.append(lambda kind=r.choice(["http", "socks5"]), up=r.choice([1, 300]): sc_abort(w, kind, up))
            else:
                jobs.append(lambda kind=r.choice(["http", "socks5"]), what=r.choice(["garbage", "partial", "nothing"]): sc_handshake_failed(w, kind, what))

        for _ in range(3 if tier == "quick" else 12):
            for upload in (True, False):
                jobs.append(lambda upload=upload, nn=r.randrange(3_000_000, 6_000_000): sc_stalled(w, upload, nn))
        r.shuffle(jobs)

        def guarded(j):
            try:
                return j()
            except Exception as e:
                return dict(cls="harness-error", error=str(e)[:100])
        # a few tunnels held open to look at /api/live
        held = []
        for kind in ("http", "socks5"):
            for _ in range(2):
                if kind == "http":
                    c, head, extra = e2e.http_connect(lp["http"], "%s:%d" % (LOOP, org.port))
                else:
                    c, sel, rp_ = e2e.socks5_connect(lp["socks"], LOOP, org.port)
                c.sendall(b"held")
                e2e.recv_exact(c, 4)
                held.append(c)
        held_src = {"%s:%d" % c.getsockname() for c in held}
        rotated = os.path.join(p.dir, "access.log.1")

        def rotate():
            time.sleep(0.4)
            try:
                os.rename(p.log_path, rotated)
                p.api("logrotate")
            except Exception:
                pass
        rt = threading.Thread(target=rotate, daemon=True)
        rt.start()
        with concurrent.futures.ThreadPoolExecutor(8) as ex:
            hs = list(ex.map(guarded, jobs))
        rt.join(5)
        # a burst of tunnels that all end at the same moment: their records reach the collector from many threads at once,
        # and each must still be reported exactly once
        n_burst = 250 if tier == "quick" else 1200
        burst = []

        def open_one(_):
            try:
                c, head, extra = e2e.http_connect(lp["http"], "%s:%d" % (LOOP, org.port))
                if not head.startswith(b"HTTP/1.1 200"):
                    e2e.close_quiet(c)
                    return None
                c.sendall(b"abcd")
                e2e.recv_exact(c, 4)
                return c
            except OSError:
                return None
        with concurrent.futures.ThreadPoolExecutor(16) as ex:
            burst = [c for c in ex.map(open_one, range(n_burst)) if c is not None]
        burst_src = ["%s:%d" % c.getsockname() for c in burst]
        for c in burst:                   # all at once
            try:
                c.close()
            except OSError:
                pass
        hs += [dict(cls="finished", source=s_, kind="burst", up=4, down=4, target="%s:%d" % (LOOP, org.port), connector="direct", client_first=True, listener="http") for s_ in burst_src]
        time.sleep(1.3)
        live = p.api("live")[1]
        live_src = {x["source"] for x in live}
        n_eval[0] += 1
        if live_src != held_src:
            rep.fail("C16: /api/live lists %s while the open tunnels are %s (splice=%s, history %d)" % (sorted(live_src), sorted(held_src), splice, hsize),
                     {"kind": "failing-input", "io": io, "live": sorted(live_src), "open": sorted(held_src)})
        for c in held:
            c.shutdown(socket.SHUT_WR)
            e2e.recv_all(c, timeout=3)
            e2e.close_quiet(c)
        hs += [dict(cls="finished", source=s, kind="held", up=4, down=4, target="%s:%d" % (LOOP, org.port), connector="direct", client_first=True,
                    listener=None) for s in held_src]
        time.sleep(2.3)
        hist = p.api("history")[1]
        live2 = p.api("live")[1]
        p.api("logrotate")
        time.sleep(0.3)
        lines = []
        for path in (rotated, p.log_path):
            if os.path.exists(path):
                lines += [json.loads(l) for l in open(path).read().split("\n") if l.strip()]
        alive = p.alive()
    finally:
        p.stop()
        org.close()
        org2.close()
        org3.close()
        upsrv.close()
        import shutil
        shutil.rmtree(p.dir, ignore_errors=True)
    if not alive:
        rep.fail("C16: the proxy died (splice=%s, history %d)" % (splice, hsize), {"kind": "failing-input", "io": io})
    if live2:
        rep.fail("C16: %d connections still listed as live 2.3s after every client finished" % len(live2), {"kind": "failing-input", "io": io, "live": [x["source"] for x in live2]})
    # ---- exactly once, distinct ids ---------------------------------------------------------
    ids = [x["id"] for x in lines]
    if len(ids) != len(set(ids)):
        dup = [i for i, c in collections.Counter(ids).items() if c > 1]
        rep.fail("C16: access log has connection ids more than once: %s" % dup[:5], {"kind": "failing-input", "io": io, "ids": dup[:20]})
    by_src = collections.defaultdict(list)
    for x in lines:
        # the harness' own start-up probes (before t_start) may have used a client port that a scenario gets again later
        # (recorded times are whole milliseconds: allow for the truncation; the probes end 0.3 s before t_start)
        if x["state"] and x["state"][0]["time"] / 1000.0 >= t_start - 0.05:
            by_src[x["source"]].append(x)
    expected = collections.Counter(h["source"] for h in hs if "source" in h)
    for h in hs:
        n_eval[0] += 1
        dist[h["cls"]] += 1
        if h["cls"] == "harness-error":
            rep.fail("C16: harness: %s" % h["error"], {"kind": "failing-input", "io": io})
            continue
        if h["cls"] == "setup-failed":
            rep.fail("C16: a %s tunnel to the echo origin was refused" % h["kind"], {"kind": "failing-input", "io": io, "history": h})
            continue
        recs = by_src.get(h["source"], [])
        if len(recs) != expected[h["source"]]:
            rep.fail("C16: connection from %s (%s, %s): %d access-log records, expected %d" % (h["source"], h["kind"], h["cls"], len(recs), expected[h["source"]]),
                     {"kind": "failing-input", "io": io, "history": h})
            continue
        if expected[h["source"]] != 1:
            continue            # the client port was used twice in this run; the count is right, skip field matching
        rec = recs[0]
        desc = "%s %s connection from %s (splice=%s)" % (h["kind"], h["cls"], h["source"], splice)
        rp = {"kind": "failing-input", "io": io, "history": h, "record": {k: rec.get(k) for k in ("id", "state", "listener", "connector", "target", "error", "client_stat", "server_stat")}}
        if h.get("listener") and rec["listener"] != h["listener"]:
            rep.fail("C16: %s: recorded listener %r" % (desc, rec["listener"]), rp)
        if "target" in h and h["cls"] != "handshake-failed" and str(rec["target"]) != h["target"]:
            rep.fail("C16: %s: recorded target %r, the client asked for %s" % (desc, rec["target"], h["target"]), rp)
        if "connector" in h and rec["connector"] != h["connector"]:
            rep.fail("C16: %s: recorded upstream %r, used %r" % (desc, rec["connector"], h["connector"]), rp)
        states = [s["state"] for s in rec["state"]]
        h["_cls_arg"], h["_states"] = class_arg(h, rec), states
        if states[-1:] == ["ErrorOccured"] and not rec.get("error"):
            rep.fail("C16: %s: ends in ErrorOccured without an error text" % desc, rp)
        if states[-1:] == ["Terminated"] and rec.get("error"):
            rep.fail("C16: %s: finished, but carries the error text %r" % (desc, rec["error"][:60]), rp)
        if h["cls"] in ("finished", "relay-failed"):
            cu, cd = rec["client_stat"]["read_bytes"], rec["server_stat"]["read_bytes"]
            if cu != h["up"] or cd != h["down"]:
                rep.fail("C16: %s: counters say %d bytes up / %d down, the endpoints exchanged %d up / %d down" % (desc, cu, cd, h["up"], h["down"]), rp)
    # records nobody can explain (the start-up probes of the harness come before t_start)
    for x in lines:
        if x["source"] not in expected and x["state"][0]["time"] / 1000.0 >= t_start:
            rep.fail("C16: access-log record %d from %s matches no client of the harness" % (x["id"], x["source"]), {"kind": "failing-input", "io": io, "record": x})
    # ---- the model: lifecycle, state_log, history ---------------------------------------------
    ml, mi = [], []
    for h in hs:
        if "_cls_arg" in h:
            ml.append("lifecycle %s %s" % (h["_cls_arg"], ",".join(h["_states"])))
            mi.append(h)
    mo = run_model(model, ml) if ml else []
    for h, o in zip(mi, mo):
        n_eval[0] += 1
        # "OK ok=<bool> expected=<states>"
        if "ok=true" not in o or "same=true" not in o:
            rep.fail("C16: %s %s connection from %s: recorded state log %s; the lifecycle for this outcome is %s" % (h["kind"], h["cls"], h["source"], h["_states"], o),
                     {"kind": "failing-input", "io": io, "history": {k: v for k, v in h.items() if not k.startswith("_")}, "states": h["_states"], "model": o})
    log_ids = [x["id"] for x in lines]
    want_hist = list(reversed(log_ids))[:hsize]
    got_hist = [x["id"] for x in hist]
    # the last logrotate / late collections may add log lines after the history snapshot: compare on the snapshot's ids
    n_eval[0] += 1
    if got_hist != [i for i in want_hist if i in set(got_hist)][:len(got_hist)] or len(got_hist) > hsize or (len(log_ids) >= hsize and len(got_hist) < hsize):
        rep.fail("C16: history (size %d) is %s, the newest log entries newest-first are %s" % (hsize, got_hist[:12], want_hist[:12]),
                 {"kind": "failing-input", "io": io, "history_ids": got_hist, "log_ids": log_ids})
    return len(hs)


def run(tier, seed, replay=None):
    rep = Report("C16", tier, seed)
    coq, model, driver, blog = standard_setup("C16")
    proof_coverage(rep, coq, ["the registry operations are atomic in the model (they run under the registry / history mutexes in the code)",
                              "UDP sessions and TLS listeners are not exercised end to end"])
    broken = handle_coq_result(rep, coq)
    if driver is None:
        rep.coverage.update({"evaluations": 0, "distinct_nontrivial": 0})
        rep.broken_obligation("correspondence C16: hook-built binary does not build from /repo", blog[-3000:])
        return rep.finish()
    r = rng(seed, "C16")
    n_eval, dist = [0], collections.Counter()
    # registry op sequences against the model's own invariants are theorems; here the real registry
    worlds = [(True, 1000), (False, 3), (True, 0)] if tier == "quick" else [(True, 1000), (False, 1000), (True, 3), (False, 0), (True, 1), (False, 7)]
    total = 0
    for splice, hsize in worlds:
        total += run_world(rep, driver, model, r, tier, splice, hsize, n_eval, dist)
    rep.coverage.update({
        "evaluations": n_eval[0], "distinct_nontrivial": total,
        "rule": "per world (I/O mode x history size %s): 40 (thorough 300) connections from 8 threads on http / socks / reverse listeners: finished tunnels with 0..70000 bytes and early data, denied, refused by the origin, aborted by RST, handshake failures (garbage, partial, nothing), 3-6 MB uploads / downloads towards a receiver that stalls for a second (partial writes and partial splices), 4 tunnels held open for /api/live, a log rotation in the middle, then 250 (thorough 1200) tunnels that all end at the same moment" % [w[1] for w in worlds],
        "input_distribution": dict(dist),
    })
    rep.assumptions = ["access-log lines are read after POST /api/logrotate (the log writer buffers)", "client ports reused within one world are matched by count only"]
    if broken and not rep.violations:
        rep.broken_obligation(broken[0], broken[1])
    return rep.finish()
