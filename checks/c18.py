"""C18 — bad configuration is an error, never a crash; accepted configuration runs.
Proof: Props/C18.v (Config.v): for every connector table the start-up sequence accepts (unique names, every load
balancer non-empty, members exist, no load balancer reaches itself) the chain of member selections a request
goes through ends at a real upstream within |table| + 1 steps, whatever the selection algorithm picks - no
unbounded recursion; self-membership is rejected; without the check no amount of stack suffices.
Tie: (1) the start-up block of main() run in-process on generated documents (driver op config_load): bases that
use every listener / connector kind, mutants (delete / retype / duplicate / randomise any field, rename types,
rewire load-balancer members), random load-balancer graphs with cycles; every answer must be OK or ERR - never
a panic, an abort or a hang - and every accepted document must then serve one probe request per connector;
(2) accept / reject and the selection chain of load-balancer graphs against the extracted model; (3) the real
binary with --test on a sample, and accepted documents started for real and probed; (4) rule lists posted as
JSON to /api/rules."""
import collections
import concurrent.futures
import json
import os
import socket
import subprocess
import time
import urllib.request
import urllib.error

from common import *
import e2e
import config_cases as cc
import relay_world as rw
from e2e import LOOP


def quic_dependents(doc):
    """names of QUIC connectors and of load balancers that can hand a request to one (their connect waits for an
    unreachable server; that wait is C19's subject, not a hang of the loader)"""
    conns = doc.get("connectors") if isinstance(doc, dict) else None
    if not isinstance(conns, list):
        return []
    kind, members = {}, {}
    for c in conns:
        if isinstance(c, dict) and isinstance(c.get("name"), str):
            t = c.get("type", c["name"])
            kind[c["name"]] = t if isinstance(t, str) else c["name"]
            if isinstance(c.get("connectors"), list):
                members[c["name"]] = [m for m in c["connectors"] if isinstance(m, str)]
    bad = {n for n, t in kind.items() if t == "quic"}
    changed = True
    while changed:
        changed = False
        for n, ms in members.items():
            if n not in bad and any(m in bad for m in ms):
                bad.add(n)
                changed = True
    return sorted(bad)


def filter_class(text, worker=False):
    """known-finding class of a filter text (see known_findings.json): nesting that makes the recursive-descent parser /
    type checker overflow the stack.  The hook build has larger frames than the shipped profile (brackets: about 145
    levels on the main thread and 33 on a 2 MB worker thread, against about 660 and 175); the thresholds below are the
    hook build's, with a margin.  worker=True: the text is handled on a worker thread (POST /api/rules)."""
    if not isinstance(text, str):
        return []
    depth, mx, run, mxrun = 0, 0, 0, 0
    for ch in text:
        if ch in "([{":
            depth += 1
            mx = max(mx, depth)
        elif ch in ")]}":
            depth = max(0, depth - 1)
        if ch in "!~-":
            run += 1
            mxrun = max(mxrun, run)
        elif ch not in " \t\r\n":
            run = 0
    chain = text.count("?") + text.count("if ") + text.count("let ")
    ops = sum(text.count(o) for o in ("+", "-", "*", "/", "&&", "||", "==", "."))
    tags = []
    if mx >= (28 if worker else 130) or mxrun >= 200 or chain >= 200 or ops >= 4000:
        tags.append("C18-deep-filter-stack-overflow")
    return tags


def doc_tags(doc):
    tags = []
    if isinstance(doc, dict) and isinstance(doc.get("rules"), list):
        for r_ in doc["rules"]:
            if isinstance(r_, dict):
                tags += filter_class(r_.get("filter"))
    if isinstance(doc, dict) and isinstance(doc.get("connectors"), list):
        for c in doc["connectors"]:
            if isinstance(c, dict):
                a = c.get("algo", c.get("algorithm"))
                if isinstance(a, dict):
                    tags += filter_class(a.get("hashBy", a.get("hash")))
    return tags


DEEP_FILTERS = [("paren depth 3000", "(" * 3000 + "1" + ")" * 3000 + " == 1"),
                ("unary run 6000", "!" * 6000 + "true"), ("ternary chain 3000", "true ? true : " * 3000 + "true"),
                ("operator chain 30000", "1" + "+1" * 30000 + " == 1")]


def nested(n):
    """nesting that the parser / checker re-parsed or re-typed at every level until 93a4f8e / 85e7ccf (time grew by a
    factor of 2 to 6 per level): must be answered, with OK or an error, in time"""
    return [("paren depth %d" % n, "(" * n + "1" + ")" * n + " == 1"),
            ("array depth %d" % n, "[" * n + "1" + "]" * n + "[0]" * n + " == 1"),
            ("tuple depth %d" % n, "(" * n + "1" + ",)" * n + ".0" * n + " == 1"),
            ("pair depth %d" % n, "(2," * n + "1" + ")" * n + ".1" * n + " == 1"),
            ("bracketed ternaries depth %d" % n, "(true ? " * n + "true" + " : false)" * n),
            ("call depth %d" % n, "to_string(" * n + "1" + ")" * n + " == \"1\""),
            ("unbalanced depth %d" % n, "(" * n + "1 2" + ")" * n)]


NESTED_MAIN = nested(12) + nested(25) + nested(80)        # config file: main thread
NESTED_WORKER = nested(10) + nested(20)                     # POST /api/rules: 2 MB worker thread


def line_for(doc, probe=True):
    skip = quic_dependents(doc)
    return "config_load %s %s %s" % (cc.to_yaml(doc).encode().hex(), "probe" if probe else "-", ",".join(s.encode().hex() for s in skip) or "-")


def run_isolated(driver, lines, timeout=20):
    """one process per document: a crash or hang is attributed to exactly that document"""
    env = dict(ENV)
    env["REDPROXY_VERIF_DRIVER"] = "1"

    # relative paths in hostile documents (a retyped accessLog.path, say) must not land in the check's own directory
    cwd = os.path.join(CACHE, "e2e", "c18-cwd-%d" % os.getpid())
    os.makedirs(cwd, exist_ok=True)

    def one(l):
        try:
            p = subprocess.run([driver], input=l + "\n", env=env, capture_output=True, text=True, timeout=timeout, cwd=cwd)
        except subprocess.TimeoutExpired:
            return "HANG process did not answer within %ds" % timeout
        out = p.stdout.strip().split("\n")[-1] if p.stdout.strip() else ""
        if p.returncode != 0 or not out:
            return "CRASH rc=%d %s" % (p.returncode, p.stderr.strip()[-200:].replace("\n", " "))
        return out
    try:
        with concurrent.futures.ThreadPoolExecutor(NCPU) as ex:
            return list(ex.map(one, lines))
    finally:
        import shutil
        shutil.rmtree(cwd, ignore_errors=True)


def graph_doc(g):
    """g: list of (name, None | [members]) over names '0'..; a document with exactly that connector table"""
    conns = []
    for n, ms in g:
        if ms is None:
            conns.append({"name": "c%s" % n})
            conns[-1]["type"] = "direct"
        else:
            conns.append({"name": "c%s" % n, "type": "loadbalance", "connectors": ["c%s" % m for m in ms]})
    return {"apiVersion": "v1alpha", "kind": "ProxyDefinition", "listeners": [], "connectors": conns, "rules": [{"target": "deny"}]}


def graph_enc(g):
    return ",".join("%s:%s" % (n, "P" if ms is None else "L" + ".".join(ms)) for n, ms in g) or "-"


def gen_graphs(r, n):
    out = []
    for _ in range(n):
        k = r.randint(1, 6)
        names = [str(i) for i in range(k)]
        g = []
        for nm in names:
            if r.random() < 0.35:
                g.append((nm, None))
            else:
                pool = names + ([str(k + 1)] if r.random() < 0.1 else [])     # sometimes an unknown member
                g.append((nm, [r.choice(pool) for _ in range(r.randint(0 if r.random() < 0.1 else 1, 3))]))
        if r.random() < 0.05 and len(g) > 1:
            g.append(g[0])                                               # duplicate name
        out.append(g)
    return out


def run(tier, seed, replay=None):
    rep = Report("C18", tier, seed)
    coq, model, driver, blog = standard_setup("C18")
    proof_coverage(rep, coq, ["serde_yaml / serde deserialisation of the per-kind structures is not modelled (exercised by the hostile documents)",
                              "QUIC connectors are excluded from the probe request (connect to an unreachable server waits; see C19)"])
    broken = handle_coq_result(rep, coq)
    if driver is None:
        rep.coverage.update({"evaluations": 0, "distinct_nontrivial": 0})
        rep.broken_obligation("correspondence C18: hook-built binary does not build from /repo", blog[-3000:])
        return rep.finish()
    r = rng(seed, "C18")
    crt, key = rw.tls_material()
    n_eval, dist = 0, collections.Counter()
    # ---- (1) hostile documents, in-process ---------------------------------------------
    if replay:
        docs = [(d["what"], d["doc"]) for d in json.load(open(replay)).get("docs", [])]
    else:
        docs = []
        per = 350 if tier == "quick" else 4000
        for b in cc.bases(crt, key):
            docs.append(("base", b))
            docs += cc.mutants(r, b, per)
        docs += cc.lb_graphs(r, 150 if tier == "quick" else 1500)
        docs += cc.access_log_docs()
        docs += cc.tls_file_docs(crt, key, os.path.join(CACHE, "e2e", "c18-tlsfiles"))
        for what, f in DEEP_FILTERS + NESTED_MAIN:
            docs.append(("filter with " + what, {"apiVersion": "v1alpha", "kind": "ProxyDefinition", "listeners": [], "connectors": [{"name": "direct"}],
                                                 "rules": [{"filter": f, "target": "direct"}]}))
        docs += [("not a mapping", [1, 2]), ("scalar", "x"), ("empty", {}), ("null", None),
                 ("deep nesting", {"apiVersion": "v1alpha", "kind": "ProxyDefinition", "listeners": [], "connectors": [], "rules": [[[[[[[[[[1]]]]]]]]]]})]
    lines = [line_for(d) for _, d in docs]
    outs = run_isolated(driver, lines)
    accepted = []
    for (what, d), o in zip(docs, outs):
        n_eval += 1
        cls = " ".join(o.split(" ")[:2]) if o.startswith("ERR") else o.split(" ")[0]
        dist[cls] += 1
        if o == "OK":
            accepted.append((what, d))
        elif not o.startswith("ERR "):
            rep.fail("C18: configuration document (%s) makes the start-up sequence %s" % (what[:160], o[:200]),
                     {"kind": "failing-input", "docs": [dict(what=what, doc=d if len(json.dumps(d, default=str)) < 20000 else "long")], "observed": o}, tags=doc_tags(d))
    # ---- (2) load-balancer graphs against the model -------------------------------------
    graphs = gen_graphs(r, 400 if tier == "quick" else 5000)
    glines = [line_for(graph_doc(g), probe=True) for g in graphs]
    gouts = run_isolated(driver, glines)
    mouts = run_model(model, ["cfg_table " + graph_enc(g) for g in graphs])
    n_diff = 0
    res_lines, res_idx = [], []
    for i, (g, oi, om) in enumerate(zip(graphs, gouts, mouts)):
        n_eval += 1
        dup = len({n for n, _ in g}) != len(g)
        want = "OK" if om == "OK" else "ERR"
        got = "OK" if oi == "OK" else ("ERR" if oi.startswith("ERR ") else oi)
        dist["graph:" + ("accepted" if oi == "OK" else "rejected" if oi.startswith("ERR") else "other")] += 1
        if got not in ("OK", "ERR"):
            rep.fail("C18: connector table %s makes the start-up sequence / first request %s" % (graph_enc(g), oi[:160]),
                     {"kind": "failing-input", "docs": [dict(what="graph " + graph_enc(g), doc=graph_doc(g))], "observed": oi})
        elif got != want:
            n_diff += 1
            if n_diff <= 3:
                rep.fail("C18: connector table %s: the implementation answers %s, the model's table_ok says %s" % (graph_enc(g), oi[:60], om),
                         {"kind": "failing-input", "docs": [dict(what="graph " + graph_enc(g), doc=graph_doc(g))], "observed": oi, "model": om})
        if om == "OK":
            for n, ms in g:
                if ms is not None:
                    res_lines.append("cfg_resolve %s %s %s" % (graph_enc(g), n, ".".join(str(r.randint(0, 9)) for _ in range(8))))
    routs = run_model(model, res_lines) if res_lines else []
    for l, o in zip(res_lines, routs):
        n_eval += 1
        if not o.startswith("LEAF"):
            rep.fail("C18: model: accepted table but the selection chain gives %s (%s)" % (o, l), {"kind": "failing-input", "line": l})
    # ---- (3) the real binary ---------------------------------------------------------------
    # the access-log writer runs as a task of its own: what it does with an unusable path only shows in the real binary
    sample = [("base", b) for b in cc.bases(crt, key)] + cc.access_log_docs() + r.sample(docs, min(len(docs), 24 if tier == "quick" else 200))
    tdir = os.path.join(CACHE, "e2e", "c18-%d" % os.getpid())
    os.makedirs(tdir, exist_ok=True)

    def test_mode(i, what, d):
        path = os.path.join(tdir, "cfg-%d.yaml" % i)
        open(path, "w").write(cc.to_yaml(d))
        env = dict(ENV)
        env.pop("REDPROXY_VERIF_DRIVER", None)
        env["RUST_LOG"] = "error"
        try:
            p = subprocess.run([driver, "-c", path, "-t", "1"], env=env, capture_output=True, text=True, timeout=30, cwd=tdir)
            out = p.stdout + p.stderr
            if "panicked at" in out:
                # the hook build unwinds; the shipped profile aborts on panic
                i = out.find("panicked at")
                return "panic", out[max(0, i - 80):i + 220]
            return p.returncode, out[-300:]
        except subprocess.TimeoutExpired:
            return "timeout", ""
    with concurrent.futures.ThreadPoolExecutor(NCPU) as ex:
        tres = list(ex.map(lambda a: test_mode(a[0], a[1][0], a[1][1]), list(enumerate(sample))))
    inproc = dict(zip([json.dumps(d, sort_keys=True, default=str) for _, d in docs], outs))
    for (what, d), (rc, tail) in zip(sample, tres):
        n_eval += 1
        dist["--test:" + ("ok" if rc == 0 else "error" if rc == 1 else str(rc))] += 1
        if rc not in (0, 1):
            rep.fail("C18: redproxy-rs --test on document (%s) ends with %s: %s" % (what[:120], rc, tail[-160:].replace("\n", " ")),
                     {"kind": "failing-input", "docs": [dict(what=what, doc=d if len(json.dumps(d, default=str)) < 20000 else "long")], "observed": "rc=%s %s" % (rc, tail)}, tags=doc_tags(d))
        o = inproc.get(json.dumps(d, sort_keys=True, default=str))
        if o is not None and (o == "OK") != (rc == 0) and rc in (0, 1):
            rep.fail("C18: document (%s): --test says %s, the in-process start-up sequence says %s" % (what[:120], "ok" if rc == 0 else "error", o[:60]),
                     {"kind": "failing-input", "docs": [dict(what=what, doc=d)]})
    # accepted documents, started for real: ports are rewritten to free ones, then one probe per TCP listener
    started = 0
    accepted.sort(key=lambda wd: not wd[0].startswith("accessLog"))
    for what, d in accepted[: (6 if tier == "quick" else 40)]:
        d2 = json.loads(json.dumps(d))
        try:
            lports = []
            for l in d2.get("listeners", []):
                udp = l.get("protocol") == "udp" or l.get("type", l.get("name")) == "quic"
                p = e2e.free_port(socket.SOCK_DGRAM if udp else socket.SOCK_STREAM)
                l["bind"] = "%s:%d" % (LOOP, p)
                if not udp and l.get("type", l.get("name")) in ("http", "socks") and "tls" not in l:
                    lports.append((l.get("type", l.get("name")), p))
            d2["listeners"] = [l for l in d2.get("listeners", []) if l.get("type", l.get("name")) != "tproxy"]
            if isinstance(d2.get("metrics"), dict):
                d2["metrics"]["bind"] = "%s:%d" % (LOOP, e2e.free_port())
        except (AttributeError, TypeError):
            continue
        path = os.path.join(tdir, "run-%d.yaml" % started)
        open(path, "w").write(cc.to_yaml(d2))
        env = dict(ENV)
        env.pop("REDPROXY_VERIF_DRIVER", None)
        env["RUST_LOG"] = "error"
        proc = subprocess.Popen([driver, "-c", path], env=env, stdout=subprocess.DEVNULL, stderr=subprocess.PIPE, text=True, cwd=tdir)
        try:
            ok = all(e2e.wait_listen(p, 8.0) for _, p in lports)
            closed = e2e.free_port()
            for kind, p in lports:
                try:
                    if kind == "http":
                        c, head, extra = e2e.http_connect(p, "%s:%d" % (LOOP, closed), timeout=6.0)
                    else:
                        c, sel, rp_ = e2e.socks5_connect(p, LOOP, closed, timeout=6.0)
                    e2e.close_quiet(c)
                except OSError:
                    pass
            time.sleep(0.3)
            n_eval += 1
            started += 1
            dist["run:probed"] += 1
            if proc.poll() is not None or not ok:
                err = proc.stderr.read()[-300:] if proc.poll() is not None else ""
                rep.fail("C18: accepted document (%s) but the proxy %s: %s" % (what[:120], "exited with %s" % proc.returncode if proc.poll() is not None else "did not listen", err.replace("\n", " ")),
                         {"kind": "failing-input", "docs": [dict(what=what, doc=d2)]})
        finally:
            if proc.poll() is None:
                proc.terminate()
                try:
                    proc.wait(3)
                except subprocess.TimeoutExpired:
                    proc.kill()
    # ---- (4) rule lists posted as JSON ------------------------------------------------------
    org = e2e.Server(e2e.echo_handler)
    lp = e2e.free_port()
    p = e2e.Proxy(driver, [{"name": "http", "bind": "%s:%d" % (LOOP, lp)}], [{"name": "direct"}], [{"target": "direct"}], metrics=True, name="c18-rules")
    posted = 0
    try:
        p.start()
        bodies = [[], [{"target": "deny"}], [{"target": "nosuch"}], [{"filter": "1 +", "target": "direct"}], [{"filter": "1 + 1", "target": "direct"}],
                  {"x": 1}, "str", 5, None, [[1]], [{"filter": 7, "target": "direct"}], [{"target": 5}], [{}], [{"filter": "request.target.port == 80"}],
                  [{"filter": "a" * 70000, "target": "direct"}]]
        deep_bodies = [[{"filter": f, "target": "direct"}] for _, f in DEEP_FILTERS]
        bodies += [[{"filter": f, "target": "direct"}] for _, f in NESTED_WORKER]
        for _ in range(30 if tier == "quick" else 300):
            bodies.append([r.choice([{"target": r.choice(["deny", "direct", "x", None, 3])}, {"filter": r.choice(cc.RETYPES), "target": "direct"}, r.choice(cc.RETYPES)])
                           for _ in range(r.randint(0, 4))])
        for b in bodies:
            n_eval += 1
            posted += 1
            req = urllib.request.Request("http://%s:%d/api/rules" % (LOOP, p.api_port), data=json.dumps(b).encode(), headers={"Content-Type": "application/json"}, method="POST")
            try:
                with urllib.request.urlopen(req, timeout=10) as resp:
                    st = resp.status
            except urllib.error.HTTPError as e:
                st = e.code
            except Exception as e:
                st = "no answer: %s" % e
            dist["post-rules:%s" % st] += 1
            if not p.alive() or not isinstance(st, int):
                rep.fail("C18: POST /api/rules with %s: %s, proxy alive: %s" % (json.dumps(b)[:120], st, p.alive()),
                         {"kind": "failing-input", "rules": b if len(json.dumps(b)) < 5000 else "long"})
                if not p.alive():
                    break
        # the known-finding classes, last (they can take the process down): one fresh proxy each
        for b in deep_bodies:
            if not p.alive():
                p.stop()
                p.start()
            n_eval += 1
            posted += 1
            req = urllib.request.Request("http://%s:%d/api/rules" % (LOOP, p.api_port), data=json.dumps(b).encode(), headers={"Content-Type": "application/json"}, method="POST")
            try:
                with urllib.request.urlopen(req, timeout=6) as resp:
                    st = resp.status
            except urllib.error.HTTPError as e:
                st = e.code
            except Exception as e:
                st = "no answer: %s" % str(e)[:60]
            if not p.alive() or not isinstance(st, int):
                rep.fail("C18: POST /api/rules with a deeply nested filter (%d bytes): %s, proxy alive: %s" % (len(b[0]["filter"]), st, p.alive()),
                         {"kind": "failing-input", "rules": "deep filter, %d bytes" % len(b[0]["filter"])}, tags=filter_class(b[0]["filter"], worker=True))
            if p.alive() and not isinstance(st, int):
                p.stop()            # a worker is spinning in the parser
        if p.alive():
            c, head, extra = e2e.http_connect(lp, "%s:%d" % (LOOP, org.port))
            e2e.close_quiet(c)
    finally:
        p.stop()
        org.close()
        import shutil
        shutil.rmtree(p.dir, ignore_errors=True)
        shutil.rmtree(tdir, ignore_errors=True)
    rep.coverage.update({
        "evaluations": n_eval, "distinct_nontrivial": len(docs) + len(graphs),
        "rule": "2 base documents using every listener and connector kind + mutants (delete / retype / duplicate / randomise a field, rename name/type, rewire load-balancer members, replace rules) + random load-balancer documents + degenerate documents + TLS certificate / key / CA files that are empty, prose, truncated, the other kind of PEM item, a directory or missing (listeners, QUIC, connectors), each in its own process with a probe request per non-QUIC connector; random connector tables of 1-6 entries compared with the model's table_ok and resolve; --test of the real binary on a sample; accepted documents started on free ports and probed; rule lists POSTed as JSON",
        "input_distribution": dict(dist), "model_impl_disagreements": n_diff, "accepted_documents": len(accepted), "documents_started": started, "rule_lists_posted": posted,
    })
    rep.assumptions = ["tproxy listeners are removed before an accepted document is started for real (needs CAP_NET_ADMIN)"]
    if broken and not rep.violations:
        rep.broken_obligation(broken[0], broken[1])
    return rep.finish()
