"""End-to-end segmentation independence (property C12): the same client byte string - handshake plus the bytes that
follow it - is sent to the real listeners of the hook-built binary under many segmentations (one write, one byte at a
time, a cut at every position around the border between handshake and payload, random cuts).  Whatever the
segmentation, the handshake must be answered the same way and exactly the following bytes must reach the tunnel (TCP
payload echoed back; UDP frames delivered as datagrams and echoed back as frames)."""
import socket
import struct
import threading
import time

import e2e
from e2e import LOOP


class UdpEcho(threading.Thread):
    def __init__(self):
        super().__init__(daemon=True)
        self.sock = socket.socket(socket.AF_INET, socket.SOCK_DGRAM)
        self.sock.bind((LOOP, e2e.free_port(socket.SOCK_DGRAM)))
        self.port = self.sock.getsockname()[1]
        self.rx = []
        self.stopped = False
        self.start()

    def run(self):
        self.sock.settimeout(0.2)
        while not self.stopped:
            try:
                d, a = self.sock.recvfrom(70000)
            except socket.timeout:
                continue
            except OSError:
                if self.stopped:
                    return
                continue
            self.rx.append(d)
            try:
                self.sock.sendto(d, a)
            except OSError:
                pass

    def close(self):
        self.stopped = True
        try:
            self.sock.close()
        except OSError:
            pass


def cut_sets(r, n, border, tier):
    """segmentations of a string of n bytes as sorted tuples of cut positions"""
    out = [(), tuple(range(1, n))]
    near = [c for c in range(border - 4, border + 5) if 0 < c < n]
    out += [(c,) for c in near]
    singles = [c for c in range(1, n) if c not in near]
    out += [(c,) for c in (singles if tier == "thorough" else r.sample(singles, min(len(singles), 8)))]
    for _ in range(12 if tier == "thorough" else 4):
        k = r.randrange(2, 6)
        out.append(tuple(sorted(r.sample(range(1, n), min(k, n - 1)))))
    out.append(tuple(c for c in (border, border + 1) if 0 < c < n))
    seen, uniq = set(), []
    for c in out:
        if c not in seen:
            seen.add(c)
            uniq.append(c)
    return uniq


def send_segmented(port, data, cuts, want_reply, settle=0.35, gap=0.012):
    """connect, send `data` cut at `cuts` (a pause between segments so that each is a read of its own), then collect what
    comes back until `want_reply` bytes arrived or the peer has been quiet for `settle` seconds"""
    c = socket.create_connection((LOOP, port), timeout=5)
    c.setsockopt(socket.IPPROTO_TCP, socket.TCP_NODELAY, 1)
    got = bytearray()
    try:
        pos = 0
        bounds = list(cuts) + [len(data)]
        fine = len(cuts) > 40
        for b in bounds:
            c.sendall(data[pos:b])
            pos = b
            time.sleep(0.002 if fine else gap)
        c.settimeout(settle)
        t_end = time.time() + 6.0
        while len(got) < want_reply and time.time() < t_end:
            try:
                d = c.recv(65536)
            except socket.timeout:
                break
            if not d:
                break
            got += d
            c.settimeout(2.0 if len(got) < want_reply else settle)
    except OSError as e:
        got += b"<error:%s>" % str(e).encode()
    e2e.close_quiet(c)
    return bytes(got)


def scenarios(tcp_port, udp_port, frames):
    """(name, listener, client bytes, border = length of the handshake, expected reply)"""
    ip = socket.inet_aton(LOOP)
    pay = b"PAYLOAD:0123456789abcdef"
    out = []
    head = ("CONNECT %s:%d HTTP/1.1\r\nHost: x\r\n\r\n" % (LOOP, tcp_port)).encode()
    out.append(("http CONNECT + payload", "http", head + pay, len(head), b"HTTP/1.1 200 Connection established\r\n\r\n" + pay))
    s5 = b"\x05\x01\x00" + b"\x05\x01\x00\x01" + ip + struct.pack(">H", tcp_port)
    out.append(("socks5 greeting + request + payload", "socks", s5 + pay, len(s5), None))
    s4 = b"\x04\x01" + struct.pack(">H", tcp_port) + ip + b"user\x00"
    out.append(("socks4 request + payload", "socks", s4 + pay, len(s4), None))
    s4a = b"\x04\x01" + struct.pack(">H", tcp_port) + b"\x00\x00\x00\x01" + b"user\x00" + b"localhost\x00"
    out.append(("socks4a request + payload", "socks", s4a + pay, len(s4a), None))
    uhead = ("CONNECT %s:%d HTTP/1.1\r\nHost: x\r\nProxy-Protocol: udp\r\nProxy-Channel: inline\r\n\r\n" % (LOOP, udp_port)).encode()
    out.append(("http CONNECT udp/inline + 2 frames", "http", uhead + b"".join(frames), len(uhead), None))
    return out, pay
