"""A QUIC handshake that stalls (property C14): a one-datagram relay lets only the client's first Initial packet reach the
QUIC listener, so the listener holds a connection whose handshake never completes.  Meanwhile an established QUIC
connection must keep working and - the point - a NEW QUIC connection from another client must still be accepted."""
import socket
import threading
import time

import e2e
import relay_world as rw
from e2e import LOOP


class FirstPacketsRelay(threading.Thread):
    """forwards the first n datagrams it receives to (LOOP, port) and drops everything after that; replies are never relayed"""

    def __init__(self, port, n=1):
        super().__init__(daemon=True)
        self.port_to, self.n, self.seen, self.stopped = port, n, 0, False
        self.sock = socket.socket(socket.AF_INET, socket.SOCK_DGRAM)
        self.sock.bind((LOOP, e2e.free_port(socket.SOCK_DGRAM)))
        self.port = self.sock.getsockname()[1]
        self.out = socket.socket(socket.AF_INET, socket.SOCK_DGRAM)
        self.start()

    def run(self):
        self.sock.settimeout(0.2)
        while not self.stopped:
            try:
                d, a = self.sock.recvfrom(70000)
            except socket.timeout:
                continue
            except OSError:
                return
            self.seen += 1
            if self.seen <= self.n:
                self.out.sendto(d, (LOOP, self.port_to))

    def close(self):
        self.stopped = True
        for s in (self.sock, self.out):
            try:
                s.close()
            except OSError:
                pass


def run(binary, name="qstall", wait_new=6.0):
    crt, key = rw.tls_material()
    org = e2e.Server(e2e.echo_handler)
    qp = e2e.free_port(socket.SOCK_DGRAM)
    p2 = e2e.Proxy(binary, [{"name": "quic", "bind": "%s:%d" % (LOOP, qp), "tls": {"cert": crt, "key": key}}], [{"name": "direct"}], [{"target": "direct"}],
                   metrics=True, name=name + "-exit")
    relay = FirstPacketsRelay(qp, 1)
    hp = {"bad": e2e.free_port(), "good": e2e.free_port(), "new1": e2e.free_port(), "new2": e2e.free_port()}
    conns = [{"name": "q_bad", "type": "quic", "server": LOOP, "port": relay.port, "tls": {"insecure": True}}] + \
            [{"name": "q_" + k, "type": "quic", "server": LOOP, "port": qp, "tls": {"insecure": True}} for k in ("good", "new1", "new2")]
    ls = [{"name": k, "type": "http", "bind": "%s:%d" % (LOOP, v)} for k, v in hp.items()]
    rules = [{"filter": "request.listener == \"%s\"" % k, "target": "q_" + k} for k in hp]
    p1 = e2e.Proxy(binary, ls, conns, rules, metrics=True, name=name + "-entry")

    def tunnel(port, timeout):
        t0 = time.time()
        try:
            c, head, extra = e2e.http_connect(port, "%s:%d" % (LOOP, org.port), timeout=timeout)
            ok = head.startswith(b"HTTP/1.1 200")
            if ok:
                c.sendall(b"ping")
                ok = e2e.recv_exact(c, 4, timeout=timeout) == b"ping"
            e2e.close_quiet(c)
            return bool(ok), round(time.time() - t0, 2)
        except Exception as e:
            return False, round(time.time() - t0, 2)
    out = {}
    p2.start()
    try:
        p1.start()
        try:
            out["established_before"] = tunnel(hp["good"], 5.0)
            th = threading.Thread(target=lambda: out.__setitem__("stalled_client", tunnel(hp["bad"], wait_new + 3)), daemon=True)
            th.start()
            time.sleep(0.8)
            out["relay_datagrams_seen"] = relay.seen
            out["existing_connection"] = tunnel(hp["good"], 5.0)
            out["new_connection_1"] = tunnel(hp["new1"], wait_new)
            out["new_connection_2"] = tunnel(hp["new2"], wait_new)
            out["alive"] = p1.alive() and p2.alive()
        finally:
            p1.stop()
    finally:
        p2.stop()
        relay.close()
        org.close()
        import shutil
        shutil.rmtree(p1.dir, ignore_errors=True)
        shutil.rmtree(p2.dir, ignore_errors=True)
    return out
