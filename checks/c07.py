"""C07 — configured peer authentication is enforced on every path.
Proof: Props/C07.v (Auth.v): with credentials required, "no authentication" is never selected whatever is offered; for
every configuration, command behaviour and history of attempts an accepted attempt is authorised (user list, or the
command accepted exactly this pair now or within the cache time); missing credentials are refused; a cached verdict
serves only the identical pair and only until it expires; the client-certificate policy is the configured one on http,
socks and quic listeners; a connector without the insecure flag accepts only a certificate that chains to the
configured CA and matches the configured name.  Decision points regenerated from the source (Gen_auth.v).
Tie: (1) select_method and AuthData::check of the real code against the extracted model on every offer set / order
and many credential pairs; (2) the real binary: SOCKS listener with required credentials (user list + external command
+ verdict cache): every method offer, wrong / empty / overlong / non-UTF-8 credentials, SOCKS4 ids, right-then-wrong
password, revocation and cache expiry - the origin must never be contacted for a refused peer; (3) chained binaries:
listener kinds https / socks-tls / quic x client policy none / optional / required x presented certificate none / good
/ foreign CA; connector kinds http / socks / quic x insecure x server certificate good / foreign CA / wrong name."""
import collections
import concurrent.futures
import itertools
import os
import socket
import struct
import time

from common import *
import e2e
import pki
from e2e import LOOP


def hx(b):
    return b.hex() if b else ""


def socks5_try(port, org_port, methods, creds, timeout=4.0, cmd=1):
    """returns (selected method byte or None, auth reply, final reply, origin contacted later by caller)"""
    c = socket.create_connection((LOOP, port), timeout=timeout)
    try:
        c.sendall(bytes([5, len(methods)]) + bytes(methods))
        sel = e2e.recv_exact(c, 2, timeout)
        if len(sel) < 2 or sel[1] == 0xff:
            return sel, b"", b""
        ar = b""
        if sel[1] == 2:
            u, p = creds if creds is not None else (b"", b"")
            c.sendall(bytes([1, len(u) & 0xff]) + u[:255] + bytes([len(p) & 0xff]) + p[:255])
            ar = e2e.recv_exact(c, 2, timeout)
        c.sendall(bytes([5, cmd, 0, 1]) + socket.inet_aton(LOOP) + struct.pack(">H", org_port))
        rep = e2e.recv_exact(c, 10, timeout)
        return sel, ar, rep
    except OSError:
        return b"", b"", b""
    finally:
        e2e.close_quiet(c)


def run(tier, seed, replay=None):
    rep = Report("C07", tier, seed)
    coq, model, driver, blog = standard_setup("C07")
    proof_coverage(rep, coq, ["rustls' client-certificate verifiers and WebPkiVerifier, and the external authentication command, are oracles of the model",
                              "the verdict cache's expiry is modelled as removal at set-time + timeout (the code removes the entry from a spawned timer task)"])
    broken = handle_coq_result(rep, coq)
    if driver is None:
        rep.coverage.update({"evaluations": 0, "distinct_nontrivial": 0})
        rep.broken_obligation("correspondence C07: hook-built binary does not build from /repo", blog[-3000:])
        return rep.finish()
    r = rng(seed, "C07")
    n_eval, dist = 0, collections.Counter()
    # ---- (1) differential: select_method, check ------------------------------------------------
    lines = []
    pool = [0, 1, 2, 3, 0x80, 0xff]
    for k in range(0, 5):
        for ms in itertools.permutations(pool, k):
            for req in (0, 1):
                lines.append("socks_select %d %s" % (req, hx(bytes(ms)) or "-"))
    lines = sorted(set(lines))
    if tier == "quick":
        lines = [l for l in lines if len(l.split()[2]) <= 6] + r.sample(lines, 300)
    users = [(b"alice", b"secret"), (b"bob", b""), (b"", b"x"), (b"al", b"icesecret"), ("üser".encode(), "päss".encode())]
    cands = users + [(b"alice", b"wrong"), (b"alice", b""), (b"", b""), (b"bob", b"x"), (b"alic", b"esecret"), (b"ALICE", b"secret"), (b"alice", b"secret "), (b"a" * 255, b"b" * 255)]
    ulist = ",".join("%s:%s" % (hx(u), hx(p)) for u, p in users)
    for req in (0, 1):
        for us in ("-", ulist):
            lines.append("auth_check %d %s -" % (req, us))
            for u, p in cands:
                lines.append("auth_check %d %s %s:%s" % (req, us, hx(u), hx(p)))
    lines = sorted(set(l.replace(" - ", " - ") for l in lines))
    fixed = [l if not l.endswith(" -") or l.startswith("auth_check") else l for l in lines]
    impl = run_impl(driver, [l.replace("socks_select 0 -", "socks_select 0 ").replace("socks_select 1 -", "socks_select 1 ") if False else l for l in fixed])
    mod = run_model(model, fixed)
    n_diff = 0
    for l, oi, om in zip(fixed, impl, mod):
        n_eval += 1
        dist[l.split()[0]] += 1
        p = l.split()
        if p[0] == "socks_select":
            ms = bytes.fromhex(p[2]) if p[2] != "-" else b""
            want = "OK 0" if (0 in ms and p[1] == "0") else ("OK 2" if 2 in ms else "OK none")
            if oi != want:
                rep.fail("C07: methods offered %s, credentials %s: the listener selects %s, the property requires %s" % (list(ms), "required" if p[1] == "1" else "optional", oi, want),
                         {"kind": "failing-input", "line": l, "observed": oi})
        if oi != om and oi != "OPAQUE":
            n_diff += 1
            if n_diff <= 3:
                rep.fail("C07: %s: implementation %s, model %s" % (l[:100], oi, om), {"kind": "failing-input", "line": l, "observed": oi, "model": om})
    # ---- (2) SOCKS listener with user list + command + cache --------------------------------------
    org = e2e.Server(e2e.echo_handler)
    tdir = os.path.join(CACHE, "e2e", "c07-%d" % os.getpid())
    os.makedirs(tdir, exist_ok=True)
    credfile = os.path.join(tdir, "accepted")
    open(credfile, "w").write("carol|pw1\ndora|s3:cret\n")
    lp = {"req": e2e.free_port(), "opt": e2e.free_port()}
    # the checker is a program like any other: it may exit with any code, or die by a signal (crash, OOM kill, watchdog)
    cmd = ["sh", "-c", "case \"$0\" in kill9*) kill -9 $$;; segv*) kill -SEGV $$;; abrt*) kill -ABRT $$;; term*) kill -TERM $$;; pipe*) kill -PIPE $$;; exit2*) exit 2;; exit255*) exit 255;; exit126*) exit 126;; esac; "
           "[ ${#1} -gt 64 ] && kill -SEGV $$; grep -qxF \"$0|$1\" %s" % credfile, "#USER#", "#PASS#"]
    listeners = [{"name": "req", "type": "socks", "bind": "%s:%d" % (LOOP, lp["req"]),
                  "auth": {"required": True, "users": [{"username": "alice", "password": "secret"}], "cmd": cmd, "cache": {"timeout": 2}}},
                 {"name": "opt", "type": "socks", "bind": "%s:%d" % (LOOP, lp["opt"]), "auth": {"required": False, "users": [{"username": "alice", "password": "secret"}]}}]
    p = e2e.Proxy(driver, listeners, [{"name": "direct"}], [{"target": "direct"}], metrics=False, name="c07-socks")

    def attempt(what, port, methods, creds, expect_ok, socks4_user=None):
        nonlocal n_eval
        before = len(org.records)
        if socks4_user is not None:
            try:
                c, rp4 = e2e.socks4_connect(port, LOOP, org.port, user=socks4_user, timeout=4.0)
                ok = rp4[:2] == b"\x00\x5a"
                e2e.close_quiet(c)
            except OSError:
                ok = False
        else:
            sel, ar, rp_ = socks5_try(port, org.port, methods, creds)
            ok = rp_[:2] == b"\x05\x00"
        time.sleep(0.15)
        contacted = len(org.records) - before
        n_eval += 1
        dist["socks:" + ("accepted" if ok else "refused")] += 1
        if ok != expect_ok or (not expect_ok and contacted):
            rep.fail("C07: %s: %s, origin contacted %d time(s); expected %s" % (what, "served" if ok else "refused", contacted, "served" if expect_ok else "refused and never forwarded"),
                     {"kind": "failing-input", "scenario": what, "methods": list(methods or []), "creds": [hx(x) for x in creds] if creds else None})
    try:
        p.start()
        offers = [[], [0], [2], [0, 2], [2, 0], [1], [0, 1, 3], [0x80, 0, 0xff], [2, 2, 2], [0, 0, 2], [3, 2, 1, 0]]
        for ms in offers:
            good = 2 in ms
            attempt("required listener, methods %s, valid credentials" % ms, lp["req"], ms, (b"alice", b"secret"), good)
            attempt("required listener, methods %s, wrong password" % ms, lp["req"], ms, (b"alice", b"wrong"), False)
            attempt("optional listener, methods %s, no credentials" % ms, lp["opt"], ms, None, 0 in ms or 2 in ms)
        for u, pw in [(b"", b""), (b"alice", b""), (b"", b"secret"), (b"alice\x00", b"secret"), (b"\xff\xfe", b"\xff"), (b"a" * 255, b"b" * 255), (b"alice", b"secret\n"), (b"carol", b"pw2"), (b"dave", b"pw1")]:
            attempt("required listener, credentials %r/%r" % (u[:12], pw[:12]), lp["req"], [2], (u, pw), False)
        # every command, not only CONNECT: a UDP association (the listener allows UDP by default) is routed like any request, and
        # BIND / unknown commands must be refused to everybody
        for cmd_, name_ in ((3, "UDP ASSOCIATE"), (2, "BIND"), (9, "command 9")):
            for creds_, who in (((b"alice", b"wrong"), "a wrong password"), ((b"mallory", b"x"), "an unknown user"), ((b"", b""), "empty credentials")):
                sel_, ar_, rp_ = socks5_try(lp["req"], org.port, [2], creds_, cmd=cmd_)
                time.sleep(0.15)
                n_eval += 1
                dist["socks:cmd%d" % cmd_] += 1
                served = rp_[:2] == b"\x05\x00"
                if served:
                    rep.fail("C07: required listener, SOCKS5 %s with %s: the request was served (reply %s)" % (name_, who, rp_.hex()),
                             {"kind": "failing-input", "scenario": "%s with %s" % (name_, who), "methods": [2], "creds": [hx(x) for x in creds_]})
            sel_, ar_, rp_ = socks5_try(lp["req"], org.port, [2], (b"alice", b"secret"), cmd=cmd_)
            n_eval += 1
            if cmd_ == 3 and rp_[:2] != b"\x05\x00":
                rep.fail("C07: required listener, SOCKS5 UDP ASSOCIATE with valid credentials was refused (reply %s)" % rp_.hex(), {"kind": "failing-input", "scenario": "udp associate valid"})
        attempt("required listener, SOCKS4 id 'alice' (no password possible)", lp["req"], None, None, False, socks4_user=b"alice")
        attempt("required listener, SOCKS4 empty id", lp["req"], None, None, False, socks4_user=b"")
        # command + cache: right, then wrong password for the same user, then revocation and expiry
        attempt("command accepts carol/pw1", lp["req"], [2], (b"carol", b"pw1"), True)
        attempt("carol with another password right after a cached success", lp["req"], [2], (b"carol", b"pw2"), False)
        attempt("another user with carol's password", lp["req"], [2], (b"caro", b"lpw1"), False)
        # the cache is keyed by the exact pair: pairs that merely concatenate to the same text are different pairs
        attempt("command accepts dora/'s3:cret'", lp["req"], [2], (b"dora", b"s3:cret"), True)
        attempt("'dora:s3'/'cret' right after dora/'s3:cret' was cached", lp["req"], [2], (b"dora:s3", b"cret"), False)
        attempt("'dora:s3:cret' with an empty password after dora/'s3:cret' was cached", lp["req"], [2], (b"dora:s3:cret", b""), False)
        attempt("SOCKS4 id 'dora:s3:cret' after dora/'s3:cret' was cached", lp["req"], None, None, False, socks4_user=b"dora:s3:cret")
        attempt("'dor'/'a|s3:cret'... shifted split", lp["req"], [2], (b"dor", b"as3:cret"), False)
        for u in (b"kill9", b"segv", b"abrt", b"term", b"pipe", b"exit2", b"exit255", b"exit126"):
            attempt("command %s (checker dies by a signal / exits with another code than 0 or 1)" % u.decode(), lp["req"], [2], (u, b"x"), False)
            attempt("command %s again (verdict from the cache)" % u.decode(), lp["req"], [2], (u, b"x"), False)
        attempt("checker crashes on a password of 200 bytes", lp["req"], [2], (b"carol", b"p" * 200), False)
        attempt("the same pair again (verdict from the cache)", lp["req"], [2], (b"carol", b"p" * 200), False)
        open(credfile, "w").write("nobody|x\n")           # revoked
        time.sleep(3.2)                                     # cache timeout 2 s
        attempt("carol/pw1 after revocation and cache expiry", lp["req"], [2], (b"carol", b"pw1"), False)
        open(credfile, "w").write("carol|pw1\n")
        time.sleep(3.2)                                     # the cached refusal expires as well
        attempt("carol/pw1 re-admitted after the cached refusal expired", lp["req"], [2], (b"carol", b"pw1"), True)
        if not p.alive():
            rep.fail("C07: the proxy died during the SOCKS authentication scenarios", {"kind": "failing-input", "scenario": "alive"})
    finally:
        p.stop()
        import shutil
        shutil.rmtree(p.dir, ignore_errors=True)
        shutil.rmtree(tdir, ignore_errors=True)
    # ---- (3) TLS policies over chained binaries ----------------------------------------------------
    m = pki.material()
    org2 = e2e.Server(e2e.echo_handler)
    policies = {"none": None, "optional": {"ca": m["ca"][0], "required": False}, "required": {"ca": m["ca"][0], "required": True}}
    l2, conns = [], []
    expect = {}
    for pol, client in policies.items():
        tls = {"cert": m["srv-good"][0], "key": m["srv-good"][1]}
        if client:
            tls["client"] = client
        ports = {"http": e2e.free_port(), "socks": e2e.free_port(), "quic": e2e.free_port(socket.SOCK_DGRAM)}
        l2 += [{"name": "https-" + pol, "type": "http", "bind": "%s:%d" % (LOOP, ports["http"]), "tls": tls},
               {"name": "sockstls-" + pol, "type": "socks", "bind": "%s:%d" % (LOOP, ports["socks"]), "tls": tls},
               {"name": "quic-" + pol, "type": "quic", "bind": "%s:%d" % (LOOP, ports["quic"]), "tls": tls}]
        for typ in ("http", "socks", "quic"):
            for cert in ("none", "cli-good", "cli-foreign"):
                t = {"ca": m["ca"][0]}
                if cert != "none":
                    t["auth"] = {"cert": m[cert][0], "key": m[cert][1]}
                name = "%s-%s-%s" % (typ, pol, cert)
                conns.append({"name": name, "type": typ, "server": "localhost", "port": ports[typ], "tls": t})
                expect[name] = (pol == "none") or (pol == "optional" and cert != "cli-foreign") or (pol == "required" and cert == "cli-good")
    # connector-side verification: exits presenting a foreign-CA / wrong-name certificate
    for srv in ("srv-foreign", "srv-wrongname"):
        tls = {"cert": m[srv][0], "key": m[srv][1]}
        ports = {"http": e2e.free_port(), "socks": e2e.free_port(), "quic": e2e.free_port(socket.SOCK_DGRAM)}
        l2 += [{"name": "https-" + srv, "type": "http", "bind": "%s:%d" % (LOOP, ports["http"]), "tls": tls},
               {"name": "sockstls-" + srv, "type": "socks", "bind": "%s:%d" % (LOOP, ports["socks"]), "tls": tls},
               {"name": "quic-" + srv, "type": "quic", "bind": "%s:%d" % (LOOP, ports["quic"]), "tls": tls}]
        for typ in ("http", "socks", "quic"):
            for insecure in (False, True):
                name = "%s-%s-%s" % (typ, srv, "insecure" if insecure else "verify")
                conns.append({"name": name, "type": typ, "server": "localhost", "port": ports[typ], "tls": {"ca": m["ca"][0], "insecure": insecure}})
                expect[name] = insecure
    lps = {c["name"]: e2e.free_port() for c in conns}
    l1 = [{"name": "l-" + n, "type": "http", "bind": "%s:%d" % (LOOP, q)} for n, q in lps.items()]
    rules = [{"filter": "request.listener == \"l-%s\"" % n, "target": n} for n in lps]
    p2 = e2e.Proxy(driver, l2, [{"name": "direct"}], [{"target": "direct"}], metrics=False, name="c07-exit")
    p1 = e2e.Proxy(driver, l1, conns, rules, metrics=False, name="c07-entry")
    try:
        p2.start()
        p1.start()
        for n in sorted(lps):
            before = len(org2.records)
            try:
                c, head, extra = e2e.http_connect(lps[n], "%s:%d" % (LOOP, org2.port), timeout=6.0)
                ok = head.startswith(b"HTTP/1.1 200")
                if ok:
                    c.sendall(b"ping")
                    ok = e2e.recv_exact(c, 4, timeout=4.0) == b"ping"
                e2e.close_quiet(c)
            except OSError:
                ok = False
            time.sleep(0.1)
            contacted = len(org2.records) - before
            n_eval += 1
            dist["tls:" + ("established" if ok else "refused")] += 1
            if ok != expect[n] or (not expect[n] and contacted):
                typ, a, b = n.split("-", 2) if n.count("-") >= 2 else (n, "", "")
                rep.fail("C07: path %s (connector kind - listener policy / server certificate - presented certificate / verification): tunnel %s, origin contacted %d time(s); expected %s" % (
                    n, "established" if ok else "refused", contacted, "established" if expect[n] else "refused, nothing forwarded"),
                    {"kind": "failing-input", "scenario": n})
    finally:
        p1.stop()
        p2.stop()
        org.close()
        org2.close()
        import shutil
        shutil.rmtree(p1.dir, ignore_errors=True)
        shutil.rmtree(p2.dir, ignore_errors=True)
    rep.coverage.update({
        "evaluations": n_eval, "distinct_nontrivial": len(fixed) + len(expect),
        "rule": "select_method on every ordered selection of up to 4 of the methods %s (quick: a sample) x required/optional; AuthData::check on %d credential pairs x user list present/absent x required/optional; real SOCKS listener: 11 method offers x valid/wrong/no credentials, 9 malformed pairs, SOCKS4 ids, command + 2 s cache: right, wrong password, other user, revocation + expiry, re-admission; chained binaries: 3 listener kinds x 3 policies x 3 presented certificates, 3 connector kinds x 2 bad server certificates x verify/insecure" % (pool, len(cands)),
        "input_distribution": dict(dist), "model_impl_disagreements": n_diff,
    })
    rep.assumptions = ["the test PKI is generated with openssl into .cache/pki"]
    if broken and not rep.violations:
        rep.broken_obligation(broken[0], broken[1])
    return rep.finish()
