"""C04 — end-of-stream and abort are relayed faithfully, identically in both I/O modes.
Proof: Props/C04.v (Relay.v): the destination's write side is shut down only after every byte before it
has been delivered, every finished direction does shut it down, a step of one direction never touches the
other, and the buffered and the splice loop are indistinguishable to the endpoints; the shutdown calls of
all three destination kinds are regenerated from src/copy.rs (Gen_relay.v).
Tie: the chained real binaries of checks/relay_world.py in both I/O modes: who closes first and at which
offset, with data still flowing the other way; simultaneous close; aborts (RST) from either side; the
time until the far endpoint observes it; the connection's record in the entry proxy's /api/history."""
import collections
import concurrent.futures
import json
import select
import socket
import struct
import threading
import time

from common import *
import e2e
import relay_world as rw
import c01
from e2e import LOOP

PROMPT = 3.0      # seconds allowed for an end-of-stream / abort to reach the other endpoint
KINDS = ["http", "socks5", "socks4", "reverse"]          # plain TCP clients can half-close and reset


def client_closes_first(w, kind, conn, size, tag):
    """origin streams; the client sends `size` bytes, half-closes at once, then reads everything"""
    h = dict(scenario="client-closes-first", kind=kind, conn=conn, size=size, tag=tag, behaviour="source")
    payload = c01.payload_for(tag, size)
    try:
        c, ok, extra, reply = rw.open_tunnel(w, kind, conn, "source")
    except OSError as e:
        h["error"] = "open: %s" % e
        return h
    if not ok:
        h["error"] = "not established: %s" % reply.hex()[:40]
        e2e.close_quiet(c)
        return h
    try:
        c.sendall(payload)
        c.shutdown(socket.SHUT_WR)
        h["t_shut"] = time.time()
        got, how = e2e.recv_all(c, timeout=25)
        got = extra + got
    except OSError as e:
        h["error"] = "io: %s" % e
        e2e.close_quiet(c)
        return h
    h["t_eof"] = time.time()
    e2e.close_quiet(c)
    h["how"] = how
    expect = rw.source_bytes(rw.SOURCE_LEN[w.tier])
    h["client_ok"] = got == expect
    h["got_len"], h["expect_len"] = len(got), len(expect)
    return h


def origin_closes_first(w, kind, conn, size, tag):
    """the origin sends 100000 bytes and half-closes; the client waits for that end-of-stream, and only then
    sends its own bytes, slowly; then half-closes"""
    h = dict(scenario="origin-closes-first", kind=kind, conn=conn, size=size, tag=tag, behaviour="closefirst")
    payload = c01.payload_for(tag, size)
    try:
        c, ok, extra, reply = rw.open_tunnel(w, kind, conn, "closefirst")
    except OSError as e:
        h["error"] = "open: %s" % e
        return h
    if not ok:
        h["error"] = "not established: %s" % reply.hex()[:40]
        e2e.close_quiet(c)
        return h
    try:
        t0 = time.time()
        got, how = e2e.recv_all(c, timeout=10)
        got = extra + got
        h["t_client_saw_eof"] = time.time() - t0
        h["how"] = how
        for i in range(0, len(payload), 9000):
            c.sendall(payload[i:i + 9000])
            time.sleep(0.01)
        c.shutdown(socket.SHUT_WR)
        h["t_shut"] = time.time()
        more, how2 = e2e.recv_all(c, timeout=5)
        h["after"] = len(more)
        h["how2"] = how2
    except OSError as e:
        h["error"] = "io: %s" % e
        e2e.close_quiet(c)
        return h
    e2e.close_quiet(c)
    expect = rw.source_bytes(100_000)
    h["client_ok"] = got == expect
    h["got_len"], h["expect_len"] = len(got), len(expect)
    return h


def simultaneous(w, kind, conn, tag):
    h = dict(scenario="both-at-once", kind=kind, conn=conn, size=24, tag=tag, behaviour="closefirst")
    payload = c01.payload_for(tag, 24)
    try:
        c, ok, extra, reply = rw.open_tunnel(w, kind, conn, "closefirst", early=payload)
        if not ok:
            h["error"] = "not established"
            e2e.close_quiet(c)
            return h
        c.shutdown(socket.SHUT_WR)
        h["t_shut"] = time.time()
        got, how = e2e.recv_all(c, timeout=10)
        got = extra + got
    except OSError as e:
        h["error"] = "io: %s" % e
        return h
    h["t_eof"] = time.time()
    e2e.close_quiet(c)
    h["how"] = how
    h["client_ok"] = got == rw.source_bytes(100_000)
    h["got_len"], h["expect_len"] = len(got), 100_000
    return h


def live_ids(w, source=None):
    """ids of the entry proxy's live connections (of the one with the given client address); ids are never
    reused, client ports are"""
    try:
        return {x.get("id") for x in w.p1.api("live")[1] if source is None or str(x.get("source")) == source}
    except Exception as e:
        return {"api-error: %s" % e}


def client_aborts(w, kind, conn, tag, behaviour="hold"):
    """the client resets its connection in mid-stream.  hold: the origin keeps writing and must find its
    connection closed; idlehold: the origin stays silent, and the entry proxy must have finished the tunnel"""
    h = dict(scenario="client-aborts-" + behaviour, kind=kind, conn=conn, size=5000, tag=tag, behaviour=behaviour)
    payload = c01.payload_for(tag, 5000)
    try:
        c, ok, extra, reply = rw.open_tunnel(w, kind, conn, behaviour)
        if not ok:
            h["error"] = "not established"
            e2e.close_quiet(c)
            return h
        c.sendall(payload)
        time.sleep(0.3)
        h["source"] = "%s:%d" % c.getsockname()
        mine = live_ids(w, h["source"]) if behaviour == "idlehold" else set()
        c.setsockopt(socket.SOL_SOCKET, socket.SO_LINGER, struct.pack("ii", 1, 0))
        h["t_abort"] = time.time()
        c.close()
        if behaviour == "idlehold":
            time.sleep(PROMPT - 1.0)
            h["ids"] = sorted(map(str, mine))
            # judged only when the tunnel could be identified before the reset
            h["still_live"] = bool(mine & live_ids(w)) if mine and not any(isinstance(x, str) for x in mine) else None
    except OSError as e:
        h["error"] = "io: %s" % e
    return h


def origin_aborts(w, kind, conn, tag):
    h = dict(scenario="origin-aborts", kind=kind, conn=conn, size=24, tag=tag, behaviour="rst")
    payload = c01.payload_for(tag, 24)
    try:
        c, ok, extra, reply = rw.open_tunnel(w, kind, conn, "rst")
        if not ok:
            h["error"] = "not established"
            e2e.close_quiet(c)
            return h
        mine = live_ids(w, "%s:%d" % c.getsockname()) if conn == "direct" else set()
        c.sendall(payload)
        t0 = time.time()
        got, how = e2e.recv_all(c, timeout=10)
        h["t_closed"] = time.time() - t0
        h["how"] = how
        h["got_len"] = len(got)
        # the tunnel is finished as far as the proxy is concerned, although this client stays silent
        time.sleep(1.0)
        h["still_live"] = bool(mine & live_ids(w))
        # an abort closes the whole tunnel: the proxy must not keep the client's sending direction open
        h["write_failed_after"] = None
        if how == "eof":
            for _ in range(40):
                try:
                    c.sendall(b"c")
                except OSError:
                    h["write_failed_after"] = time.time() - t0
                    break
                time.sleep(0.1)
        else:
            h["write_failed_after"] = h["t_closed"]
    except OSError as e:
        h["t_closed"] = 0.0
        h["how"] = "reset"
        h["got_len"] = 0
        h["write_failed_after"] = 0.0
    e2e.close_quiet(c)
    return h


def judge(rep, w, hs, io, hist, shapes, dist):
    recs = {k: list(s.records) for k, s in w.origin.items()}
    for h in hs:
        desc = "%s, %s client -> %s, splice=%s bufferSize=%d" % (h["scenario"], h["kind"], h["conn"], io[0], io[1])
        rp = {"kind": "failing-input", "io": io, "scenarios": [{k: h[k] for k in ("scenario", "kind", "conn", "size", "tag")}], "history": h}
        dist[h["scenario"]] += 1
        if "error" in h:
            rep.fail("C04: %s: %s" % (desc, h["error"]), rp)
            continue
        shapes.add((h["scenario"], h["kind"], h["conn"], io[0]))
        payload = c01.payload_for(h["tag"], h["size"])
        mine = [x for x in recs[(h["conn"], h["behaviour"])] if bytes(x["rx"][:24]) == payload[:24]] if h["size"] >= 24 else []
        sc = h["scenario"]
        if sc in ("client-closes-first", "origin-closes-first", "both-at-once"):
            if not h["client_ok"]:
                rep.fail("C04: %s: client received %d of %d bytes before end-of-stream (%s)" % (desc, h["got_len"], h["expect_len"], h.get("how")), rp)
            if h.get("how") != "eof":
                rep.fail("C04: %s: the client never observed the origin's end-of-stream (%s)" % (desc, h.get("how")), rp)
            if len(mine) != 1:
                rep.fail("C04: %s: %d origin connections carry this tunnel's tag" % (desc, len(mine)), rp)
                continue
            o = mine[0]
            if bytes(o["rx"]) != payload:
                rep.fail("C04: %s: origin received %d of %d bytes before end-of-stream" % (desc, len(o["rx"]), len(payload)), rp)
            if not o["eof"]:
                rep.fail("C04: %s: the origin never observed the client's end-of-stream" % desc, rp)
            elif o["eof_at"] - h["t_shut"] > PROMPT:
                rep.fail("C04: %s: the origin observed the client's end-of-stream %.1fs after it was sent" % (desc, o["eof_at"] - h["t_shut"]), rp)
            if sc == "origin-closes-first":
                if h["t_client_saw_eof"] > PROMPT:
                    rep.fail("C04: %s: the client observed the origin's end-of-stream only after %.1fs" % (desc, h["t_client_saw_eof"]), rp)
                if h["after"] != 0 or h["how2"] != "eof":
                    rep.fail("C04: %s: after both directions ended the client side was not closed cleanly (%d extra bytes, %s)" % (desc, h["after"], h["how2"]), rp)
        elif sc == "client-aborts-idlehold":
            if h.get("still_live"):
                rep.fail("C04: %s: %.1fs after the client's reset the tunnel is still listed in /api/live (the origin is silent)" % (desc, PROMPT - 1.0), rp)
        elif sc == "client-aborts-hold":
            if len(mine) != 1:
                rep.fail("C04: %s: %d origin connections carry this tunnel's tag" % (desc, len(mine)), rp)
                continue
            o = mine[0]
            wf = o.get("write_failed_at")
            if not o.get("eof"):
                rep.fail("C04: %s: the origin never saw its connection end after the client's reset" % desc, rp)
            elif wf is None or wf - h["t_abort"] > PROMPT:
                rep.fail("C04: %s: %.1fs after the client's reset the proxy still kept the origin's connection open (the origin could go on writing)" % (desc, PROMPT), rp)
        elif sc == "origin-aborts":
            if h["how"] == "timeout" or h["t_closed"] > PROMPT:
                rep.fail("C04: %s: the client's connection was not closed within %.1fs of the origin's reset (%s)" % (desc, PROMPT, h["how"]), rp)
            elif h.get("still_live") and h["conn"] == "direct":
                # through a chain the entry proxy only sees its upstream proxy finish sending; it faces the
                # aborting origin itself only with the direct connector
                rep.fail("C04: %s: 1s after the client observed the end of its connection the tunnel is still listed in /api/live" % desc, rp)
            elif (h["write_failed_after"] is None or h["write_failed_after"] > PROMPT + 1.0) and h["conn"] == "direct":
                rep.fail("C04: %s: after the origin's reset the proxy only half-closed the client's connection (the client could go on writing for %.1fs)" % (desc, PROMPT), rp)
    # the record of each connection
    if hist is not None:
        by_port = collections.defaultdict(list)
        for e in hist:
            by_port[str(e.get("target"))].append(e)
        for h in hs:
            if "error" in h:
                continue
            port = w.origin[(h["conn"], h["behaviour"])].port
            es = [e for e in by_port.get("%s:%d" % (LOOP, port), []) if e.get("listener", "").startswith("rev-") == (h["kind"] == "reverse")]
            if not es:
                rep.fail("C04: %s, %s client -> %s: no finished record in /api/history 2.5s after the tunnel ended" % (h["scenario"], h["kind"], h["conn"]),
                         {"kind": "failing-input", "io": io, "scenarios": [{k: h[k] for k in ("scenario", "kind", "conn", "size", "tag")}]})
                continue
            finals = {e["state"][-1]["state"] for e in es if e.get("state")}
            if not finals <= {"Terminated", "ErrorOccured"}:
                rep.fail("C04: %s: a finished connection is recorded with final state %s" % (h["scenario"], finals),
                         {"kind": "failing-input", "io": io, "scenarios": [{k: h[k] for k in ("scenario", "kind", "conn", "size", "tag")}]})


def run(tier, seed, replay=None):
    rep = Report("C04", tier, seed)
    coq, model, driver, blog = standard_setup("C04")
    proof_coverage(rep, coq, [
        "kernel TCP half-close / reset semantics, tokio, rustls, quinn are outside the model (arbitrary read and splice sizes are modelled)",
        "end-to-end tie: fake origins and clients of checks/e2e.py, checks/relay_world.py; promptness threshold %.1fs" % PROMPT])
    broken = handle_coq_result(rep, coq)
    if driver is None:
        rep.coverage.update({"evaluations": 0, "distinct_nontrivial": 0})
        rep.broken_obligation("correspondence C04: hook-built binary does not build from /repo", blog[-3000:])
        return rep.finish()
    r = rng(seed, "C04")
    shapes, dist, total = set(), collections.Counter(), 0
    outcomes = {}
    configs = [(True, 65536), (False, 65536)] + ([(True, 4096), (False, 100)] if tier == "thorough" else [])
    for (splice, bufsz) in configs:
        w = rw.Chain(driver, "quick" if tier == "quick" else "thorough", splice=splice, bufsz=bufsz, name="c04-%s-%d" % ("s" if splice else "b", bufsz),
                     behaviours=["source", "closefirst", "sink", "rst", "hold", "idlehold"], history=100000)
        jobs = []
        n = 0
        for kind in KINDS:
            for conn in rw.CONNECTORS:
                for rep_i in range(1 if tier == "quick" else 3):
                    n += 1
                    tag = "%s/%s/%d" % (kind, conn, n)
                    sizes = [24, 1000, 65536, 300_000]
                    jobs.append((client_closes_first, (kind, conn, r.choice(sizes), "ccf/" + tag)))
                    jobs.append((origin_closes_first, (kind, conn, r.choice(sizes), "ocf/" + tag)))
                    jobs.append((simultaneous, (kind, conn, "sim/" + tag)))
                    jobs.append((client_aborts, (kind, conn, "cab/" + tag)))
                    jobs.append((client_aborts, (kind, conn, "cai/" + tag, "idlehold")))
                    jobs.append((origin_aborts, (kind, conn, "oab/" + tag)))
        try:
            with concurrent.futures.ThreadPoolExecutor(16) as ex:
                hs = list(ex.map(lambda j: j[0](w, *j[1]), jobs))
            time.sleep(2.5)
            try:
                hist = w.p1.api("history")[1]
            except Exception as e:
                hist = None
                rep.fail("C04: /api/history of the entry proxy unavailable after the scenarios: %s" % e, {"kind": "failing-input", "io": [splice, bufsz], "scenarios": []})
            alive = w.alive()
            judge(rep, w, hs, [splice, bufsz], hist, shapes, dist)
        finally:
            w.close()
        total += len(hs)
        if not alive:
            rep.fail("C04: a proxy process died during the scenarios (splice=%s)" % splice, {"kind": "failing-input", "io": [splice, bufsz], "scenarios": []})
        outcomes[(splice, bufsz)] = {(h["scenario"], h["kind"], h["conn"]): (h.get("client_ok"), h.get("how")) for h in hs if "error" not in h}
    # ---- the open direction keeps flowing for as long as its sender likes, also past the idle period ---------------
    # (idle period 2 s; one side finishes at once, the other sends a byte every 0.5 s for 4.5 s; both orders, both I/O modes)
    import halfclose_cases as hc
    import e2e
    n_long = 0
    for splice in (True, False):
        lp = e2e.free_port()
        px = e2e.Proxy(driver, [{"name": "http", "bind": "%s:%d" % (e2e.LOOP, lp)}], [{"name": "direct"}], [{"target": "direct"}], timeouts={"idle": 2, "udp": 2},
                       io={"useSplice": splice, "bufferSize": 65536}, metrics=False, name="c04-long-%s" % ("s" if splice else "b"))
        o_after, o_first = e2e.Server(hc.stream_after_eof_origin(9, 0.5)), e2e.Server(hc.halfclose_first_origin)
        try:
            px.start()
            with concurrent.futures.ThreadPoolExecutor(2) as ex:
                f1 = ex.submit(hc.client_closes_first, lp, o_after, 9, 0.5)
                f2 = ex.submit(hc.origin_closes_first, lp, o_first, 9, 0.5)
                hl = [f1.result(), f2.result()]
        finally:
            px.stop()
            o_after.close()
            o_first.close()
            import shutil
            shutil.rmtree(px.dir, ignore_errors=True)
        for h in hl:
            n_long += 1
            total += 1
            dist[h["kind"]] += 1
            bad = hc.judge(h)
            if bad:
                rep.fail("C04: idle period 2 s, splice=%s: %s - the opposite direction must keep flowing until its own sender finishes" % (splice, bad),
                         {"kind": "failing-input", "io": [splice, 65536], "scenarios": [h]})
    # identical in both modes
    a, b = outcomes.get((True, 65536), {}), outcomes.get((False, 65536), {})
    for k in a:
        if k in b and a[k] != b[k] and k[0] != "origin-aborts":
            rep.fail("C04: %s, %s client -> %s behaves differently in the two I/O modes: splice %s, buffered %s" % (k[0], k[1], k[2], a[k], b[k]),
                     {"kind": "failing-input", "io": "both", "scenarios": [dict(scenario=k[0], kind=k[1], conn=k[2])]})
    rep.coverage.update({
        "evaluations": total, "distinct_nontrivial": len(shapes),
        "rule": "scenarios client-closes-first (origin still streaming), origin-closes-first (client sends afterwards), both-at-once, client-aborts (RST), origin-aborts (RST) x client kinds %s x connectors %s x I/O configurations %s; history record of every tunnel; with an idle period of 2 s: one side finishes at once, the other sends for 4.5 s (both orders, both I/O modes)" % (KINDS, rw.CONNECTORS, configs),
        "input_distribution": dict(dist),
    })
    rep.assumptions = ["promptness is judged with a %.1fs threshold on a loaded machine" % PROMPT, "TLS client sides are exercised by C01 (Python cannot half-close TLS)"]
    if broken and not rep.violations:
        rep.broken_obligation(broken[0], broken[1])
    return rep.finish()
