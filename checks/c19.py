"""C19 — service resumes after an upstream outage without restarting the proxy.
Proof: Props/C19.v (Recovery.v): connectors that dial per request are served exactly when the upstream is up; a
request through the QUIC connector can only hang between the death of the cached connection's peer and the transport's
idle timeout; once that has passed, one request fails (and empties the cache) and the next one that finds the upstream
up is served; a failure never leaves a connection cached; a live connection is kept.  Keep-alive < idle timeout <= 60 s,
"quic:" errors clear the cache, the connection is created when the cache is empty: regenerated from the source
(Gen_quic.v).
Tie: the real binaries: an entry proxy with direct / http / socks / quic / load-balanced connectors towards an exit
proxy that the harness kills (SIGKILL: nothing is closed in an orderly way) and restarts on the same ports, at idle,
with tunnels open, and in the middle of transfers, twice in a row; probes before, during and after; time and number of
attempts until each connector serves again; what happens to tunnels that were open across the outage; the direct
connector throughout."""
import collections
import concurrent.futures
import signal
import socket
import threading
import time

from common import *
import e2e
import relay_world as rw
from e2e import LOOP

CONNS = ["direct", "c_http", "c_socks", "c_quic", "lb"]
RECOVER_LIMIT = {"c_http": 3.0, "c_socks": 3.0, "lb": 3.0, "c_quic": 30 + 12.0}      # seconds after the upstream is back
ATTEMPT_LIMIT = {"c_http": 1, "c_socks": 1, "lb": 2, "c_quic": 4}                 # failed answers (not hangs) after the transport noticed


def probe(lps, org, n, timeout=4.0):
    t0 = time.time()
    try:
        c, head, extra = e2e.http_connect(lps[n], "%s:%d" % (LOOP, org.port), timeout=timeout)
        ok = head.startswith(b"HTTP/1.1 200")
        if ok:
            c.sendall(b"ping")
            ok = e2e.recv_exact(c, 4, timeout=timeout) == b"ping"
        e2e.close_quiet(c)
        return ("ok" if ok else "refused"), time.time() - t0
    except socket.timeout:
        return "hang", time.time() - t0
    except OSError as e:
        return "error:%s" % type(e).__name__, time.time() - t0


def run(tier, seed, replay=None):
    rep = Report("C19", tier, seed)
    coq, model, driver, blog = standard_setup("C19")
    proof_coverage(rep, coq, ["quinn's keep-alive / idle-timeout behaviour is modelled by one constant (the idle timeout) read from the source",
                              "time bounds of the end-to-end tie are wall-clock thresholds"])
    broken = handle_coq_result(rep, coq)
    if driver is None:
        rep.coverage.update({"evaluations": 0, "distinct_nontrivial": 0})
        rep.broken_obligation("correspondence C19: hook-built binary does not build from /repo", blog[-3000:])
        return rep.finish()
    crt, key = rw.tls_material()
    org = e2e.Server(e2e.echo_handler)
    p2l = {"http": e2e.free_port(), "socks": e2e.free_port(), "quic": e2e.free_port(socket.SOCK_DGRAM)}

    def mk_p2():
        return e2e.Proxy(driver, [{"name": "http", "bind": "%s:%d" % (LOOP, p2l["http"])}, {"name": "socks", "bind": "%s:%d" % (LOOP, p2l["socks"])},
                                  {"name": "quic", "bind": "%s:%d" % (LOOP, p2l["quic"]), "tls": {"cert": crt, "key": key}}],
                         [{"name": "direct"}], [{"target": "direct"}], metrics=False, name="c19-exit")
    conns = [{"name": "direct"}, {"name": "c_http", "type": "http", "server": LOOP, "port": p2l["http"]},
             {"name": "c_socks", "type": "socks", "server": LOOP, "port": p2l["socks"]},
             {"name": "c_quic", "type": "quic", "server": LOOP, "port": p2l["quic"], "tls": {"insecure": True}},
             {"name": "lb", "type": "loadbalance", "connectors": ["c_http", "c_socks"]}]
    lps = {n: e2e.free_port() for n in CONNS}
    l1 = [{"name": "l-" + n, "type": "http", "bind": "%s:%d" % (LOOP, p)} for n, p in lps.items()]
    rules = [{"filter": "request.listener == \"l-%s\"" % n, "target": n} for n in lps]
    # a SOCKS listener whose UDP associations go through the QUIC connector (as QUIC datagrams), and a UDP echo origin
    import udp_world as uw
    uorg = uw.UdpOrigin()
    sq_port = e2e.free_port()
    l1.append({"name": "s-quic", "type": "socks", "bind": "%s:%d" % (LOOP, sq_port)})
    rules.append({"filter": "request.listener == \"s-quic\"", "target": "c_quic"})
    p1 = e2e.Proxy(driver, l1, conns, rules, metrics=True, name="c19-entry", history=1000)
    n_eval, dist = 0, collections.Counter()
    rounds = 1 if tier == "quick" else 3
    p2 = mk_p2()
    try:
        p2.start()
        p1.start()
        for rnd in range(rounds):
            phase = "round %d" % (rnd + 1)
            # healthy
            for n in CONNS:
                n_eval += 1
                v, t = probe(lps, org, n)
                dist["healthy:" + v] += 1
                if v != "ok":
                    rep.fail("C19: %s, before the outage: probe through %s: %s after %.1fs" % (phase, n, v, t), {"kind": "failing-input", "phase": phase, "connector": n, "step": "healthy"})
            # tunnels open across the outage; one of them in the middle of a transfer
            open_tunnels = {}
            for n in ("c_http", "c_socks", "c_quic", "direct"):
                try:
                    c, head, extra = e2e.http_connect(lps[n], "%s:%d" % (LOOP, org.port))
                    c.sendall(b"before")
                    e2e.recv_exact(c, 6)
                    open_tunnels[n] = c
                except OSError:
                    pass
            # a UDP association through the QUIC connector, open across the outage, whose client keeps sending
            assoc, assoc_state = None, {}
            try:
                assoc = uw.SocksUdpClient(sq_port)
                if assoc.ok:
                    assoc.send(LOOP, uorg.port, b"udp-before")
                    r_ = assoc.recv(2.0)
                    assoc_state["before"] = bool(r_ and r_[1] == b"udp-before")
            except OSError as e:
                assoc_state["error"] = str(e)
            stop_udp = threading.Event()

            def udp_sender(a):
                i = 0
                while not stop_udp.is_set():
                    try:
                        a.send(LOOP, uorg.port, b"udp-during-%d" % i)
                    except OSError:
                        return
                    i += 1
                    time.sleep(0.3)
            if assoc is not None and assoc.ok:
                threading.Thread(target=udp_sender, args=(assoc,), daemon=True).start()
            stop_stream = threading.Event()

            def streamer(c):
                try:
                    while not stop_stream.is_set():
                        c.sendall(b"s" * 4096)
                        time.sleep(0.01)
                except OSError:
                    pass
            if "c_http" in open_tunnels:
                threading.Thread(target=streamer, args=(open_tunnels["c_http"],), daemon=True).start()
            time.sleep(0.2)
            # ---- the outage: nothing is closed in an orderly way --------------------------------
            p2.proc.send_signal(signal.SIGKILL)
            p2.proc.wait()
            t_down = time.time()
            time.sleep(0.5)
            for n in CONNS:
                n_eval += 1
                v, t = probe(lps, org, n, timeout=3.0)
                dist["outage:%s:%s" % (n, v)] += 1
                if n == "direct" and v != "ok":
                    rep.fail("C19: %s, during the outage of the exit proxy: the direct connector, which does not use it: %s" % (phase, v), {"kind": "failing-input", "phase": phase, "connector": n, "step": "outage"})
                if n in ("c_http", "c_socks", "lb") and v != "refused":
                    rep.fail("C19: %s, during the outage: probe through %s: %s (a failure reply is expected)" % (phase, n, v), {"kind": "failing-input", "phase": phase, "connector": n, "step": "outage"})
            # tunnels that were open across the outage fail cleanly: the client's side is closed
            stop_stream.set()
            for n, c in sorted(open_tunnels.items(), key=lambda kv: kv[0] != "direct"):      # direct first: the echo origin gives up after 20 s of silence
                n_eval += 1
                if n == "direct":
                    try:
                        c.sendall(b"still")
                        ok = e2e.recv_exact(c, 5, timeout=3.0) == b"still"
                    except OSError:
                        ok = False
                    if not ok:
                        rep.fail("C19: %s: a tunnel through the direct connector stopped working during the exit proxy's outage" % phase, {"kind": "failing-input", "phase": phase, "connector": n, "step": "open tunnel"})
                    e2e.close_quiet(c)
                    continue
                limit = 3.0 if n != "c_quic" else 30 + 8.0
                got, how = e2e.recv_all(c, timeout=limit)
                dist["open-tunnel:%s:%s" % (n, how)] += 1
                if how not in ("eof", "reset"):
                    rep.fail("C19: %s: a tunnel through %s that was open when the exit proxy was killed is still open %.0fs later" % (phase, n, limit), {"kind": "failing-input", "phase": phase, "connector": n, "step": "open tunnel"})
                e2e.close_quiet(c)
            # the UDP association that was open across the outage ends too (its control connection is closed), although - or
            # rather: while - its client keeps sending
            if assoc is not None and assoc.ok:
                n_eval += 1
                left = max(1.0, 30 + 8.0 - (time.time() - t_down))
                got_c, how_c = e2e.recv_all(assoc.ctl, timeout=left)
                stop_udp.set()
                dist["open-udp-association:c_quic:%s" % how_c] += 1
                if not assoc_state.get("before"):
                    rep.fail("C19: %s: the UDP association through c_quic did not work before the outage: %s" % (phase, assoc_state), {"kind": "failing-input", "phase": phase, "connector": "c_quic", "step": "udp before"})
                elif how_c not in ("eof", "reset"):
                    rep.fail("C19: %s: a UDP association through c_quic that was open when the exit proxy was killed, and whose client kept sending a datagram every 0.3 s, is still open %.0fs later (its datagrams go nowhere, nobody is told)" % (
                        phase, time.time() - t_down), {"kind": "failing-input", "phase": phase, "connector": "c_quic", "step": "open udp association"})
                assoc.close()
            stop_udp.set()
            # ---- the upstream is back on the same ports ---------------------------------------------
            p2 = mk_p2()
            p2.start()
            t_up = time.time()
            pending = {n: dict(failed=0, hung=0) for n in ("c_http", "c_socks", "lb", "c_quic")}
            recovered = {}
            while pending and time.time() - t_up < max(RECOVER_LIMIT.values()) + 5:
                for n in list(pending):
                    n_eval += 1
                    v, t = probe(lps, org, n, timeout=3.0)
                    if v == "ok":
                        recovered[n] = (time.time() - t_up, pending.pop(n))
                    elif v == "hang":
                        pending[n]["hung"] += 1
                    else:
                        pending[n]["failed"] += 1
                # the direct connector keeps working throughout
                v, t = probe(lps, org, "direct", timeout=3.0)
                if v != "ok":
                    rep.fail("C19: %s: the direct connector failed (%s) while other upstreams were recovering" % (phase, v), {"kind": "failing-input", "phase": phase, "connector": "direct", "step": "recovery"})
                if pending:
                    time.sleep(0.5)
            for n in ("c_http", "c_socks", "lb", "c_quic"):
                if n not in recovered:
                    rep.fail("C19: %s: %.0fs after the exit proxy was restarted, requests through %s still do not succeed (%s)" % (phase, time.time() - t_up, n, pending.get(n)),
                             {"kind": "failing-input", "phase": phase, "connector": n, "step": "recovery", "attempts": pending.get(n)})
                    continue
                secs, att = recovered[n]
                dist["recovered:%s" % n] += 1
                if secs > RECOVER_LIMIT[n] or att["failed"] > ATTEMPT_LIMIT[n]:
                    rep.fail("C19: %s: %s served again only %.1fs after the restart, after %d failed and %d hanging attempts (limits %.0fs, %d failed)" % (phase, n, secs, att["failed"], att["hung"], RECOVER_LIMIT[n], ATTEMPT_LIMIT[n]),
                             {"kind": "failing-input", "phase": phase, "connector": n, "step": "recovery", "seconds": secs, "attempts": att})
        # a new UDP association through the QUIC connector works again
        n_eval += 1
        try:
            a2 = uw.SocksUdpClient(sq_port)
            ok2 = False
            if a2.ok:
                for _ in range(3):
                    a2.send(LOOP, uorg.port, b"udp-after")
                    r_ = a2.recv(1.5)
                    if r_ and r_[1] == b"udp-after":
                        ok2 = True
                        break
            a2_src = "%s:%d" % a2.ctl.getsockname()
            a2.close()
        except OSError:
            ok2, a2_src = False, None
        dist["udp-after:%s" % ok2] += 1
        if not ok2:
            rep.fail("C19: after the outages a new UDP association through c_quic does not carry datagrams", {"kind": "failing-input", "phase": "end", "connector": "c_quic", "step": "udp after"})
        # the outage left error records, not live ghosts
        time.sleep(1.5)
        # (a SOCKS5 UDP association outlives its control connection until timeouts.udp - noted in DESIGN.md, not part of this
        # property - so the association opened a moment ago is not a ghost of the outage)
        live = [x for x in p1.api("live")[1] if x.get("source") != a2_src]
        n_eval += 1
        if live:
            rep.fail("C19: after the outages %d connections are still listed as live on the entry proxy" % len(live), {"kind": "failing-input", "phase": "end", "step": "live"})
        if not p1.alive():
            rep.fail("C19: the entry proxy died", {"kind": "failing-input", "phase": "end", "step": "alive"})
    finally:
        p1.stop()
        p2.stop()
        org.close()
        uorg.close()
        import shutil
        shutil.rmtree(p1.dir, ignore_errors=True)
        shutil.rmtree(p2.dir, ignore_errors=True)
    rep.coverage.update({
        "evaluations": n_eval, "distinct_nontrivial": len(dist),
        "rule": "%d round(s) of: healthy probes through %s; tunnels open through http / socks / quic / direct (one streaming) and a SOCKS5 UDP association through the QUIC connector whose client keeps sending; SIGKILL of the exit proxy; probes during the outage; fate of the open tunnels; restart on the same ports; probes every 0.5 s until each connector serves again (limits %s, failed attempts %s); direct connector probed throughout" % (rounds, CONNS, RECOVER_LIMIT, ATTEMPT_LIMIT),
        "input_distribution": dict(dist),
    })
    rep.assumptions = ["wall-clock limits: stateless connectors 3 s, QUIC idle timeout 30 s + 12 s"]
    if broken and not rep.violations:
        rep.broken_obligation(broken[0], broken[1])
    return rep.finish()
