"""Test PKI for C07, generated offline with openssl into .cache/pki: two CAs, server certificates (right name, wrong
name, foreign CA) and client certificates (right CA, foreign CA)."""
import os
import subprocess

from common import CACHE

D = os.path.join(CACHE, "pki")


def _run(*a):
    p = subprocess.run(list(a), cwd=D, stdout=subprocess.PIPE, stderr=subprocess.STDOUT, text=True)
    if p.returncode != 0:
        raise RuntimeError("openssl: %s\n%s" % (" ".join(a), p.stdout[-600:]))


def _ca(name):
    _run("openssl", "req", "-x509", "-newkey", "rsa:2048", "-nodes", "-keyout", name + ".key", "-out", name + ".crt", "-days", "3650",
         "-subj", "/CN=%s" % name, "-addext", "basicConstraints=critical,CA:TRUE", "-addext", "keyUsage=critical,keyCertSign,cRLSign")


def _leaf(name, ca, san, usage):
    _run("openssl", "req", "-newkey", "rsa:2048", "-nodes", "-keyout", name + ".key", "-out", name + ".csr", "-subj", "/CN=%s" % name)
    open(os.path.join(D, name + ".ext"), "w").write("subjectAltName=%s\nextendedKeyUsage=%s\nbasicConstraints=CA:FALSE\n" % (san, usage))
    _run("openssl", "x509", "-req", "-in", name + ".csr", "-CA", ca + ".crt", "-CAkey", ca + ".key", "-CAcreateserial", "-out", name + ".crt",
         "-days", "3650", "-extfile", name + ".ext")


def material():
    """paths: dict name -> (crt, key)"""
    names = ["ca", "foreignca", "srv-good", "srv-wrongname", "srv-foreign", "cli-good", "cli-foreign"]
    if not all(os.path.exists(os.path.join(D, n + ".crt")) for n in names):
        os.makedirs(D, exist_ok=True)
        _ca("ca")
        _ca("foreignca")
        _leaf("srv-good", "ca", "DNS:localhost,IP:127.0.0.1", "serverAuth")
        _leaf("srv-wrongname", "ca", "DNS:other.test", "serverAuth")
        _leaf("srv-foreign", "foreignca", "DNS:localhost,IP:127.0.0.1", "serverAuth")
        _leaf("cli-good", "ca", "DNS:client.test", "clientAuth")
        _leaf("cli-foreign", "foreignca", "DNS:client.test", "clientAuth")
    return {n: (os.path.join(D, n + ".crt"), os.path.join(D, n + ".key")) for n in names}
