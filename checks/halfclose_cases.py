"""One endpoint finishes its sending direction early, the other keeps sending for longer than the idle period: the open
direction must keep flowing until its own sender finishes (C04), and a tunnel is never closed for idleness while either
direction carried data within the period (C13).  Used by checks/c04.py and checks/c13.py with a 2 s idle period."""
import socket
import time

import e2e
from e2e import LOOP


def stream_after_eof_origin(n, gap):
    """reads to end-of-stream, then sends n bytes one every `gap` seconds, then closes"""
    def h(c, a, rec):
        c.settimeout(30)
        while True:
            d = c.recv(4096)
            if not d:
                break
            rec["rx"] += d
        rec["eof"] = True
        for i in range(n):
            time.sleep(gap)
            c.sendall(bytes([48 + i % 10]))
            rec["tx"] += bytes([48 + i % 10])
    return h


def halfclose_first_origin(c, a, rec):
    """says hello, finishes its sending direction at once, then reads to end-of-stream"""
    c.settimeout(30)
    c.sendall(b"hello")
    c.shutdown(socket.SHUT_WR)
    while True:
        d = c.recv(4096)
        if not d:
            break
        rec["rx"] += d
    rec["eof"] = True


def client_closes_first(port_http, origin, n, gap):
    """client: hello + FIN; the origin then streams n bytes over n*gap seconds"""
    c, head, extra = e2e.http_connect(port_http, "%s:%d" % (LOOP, origin.port))
    t0 = time.time()
    try:
        c.sendall(b"hello")
        c.shutdown(socket.SHUT_WR)
        got, how = e2e.recv_all(c, timeout=n * gap + 6.0)
    except OSError as e:
        got, how = b"", "error:%s" % e
    e2e.close_quiet(c)
    return dict(kind="halfclose-client-first", want=n, got=len(extra + got), how=how, lasted=round(time.time() - t0, 2), gap=gap)


def origin_closes_first(port_http, origin, n, gap):
    """origin: hello + FIN; the client then streams n bytes over n*gap seconds and closes"""
    before = len(origin.records)
    c, head, extra = e2e.http_connect(port_http, "%s:%d" % (LOOP, origin.port))
    t0 = time.time()
    sent, err = 0, None
    try:
        for i in range(n):
            time.sleep(gap)
            c.sendall(bytes([97 + i % 26]))
            sent += 1
        c.shutdown(socket.SHUT_WR)
        got, how = e2e.recv_all(c, timeout=4.0)
    except OSError as e:
        got, how, err = b"", "error:%s" % e, str(e)
    e2e.close_quiet(c)
    time.sleep(0.3)
    recs = origin.records[before:]
    rx = len(recs[0]["rx"]) if recs else -1
    eof = bool(recs and recs[0]["eof"])
    return dict(kind="halfclose-origin-first", want=n, got=rx, sent=sent, how=how if err is None else "error:" + err, origin_saw_eof=eof, client_got=(extra + got).decode("latin1"),
                lasted=round(time.time() - t0, 2), gap=gap)


def judge(h):
    """None when the history is what the properties require, else a sentence"""
    if h["kind"] == "halfclose-client-first":
        if h["got"] != h["want"] or h["how"] != "eof":
            return "the client sent 'hello' and finished its sending direction; the origin then sent one byte every %.1fs for %d bytes and closed: the client received %d of them (%s) after %.1fs" % (
                h["gap"], h["want"], h["got"], h["how"], h["lasted"])
    else:
        if h["got"] != h["want"] or not h["origin_saw_eof"] or h["client_got"] != "hello":
            return "the origin sent 'hello' and finished its sending direction; the client then sent one byte every %.1fs for %d bytes and closed: the origin received %d of them (client: %d sent, %s; origin saw end-of-stream: %s; client received %r)" % (
                h["gap"], h["want"], h["got"], h["sent"], h["how"], h["origin_saw_eof"], h["client_got"])
    return None


def read_all_origin(c, a, rec):
    """only reads, to end-of-stream"""
    c.settimeout(30)
    while True:
        d = c.recv(4096)
        if not d:
            break
        rec["rx"] += d
    rec["eof"] = True


def upload_longer_than_idle(port_http, origin, n, gap):
    """the client sends n numbered 16-byte records, one every `gap` seconds (longer in total than the idle period), to an
    origin that only reads; every byte must arrive, in order"""
    before = len(origin.records)
    c, head, extra = e2e.http_connect(port_http, "%s:%d" % (LOOP, origin.port))
    sent, err = b"", None
    try:
        for i in range(n):
            time.sleep(gap)
            rec_ = b"rec-%011d\n" % i
            c.sendall(rec_)
            sent += rec_
        c.shutdown(socket.SHUT_WR)
        e2e.recv_all(c, timeout=4.0)
    except OSError as e:
        err = str(e)
    e2e.close_quiet(c)
    time.sleep(0.3)
    recs = origin.records[before:]
    rx = bytes(recs[0]["rx"]) if recs else b""
    return dict(kind="upload-longer-than-idle", want=len(sent), got=len(rx), intact=sent.startswith(rx) and len(rx) == len(sent), error=err, gap=gap, n=n)
