"""End-to-end harness: the hook-built binary in its normal mode on loopback, fake origins and
upstream proxies, protocol clients.  Python stdlib only.  Every scenario returns a history
(what each endpoint wrote, read and observed) that the checks judge."""
import json
import os
import select
import socket
import struct
import subprocess
import threading
import time
import urllib.request

from common import CACHE, ENV

LOOP = "127.0.0.1"
# The hook build unwinds panics so that the in-process driver can report them; the shipped profile aborts.  A panic
# message in a proxy's stderr therefore means: in the shipped build the process would be dead.  Collected here and
# turned into a violation by Report.finish().
PANICS = []


_port_lock = threading.Lock()
_port_used = set()


def free_port(kind=socket.SOCK_STREAM):
    """a port below the ephemeral range (so that outgoing connections cannot take it before the proxy binds),
    not handed out before by this process"""
    import random
    with _port_lock:
        for _ in range(2000):
            p = random.randint(15000, 32000)
            if p in _port_used:
                continue
            s = socket.socket(socket.AF_INET, kind)
            try:
                s.bind((LOOP, p))
            except OSError:
                s.close()
                continue
            s.close()
            _port_used.add(p)
            return p
    raise RuntimeError("no free port")


def wait_listen(port, timeout=10.0, host=None):
    t0 = time.time()
    while time.time() - t0 < timeout:
        try:
            s = socket.create_connection((host or LOOP, port), timeout=0.3)
            s.close()
            return True
        except OSError:
            time.sleep(0.05)
    return False


def yaml_dump(v, ind=0):
    """minimal YAML emitter for dict / list / scalars"""
    sp = "  " * ind
    if isinstance(v, dict):
        out = []
        for k, x in v.items():
            if isinstance(x, (dict, list)) and x:
                out.append("%s%s:\n%s" % (sp, k, yaml_dump(x, ind + 1)))
            else:
                out.append("%s%s: %s" % (sp, k, yaml_scalar(x)))
        return "\n".join(out)
    if isinstance(v, list):
        out = []
        for x in v:
            if isinstance(x, dict):
                body = yaml_dump(x, ind + 1)
                out.append("%s- %s" % (sp, body.lstrip()))
            else:
                out.append("%s- %s" % (sp, yaml_scalar(x)))
        return "\n".join(out)
    return sp + yaml_scalar(v)


def yaml_scalar(x):
    if x is None:
        return "null"
    if isinstance(x, bool):
        return "true" if x else "false"
    if isinstance(x, (int, float)):
        return str(x)
    if isinstance(x, (dict, list)):
        return "{}" if isinstance(x, dict) else "[]"
    return json.dumps(str(x))


class Proxy:
    def __init__(self, binary, listeners, connectors, rules, timeouts=None, io=None, metrics=True, history=None, access_log=False, name="p", env=None, nofile=None):
        self.binary = binary
        self.dir = os.path.join(CACHE, "e2e", "%s-%d-%d" % (name, os.getpid(), threading.get_ident() % 100000))
        os.makedirs(self.dir, exist_ok=True)
        self.api_port = free_port() if metrics else None
        cfg = {"apiVersion": "v1alpha", "kind": "ProxyDefinition", "listeners": listeners, "connectors": connectors, "rules": rules}
        if timeouts is not None:
            cfg["timeouts"] = timeouts
        if io is not None:
            cfg["ioParams"] = io
        if metrics:
            cfg["metrics"] = {"bind": "%s:%d" % (LOOP, self.api_port)}
            if history is not None:
                cfg["metrics"]["historySize"] = history
        if access_log:
            self.log_path = os.path.join(self.dir, "access.log")
            cfg["accessLog"] = {"path": self.log_path, "format": "json"}
        self.cfg_path = os.path.join(self.dir, "config.yaml")
        open(self.cfg_path, "w").write(yaml_dump(cfg) + "\n")
        self.ports = [int(l["bind"].rsplit(":", 1)[1]) for l in listeners if l.get("protocol", "tcp") != "udp" and l.get("type", l["name"]) != "quic"]
        # listeners bound to an IPv6 address ("[addr]:port") are probed there
        self.hosts = {int(l["bind"].rsplit(":", 1)[1]): l["bind"].rsplit(":", 1)[0].strip("[]") for l in listeners if l["bind"].startswith("[")}
        self.proc = None
        self.env = dict(ENV)
        self.env["RUST_LOG"] = "warn"
        self.env.pop("REDPROXY_VERIF_DRIVER", None)
        if env:
            self.env.update(env)
        self.nofile = nofile

    def start(self):
        pre = None
        if self.nofile:
            import resource
            n = self.nofile
            pre = lambda: resource.setrlimit(resource.RLIMIT_NOFILE, (n, n))
        self.stderr = open(os.path.join(self.dir, "stderr.log"), "w")
        self.proc = subprocess.Popen([self.binary, "-c", self.cfg_path], env=self.env, cwd=self.dir, stdout=self.stderr, stderr=self.stderr, preexec_fn=pre)
        ok = all(wait_listen(p, host=self.hosts.get(p)) for p in self.ports + ([self.api_port] if self.api_port else []))
        if not ok or self.proc.poll() is not None:
            err = open(os.path.join(self.dir, "stderr.log")).read()[-2000:]
            self.stop()
            raise RuntimeError("proxy did not start: " + err)
        return self

    def alive(self):
        return self.proc is not None and self.proc.poll() is None

    def stop(self):
        if self.proc is not None:
            if self.proc.poll() is None:
                self.proc.terminate()
                try:
                    self.proc.wait(3)
                except subprocess.TimeoutExpired:
                    self.proc.kill()
                    self.proc.wait()
            rc = self.proc.returncode
            self.proc = None
            try:
                self.stderr.close()
            except Exception:
                pass
            try:
                for line in open(os.path.join(self.dir, "stderr.log"), errors="replace"):
                    if "panicked at" in line:
                        PANICS.append("%s: %s" % (os.path.basename(self.dir), line.strip()[:300]))
            except OSError:
                pass
            return rc

    def __enter__(self):
        return self.start()

    def __exit__(self, *a):
        self.stop()
        import shutil
        shutil.rmtree(self.dir, ignore_errors=True)

    def api(self, path, data=None, timeout=3.0):
        url = "http://%s:%d/api/%s" % (LOOP, self.api_port, path)
        req = urllib.request.Request(url, data=(json.dumps(data).encode() if data is not None else None),
                                     headers={"Content-Type": "application/json"}, method="POST" if data is not None or path == "logrotate" else "GET")
        with urllib.request.urlopen(req, timeout=timeout) as r:
            body = r.read()
            try:
                return r.status, json.loads(body) if body else None
            except ValueError:
                return r.status, body


# ---- origins and upstreams ---------------------------------------------------------------

class Server(threading.Thread):
    """accept loop; handler(conn, addr, record) per connection in its own thread"""

    def __init__(self, handler, port=None):
        super().__init__(daemon=True)
        self.sock = socket.socket(socket.AF_INET, socket.SOCK_STREAM)
        self.sock.setsockopt(socket.SOL_SOCKET, socket.SO_REUSEADDR, 1)
        self.sock.bind((LOOP, port or 0))
        self.sock.listen(128)
        self.port = self.sock.getsockname()[1]
        self.handler = handler
        self.records = []
        self.stopped = False
        self.start()

    def run(self):
        while not self.stopped:
            try:
                c, a = self.sock.accept()
            except OSError:
                return
            rec = {"addr": a, "rx": bytearray(), "tx": bytearray(), "eof": False, "eof_at": None, "error": None, "t0": time.time()}
            self.records.append(rec)
            threading.Thread(target=self._h, args=(c, a, rec), daemon=True).start()

    def _h(self, c, a, rec):
        try:
            self.handler(c, a, rec)
        except OSError as e:
            rec["error"] = str(e)
        finally:
            rec["closed_at"] = time.time()
            try:
                c.close()
            except OSError:
                pass

    def close(self):
        self.stopped = True
        try:
            self.sock.close()
        except OSError:
            pass


def echo_handler(c, a, rec):
    c.settimeout(20)
    while True:
        d = c.recv(65536)
        if not d:
            rec["eof"] = True
            rec["eof_at"] = time.time()
            break
        rec["rx"] += d
        c.sendall(d)
        rec["tx"] += d
    c.shutdown(socket.SHUT_WR)


def sink_handler(c, a, rec):
    c.settimeout(20)
    while True:
        d = c.recv(65536)
        if not d:
            rec["eof"] = True
            rec["eof_at"] = time.time()
            break
        rec["rx"] += d


def scripted_origin(send_first=b"", then_close=False, read_all=True):
    def h(c, a, rec):
        c.settimeout(20)
        if send_first:
            c.sendall(send_first)
            rec["tx"] += send_first
        if then_close:
            c.shutdown(socket.SHUT_WR)
        if read_all:
            while True:
                d = c.recv(65536)
                if not d:
                    rec["eof"] = True
                    rec["eof_at"] = time.time()
                    break
                rec["rx"] += d
    return h


def recv_until(c, marker, limit=1 << 20, timeout=5.0):
    c.settimeout(timeout)
    buf = bytearray()
    while marker not in buf and len(buf) < limit:
        d = c.recv(4096)
        if not d:
            break
        buf += d
    return bytes(buf)


def recv_cstr(c, timeout=5.0, limit=4096):
    """bytes up to and including the next NUL, never reading past it"""
    c.settimeout(timeout)
    buf = bytearray()
    while len(buf) < limit:
        d = c.recv(1)
        if not d:
            break
        buf += d
        if d == b"\0":
            break
    return bytes(buf)


def recv_exact(c, n, timeout=5.0):
    c.settimeout(timeout)
    buf = bytearray()
    while len(buf) < n:
        d = c.recv(n - len(buf))
        if not d:
            break
        buf += d
    return bytes(buf)


def recv_all(c, timeout=5.0, limit=1 << 26):
    """read until EOF (or timeout / reset); returns (bytes, how)"""
    c.settimeout(timeout)
    buf = bytearray()
    try:
        while len(buf) < limit:
            d = c.recv(65536)
            if not d:
                return bytes(buf), "eof"
            buf += d
    except socket.timeout:
        return bytes(buf), "timeout"
    except ConnectionResetError:
        return bytes(buf), "reset"
    return bytes(buf), "limit"


def http_upstream(verdict=b"HTTP/1.1 200 OK\r\n\r\n", relay_to=None, reply_delay=0.0):
    """a minimal HTTP CONNECT proxy: records the request head, answers `verdict`, then relays to
    the CONNECT target (or to relay_to=(host,port)) when the verdict is 200"""
    def h(c, a, rec):
        head = recv_until(c, b"\r\n\r\n")
        i = head.find(b"\r\n\r\n")
        rec["head"] = head[:i + 4] if i >= 0 else head
        extra = head[i + 4:] if i >= 0 else b""
        if reply_delay:
            time.sleep(reply_delay)
        if verdict is None:
            return
        c.sendall(verdict)
        if not verdict.startswith(b"HTTP/1.1 200"):
            return
        line = rec["head"].split(b"\r\n", 1)[0].split(b" ")
        tgt = relay_to
        if tgt is None and len(line) >= 2:
            hp = line[1].decode("latin1").rsplit(":", 1)
            tgt = (hp[0].strip("[]"), int(hp[1]))
        s = socket.create_connection(tgt, timeout=5)
        if extra:
            s.sendall(extra)
        pump(c, s, rec)
    return h


def pump(a, b, rec=None):
    """bidirectional relay with half-close propagation"""
    a.settimeout(None)
    b.settimeout(None)
    open_ab, open_ba = True, True
    while open_ab or open_ba:
        rs = ([a] if open_ab else []) + ([b] if open_ba else [])
        r, _, _ = select.select(rs, [], [], 20)
        if not r:
            break
        for s in r:
            d = s.recv(65536)
            dst = b if s is a else a
            if not d:
                try:
                    dst.shutdown(socket.SHUT_WR)
                except OSError:
                    pass
                if s is a:
                    open_ab = False
                else:
                    open_ba = False
            else:
                dst.sendall(d)
    for s in (a, b):
        try:
            s.close()
        except OSError:
            pass


def socks5_upstream(rep=0, relay=True, after_greeting_close=False, relay_to=None):
    def h(c, a, rec):
        g = recv_exact(c, 2)
        methods = recv_exact(c, g[1]) if len(g) == 2 else b""
        rec["greeting"] = g + methods
        if after_greeting_close:
            return
        c.sendall(b"\x05\x00")
        hd = recv_exact(c, 4)
        if len(hd) < 4:
            return
        if hd[3] == 1:
            addr = recv_exact(c, 4); host = socket.inet_ntoa(addr)
        elif hd[3] == 3:
            ln = recv_exact(c, 1); addr = ln + recv_exact(c, ln[0]); host = addr[1:].decode("latin1")
        else:
            addr = recv_exact(c, 16); host = socket.inet_ntop(socket.AF_INET6, addr)
        port = struct.unpack(">H", recv_exact(c, 2))[0]
        rec["request"] = hd + addr + struct.pack(">H", port)
        rec["target"] = (host, port)
        c.sendall(bytes([5, rep, 0, 1, 0, 0, 0, 0, 0, 0]))
        if rep != 0 or not relay:
            return
        s = socket.create_connection(relay_to or (host, port), timeout=5)
        pump(c, s, rec)
    return h


def socks4_upstream(code=90, relay=True, relay_to=None):
    def h(c, a, rec):
        hd = recv_exact(c, 8)
        rest = recv_cstr(c)
        rec["request"] = hd + rest
        if len(hd) < 8:
            return
        port = struct.unpack(">H", hd[2:4])[0]
        ip = hd[4:8]
        host = socket.inet_ntoa(ip)
        if ip[:3] == b"\0\0\0" and ip[3] != 0:
            dom = recv_cstr(c)
            rec["request"] += dom
            host = dom.rstrip(b"\0").decode("latin1")
        rec["target"] = (host, port)
        c.sendall(bytes([0, code]) + hd[2:8])
        if code != 90 or not relay:
            return
        s = socket.create_connection(relay_to or (host, port), timeout=5)
        pump(c, s, rec)
    return h


# ---- clients -----------------------------------------------------------------------------

def http_connect(port, target, early=b"", headers=(), timeout=5.0, raw_request=None):
    """returns (socket, head bytes, bytes that followed the head in the same reads)"""
    c = socket.create_connection((LOOP, port), timeout=timeout)
    req = raw_request if raw_request is not None else (
        b"CONNECT " + target.encode() + b" HTTP/1.1\r\nHost: " + target.encode() + b"\r\n" + b"".join(k + b": " + v + b"\r\n" for k, v in headers) + b"\r\n")
    c.sendall(req + early)
    buf = recv_until(c, b"\r\n\r\n", timeout=timeout)
    i = buf.find(b"\r\n\r\n")
    if i < 0:
        return c, buf, b""
    return c, buf[:i + 4], buf[i + 4:]


def socks5_connect(port, host, dport, early=b"", auth=None, timeout=5.0, methods=None, cmd=1):
    c = socket.create_connection((LOOP, port), timeout=timeout)
    ms = methods if methods is not None else (b"\x00\x02" if auth else b"\x00")
    try:
        ip = socket.inet_aton(host)
        addr = b"\x01" + ip
    except OSError:
        if ":" in host:
            addr = b"\x04" + socket.inet_pton(socket.AF_INET6, host)
        else:
            hb = host.encode() if isinstance(host, str) else host
            addr = b"\x03" + bytes([len(hb)]) + hb
    req = bytes([5, cmd, 0]) + addr + struct.pack(">H", dport)
    c.sendall(bytes([5, len(ms)]) + ms)
    sel = recv_exact(c, 2, timeout)
    if len(sel) < 2 or sel[1] == 0xff:
        return c, sel, b""
    if sel[1] == 2:
        u, p = auth or (b"", b"")
        c.sendall(bytes([1, len(u)]) + u + bytes([len(p)]) + p)
        ar = recv_exact(c, 2, timeout)
        if len(ar) < 2:
            return c, sel + ar, b""
    c.sendall(req + early)
    rep = recv_exact(c, 4, timeout)
    if len(rep) == 4:
        if rep[3] == 1:
            rep += recv_exact(c, 6, timeout)
        elif rep[3] == 4:
            rep += recv_exact(c, 18, timeout)
        elif rep[3] == 3:
            l = recv_exact(c, 1, timeout)
            rep += l + recv_exact(c, l[0] + 2, timeout)
    return c, sel, rep


def socks4_connect(port, host, dport, early=b"", user=b"", timeout=5.0, cmd=1):
    c = socket.create_connection((LOOP, port), timeout=timeout)
    try:
        ip = socket.inet_aton(host)
        req = bytes([4, cmd]) + struct.pack(">H", dport) + ip + user + b"\0"
    except OSError:
        req = bytes([4, cmd]) + struct.pack(">H", dport) + b"\0\0\0\1" + user + b"\0" + host.encode() + b"\0"
    c.sendall(req + early)
    rep = recv_exact(c, 8, timeout)
    return c, rep


def close_quiet(*socks):
    for s in socks:
        try:
            s.close()
        except Exception:
            pass


def retry3(fn):
    """a scenario that fails is re-run twice; only a reproducible failure is reported"""
    last = None
    for _ in range(3):
        ok, detail = fn()
        if ok:
            return True, detail
        last = detail
    return False, last
