"""Shared machinery for the /verif checks: Coq build + assumption audit, extracted model
runner, hook-built driver, case execution, evidence and verdict reporting."""
import fcntl
import hashlib
import json
import os
import random
import re
import subprocess
import sys
import time

VERIF = os.path.dirname(os.path.dirname(os.path.abspath(__file__)))
REPO = os.environ.get("VERIF_REPO", "/repo")
CACHE = os.path.join(VERIF, ".cache")
COQ = os.path.join(VERIF, "coq")
EVID = os.path.join(VERIF, "evidence")
REPLAY = os.path.join(VERIF, "replay")
NCPU = min(16, os.cpu_count() or 4)

ENV = dict(os.environ)
ENV.update({"CARGO_NET_OFFLINE": "true", "GOPROXY": "off", "PIP_NO_INDEX": "1"})

# axioms from the standard library that a theorem may depend on (DESIGN §7); anything else
# printed by Print Assumptions fails the check
ALLOWED_AXIOMS = {
    "functional_extensionality_dep",
    "FunctionalExtensionality.functional_extensionality_dep",
    "Eqdep.Eq_rect_eq.eq_rect_eq",
    "JMeq_eq",
    "JMeq.JMeq_eq",
    "proof_irrelevance",
    "ProofIrrelevance.proof_irrelevance",
    "classic",
    "Classical_Prop.classic",
}

FORBIDDEN = re.compile(
    r"\b(Admitted|admit|Axiom|Axioms|Parameter|Parameters|Conjecture|Conjectures|"
    r"Admit Obligations|Unset Guard Checking|bypass_check|Unset Positivity Checking|"
    r"Unset Universe Checking|type-in-type|impredicative-set)\b"
)


class CheckFailure(Exception):
    """The machinery itself could not run (distinct from a property violation)."""


def log(*a):
    print(*a, file=sys.stderr, flush=True)


def sh(cmd, timeout=1800, cwd=None, env=None, input=None):
    p = subprocess.run(
        cmd, shell=isinstance(cmd, str), cwd=cwd, env=env or ENV, input=input,
        stdout=subprocess.PIPE, stderr=subprocess.STDOUT, timeout=timeout, text=True,
    )
    return p.returncode, p.stdout


class flock:
    def __init__(self, name):
        os.makedirs(CACHE, exist_ok=True)
        self.path = os.path.join(CACHE, name + ".lock")

    def __enter__(self):
        self.f = open(self.path, "w")
        fcntl.flock(self.f, fcntl.LOCK_EX)
        return self

    def __exit__(self, *a):
        fcntl.flock(self.f, fcntl.LOCK_UN)
        self.f.close()


# ----------------------------------------------------------------------------------------
# Coq


def strip_comments(src):
    out, depth, i = [], 0, 0
    while i < len(src):
        if src.startswith("(*", i):
            depth += 1
            i += 2
        elif src.startswith("*)", i) and depth > 0:
            depth -= 1
            i += 2
        else:
            if depth == 0:
                out.append(src[i])
            i += 1
    return "".join(out)


def coq_sources():
    res = []
    for root, _, files in os.walk(os.path.join(COQ, "theories")):
        for f in files:
            if f.endswith(".v"):
                res.append(os.path.join(root, f))
    for root, _, files in os.walk(os.path.join(COQ, "extraction")):
        for f in files:
            if f.endswith(".v"):
                res.append(os.path.join(root, f))
    return sorted(res)


def audit_sources():
    """No Admitted / Axiom / Parameter / ... anywhere in the development."""
    bad = []
    for f in coq_sources():
        txt = strip_comments(open(f).read())
        for m in FORBIDDEN.finditer(txt):
            bad.append("%s: %s" % (os.path.relpath(f, VERIF), m.group(0)))
        # Variable / Hypothesis outside a section
        depth = 0
        for line in txt.splitlines():
            s = line.strip()
            if re.match(r"^Section\b", s):
                depth += 1
            elif re.match(r"^End\b", s) and depth > 0:
                depth -= 1
            elif depth == 0 and re.match(r"^(Variable|Variables|Hypothesis|Hypotheses|Context)\b", s):
                bad.append("%s: top-level %s" % (os.path.relpath(f, VERIF), s[:40]))
    return bad


def coq_deps(target_v):
    """Transitive RP.* dependencies of a .v file (by Require lines)."""
    seen, todo = set(), [target_v]
    while todo:
        f = todo.pop()
        if f in seen or not os.path.exists(f):
            continue
        seen.add(f)
        txt = strip_comments(open(f).read())
        for m in re.finditer(r"From\s+RP(\.\w+)*\s+Require\s+(?:Import|Export)?\s*([^.]*)\.", txt):
            sub = (m.group(0).split()[1]).split(".")[1:]
            for name in m.group(2).split():
                cand = os.path.join(COQ, "theories", *(sub + name.split("."))) + ".v"
                todo.append(cand)
    return sorted(seen)


def count_obligations(files):
    n = 0
    names = []
    for f in files:
        txt = strip_comments(open(f).read())
        for m in re.finditer(r"^\s*(Theorem|Lemma|Corollary|Example|Fact|Proposition)\s+(\w+)", txt, re.M):
            n += 1
            names.append(m.group(2))
    return n, names


def regenerate():
    """Re-translate the table-like parts of /repo's working tree into coq/theories/Gen/*.v."""
    sys.path.insert(0, os.path.join(VERIF, "gen"))
    import translate
    with flock("coq"):
        try:
            return translate.main(), None
        except SystemExit as e:
            return [], str(e)
        except Exception as e:   # a construct the translator cannot handle is a broken obligation
            return [], "translator failed: %r" % (e,)


def coq_build(prop_file, timeout=1500):
    """Build theories/Props/<prop_file>.vo (full .vo build) and audit it.
    Returns dict(ok, log, obligations, discharged, theorems, assumptions, problems)."""
    target = "theories/Props/%s.vo" % prop_file
    changed, terr = regenerate()
    if terr:
        return {"ok": False, "log": terr, "wall_s": 0, "problems": [terr], "obligations": 1, "discharged": 0,
                "theorems": [], "files": [], "translator_error": terr}
    with flock("coq"):
        rc, out = sh("coq_makefile -f _CoqProject -o Makefile", cwd=COQ, timeout=120)
        if rc != 0:
            raise CheckFailure("coq_makefile failed:\n" + out)
        t0 = time.time()
        rc, out = sh("timeout %d make -j%d %s" % (timeout, NCPU, target), cwd=COQ, timeout=timeout + 60)
        dt = time.time() - t0
    res = {"ok": rc == 0, "log": out, "wall_s": dt, "problems": []}
    vfile = os.path.join(COQ, "theories", "Props", prop_file + ".v")
    deps = coq_deps(vfile)
    res["files"] = [os.path.relpath(d, COQ) for d in deps]
    nob, names = count_obligations(deps)
    res["obligations"] = nob
    res["discharged"] = nob if rc == 0 else 0
    _, thms = count_obligations([vfile])
    res["theorems"] = thms
    bad = audit_sources()
    if bad:
        res["problems"] += ["forbidden construct: " + b for b in bad]
    # the Print Assumptions output appears in the make log only when the file is recompiled;
    # re-run coqc on the Props file alone (cheap) to obtain it every time
    if rc == 0:
        tmpd = os.path.join(CACHE, "pa")
        os.makedirs(tmpd, exist_ok=True)
        tmpv = os.path.join(tmpd, "PA_%s.v" % prop_file)
        open(tmpv, "w").write(open(vfile).read())
        rc2, out2 = sh("timeout 900 coqc -Q %s/theories RP -w -notation-overridden %s" % (COQ, tmpv),
                       cwd=tmpd, timeout=960)
        res["pa_log"] = out2
        if rc2 != 0:
            res["ok"] = False
            res["problems"].append("Print Assumptions pass failed")
        axioms = parse_assumptions(out2)
        res["assumptions"] = axioms
        n_closed = out2.count("Closed under the global context")
        res["closed"] = n_closed
        for a in axioms:
            if a not in ALLOWED_AXIOMS:
                res["problems"].append("theorem depends on non-allow-listed axiom: " + a)
        ptxt = strip_comments(open(vfile).read())
        n_pa = len(re.findall(r"^\s*Print Assumptions", ptxt, re.M))
        n_thm = len(re.findall(r"^\s*Theorem\s", ptxt, re.M))
        if n_pa < n_thm:
            res["problems"].append("property theorem without Print Assumptions")
    return res


def parse_assumptions(out):
    axioms = []
    in_ax = False
    for line in out.splitlines():
        if line.startswith("Axioms:"):
            in_ax = True
            continue
        if in_ax:
            m = re.match(r"^(\S+)\s*:", line)
            if m and not line.startswith(" "):
                axioms.append(m.group(1))
            elif line.strip() == "" or line.startswith("Closed under"):
                in_ax = False
    return sorted(set(axioms))


# ----------------------------------------------------------------------------------------
# extracted model runner


def file_hash(paths):
    h = hashlib.sha256()
    for p in sorted(paths):
        h.update(p.encode())
        h.update(open(p, "rb").read())
    return h.hexdigest()


def ensure_model_run():
    """Extract the Coq model and build extract/model_run.ml into .cache/model_run."""
    regenerate()
    with flock("ml"):
        srcs = [p for p in coq_sources() if "/Props/" not in p and "/Proofs" not in p]
        srcs.append(os.path.join(VERIF, "extract", "model_run.ml"))
        h = file_hash(srcs)
        stamp = os.path.join(CACHE, "model_run.stamp")
        exe = os.path.join(CACHE, "model_run")
        if os.path.exists(exe) and os.path.exists(stamp) and open(stamp).read() == h:
            return exe
        # model .vo files must exist
        with flock("coq"):
            rc, out = sh("coq_makefile -f _CoqProject -o Makefile", cwd=COQ, timeout=120)
            ex = strip_comments(open(os.path.join(COQ, "extraction", "Extract.v")).read())
            mods = set()
            for m in re.finditer(r"From\s+RP\s+Require\s+(?:Import|Export)?\s*([^.]*)\.", ex):
                mods.update(m.group(1).split())
            targets = " ".join("theories/%s.vo" % m.replace(".", "/") for m in sorted(mods))
            rc, out = sh("timeout 1200 make -j%d %s" % (NCPU, targets), cwd=COQ, timeout=1300)
            if rc != 0:
                raise CheckFailure("model build failed:\n" + out[-4000:])
            mld = os.path.join(CACHE, "ml")
            os.makedirs(mld, exist_ok=True)
            rc, out = sh(
                "timeout 600 coqc -Q %s/theories RP -w -extraction %s/extraction/Extract.v" % (COQ, COQ),
                cwd=mld, timeout=660,
            )
            for junk in ("Extract.vo", "Extract.glob", ".Extract.aux", "Extract.vos", "Extract.vok"):
                try:
                    os.remove(os.path.join(COQ, "extraction", junk))
                except OSError:
                    pass
            if rc != 0:
                raise CheckFailure("extraction failed:\n" + out[-4000:])
        sh("cp %s/extract/model_run.ml %s/" % (VERIF, mld))
        rc, out = sh(
            "timeout 600 ocamlfind ocamlopt -w -a model.mli model.ml model_run.ml -o %s" % exe,
            cwd=mld, timeout=660,
        )
        if rc != 0:
            raise CheckFailure("ocamlopt failed:\n" + out[-4000:])
        open(stamp, "w").write(h)
        return exe


# ----------------------------------------------------------------------------------------
# hook-built driver


def ensure_driver(arith="release"):
    """Build /repo's working tree with the hook.  arith = 'release' (overflow checks off, as in
    the shipped profile) or 'debug' (overflow checks on).  Panics unwind so that the driver
    can report them; the shipped abort-on-panic setting is read separately (Gen_profile)."""
    tdir = os.path.join(CACHE, "cargo-" + arith)
    ovf = "true" if arith == "debug" else "false"
    env = dict(ENV)
    env["RUSTFLAGS"] = "--cfg redproxy_verif"
    env["CARGO_TARGET_DIR"] = tdir
    cmd = [
        "cargo", "build", "--offline", "--manifest-path", os.path.join(REPO, "Cargo.toml"),
        "--bin", "redproxy-rs",
        "--config", 'profile.dev.panic="unwind"',
        "--config", "profile.dev.overflow-checks=%s" % ovf,
        "--config", "profile.dev.debug=0",
    ]
    with flock("cargo-" + arith):
        t0 = time.time()
        p = subprocess.run(cmd, env=env, stdout=subprocess.PIPE, stderr=subprocess.STDOUT, text=True, timeout=3000)
        log("driver build (%s arithmetic): rc=%d %.0fs" % (arith, p.returncode, time.time() - t0))
        if p.returncode != 0:
            return None, p.stdout
    return os.path.join(tdir, "debug", "redproxy-rs"), p.stdout


def shard(lines, k):
    k = max(1, min(k, len(lines)))
    size = (len(lines) + k - 1) // k
    return [lines[i:i + size] for i in range(0, len(lines), size)]


def run_lines(cmd, lines, env=None, timeout=1200, shards=NCPU, stall=90, _hangs=None):
    """Feed the case lines to `cmd` (sharded over processes); returns the output lines.
    A process that dies mid-way yields 'CRASH' for the case it died on and is restarted on
    the remaining cases.  A process that prints nothing for `stall` seconds is hung on its current case
    (a deadlock in the code under test must not hang the check): it is killed, the case yields 'CRASH rc=hang'."""
    if not lines:
        return []
    import select
    import threading
    if _hangs is None:
        _hangs = [0]
    if _hangs[0] >= 6:
        # the code under test hangs again and again: the verdict is settled, do not spend 20 s on every further case
        return ["CRASH rc=not-run-after-%d-hangs" % _hangs[0]] * len(lines)
    parts = shard(lines, shards)
    procs = []
    for part in parts:
        p = subprocess.Popen(cmd, env=env or ENV, stdin=subprocess.PIPE, stdout=subprocess.PIPE, stderr=subprocess.DEVNULL)
        procs.append((p, part))
    results = [None] * len(procs)

    def work(i, p, part):
        def feed():
            try:
                p.stdin.write(("\n".join(part) + "\n").encode())
                p.stdin.close()
            except (BrokenPipeError, OSError, ValueError):
                pass
        threading.Thread(target=feed, daemon=True).start()
        fd = p.stdout.fileno()
        buf, last, t_end, hung = b"", time.time(), time.time() + timeout, False
        while True:
            r, _, _ = select.select([fd], [], [], 1.0)
            if r:
                d = os.read(fd, 1 << 16)
                if not d:
                    break
                buf += d
                last = time.time()
                if buf.count(b"\n") >= len(part):
                    break
            elif time.time() - last > stall or time.time() > t_end:
                hung = True
                break
        if hung or p.poll() is None:
            try:
                p.kill()
            except OSError:
                pass
        try:
            p.wait(timeout=10)
        except subprocess.TimeoutExpired:
            pass
        results[i] = (buf.decode("utf-8", "replace").splitlines(), "hang" if hung else p.returncode)

    ths = [threading.Thread(target=work, args=(i, p, part)) for i, (p, part) in enumerate(procs)]
    for t in ths:
        t.start()
    for t in ths:
        t.join()
    outs = []
    for (lines_out, rc), (p, part) in zip(results, procs):
        if len(lines_out) < len(part):
            # crashed or hung on case number len(lines_out)
            done = lines_out
            k = len(done)
            done.append("CRASH rc=%s" % rc)
            if rc == "hang":
                _hangs[0] += 1
            rest = part[k + 1:]
            if rest:
                # after a hang the remaining cases get a shorter leash: a change that deadlocks one case usually deadlocks many
                done += run_lines(cmd, rest, env=env, timeout=timeout, shards=1, stall=min(stall, 20) if rc == "hang" else stall, _hangs=_hangs)
            lines_out = done
        outs += lines_out[:len(part)]
    return outs


def run_impl(driver, lines, **kw):
    env = dict(ENV)
    env["REDPROXY_VERIF_DRIVER"] = "1"
    env["RUST_LOG"] = "off"
    return run_lines([driver], lines, env=env, **kw)


def run_model(model_exe, lines, arith="release", **kw):
    return run_lines([model_exe, arith], lines, **kw)


LOSSY_RE = re.compile(r"D(?:[0-9a-f]{2})*:")


def mask_lossy(oi, om):
    """Where the model reports the lossy-UTF-8 marker (host ff) the replacement text is not
    modelled: mask the host in both outputs, everything else is still compared."""
    if "Dff:" in om:
        oi, om = LOSSY_RE.sub("D?:", oi), LOSSY_RE.sub("D?:", om)
    if re.search(r"a=(ff/|[0-9a-f-]*/ff )", om):
        oi, om = re.sub(r"a=\S+", "a=?", oi), re.sub(r"a=\S+", "a=?", om)
    return oi, om


def canon(line):
    """Canonicalise an output line: panic location dropped."""
    if line.startswith("PANIC"):
        return "PANIC"
    if line.startswith("CRASH"):
        return "PANIC"
    return line


# ----------------------------------------------------------------------------------------
# known findings, verdicts, evidence


def load_known():
    p = os.path.join(VERIF, "known_findings.json")
    if not os.path.exists(p):
        return []
    return json.load(open(p)).get("findings", [])


class Report:
    def __init__(self, pid, tier, seed):
        self.pid, self.tier, self.seed = pid, tier, seed
        self.t0 = time.time()
        self.violations = []        # (what, replay dict)
        self.known_hits = {}        # finding id -> (finding, count)
        self.coverage = {}
        self.assumptions = []
        self.known = [k for k in load_known() if k.get("property") == pid and k.get("status") == "known"]

    def known_match(self, tags):
        """tags: set of known-finding class ids this failing case belongs to."""
        for k in self.known:
            if k["id"] in tags:
                return k
        return None

    def fail(self, what, replay, tags=()):
        k = self.known_match(set(tags))
        if k is not None:
            f, c = self.known_hits.get(k["id"], (k, 0))
            self.known_hits[k["id"]] = (k, c + 1)
            return
        self.violations.append((what, replay))

    def broken_obligation(self, what, detail):
        """A proof obligation or the correspondence broke and no failing input was found."""
        self.violations.append((what, {"kind": "no-failing-input-found", "broken": what, "detail": detail}))

    def finish(self, level="proof"):
        e2e_mod = sys.modules.get("e2e")
        if e2e_mod is not None and getattr(e2e_mod, "PANICS", None):
            for msg in sorted(set(e2e_mod.PANICS))[:5]:
                self.fail("%s: a task of the proxy panicked during the end-to-end scenarios (the shipped profile aborts the process on panic): %s" % (self.pid, msg),
                          {"kind": "failing-input", "scenario": "panic message in the proxy's stderr", "message": msg})
            e2e_mod.PANICS.clear()
        os.makedirs(EVID, exist_ok=True)
        os.makedirs(REPLAY, exist_ok=True)
        wall = time.time() - self.t0
        for kid, (k, c) in sorted(self.known_hits.items()):
            print("KNOWN-FINDING: property=%s %s [%s, %d case(s) this run]" % (self.pid, k["what"], kid, c))
        # group violations: at most 5 replay files
        lines = []
        for what, replay in self.violations[:5]:
            h = hashlib.sha256(json.dumps(replay, sort_keys=True).encode()).hexdigest()[:12]
            path = os.path.join(REPLAY, "%s-%s.json" % (self.pid, h))
            replay = dict(replay)
            replay.update({"property": self.pid, "what": what, "seed": self.seed, "tier": self.tier})
            json.dump(replay, open(path, "w"), indent=1)
            tail = " no-failing-input-found" if replay.get("kind") == "no-failing-input-found" else ""
            lines.append("VIOLATION property=%s replay=%s%s" % (self.pid, path, tail))
        ev = {
            "property_id": self.pid,
            "tier": self.tier,
            "seed": self.seed,
            "level": level,
            "coverage": self.coverage,
            "assumptions": self.assumptions,
            "wall_s": round(wall, 2),
            "violations": len(self.violations),
        }
        json.dump(ev, open(os.path.join(EVID, self.pid + ".json"), "w"), indent=1)
        for l in lines:
            print(l)
        if self.violations:
            for what, _ in self.violations[:20]:
                log("violation:", what)
            return 1
        print("OK property=%s tier=%s wall=%.1fs" % (self.pid, self.tier, wall))
        return 0


TRUSTED_BASE = [
    "Coq 8.16.1 kernel (coqc, full .vo build; vm_compute used; native_compute not used)",
    "axioms: none (every property theorem prints 'Closed under the global context') unless listed in coverage.axioms",
    "extraction: ExtrOcamlBasic only (Extract Inductive bool/option/unit/list/prod/sumbool/sumor; inlined andb/orb/negb); numbers stay inductive; OCaml 4.13.1 ocamlopt",
    "correspondence check: harness/driver.rs (hook-built from /repo working tree), extract/model_run.ml (parsing/printing), checks/*.py generators and canonicalisation",
    "modelled not verified: tokio, bytes, std collections, Instant ordering, rustc arithmetic semantics",
]


def proof_coverage(rep, coq, extra_tb=()):
    rep.coverage.update({
        "obligations": coq["obligations"],
        "discharged": coq["discharged"],
        "checker_cmd": "make -C coq theories/Props/%s.vo (coqc 8.16.1, full .vo) + coqc Print Assumptions pass + forbidden-construct grep" % rep.pid,
        "trusted_base": TRUSTED_BASE + list(extra_tb),
        "property_theorems": coq.get("theorems", []),
        "axioms": coq.get("assumptions", []),
        "closed_theorems": coq.get("closed", 0),
        "coq_files": coq.get("files", []),
        "coq_wall_s": round(coq.get("wall_s", 0), 1),
    })
    if rep.tier == "thorough" and coq.get("ok"):
        coqchk(rep)


def coqchk(rep):
    """thorough tier: re-check the compiled property file and everything it depends on with the independent checker"""
    try:
        p = subprocess.run(["coqchk", "-silent", "-o", "-Q", "theories", "RP", "RP.Props.%s" % rep.pid], cwd=COQ, stdout=subprocess.PIPE,
                           stderr=subprocess.STDOUT, text=True, timeout=1500)
        out = p.stdout
        ok = p.returncode == 0 and "* Axioms: <none>" in out and "type-in-type: <none>" in out and "unsafe (co)fixpoints: <none>" in out and "positivity is assumed: <none>" in out
        rep.coverage["coqchk"] = {"ok": ok, "summary": " ".join(out.split())[-400:]}
        if not ok:
            rep.broken_obligation("coqchk does not accept Props/%s.vo with an empty context summary" % rep.pid, out[-2000:])
    except (OSError, subprocess.TimeoutExpired) as e:
        rep.coverage["coqchk"] = {"ok": False, "summary": "not run: %s" % e}


def handle_coq_result(rep, coq):
    """Report a broken proof obligation (without failing input yet; caller searches)."""
    if not coq["ok"]:
        tail = "\n".join(coq["log"].splitlines()[-25:])
        return ("Coq build of Props/%s.v failed" % rep.pid, tail)
    if coq["problems"]:
        return ("proof audit failed: " + "; ".join(coq["problems"]), "")
    return None


def rng(seed, salt):
    return random.Random("%s/%s" % (seed, salt))


def hexs(b):
    return bytes(b).hex() if len(b) else "-"


def run_pair(driver, model, lines, arith="release"):
    return run_impl(driver, lines), run_model(model, lines, arith)


def comparable(oi, om):
    """The model declares some outputs opaque (std's IPv6 text form, lossy UTF-8 conversion)."""
    return "OPAQUE" not in om


def diff_stats(rep, cases, impl, mod, prop, what_corr, lossy=lambda meta: False):
    """Compare implementation and model line by line; returns (n_diff, first_diff)."""
    n_diff, first = 0, None
    for (kind, line, meta), oi, om in zip(cases, impl, mod):
        if not comparable(oi, om):
            continue
        if lossy(meta):
            continue
        a, b = mask_lossy(oi, om)
        if canon(a) != canon(b):
            n_diff += 1
            if first is None:
                first = dict(kind=kind, line=line, meta=meta, impl=oi, model=om)
    return n_diff, first


def standard_setup(pid, props_file=None):
    """coq build + model + driver; returns (coq, broken, model, driver, buildlog)"""
    coq = coq_build(props_file or pid)
    model = ensure_model_run()
    driver, blog = ensure_driver("release")
    return coq, model, driver, blog
