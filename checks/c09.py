"""C09 — the rule-language parser accepts the documented grammar and precedence.
Proof: Props/C09.v — finite theorems evaluated on the parser model instantiated with the ladder
regenerated from milu/src/parser.rs (Gen_ladder.v) against the table of milu/readme.md.
Tie: the extracted parser model vs milu::parser::parse on the same sources; the oracle (expected
tree from the documented table, written independently here) turns a divergence into a failing
source text."""
import itertools
import collections
import json
import re

from common import *

# the documented table (milu/readme.md), written out by hand: (precedence, name)
BIN = {
    "*": (6, "Multiply"), "/": (6, "Divide"), "%": (6, "Mod"), "+": (5, "Plus"), "-": (5, "Minus"),
    "<<": (4.1, "ShiftLeft"), ">>": (4.1, "ShiftRight"), ">>>": (4.1, "ShiftRightUnsigned"),
    "<": (4, "Lesser"), "<=": (4, "LesserOrEqual"), ">": (4, "Greater"), ">=": (4, "GreaterOrEqual"),
    "==": (3, "Equal"), "!=": (3, "NotEqual"), "=~": (3, "Like"), "!~": (3, "NotLike"), "_:": (3, "IsMemberOf"),
    "&": (2.5, "BitAnd"), "^": (2.4, "BitXor"), "|": (2.3, "BitOr"),
    "&&": (2, "And"), "and": (2, "And"), "^^": (1.5, "Xor"), "xor": (1.5, "Xor"), "||": (1, "Or"), "or": (1, "Or"),
}
UN = {"!": "Not", "~": "BitNot", "-": "Negative"}


def hx(b):
    return b.hex() if b else "-"


def prec(t):
    k = t[0]
    if k == "bin":
        return BIN[t[1]][0]
    if k == "un":
        return 7
    if k in ("idx", "acc", "call"):
        return 8
    if k in ("tern", "if", "let"):
        return 0
    return 99


def sexp(t):
    k = t[0]
    if k == "id":
        return "(id %s)" % t[1].encode().hex()
    if k == "int":
        return "(int %d)" % t[1]
    if k == "bool":
        return "(bool %s)" % ("true" if t[1] else "false")
    if k == "str":
        return "(str %s)" % hx(t[1].encode())
    if k == "bin":
        return "(call (nat %s) %s %s)" % (BIN[t[1]][1], sexp(t[2]), sexp(t[3]))
    if k == "un":
        return "(call (nat %s) %s)" % (UN[t[1]], sexp(t[2]))
    if k == "idx":
        return "(call (nat Index) %s %s)" % (sexp(t[1]), sexp(t[2]))
    if k == "acc":
        return "(call (nat Access) %s %s)" % (sexp(t[1]), sexp(t[2]))
    if k == "call":
        return "(call %s%s)" % (sexp(t[1]), "".join(" " + sexp(a) for a in t[2]))
    if k in ("tern", "if"):
        return "(call (nat If) %s %s %s)" % (sexp(t[1]), sexp(t[2]), sexp(t[3]))
    if k == "let":
        return "(call (nat Scope) (arr%s) %s)" % ("".join(" (tup (id %s) %s)" % (n.encode().hex(), sexp(v)) for n, v in t[1]), sexp(t[2]))
    if k == "arr":
        return "(arr%s)" % "".join(" " + sexp(a) for a in t[1])
    if k == "tup":
        return "(tup%s)" % "".join(" " + sexp(a) for a in t[1])
    raise ValueError(k)


def toks(t, full=False):
    """token list of the minimal (or fully parenthesised) spelling"""
    def par(x, need):
        inner = toks(x, full)
        if full and x[0] not in ("id", "int", "bool", "str", "arr", "tup"):
            return ["("] + inner + [")"]
        return ["("] + inner + [")"] if need else inner
    k = t[0]
    if k == "id":
        return [t[1]]
    if k == "int":
        return [str(t[1])]
    if k == "bool":
        return ["true" if t[1] else "false"]
    if k == "str":
        return ['"%s"' % t[1]]
    if k == "bin":
        p = prec(t)
        return par(t[2], prec(t[2]) < p) + [t[1]] + par(t[3], prec(t[3]) <= p)
    if k == "un":
        return [t[1]] + par(t[2], prec(t[2]) < 7)
    if k == "idx":
        return par(t[1], prec(t[1]) < 8) + ["["] + toks(t[2], full) + ["]"]
    if k == "acc":
        return par(t[1], prec(t[1]) < 8) + ["."] + toks(t[2], full)
    if k == "call":
        out = par(t[1], prec(t[1]) < 8) + ["("]
        for i, a in enumerate(t[2]):
            if i:
                out.append(",")
            out += toks(a, full)
        return out + [")"]
    if k == "tern":
        return par(t[1], prec(t[1]) < 1) + ["?"] + par(t[2], False) + [":"] + par(t[3], False)
    if k == "if":
        return ["if"] + toks(t[1], full) + ["then"] + toks(t[2], full) + ["else"] + toks(t[3], full)
    if k == "let":
        out = ["let"]
        for i, (n, v) in enumerate(t[1]):
            if i:
                out.append(";")
            out += [n, "="] + toks(v, full)
        return out + ["in"] + toks(t[2], full)
    if k == "arr":
        out = ["["]
        for i, a in enumerate(t[1]):
            if i:
                out.append(",")
            out += toks(a, full)
        return out + ["]"]
    if k == "tup":
        out = ["("]
        for a in t[1]:
            out += toks(a, full) + [","]
        return out + [")"]
    raise ValueError(k)


def wordy(c):
    return c.isalnum() or c == "_"


def join(tokens, filler):
    """filler(i) gives the blank between token i-1 and i; where two tokens would fuse a
    non-empty separator is forced"""
    out = tokens[0]
    for i in range(1, len(tokens)):
        f = filler(i)
        a, b = tokens[i - 1], tokens[i]
        fuse = (wordy(a[-1]) and wordy(b[0])) or (wordy(a[-1]) and b.startswith("_:")) \
            or (a[-1].isdigit() and b == ".") or (a == "." and False)
        if fuse and f == "":
            f = " "
        # two operator tokens that would read as another token when glued ("- -", "! =", "& &", "< <" ...)
        if f == "" and not wordy(a[-1]) and not wordy(b[0]) and a not in "([,)]" and b not in "([,)]":
            f = " "
        if f == "" and a in ("?", ":") or (f == "" and b in ("?", ":")):
            f = " "
        out += f + b
    return out


FILLERS = ["", " ", "  ", "\n", "\t", " /* c */ ", "/**/", " # c\n", "\r\n", " /* a */ # b\n /* c */ ", "#\n", " #\r\n#\n"]

# besides plain names, names that begin with a word of the language (`if`, `then`, `else`, `let`, `in`, `and`, `or`, `xor`):
# they are ordinary identifiers wherever an operand is expected
IDS = ["a", "b", "c", "d", "e", "x1", "_y", "foo", "ifname", "iface", "if_", "thenx", "elsewhere", "letter", "inner", "in_", "android", "orb", "xorz"]


def atoms(r):
    k = r.random()
    if k < 0.6:
        return ("id", r.choice(IDS))
    if k < 0.85:
        return ("int", r.choice([0, 1, 7, 42, 255, 65535, 9223372036854775807]))
    if k < 0.93:
        return ("bool", r.random() < 0.5)
    return ("str", r.choice(["", "x", "a b", "it's", "#not a comment", "/*nor this*/"]))


def rand_tree(r, depth):
    if depth == 0 or r.random() < 0.2:
        return atoms(r)
    k = r.random()
    if k < 0.5:
        return ("bin", r.choice(list(BIN)), rand_tree(r, depth - 1), rand_tree(r, depth - 1))
    if k < 0.62:
        return ("un", r.choice(list(UN)), rand_tree(r, depth - 1))
    if k < 0.7:
        return ("idx", rand_tree(r, depth - 1), rand_tree(r, depth - 1))
    if k < 0.76:
        return ("acc", rand_tree(r, depth - 1), r.choice([("id", "f"), ("int", 0), ("int", 1)]))
    if k < 0.82:
        return ("call", ("id", r.choice(["f", "g"])), [rand_tree(r, depth - 1) for _ in range(r.randrange(0, 3))])
    if k < 0.87:
        return ("tern", rand_tree(r, depth - 1), rand_tree(r, depth - 1), rand_tree(r, depth - 1))
    if k < 0.91:
        return ("if", rand_tree(r, depth - 1), rand_tree(r, depth - 1), rand_tree(r, depth - 1))
    if k < 0.94:
        return ("let", [(r.choice(["x", "y"]), rand_tree(r, depth - 1)) for _ in range(r.randrange(1, 3))], rand_tree(r, depth - 1))
    if k < 0.97:
        return ("arr", [rand_tree(r, depth - 1) for _ in range(r.randrange(0, 3))])
    n = r.randrange(0, 3)
    return ("tup", [rand_tree(r, depth - 1) for _ in range(n if n != 1 else 2)])


def bad_shape(t):
    """shapes whose minimal spelling is not what the table describes (kept out of the generator):
    integer literal directly followed by '.' access, a negative literal"""
    if t[0] == "acc" and t[1][0] == "int":
        return True
    if t[0] == "un" and t[1] == "-" and t[2][0] == "un" and t[2][1] == "-":
        return False
    return any(bad_shape(c) for c in t[1:] if isinstance(c, tuple)) or \
        any(bad_shape(c) for l in t[1:] if isinstance(l, list) for c in l if isinstance(c, tuple)) or \
        any(bad_shape(c[1]) for l in t[1:] if isinstance(l, list) for c in l if isinstance(c, tuple) and len(c) == 2 and isinstance(c[0], str) and isinstance(c[1], tuple) and c[0] not in ("id", "int", "bool", "str"))


def gen(r, tier):
    trees = []
    a, b, c, d = ("id", "a"), ("id", "b"), ("id", "c"), ("id", "d")
    ops = list(BIN)
    for o in ops:
        trees.append(("single", ("bin", o, a, b)))
    for u in UN:
        trees.append(("single", ("un", u, a)))
    # every ordered pair, both shapes
    for o1, o2 in itertools.product(ops, ops):
        trees.append(("pair", ("bin", o2, ("bin", o1, a, b), c)))
        trees.append(("pair", ("bin", o1, a, ("bin", o2, b, c))))
    for u in UN:
        for o in ops:
            trees.append(("pair", ("bin", o, ("un", u, a), b)))
            trees.append(("pair", ("un", u, ("bin", o, a, b))))
            trees.append(("pair", ("bin", o, a, ("un", u, b))))
        for u2 in UN:
            trees.append(("pair", ("un", u, ("un", u2, a))))
        trees.append(("pair", ("un", u, ("idx", a, b))))
        trees.append(("pair", ("idx", ("un", u, a), b)))
        trees.append(("pair", ("un", u, ("call", a, [b]))))
        trees.append(("pair", ("acc", ("un", u, a), ("id", "f"))))
    for o in ops:
        trees.append(("pair", ("idx", ("bin", o, a, b), c)))
        trees.append(("pair", ("bin", o, ("idx", a, b), c)))
        trees.append(("pair", ("bin", o, a, ("call", b, [c]))))
        trees.append(("pair", ("call", ("bin", o, a, b), [c])))
        trees.append(("pair", ("tern", ("bin", o, a, b), c, d)))
        trees.append(("pair", ("bin", o, ("tern", a, b, c), d)))
        trees.append(("pair", ("tern", a, b, ("bin", o, c, d))))
        trees.append(("pair", ("if", a, b, ("bin", o, c, d))))
        trees.append(("pair", ("bin", o, ("if", a, b, c), d)))
        trees.append(("pair", ("let", [("x", ("bin", o, a, b))], ("bin", o, ("id", "x"), c))))
        trees.append(("pair", ("bin", o, ("let", [("x", a)], ("id", "x")), c)))
    trees.append(("pair", ("tern", a, ("tern", b, c, d), ("id", "e"))))
    trees.append(("pair", ("tern", a, b, ("tern", c, d, ("id", "e")))))
    trees.append(("pair", ("tern", ("tern", a, b, c), d, ("id", "e"))))
    # triples: exhaustive over one spelling per precedence level (all three shapes), sampled otherwise
    reps = {}
    for o in ops:
        reps.setdefault(BIN[o][0], o)
    rops = list(reps.values())
    tri_ops = itertools.product(ops, ops, ops) if tier == "thorough" else itertools.product(rops, rops, rops)
    for o1, o2, o3 in tri_ops:
        trees.append(("triple", ("bin", o3, ("bin", o2, ("bin", o1, a, b), c), d)))
        trees.append(("triple", ("bin", o1, a, ("bin", o2, b, ("bin", o3, c, d)))))
        trees.append(("triple", ("bin", o2, ("bin", o1, a, b), ("bin", o3, c, d))))
        if tier == "thorough":
            trees.append(("triple", ("bin", o3, ("bin", o1, a, ("bin", o2, b, c)), d)))
            trees.append(("triple", ("bin", o1, a, ("bin", o3, ("bin", o2, b, c), d))))
    nrand = 6000 if tier == "thorough" else 1200
    for _ in range(nrand):
        t = rand_tree(r, r.choice([2, 3, 3, 4, 5]))
        if not bad_shape(t):
            trees.append(("random", t))
    cases = []
    for kind, t in trees:
        want = sexp(t)
        mini = toks(t)
        full = toks(t, True)
        cases.append((kind, "milu_parse " + join(mini, lambda i: " ").encode().hex(), dict(form="min-spaced", want=want)))
        cases.append((kind, "milu_parse " + join(mini, lambda i: "").encode().hex(), dict(form="min-tight", want=want)))
        cases.append((kind, "milu_parse " + join(full, lambda i: " ").encode().hex(), dict(form="full", want=want)))
        if kind != "triple" or r.random() < 0.2:
            for _ in range(2 if kind == "random" else 1):
                fl = [r.choice(FILLERS) for _ in range(len(mini) + 1)]
                src = join(mini, lambda i: fl[i])
                lead = r.choice(["", " ", "\n", "/* lead */ "])
                trail = r.choice(["", " ", "\n", " ;; ", ";;"])
                cases.append((kind, "milu_parse " + (lead + src + trail).encode().hex(), dict(form="filled", want=want)))
    # lexical odds and ends that must keep behaving as the model says (no oracle, model only)
    for src in ["", " ", "1 +", "(", ")", "a b", "1 2", "a..b", "a.[0]", "[1,,2]", "(,)", "let in", "if a then b", "a ? b", "a ?: b",
                "0x", "0b2", "0o8", "1__2", "1_", "_", "__a1", "trueish", "falsey", "truex + 1", "a orb", "a andb", "notatag", "a ! b",
                "a = b", "a === b", "a <> b", "a >< b", "a &&& b", "a ||| b", "\"unterminated", "\"\\q\"", "\"\\u{110000}\"", "\"\\u{d800}\"",
                "\"\\u{41}\\n\\t\\\\\"", "\"a\\   \n  b\"", "#", "# c", "1 # c", "1 /* c", "/* c */", "1 /* c */", "a /* x */ + /* y */ b ;;",
                "9223372036854775807", "9223372036854775808", "0xffffffffffffffff", "0x7fffffffffffffff", "- 9223372036854775808",
                "a _: b", "a_:b", "a _:b", "x.0.1", "x . y . z", "f()()", "f(a,)(b)", "[[1],[2,3],]", "((a,b),(c,),())", "((a))", "(((a)))"]:
        cases.append(("lexical", "milu_parse " + hx(src.encode()), dict(form="lexical", want=None)))
    return cases


def ladder_shape():
    """tags per level of the regenerated ladder (tightest level first), and the number of unary tags"""
    src = open(os.path.join(VERIF, "coq", "theories", "Gen", "Gen_ladder.v")).read()
    m = re.search(r"Definition levels[^:]*:[^=]*:=\s*\[(.*?)\]\s*\.\s*\n", src, re.S)
    lv = re.findall(r"mk_level\s+\"[^\"]*\"\s+\"[^\"]*\"\s+\[(.*?)\]", m.group(1), re.S) if m else []
    counts = [len(re.findall(r"\(\s*\"", x)) for x in lv]
    mu = re.search(r"Definition unary_tags[^=]*:=\s*\[(.*?)\]\s*\.", src, re.S)
    nun = len(re.findall(r"\"[^\"]*\"", mu.group(1))) if mu else 0
    return counts, nun


def rt_tree(r, depth, counts, nun):
    """a random tree satisfying MiluRoundtrip.m_wf, in the prefix encoding of model_run's milu_rt"""
    def ident(first_ok=True):
        first = "abcdeghjkmnopqrsuvwxyzABCDEFGHIJKLMNOPQRSTUVWXYZ_" if first_ok else "abcdefghijklmnopqrstuvwxyzABCDEFGHIJKLMNOPQRSTUVWXYZ_"
        return (r.choice(first) + "".join(r.choice("abcdefghijklmnopqrstuvwxyz0123456789_ABCXYZ") for _ in range(r.randint(0, 6)))).encode().hex()
    if depth <= 0 or r.random() < 0.15:
        if r.random() < 0.5:
            return ["A", ident()]
        return ["N", r.choice(["", "0", "00"]) + str(r.choice([0, 1, 7, 42, 65535, 2 ** 31, 2 ** 62, 2 ** 63 - 1, r.randint(0, 10 ** 6)]))]
    k = r.random()
    sub = lambda: rt_tree(r, depth - 1, counts, nun)
    if k < 0.45:
        m = r.randrange(len(counts))
        return ["B", str(m), str(r.randrange(counts[m]))] + sub() + sub()
    if k < 0.55:
        return ["U", str(r.randrange(nun))] + sub()
    if k < 0.65:
        return ["X"] + sub() + sub()
    if k < 0.75:
        return ["F"] + sub() + [ident(False)]
    if k < 0.88:
        n = r.randint(0, 3)
        out = ["K", str(n)] + sub()
        for _ in range(n):
            out += sub()
        return out
    return ["C"] + sub() + sub() + sub()


def run(tier, seed, replay=None):
    rep = Report("C09", tier, seed)
    coq, model, driver, blog = standard_setup("C09")
    proof_coverage(rep, coq, ["translator gen/translate.py (operator ladder from milu/src/parser.rs, documented table from milu/readme.md)"])
    broken = handle_coq_result(rep, coq)
    if driver is None:
        rep.coverage.update({"evaluations": 0, "distinct_nontrivial": 0})
        rep.broken_obligation("correspondence C09: hook-built driver does not build from /repo", blog[-3000:])
        return rep.finish()
    r = rng(seed, "C09")
    if replay:
        cases = [(c["kind"], c["line"], c["meta"]) for c in json.load(open(replay)).get("cases", [])]
    else:
        cases = gen(r, tier)
    # distinct sources only
    seen, uniq = set(), []
    for c in cases:
        if c[1] not in seen:
            seen.add(c[1])
            uniq.append(c)
    cases = uniq
    lines = [c[1] for c in cases]
    impl, mod = run_pair(driver, model, lines)
    dist, nt = {}, 0
    for (kind, line, meta), oi, om in zip(cases, impl, mod):
        dist[kind + ":" + meta["form"]] = dist.get(kind + ":" + meta["form"], 0) + 1
        src = bytes.fromhex(line.split(" ")[1]) if line.split(" ")[1] != "-" else b""
        if oi.startswith("PANIC") or oi.startswith("CRASH"):
            rep.fail("C09: parser panicked on %r" % src[:80], {"kind": "failing-input", "cases": [dict(kind=kind, line=line, meta=meta)], "source": src.decode("utf-8", "replace"), "observed": oi})
            continue
        if meta["want"] is not None:
            nt += 1
            if oi != "OK " + meta["want"]:
                rep.fail("C09 oracle: %s spelling %r parses to %s, the documented table gives %s" % (meta["form"], src.decode("utf-8", "replace")[:100], oi[:160], meta["want"][:160]),
                         {"kind": "failing-input", "cases": [dict(kind=kind, line=line, meta=meta)], "source": src.decode("utf-8", "replace"), "observed": oi, "expected": "OK " + meta["want"]})
    # the printer of the round-trip theorem against the real parser: m_print t must parse to m_denote t
    counts, nun = ladder_shape()
    n_rt, rt_sizes = 0, collections.Counter()
    if counts and nun and not replay:
        encs = [",".join(rt_tree(r, r.randint(1, 5 if tier == "quick" else 7), counts, nun)) for _ in range(1500 if tier == "quick" else 12000)]
        encs = sorted(set(encs))
        # every other tree is printed with an independently chosen non-empty blank filler in every token gap
        pool = [b" ", b"  ", b"\t", b"\n", b"\r\n", b" /* c */ ", b"/**/", b"# x\n", b"#\n", b" # y ( + ] \n ", b"/* a * b / c */", b"\n\n\t "]
        def fillers():
            return ",".join(r.choice(pool).hex() for _ in range(60))
        mo = run_model(model, ["milu_rt " + e + (" " + fillers() if i % 2 else "") for i, e in enumerate(encs)])
        good = [(e, o.split(" ", 2)) for e, o in zip(encs, mo) if o.startswith("OK ")]
        io = run_impl(driver, ["milu_parse " + g[1][1] for g in good])
        for (e, parts), oi in zip(good, io):
            n_rt += 1
            rt_sizes[min(len(e.split(",")) // 10, 9)] += 1
            if oi != "OK " + parts[2]:
                srcb = bytes.fromhex(parts[1])
                rep.fail("C09 round trip: the theorem's printer gives %r, the real parser answers %s, the theorem's tree is %s" % (srcb.decode()[:120], oi[:160], parts[2][:160]),
                         {"kind": "failing-input", "cases": [dict(kind="rt", line="milu_parse " + parts[1], meta=dict(form="rt", want=parts[2]))], "source": srcb.decode(), "observed": oi, "expected": "OK " + parts[2]})
        if len(good) != len(encs):
            rep.broken_obligation("correspondence C09: milu_rt failed on %d generated trees" % (len(encs) - len(good)), str([o for o in mo if not o.startswith("OK ")][:3]))
    elif not replay:
        rep.broken_obligation("correspondence C09: could not read the ladder shape from Gen_ladder.v", "")
    n_diff, first = diff_stats(rep, cases, impl, mod, "C09", "")
    if n_diff and not rep.violations:
        rep.broken_obligation("correspondence C09: parser model (MiluParser.v + Gen_ladder.v) and milu::parser::parse differ on %d source(s)" % n_diff, json.dumps(first))
        rep.violations[-1][1]["cases"] = [dict(kind=first["kind"], line=first["line"], meta=first["meta"])]
    if broken and not rep.violations:
        rep.broken_obligation(broken[0], broken[1])
    rep.coverage.update({
        "evaluations": len(cases), "distinct_nontrivial": nt,
        "rule": "every documented operator alone; every ordered pair of binary/unary/postfix/conditional operators in both tree shapes; every ordered triple over one spelling per precedence level (all spellings in the thorough tier); random trees to depth 5; each tree in minimal-spaced, minimal-tight, fully parenthesised and blank/comment-filled spelling; plus a lexical edge list compared with the model only; non-trivial = distinct source with an expected tree",
        "input_distribution": dist, "model_impl_disagreements": n_diff,
        "roundtrip_printer_cases": n_rt, "roundtrip_printer_cases_with_random_fillers": n_rt // 2, "roundtrip_tree_size_deciles": dict(rt_sizes),
        "samples": [dict(source=bytes.fromhex(cases[i][1].split(" ")[1]).decode("utf-8", "replace")[:100] if cases[i][1].split(" ")[1] != "-" else "", impl=impl[i][:120]) for i in range(0, len(cases), max(1, len(cases) // 6))][:6],
    })
    rep.assumptions = ["template strings (backticks) are outside the parser model and the generator",
                       "a trailing comment after the last token is rejected by the parser (root allows white space only there); it is not 'between tokens' and is recorded in DESIGN.md, not counted as a violation"]
    return rep.finish()
