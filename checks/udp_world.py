"""UDP paths of the real binary on loopback (property C10): entry proxy P1 with one SOCKS listener and one reverse-UDP
listener per upstream path, exit proxy P2 (http / quic / socks listeners, direct connector), a UDP echo origin that
records every datagram it receives."""
import socket
import struct
import threading
import time

import e2e
import relay_world as rw
from e2e import LOOP

PATHS = ["direct", "c_http", "c_quic_inline", "c_quic_dgram", "c_socks5"]


class UdpOrigin(threading.Thread):
    """echoes every datagram back to its sender; records (time, payload, sender)"""

    def __init__(self):
        super().__init__(daemon=True)
        self.sock = socket.socket(socket.AF_INET, socket.SOCK_DGRAM)
        self.sock.bind((LOOP, e2e.free_port(socket.SOCK_DGRAM)))
        self.port = self.sock.getsockname()[1]
        self.rx = []
        self.stopped = False
        self.start()

    def run(self):
        self.sock.settimeout(0.2)
        while not self.stopped:
            try:
                d, a = self.sock.recvfrom(70000)
            except socket.timeout:
                continue
            except OSError:
                if self.stopped:
                    return
                continue          # an ICMP error reported on this socket is not a datagram
            self.rx.append((time.time(), d, a))
            if d.startswith(b"burst "):
                # "burst N": N datagrams of about 1000 bytes back to the sender, paced (a chatty origin)
                def go(a=a, n=int(d.split()[1])):
                    for i in range(n):
                        if self.stopped:
                            return
                        try:
                            self.sock.sendto(b"B%07d" % i + b"x" * 1000, a)
                        except OSError:
                            return
                        time.sleep(0.0003)
                threading.Thread(target=go, daemon=True).start()
                continue
            try:
                self.sock.sendto(d, a)
            except OSError:
                pass

    def close(self):
        self.stopped = True
        try:
            self.sock.close()
        except OSError:
            pass


class UdpWorld:
    def __init__(self, binary, name="udp", udp_timeout=600):
        crt, key = rw.tls_material()
        self.origin = UdpOrigin()
        p2l = {"http": e2e.free_port(), "socks": e2e.free_port(), "quic": e2e.free_port(socket.SOCK_DGRAM)}
        l2 = [{"name": "http", "bind": "%s:%d" % (LOOP, p2l["http"])}, {"name": "socks", "bind": "%s:%d" % (LOOP, p2l["socks"])},
              {"name": "quic", "bind": "%s:%d" % (LOOP, p2l["quic"]), "tls": {"cert": crt, "key": key}}]
        self.p2l = p2l
        self.p2 = e2e.Proxy(binary, l2, [{"name": "direct"}], [{"target": "direct"}], metrics=True, name=name + "-exit", timeouts={"idle": 600, "udp": udp_timeout})
        conns = [
            {"name": "direct"},
            {"name": "c_http", "type": "http", "server": LOOP, "port": p2l["http"]},
            {"name": "c_quic_inline", "type": "quic", "server": LOOP, "port": p2l["quic"], "tls": {"insecure": True}, "inlineUdp": True},
            {"name": "c_quic_dgram", "type": "quic", "server": LOOP, "port": p2l["quic"], "tls": {"insecure": True}, "inlineUdp": False},
            {"name": "c_socks5", "type": "socks", "server": LOOP, "port": p2l["socks"]},
        ]
        self.socks, self.rev, self.http = {}, {}, {}
        l1, rules = [], []
        for pth in PATHS:
            self.socks[pth] = e2e.free_port()
            self.rev[pth] = e2e.free_port(socket.SOCK_DGRAM)
            l1.append({"name": "socks-" + pth, "type": "socks", "bind": "%s:%d" % (LOOP, self.socks[pth])})
            l1.append({"name": "revu-" + pth, "type": "reverse", "bind": "%s:%d" % (LOOP, self.rev[pth]), "protocol": "udp",
                       "target": "%s:%d" % (LOOP, self.origin.port)})
            self.http[pth] = e2e.free_port()
            l1.append({"name": "http-" + pth, "type": "http", "bind": "%s:%d" % (LOOP, self.http[pth])})
            rules.append({"filter": "request.listener == \"socks-%s\" || request.listener == \"revu-%s\" || request.listener == \"http-%s\"" % (pth, pth, pth), "target": pth})
        self.p1 = e2e.Proxy(binary, l1, conns, rules, metrics=True, name=name + "-entry", timeouts={"idle": 600, "udp": udp_timeout})
        self.p2.start()
        try:
            self.p1.start()
        except Exception:
            self.p2.stop()
            raise

    def close(self):
        self.p1.stop()
        self.p2.stop()
        import shutil
        shutil.rmtree(self.p1.dir, ignore_errors=True)
        shutil.rmtree(self.p2.dir, ignore_errors=True)
        self.origin.close()

    def alive(self):
        return self.p1.alive() and self.p2.alive()


def socks_udp_header(host, port):
    try:
        return b"\x00\x00\x00\x01" + socket.inet_aton(host) + struct.pack(">H", port)
    except OSError:
        hb = host.encode()
        return b"\x00\x00\x00\x03" + bytes([len(hb)]) + hb + struct.pack(">H", port)


def parse_socks_udp(d):
    """(source label, payload) of a SOCKS5 UDP datagram, or None"""
    # RSV (2 bytes, the implementation writes 05 03 there; RFC 1928 says 00 00 - not part of the property), FRAG = 0
    if len(d) < 4 or d[2] != 0:
        return None
    if d[3] == 1 and len(d) >= 10:
        return "%s:%d" % (socket.inet_ntoa(d[4:8]), struct.unpack(">H", d[8:10])[0]), d[10:]
    if d[3] == 4 and len(d) >= 22:
        return "[%s]:%d" % (socket.inet_ntop(socket.AF_INET6, d[4:20]), struct.unpack(">H", d[20:22])[0]), d[22:]
    if d[3] == 3 and len(d) >= 5 and len(d) >= 7 + d[4]:
        n = d[4]
        return "%s:%d" % (d[5:5 + n].decode("latin1"), struct.unpack(">H", d[5 + n:7 + n])[0]), d[7 + n:]
    return None


class SocksUdpClient:
    """a SOCKS5 UDP association: control connection + local UDP socket"""

    def __init__(self, port, timeout=5.0):
        self.ctl, sel, rep = e2e.socks5_connect(port, "0.0.0.0", 0, cmd=3, timeout=timeout)
        self.ok = rep[:2] == b"\x05\x00" and len(rep) >= 10
        self.reply = rep
        self.udp = socket.socket(socket.AF_INET, socket.SOCK_DGRAM)
        self.udp.bind((LOOP, 0))
        if self.ok:
            self.relay = (socket.inet_ntoa(rep[4:8]), struct.unpack(">H", rep[8:10])[0])

    def send(self, host, port, payload):
        self.udp.sendto(socks_udp_header(host, port) + payload, self.relay)

    def recv(self, timeout=2.0):
        self.udp.settimeout(timeout)
        try:
            d, a = self.udp.recvfrom(70000)
        except socket.timeout:
            return None
        return parse_socks_udp(d) or ("unparsable", d)

    def close(self):
        e2e.close_quiet(self.ctl, self.udp)


def stalled_neighbour(w, pth, tag, burst=12000, stall=3.0):
    """Session A: a client of the http listener's UDP mode (CONNECT + Proxy-Protocol: udp, frames inline on its TCP
    connection) asks a chatty origin for `burst` datagrams and then does not read its connection.  Session B: a reverse-UDP
    client through the same upstream path sends 5 datagrams before, while and after A is stalled and counts the echoes.
    Returns dict(before, during, later, after): echoes out of 5."""
    def rtt(t, n=5, timeout=1.0):
        s_ = socket.socket(socket.AF_INET, socket.SOCK_DGRAM)
        s_.bind((LOOP, 0))
        s_.settimeout(timeout)
        ok = 0
        for i in range(n):
            p_ = b"%s-%s-%d" % (tag, t, i)
            try:
                s_.sendto(p_, (LOOP, w.rev[pth]))
                d, _ = s_.recvfrom(70000)
                ok += d == p_
            except (socket.timeout, OSError):
                pass
        s_.close()
        return ok
    out = {"path": pth, "before": rtt(b"b0")}
    a = socket.socket()
    a.setsockopt(socket.SOL_SOCKET, socket.SO_RCVBUF, 4096)
    a.settimeout(5)
    try:
        a.connect((LOOP, w.http[pth]))
        a.sendall(("CONNECT %s:%d HTTP/1.1\r\nProxy-Protocol: udp\r\nProxy-Channel: inline\r\n\r\n" % (LOOP, w.origin.port)).encode())
        head = e2e.recv_until(a, b"\r\n\r\n")
        out["a_established"] = head.startswith(b"HTTP/1.1 200")
        body = b"burst %d" % burst
        addr = b"\x01\x06" + socket.inet_aton(LOOP) + struct.pack(">H", w.origin.port)
        a.sendall(b"RPFM" + struct.pack(">IHH", 0, len(addr), len(body)) + addr + body)
        time.sleep(stall)
        out["during"] = rtt(b"b1")
        time.sleep(1.0)
        out["later"] = rtt(b"b2")
    finally:
        e2e.close_quiet(a)
    time.sleep(1.0)
    out["after"] = rtt(b"b3")
    return out
