"""Configuration documents for C18: valid bases covering every listener / connector kind, and mutants obtained by
deleting, retyping, duplicating or randomising any field, renaming types, and rewiring load-balancer members."""
import copy
import json

from e2e import LOOP


ACCESS_LOG_PATH = "/verif/.cache/e2e/c18-access.log"


def access_log_docs():
    """documents whose access-log path cannot be opened for appending"""
    out = []
    for what, path in (("missing directory", "/verif/.cache/e2e/no-such-dir/x/access.log"), ("empty path", ""), ("a directory", "/verif/.cache"),
                       ("under a file", "/etc/hostname/access.log"), ("script format with a type error", None)):
        d = {"apiVersion": "v1alpha", "kind": "ProxyDefinition", "listeners": [], "connectors": [{"name": "direct"}], "rules": [{"target": "direct"}]}
        if path is None:
            d["accessLog"] = {"path": ACCESS_LOG_PATH, "format": {"script": "1 + 1"}}
        else:
            d["accessLog"] = {"path": path, "format": "json"}
        out.append(("accessLog: " + what, d))
    return out


def tls_file_docs(crt, key, tdir):
    """documents whose certificate / key / CA files exist but do not hold what they should: empty, prose, the other kind
    of PEM item, a directory, missing - for TLS listeners (http, quic, client-certificate CA) and TLS connectors"""
    import os
    os.makedirs(tdir, exist_ok=True)
    files = {"empty": os.path.join(tdir, "empty.pem"), "prose": os.path.join(tdir, "prose.pem"), "dir": tdir, "missing": os.path.join(tdir, "no-such.pem"),
             "cut": os.path.join(tdir, "cut.pem"), "cert": crt, "key": key}
    open(files["empty"], "w").close()
    open(files["prose"], "w").write("this is not a PEM file\n")
    open(files["cut"], "w").write(open(key).read()[:200])
    out = []
    for what, f in files.items():
        for role in ("key", "cert", "client-ca", "connector-ca", "connector-auth-key", "connector-auth-cert"):
            if (what, role) in (("key", "key"), ("cert", "cert"), ("cert", "client-ca"), ("cert", "connector-ca"), ("key", "connector-auth-key"), ("cert", "connector-auth-cert")):
                continue
            d = {"apiVersion": "v1alpha", "kind": "ProxyDefinition", "listeners": [], "connectors": [{"name": "direct"}], "rules": [{"target": "direct"}]}
            tls_l = {"cert": crt, "key": key}
            if role == "key":
                tls_l["key"] = f
            elif role == "cert":
                tls_l["cert"] = f
            elif role == "client-ca":
                tls_l["client"] = {"ca": f, "required": True}
            if role in ("key", "cert", "client-ca"):
                d["listeners"] = [{"name": "https", "type": "http", "bind": "127.0.0.1:0", "tls": tls_l}]
                out.append(("tls file: listener %s is %s" % (role, what), d))
                d2 = json_copy(d)
                d2["listeners"] = [{"name": "quic", "type": "quic", "bind": "127.0.0.1:0", "tls": tls_l}]
                out.append(("tls file: quic listener %s is %s" % (role, what), d2))
            else:
                tls_c = {"insecure": False}
                if role == "connector-ca":
                    tls_c["ca"] = f
                elif role == "connector-auth-key":
                    tls_c["auth"] = {"cert": crt, "key": f}
                else:
                    tls_c["auth"] = {"cert": f, "key": key}
                d["connectors"].append({"name": "up", "type": "http", "server": "127.0.0.1", "port": 9, "tls": tls_c})
                out.append(("tls file: %s is %s" % (role, what), d))
    return out


def json_copy(d):
    import json
    return json.loads(json.dumps(d))


def bases(crt, key):
    tls_s = {"cert": crt, "key": key}
    b1 = {
        "apiVersion": "v1alpha", "kind": "ProxyDefinition",
        "ioParams": {"bufferSize": 65536, "useSplice": True},
        "timeouts": {"idle": 10, "udp": 10},
        "listeners": [
            {"name": "http", "bind": "127.0.0.1:18081"},
            {"name": "https", "type": "http", "bind": "127.0.0.1:18082", "tls": dict(tls_s)},
            {"name": "socks", "bind": "127.0.0.1:11080", "allowUdp": True, "enforceUdpClient": False,
             "auth": {"required": True, "users": [{"username": "a", "password": "a"}], "cmd": ["test", "#USER#", "==", "#PASS#"], "cache": {"timeout": 10}}},
            {"name": "rev", "type": "reverse", "bind": "127.0.0.1:18053", "target": "one.one.one.one:53", "protocol": "udp"},
            {"name": "revt", "type": "reverse", "bind": "127.0.0.1:18054", "target": "127.0.0.1:53"},
            {"name": "quic", "bind": "127.0.0.1:14433", "tls": dict(tls_s)},
            {"name": "tproxy", "bind": "127.0.0.1:18080", "protocol": "tcp"},
            {"name": "tproxy-udp", "type": "tproxy", "bind": "127.0.0.1:18080", "protocol": "udp", "udpFullCone": False, "udpMaxSocket": 256},
        ],
        "connectors": [
            {"name": "direct", "dns": {"servers": "system", "family": "V4Only"}},
            {"name": "http", "server": "127.0.0.1", "port": 7081},
            {"name": "https", "type": "http", "server": "127.0.0.1", "port": 3333, "tls": {"insecure": True}},
            {"name": "socks", "server": "127.0.0.1", "port": 1080},
            {"name": "socks4", "type": "socks", "server": "127.0.0.1", "port": 1080, "version": 4},
            {"name": "socks-tls", "type": "socks", "server": "127.0.0.1", "port": 9123, "auth": {"username": "proxy", "password": "pw"}, "tls": {"insecure": True}},
            {"name": "quic", "server": "127.0.0.1", "port": 7081, "inlineUdp": False, "tls": {"insecure": True}},
            {"name": "lb", "type": "loadbalance", "connectors": ["direct", "http"], "algo": {"hashBy": "request.source.host"}},
            {"name": "lb2", "type": "loadbalance", "connectors": ["lb", "socks"]},
        ],
        "rules": [
            {"filter": "request.feature == \"UdpForward\"", "target": "quic"},
            {"filter": "request.source.host == \"127.0.0.1\"", "target": "direct"},
            {"filter": "request.target =~ \"deny-me.com\"", "target": "deny"},
            {"filter": "request.target.port == 443", "target": "lb2"},
            {"target": "direct"},
        ],
        "metrics": {"bind": "127.0.0.1:18888", "historySize": 10},
        "accessLog": {"path": ACCESS_LOG_PATH, "format": "json"},
    }
    b2 = {
        "apiVersion": "v1alpha", "kind": "ProxyDefinition",
        "listeners": [{"name": "socks", "bind": "127.0.0.1:11081"}],
        "connectors": [{"name": "direct"}, {"name": "rr", "type": "loadbalance", "connectors": ["direct"]},
                       {"name": "rnd", "type": "loadbalance", "connectors": ["direct", "rr"], "algorithm": "random"}],
        "rules": [{"target": "rnd"}],
    }
    return [b1, b2]


def paths(v, pre=()):
    """every path into a JSON-like value"""
    out = [pre]
    if isinstance(v, dict):
        for k, x in v.items():
            out += paths(x, pre + (k,))
    elif isinstance(v, list):
        for i, x in enumerate(v):
            out += paths(x, pre + (i,))
    return out


def get(v, p):
    for k in p:
        v = v[k]
    return v


def setp(doc, p, val):
    v = doc
    for k in p[:-1]:
        v = v[k]
    v[p[-1]] = val


def delp(doc, p):
    v = doc
    for k in p[:-1]:
        v = v[k]
    del v[p[-1]]


RETYPES = [None, True, False, 0, -1, 1, 123, 65536, 2 ** 64, 1.5, "", "x", "deny", "direct", "123", "127.0.0.1:99999", "[::1]:80",
           [], ["x"], [1], [[]], {}, {"x": 1}, {"name": "n"}, "ü中", "a" * 300, "request.target.port", "1 +", "true"]
TYPE_NAMES = ["http", "socks", "reverse", "quic", "tproxy", "direct", "loadbalance", "deny", "HTTP", "", "nosuch", 7, None, ["http"], {"a": 1}]


def mutants(r, base, n):
    ps = [p for p in paths(base) if p]
    out = []
    for _ in range(n):
        d = copy.deepcopy(base)
        k = r.random()
        p = r.choice(ps)
        try:
            if k < 0.2:
                delp(d, p)
                what = "delete %s" % (p,)
            elif k < 0.55:
                v = r.choice(RETYPES)
                setp(d, p, v)
                what = "retype %s := %r" % (p, v)
            elif k < 0.65:
                parent = get(d, p[:-1])
                if isinstance(parent, list):
                    parent.append(copy.deepcopy(parent[p[-1]]))
                    what = "duplicate %s" % (p,)
                else:
                    setp(d, p, get(d, p))
                    what = "noop"
            elif k < 0.8:
                sec = r.choice(["listeners", "connectors"])
                i = r.randrange(len(d[sec]))
                t = r.choice(TYPE_NAMES)
                key = r.choice(["type", "name"])
                d[sec][i][key] = t
                what = "%s[%d].%s := %r" % (sec, i, key, t)
            elif k < 0.92:
                lbs = [c for c in d["connectors"] if isinstance(c, dict) and c.get("type") == "loadbalance"]
                names = [c.get("name") for c in d["connectors"] if isinstance(c, dict)] + ["deny", "nosuch", 5]
                if lbs:
                    c = r.choice(lbs)
                    c["connectors"] = [r.choice(names) for _ in range(r.randint(0, 3))]
                    what = "lb %s members := %r" % (c.get("name"), c["connectors"])
                else:
                    what = "noop"
            else:
                i = r.randrange(len(d["rules"]))
                d["rules"][i] = r.choice([{"target": r.choice(["deny", "direct", "nosuch", 5, None])}, {"filter": r.choice(RETYPES), "target": "direct"},
                                          {"filter": "request.target.port == 1", "target": r.choice(["lb", "rnd", "deny"])}, "x", 3, None, []])
                what = "rules[%d] := %r" % (i, d["rules"][i])
        except (KeyError, IndexError, TypeError):
            continue
        out.append((what, d))
    return out


def lb_graphs(r, n):
    """connector tables made of direct + k load balancers with random member lists (cycles included)"""
    out = []
    for _ in range(n):
        k = r.randint(1, 5)
        names = ["lb%d" % i for i in range(k)]
        conns = [{"name": "direct"}]
        for nm in names:
            members = [r.choice(names + ["direct", "direct"]) for _ in range(r.randint(1, 3))]
            conns.append({"name": nm, "type": "loadbalance", "connectors": members, "algorithm": r.choice(["random", "roundRobin"])} if r.random() < 0.5
                         else {"name": nm, "type": "loadbalance", "connectors": members})
        d = {"apiVersion": "v1alpha", "kind": "ProxyDefinition", "listeners": [], "connectors": conns, "rules": [{"target": names[0]}]}
        out.append(("lb graph %s" % {c["name"]: c.get("connectors") for c in conns[1:]}, d))
    return out


def to_yaml(doc):
    return json.dumps(doc)          # JSON is YAML
