"""C13 — idle tunnels are closed after the configured timeout, and only then.
Proof: Props/C13.v (Idle.v): never closed while either direction carried data within the period (whatever
the wall clock does), a zero period disables, a silent tunnel is closed at the first tick after the period,
hence within period + tick gap, and not before; the configured value is the one a tunnel runs with.  The
facts about the source (start-up order, strict comparison in ms, both directions, 1 s ticker, saturating
elapsed time) are regenerated on every run (Gen_startup.v).
Tie: ContextStatistics::is_timeout of the real code against the model on last_read values around every
boundary, in the past and in the future (hook verif_shift_last_read); the real binary with timeouts.idle /
timeouts.udp absent, 0 and small: the idle_timeout of live connections in the API, and wall-clock time until
silent, bursty and trickling tunnels and UDP associations are closed."""
import collections
import concurrent.futures
import json
import socket
import threading
import time

from common import *
import e2e
from e2e import LOOP
import halfclose_cases as hc

TICK = 1.0
SLACK = 1.6        # scheduling slack allowed on top of period + tick


def world(driver, timeouts, name):
    global LATE
    org = e2e.Server(e2e.echo_handler)
    sink = e2e.Server(e2e.sink_handler)
    lp = {"http": e2e.free_port(), "socks": e2e.free_port()}
    p = e2e.Proxy(driver, [{"name": "http", "bind": "%s:%d" % (LOOP, lp["http"])}, {"name": "socks", "bind": "%s:%d" % (LOOP, lp["socks"])}],
                  [{"name": "direct"}], [{"target": "direct"}], timeouts=timeouts, metrics=True, name=name)
    p.start()
    return p, org, sink, lp


def until_closed(c, limit):
    """seconds until the peer closes (EOF / reset), or None if still open after `limit`"""
    t0 = time.time()
    c.settimeout(limit)
    try:
        while True:
            d = c.recv(4096)
            if not d:
                return time.time() - t0
    except socket.timeout:
        return None
    except OSError:
        return time.time() - t0


def silent(p, org, lp, limit):
    c, head, extra = e2e.http_connect(lp["http"], "%s:%d" % (LOOP, org.port))
    t = until_closed(c, limit)
    e2e.close_quiet(c)
    return dict(kind="silent", closed_after=t, established=head.startswith(b"HTTP/1.1 200"))


def burst_then_silent(p, org, lp, limit):
    c, head, extra = e2e.http_connect(lp["http"], "%s:%d" % (LOOP, org.port))
    time.sleep(1.0)
    c.sendall(b"0123456789")
    e2e.recv_exact(c, 10)
    t = until_closed(c, limit)
    e2e.close_quiet(c)
    return dict(kind="burst", closed_after=t, established=head.startswith(b"HTTP/1.1 200"))


def trickle(p, target, lp, gap, n, echo, limit):
    c, head, extra = e2e.http_connect(lp["http"], "%s:%d" % (LOOP, target.port))
    broke_at = None
    for i in range(n):
        time.sleep(gap)
        try:
            c.sendall(b"x")
            if echo:
                d = e2e.recv_exact(c, 1, timeout=2.0)
                if d != b"x":
                    broke_at = i
                    break
            else:
                # a closed tunnel shows as EOF on the client side
                c.settimeout(0.01)
                try:
                    if c.recv(1) == b"":
                        broke_at = i
                        break
                except socket.timeout:
                    pass
        except OSError:
            broke_at = i
            break
    t = until_closed(c, limit) if broke_at is None else 0.0
    e2e.close_quiet(c)
    return dict(kind="trickle-echo" if echo else "trickle-oneway", broke_at=broke_at, closed_after=t, gap=gap, n=n)


def late_reply_origin(delay):
    def h(c, a, rec):
        c.settimeout(30)
        while True:
            d = c.recv(4096)
            if not d:
                break
            rec["rx"] += d
        time.sleep(delay)
        c.sendall(b"done")
        rec["tx"] += b"done"
    return h


def upload_then_halfclose(p, late, lp, period):
    """a one-way upload that lasts longer than the period, then the client half-closes; the silent side answers
    1.5 s later: the tunnel has carried data within the period all along and must still deliver the answer"""
    c, head, extra = e2e.http_connect(lp["http"], "%s:%d" % (LOOP, late.port))
    t_end = time.time() + period + 2.0
    n = 0
    try:
        while time.time() < t_end:
            c.sendall(b"u")
            n += 1
            time.sleep(0.5)
        c.shutdown(socket.SHUT_WR)
        got, how = e2e.recv_all(c, timeout=6.0)
    except OSError as e:
        got, how = b"", "error:%s" % e
    e2e.close_quiet(c)
    return dict(kind="upload-halfclose", got=got.decode("latin1"), how=how, sent=n)


def udp_assoc(p, lp, limit):
    c, sel, rep = e2e.socks5_connect(lp["socks"], "0.0.0.0", 0, cmd=3)
    ok = rep[:2] == b"\x05\x00"
    t = until_closed(c, limit) if ok else None
    e2e.close_quiet(c)
    return dict(kind="udp-assoc", closed_after=t, established=ok)


def udp_over_connect(p, lp, limit):
    """a UDP association on the http listener (CONNECT + Proxy-Protocol: udp, frames inline): like the SOCKS5 and reverse-UDP
    associations it is governed by timeouts.udp, not by timeouts.idle"""
    c = socket.create_connection((LOOP, lp["http"]), timeout=5)
    c.sendall(("CONNECT %s:9 HTTP/1.1\r\nProxy-Protocol: udp\r\nProxy-Channel: inline\r\n\r\n" % LOOP).encode())
    head = e2e.recv_until(c, b"\r\n\r\n")
    ok = head.startswith(b"HTTP/1.1 200")
    t = until_closed(c, limit) if ok else None
    e2e.close_quiet(c)
    return dict(kind="udp-assoc-connect", closed_after=t, established=ok)


def live_idle(p, org, lp):
    c, head, extra = e2e.http_connect(lp["http"], "%s:%d" % (LOOP, org.port))
    time.sleep(0.2)
    st, live = p.api("live")
    e2e.close_quiet(c)
    vals = [x.get("idle_timeout") for x in live if x.get("target") == "%s:%d" % (LOOP, org.port)]
    return dict(kind="api", idle_timeout=vals)


def run(tier, seed, replay=None):
    rep = Report("C13", tier, seed)
    coq, model, driver, blog = standard_setup("C13")
    proof_coverage(rep, coq, ["tokio interval ticks are modelled as a list of tick times with bounded gaps", "SystemTime is a parameter (now); the wall clock is not assumed monotonic"])
    broken = handle_coq_result(rep, coq)
    if driver is None:
        rep.coverage.update({"evaluations": 0, "distinct_nontrivial": 0})
        rep.broken_obligation("correspondence C13: hook-built binary does not build from /repo", blog[-3000:])
        return rep.finish()
    r = rng(seed, "C13")
    # ---- is_timeout: implementation vs model -------------------------------------------
    lines = []
    periods = [0, 1, 2, 10, 600, 86400]
    for P in periods:
        edge = P * 1000
        ds = [0, -1, -500, 500, 60_000, 3_600_000, -(edge - 400), -(edge + 400), -(edge + 5000), -(2 * edge + 777), -10 ** 9]
        ds += [-r.randint(0, 3 * edge + 1000) for _ in range(4 if tier == "quick" else 40)]
        for dc in ds:
            for dsv in ([0, -(edge + 400), 500, -(edge - 400)] if tier == "quick" else ds[:8]):
                lines.append("idle_check %d %d %d" % (P, dc, dsv))
    lines = sorted(set(lines))
    n_eval, n_diff = 0, 0
    for arith in ("release", "debug"):
        drv = driver if arith == "release" else ensure_driver("debug")[0]
        if drv is None:
            continue
        impl = run_impl(drv, lines)
        mod = run_model(model, lines, arith)
        for l, oi, om in zip(lines, impl, mod):
            n_eval += 1
            P, dc, dsv = [int(x) for x in l.split()[1:]]
            # oracle, independent of the model: closed only if both directions are idle for longer than the period
            idle_c = P != 0 and -dc > P * 1000
            idle_s = P != 0 and -dsv > P * 1000
            want = "OK c=%s s=%s close=%s" % (str(idle_c).lower(), str(idle_s).lower(), str(idle_c and idle_s).lower())
            if oi != want:
                rep.fail("C13: is_timeout with period %ds, client last active %dms %s, server last active %dms %s (%s arithmetic): %s, the property requires %s" % (
                    P, abs(dc), "ago" if dc <= 0 else "in the future (clock stepped back)", abs(dsv), "ago" if dsv <= 0 else "in the future (clock stepped back)", arith, oi[:60], want),
                    {"kind": "failing-input", "line": l, "arith": arith, "observed": oi})
            if oi != om:
                n_diff += 1
                if n_diff == 1:
                    first = dict(line=l, impl=oi, model=om, arith=arith)
    if n_diff and not rep.violations:
        rep.broken_obligation("correspondence C13: Idle.is_timeout and ContextStatistics::is_timeout differ on %d inputs" % n_diff, json.dumps(first))
    # ---- the real binary ---------------------------------------------------------------
    P = 2
    hi = P + TICK + SLACK
    worlds = {"small": {"idle": P, "udp": P}, "absent": None, "zero": {"idle": 0, "udp": 0},
              "udpzero": {"idle": P, "udp": 0}, "idlezero": {"idle": 0, "udp": P}}
    if tier == "thorough":
        worlds["large"] = {"idle": 7, "udp": 3}
    results = {}
    started = {}
    try:
        for k, t in worlds.items():
            started[k] = world(driver, t, "c13-" + k)
        jobs = []
        p, org, sink, lp = started["small"]
        late = e2e.Server(late_reply_origin(1.5))
        # one side finishes early, the other keeps sending for twice the period (2 s): 9 bytes, one every 0.5 s
        hc_after = e2e.Server(hc.stream_after_eof_origin(9, 0.5))
        hc_first = e2e.Server(hc.halfclose_first_origin)
        jobs += [("small", lambda: hc.client_closes_first(lp["http"], hc_after, 9, 0.5)), ("small", lambda: hc.origin_closes_first(lp["http"], hc_first, 9, 0.5))]
        jobs += [("small", lambda: upload_then_halfclose(p, late, lp, P)),("small", lambda: silent(p, org, lp, hi + 2)), ("small", lambda: burst_then_silent(p, org, lp, hi + 2)),
                 ("small", lambda: trickle(p, org, lp, 1.2, 5, True, hi + 2)), ("small", lambda: trickle(p, sink, lp, 1.2, 5, False, hi + 2)),
                 ("small", lambda: trickle(p, org, lp, 1.7, 4, True, hi + 2)),
                 ("small", lambda: udp_assoc(p, lp, hi + 2)), ("small", lambda: udp_over_connect(p, lp, hi + 2)), ("small", lambda: live_idle(p, org, lp))]
        for k in ("absent", "zero", "udpzero", "idlezero"):
            pk, ok, sk, lk = started[k]
            jobs += [(k, (lambda pk=pk, ok=ok, lk=lk: silent(pk, ok, lk, hi + 2))), (k, (lambda pk=pk, ok=ok, lk=lk: live_idle(pk, ok, lk))),
                     (k, (lambda pk=pk, lk=lk: udp_assoc(pk, lk, hi + 2))), (k, (lambda pk=pk, lk=lk: udp_over_connect(pk, lk, hi + 2)))]
        if "large" in started:
            pl, ol, sl, ll = started["large"]
            jobs += [("large", lambda: silent(pl, ol, ll, 7 + TICK + SLACK + 2)), ("large", lambda: udp_assoc(pl, ll, 3 + TICK + SLACK + 2)), ("large", lambda: live_idle(pl, ol, ll))]
        with concurrent.futures.ThreadPoolExecutor(len(jobs)) as ex:
            outs = list(ex.map(lambda j: (j[0], j[1]()), jobs))
    finally:
        for k, (pk, ok, sk, lk) in started.items():
            pk.stop()
            import shutil
            shutil.rmtree(pk.dir, ignore_errors=True)
            ok.close()
            sk.close()
    mlines = ["idle_period tcp 2", "idle_period udp 2", "idle_period tcp -", "idle_period tcp 0", "idle_period tcp 7", "idle_period udp 3"]
    mp = dict(zip(mlines, run_model(model, mlines)))
    dist = collections.Counter()
    for wname, h in outs:
        n_eval += 1
        dist[wname + ":" + h["kind"]] += 1
        cfg = worlds[wname]
        period_tcp = cfg["idle"] if cfg else 600
        period_udp = cfg["udp"] if cfg else 600
        rp = {"kind": "failing-input", "world": wname, "timeouts": cfg, "history": h}
        if h["kind"].startswith("halfclose-"):
            bad = hc.judge(h)
            if bad:
                rep.fail("C13: timeouts %s: %s - data flowed every 0.5 s, the tunnel was never idle for the period" % (cfg, bad), rp)
            continue
        if h["kind"] == "upload-halfclose":
            if h["got"] != "done" or h["how"] != "eof":
                rep.fail("C13: timeouts %s: a tunnel that uploaded one byte every 0.5s for %d bytes and then half-closed was cut off before the other side's answer 1.5s later (received %r, %s)" % (cfg, h["sent"], h["got"], h["how"]), rp)
            continue
        if h["kind"] == "api":
            want = int(mp["idle_period tcp %s" % (period_tcp if cfg else "-")])
            if set(h["idle_timeout"]) != {want} or want != period_tcp:
                rep.fail("C13: timeouts %s: the API reports idle_timeout %s for a live TCP tunnel, the configuration says %d (model: %d)" % (cfg, h["idle_timeout"], period_tcp, want), rp)
            continue
        period = period_udp if h["kind"].startswith("udp-assoc") else period_tcp
        if h.get("established") is False:
            rep.fail("C13: %s scenario could not be set up" % h["kind"], rp)
            continue
        if h["kind"].startswith("trickle"):
            if h["broke_at"] is not None and h["gap"] < period:
                rep.fail("C13: timeouts %s: a tunnel carrying one byte every %.1fs (%s) was closed after %d bytes" % (cfg, h["gap"], h["kind"], h["broke_at"]), rp)
                continue
        t = h["closed_after"]
        if period == 0 or period >= 600:
            if t is not None:
                rep.fail("C13: timeouts %s: a silent %s was closed after %.1fs although the period is %s" % (cfg, h["kind"], t, "disabled" if period == 0 else "%ds" % period), rp)
        else:
            lo_, hi_ = period - 0.05, period + TICK + SLACK
            if t is None or t > hi_:
                rep.fail("C13: timeouts %s: %s still open %.1fs after its last activity (period %ds + tick %ds)" % (cfg, h["kind"], hi_ if t is None else t, period, TICK), rp)
            elif t < lo_:
                rep.fail("C13: timeouts %s: %s closed %.2fs after its last activity, before the period of %ds" % (cfg, h["kind"], t, period), rp)
    rep.coverage.update({
        "evaluations": n_eval, "distinct_nontrivial": len(lines) + len(dist),
        "rule": "is_timeout on periods %s x last_read offsets around 0, the period boundary (+-400 ms), far past, and the future, release and debug arithmetic; real binary with timeouts {idle 2, udp 2}, absent, {0, 0}%s: silent tunnel, burst then silence, echo trickle at 1.2 s and 1.7 s, one-way trickle, UDP associations (SOCKS5, and CONNECT udp on the http listener), one side finishing early while the other streams for twice the period (both orders), UDP association, API idle_timeout" % (periods, ", {7, 3}" if tier == "thorough" else ""),
        "input_distribution": dict(dist), "model_impl_disagreements": n_diff,
    })
    rep.assumptions = ["wall-clock thresholds: period - 0.05 s .. period + 1 s tick + %.1f s slack" % SLACK]
    if broken and not rep.violations:
        rep.broken_obligation(broken[0], broken[1])
    return rep.finish()
