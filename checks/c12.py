"""C12 — stream decoders are insensitive to segmentation.
Proof: Props/C12.v (chunking_irrelevant for every reader program; frame reader stitching).
Tie: the SOCKS / HTTP decoders are reader programs (Socks.v, Http.v) run by the extracted
operational interpreter on the same segment lists the real decoders get through a scripted
stream behind the real BufReader/BufWriter."""
import json

from common import *
from codec_cases import *


def gen(r, tier):
    cases = []
    msgs = valid_messages(r, tier)
    for op, msg, label in msgs:
        trail = r.choice([b"", b"X", b"TRAILING-PAYLOAD\r\n\x00\x05", bytes(r.randrange(256) for _ in range(9))])
        full = msg + trail
        segs = []
        if len(full) <= 12:
            segs = [segment(full, c) for c in cuts_all(len(full))]
        else:
            segs = [[full], [bytes([b]) for b in full]]
            nrand = 12 if tier == "quick" else 60
            for _ in range(nrand):
                segs.append(segment(full, rand_cuts(r, len(full))))
            # cut exactly at the message boundary and one byte around it
            for c in (len(msg) - 1, len(msg), len(msg) + 1):
                if 0 < c < len(full):
                    segs.append(segment(full, [c]))
        for sg in segs:
            cases.append(("seg", "%s %s" % (op, chunks_arg(sg)), dict(label=label, msg=msg.hex(), trail=trail.hex(), op=op)))
        # every truncation point (of the message alone)
        step = 1 if (tier == "thorough" or len(msg) <= 64) else max(1, len(msg) // 40)
        for k in range(0, len(msg), step):
            cut = msg[:k]
            sg = [cut] if r.random() < 0.5 else segment(cut, rand_cuts(r, len(cut)))
            cases.append(("trunc", "%s %s" % (op, chunks_arg(sg)), dict(label=label, msg=msg.hex(), k=k, op=op)))
    # short messages: exhaustive segmentations
    shorts = [("socks_req_read 0", bytes([4, 1, 0, 80, 1, 2, 3, 4, 97, 0]), "s4"),
              ("socks_req_read 0", bytes([5, 1, 0, 5, 1, 0, 1, 1, 2, 3, 4, 0]), "s5-partial"),
              ("socks_resp_read", bytes([0, 90, 0, 80, 1, 2, 3, 4]), "s4resp"),
              ("socks_resp_read", bytes([5, 0, 0, 1, 1, 2, 3, 4, 0, 80]), "s5resp"),
              ("http_req_read", b"G / HTTP/1\n\n", "hreq-min"),
              ("http_resp_read", b"HTTP/1 2 k\n\n", "hresp-min")]
    for op, msg, label in shorts:
        for c in cuts_all(len(msg)):
            cases.append(("seg", "%s %s" % (op, chunks_arg(segment(msg, c))), dict(label=label, msg=msg.hex(), trail="", op=op)))
    # framed stream
    for seq in frame_sequences(r, tier):
        tail = r.choice([b"", b"RP", b"RPFM\x00\x00", seq[: max(1, len(seq) // 3)][:11]])
        full = seq + tail
        segs = [[full], [bytes([b]) for b in full]] + [segment(full, rand_cuts(r, len(full))) for _ in range(8 if tier == "quick" else 40)]
        for sg in segs:
            cases.append(("fseg", "frame_stream %s" % chunks_arg(sg), dict(label="rpfm", msg=seq.hex(), trail=tail.hex(), op="frame_stream")))
    return cases


def run(tier, seed, replay=None):
    rep = Report("C12", tier, seed)
    coq, model, driver, blog = standard_setup("C12")
    proof_coverage(rep, coq)
    broken = handle_coq_result(rep, coq)
    if driver is None:
        rep.coverage.update({"evaluations": 0, "distinct_nontrivial": 0})
        rep.broken_obligation("correspondence C12: hook-built driver does not build from /repo", blog[-3000:])
        return rep.finish()
    r = rng(seed, "C12")
    if replay:
        cases = [(c["kind"], c["line"], c["meta"]) for c in json.load(open(replay)).get("cases", [])]
        # the oracle needs the whole-input reference too
        extra = []
        for kind, line, meta in cases:
            full = bytes.fromhex(meta["msg"]) + bytes.fromhex(meta.get("trail", ""))
            extra.append(("seg", "%s %s" % (meta["op"], chunks_arg([full])), meta))
        cases = extra + cases
    else:
        cases = gen(r, tier)
    lines = [c[1] for c in cases]
    impl, mod = run_pair(driver, model, lines)
    # oracle on the implementation alone: group by (op, message, trailer): every segmentation
    # gives the same answer as the unsegmented input; truncations never succeed
    ref = {}
    for (kind, line, meta), oi in zip(cases, impl):
        if kind in ("seg", "fseg"):
            key = (meta["op"], meta["msg"], meta["trail"])
            chunks = line.split(" ")[-1]
            if "," not in chunks and key not in ref:
                ref[key] = oi
    dist, nt = {}, set()
    for (kind, line, meta), oi, om in zip(cases, impl, mod):
        dist[kind + ":" + meta["label"]] = dist.get(kind + ":" + meta["label"], 0) + 1
        bad = None
        if oi.startswith("PANIC") or oi.startswith("CRASH"):
            bad = "decoder panicked"
        elif kind in ("seg", "fseg"):
            key = (meta["op"], meta["msg"], meta["trail"])
            if key in ref and oi != ref[key]:
                bad = "result depends on segmentation: %s vs unsegmented %s" % (oi[:80], ref[key][:80])
            elif kind == "seg" and oi.startswith("OK") and not oi.endswith("L=" + (meta["trail"] or "-")):
                bad = "bytes left for the tunnel differ from the bytes following the message"
        elif kind == "trunc":
            if oi.startswith("OK"):
                bad = "truncated message (first %d bytes) parsed as a complete message" % meta["k"]
        if bad:
            rep.fail("C12 oracle: " + bad, {"kind": "failing-input", "cases": [dict(kind=kind, line=line, meta=meta)],
                                            "observed": oi, "model": om})
        if oi.startswith("OK") or "F/" in oi:
            nt.add(line)
    n_diff, first = diff_stats(rep, cases, impl, mod, "C12", "")
    if n_diff and not rep.violations:
        rep.broken_obligation("correspondence C12: decoder models (Socks.v/Http.v/Frames.v over Stream.v) and the implementation differ on %d case(s)" % n_diff, json.dumps(first))
        rep.violations[-1][1]["cases"] = [dict(kind=first["kind"], line=first["line"], meta=first["meta"])]
    # ---- the same client bytes under many segmentations against the real listeners --------------------------------
    e2e_stats = {}
    if not replay:
        import concurrent.futures
        import e2e
        import seg_world as sw
        import codec_cases as cdc
        import socket as _socket
        org = e2e.Server(e2e.echo_handler)
        uorg = sw.UdpEcho()
        tgt = cdc.tgt_v4(_socket.inet_aton(e2e.LOOP), uorg.port)
        dgs = [b"datagram-one:" + bytes(range(40)), b"datagram-two:" + b"z" * 300]
        enc = run_model(model, ["frame_encode 0 %s %s" % (tgt, d.hex()) for d in dgs])
        frames = [bytes.fromhex(e[5:]) for e in enc if e.startswith("OK W=")]
        lp = {"http": e2e.free_port(), "socks": e2e.free_port()}
        px = e2e.Proxy(driver, [{"name": "http", "bind": "%s:%d" % (e2e.LOOP, lp["http"])}, {"name": "socks", "bind": "%s:%d" % (e2e.LOOP, lp["socks"])}],
                       [{"name": "direct", "dns": {"servers": "system", "family": "V4Only"}}], [{"target": "direct"}], metrics=False, name="c12-seg")
        try:
            if len(frames) != len(dgs):
                rep.broken_obligation("correspondence C12: the model's frame encoder refuses a plain frame", str(enc)[:300])
            else:
                px.start()
                scs, pay = sw.scenarios(org.port, uorg.port, frames)
                jobs = []
                for name, lst, data, border, want in scs:
                    for cuts in sw.cut_sets(r, len(data), border, tier):
                        jobs.append((name, lst, data, border, cuts))

                def one(j):
                    name, lst, data, border, cuts = j
                    n_before = len(uorg.rx)
                    want_len = 39 + len(pay) if lst == "http" and b"udp" not in data[:border] else (len(data) + 64)
                    got = sw.send_segmented(lp[lst], data, cuts, want_len if "udp" not in name else 39 + sum(len(f) for f in frames))
                    return j, got
                with concurrent.futures.ThreadPoolExecutor(12) as ex:
                    outs = list(ex.map(one, jobs))
                by = {}
                for (name, lst, data, border, cuts), got in outs:
                    by.setdefault(name, []).append((cuts, got, data, border))
                for name, rs in by.items():
                    ref_cuts, ref = [(c, g) for c, g, _, _ in rs if len(c) == len(rs[0][2]) - 1][0]        # one byte at a time
                    e2e_stats[name] = len(rs)
                    dist["e2e:" + name] = len(rs)
                    for cuts, got, data, border in rs:
                        if "udp" in name:
                            dec = run_model(model, ["frame_stream %s" % (got[got.find(b"\r\n\r\n") + 4:].hex() or "-")])[0] if b"\r\n\r\n" in got else "no-head"
                            back = sorted(x.split("/")[3] for x in dec.split(",") if x.startswith("F/") and len(x.split("/")) > 3)
                            ok = got.startswith(b"HTTP/1.1 200") and back == sorted(d.hex() for d in dgs)
                            what = "the two datagrams came back as %d frame(s)" % len(back)
                        else:
                            ok = got.endswith(pay) and got == ref
                            what = "the reply is %r" % got[-60:]
                        if not ok:
                            rep.fail("C12: %s, %d client bytes (handshake %d) cut at %s: %s; one byte at a time gives %r" % (name, len(data), border, list(cuts)[:8] or "nowhere (one write)", what, ref[-40:]),
                                     {"kind": "failing-input", "cases": [], "scenario": name, "cuts": list(cuts), "client_bytes": data.hex(), "reply": got.hex()[:600]})
                            break
                # the UDP origin must have seen each datagram once per segmentation of the udp scenario, and nothing else
                import collections as _c
                seen = _c.Counter(uorg.rx)
                n_udp = e2e_stats.get("http CONNECT udp/inline + 2 frames", 0)
                for d in dgs:
                    if seen[d] != n_udp and not rep.violations:
                        rep.fail("C12: http CONNECT udp/inline + 2 frames under %d segmentations: the datagram %r reached the origin %d times" % (n_udp, d[:14], seen[d]),
                                 {"kind": "failing-input", "cases": [], "scenario": "udp datagram count"})
                for d in seen:
                    if d not in dgs:
                        rep.fail("C12: the UDP origin received a datagram nobody sent: %r" % d[:40], {"kind": "failing-input", "cases": [], "scenario": "stray"})
                        break
        finally:
            px.stop()
            org.close()
            uorg.close()
            import shutil
            shutil.rmtree(px.dir, ignore_errors=True)
    if broken and not rep.violations:
        rep.broken_obligation(broken[0], broken[1])
    rep.coverage.update({
        "end_to_end_segmentations": e2e_stats,
        "evaluations": len(cases) + sum(e2e_stats.values()), "distinct_nontrivial": len(nt),
        "rule": "valid messages of each stream codec x segmentations (all 2^(n-1) for <=12 bytes; whole, byte-at-a-time, message-boundary +-1 and random cut sets otherwise) x trailing payload, every truncation point, RPFM frame sequences with partial tails; the real listeners (http CONNECT, SOCKS5, SOCKS4, SOCKS4a, CONNECT udp/inline + frames) fed handshake + following bytes in one write, one byte at a time, cut at every position around the handshake border and at random cut sets; non-trivial = distinct case in which the implementation produced a message or frame",
        "input_distribution": dist, "model_impl_disagreements": n_diff,
        "samples": [dict(case=cases[i][1][:160], impl=impl[i][:160], model=mod[i][:160]) for i in range(0, len(cases), max(1, len(cases) // 6))][:6],
    })
    rep.assumptions = ["tokio BufReader/read_exact/read_until/read_line are the modelled primitives; the operational interpreter re-implements them and is compared with the real BufReader on every case"]
    return rep.finish()
