"""C01 — TCP tunnel byte-stream fidelity across every listener x connector pairing.
Proof: Props/C01.v (Relay.v): for every input, buffer size, read-size and splice-size oracle and every
interleaving of the two directions, each direction delivers exactly its input, in order, once; nothing
of the handshake (whatever the segmentation of handshake + early data) enters the tunnel; the
end-of-stream mark follows the last byte.  The shape of copy_half / copy_bidi the model stands for is
regenerated from src/copy.rs on every run (Gen_relay.v).
Tie: two chained instances of the real binary (entry -> exit) so that every connector kind meets the
matching listener kind; raw clients of every listener kind; origins that echo, speak first, stream,
close first or only read; payloads of many sizes and segmentations, early data glued to the handshake,
concurrent tunnels with connection-tagged content; both I/O modes and several buffer sizes."""
import collections
import concurrent.futures
import hashlib
import json
import socket
import threading
import time

from common import *
import e2e
import relay_world as rw
from e2e import LOOP


def payload_for(tag, n):
    """connection-tagged deterministic bytes: a 24-byte tag, then a keyed stream"""
    head = ("<%s>" % hashlib.sha256(tag.encode()).hexdigest()[:22]).encode()        # 24 bytes, unique per tag
    if n <= 24:
        return head[:n]
    seed = hashlib.sha256(tag.encode()).digest()
    blk = (seed * (65536 // 32 + 1))[:65521]
    body = (blk * ((n - 24) // len(blk) + 1))[:n - 24]
    return head + body


def run_tunnel(w, sc):
    """sc: dict(kind, conn, behaviour, size, segs, early, pause, tag).  Returns the history."""
    h = dict(sc)
    payload = payload_for(sc["tag"], sc["size"])
    early = payload[:sc["early"]]
    tls = sc["kind"] in ("https", "socks5tls")
    try:
        c, ok, extra, reply = rw.open_tunnel(w, sc["kind"], sc["conn"], sc["behaviour"], early=early)
    except OSError as e:
        h["error"] = "open: %s" % e
        return h
    h["established"] = ok
    h["reply"] = reply.hex()
    if not ok:
        e2e.close_quiet(c)
        return h
    beh = sc["behaviour"]
    if beh in ("echo", "banner"):
        expect = (rw.BANNER if beh == "banner" else b"") + payload
    elif beh == "source":
        expect = rw.source_bytes(rw.SOURCE_LEN[w.tier])
    elif beh == "closefirst":
        expect = rw.source_bytes(100_000)
    else:
        expect = b""
    h["expect_len"] = len(expect)
    got = bytearray(extra)
    state = {"how": None}
    rest = payload[sc["early"]:]
    segs = sc["segs"] or [len(rest) or 1]
    try:
        duplex(c, rest, segs, sc["pause"], got, len(expect), tls, state)
    except OSError as e:
        state["how"] = "error:%s" % e
    if tls and state["how"] == "complete":
        # a proper TLS end-of-stream (close_notify) instead of an abort, so that what is still in flight towards
        # the origin is not cut off
        try:
            c.setblocking(True)
            c.settimeout(5)
            c.unwrap()
        except (OSError, ValueError):
            pass
    e2e.close_quiet(c)
    h["how"] = state["how"]
    h["got_len"] = len(got)
    h["ok_client"] = bytes(got) == expect
    if not h["ok_client"]:
        g = bytes(got)
        j = next((x for x in range(min(len(g), len(expect))) if g[x] != expect[x]), min(len(g), len(expect)))
        h["first_diff"] = j
        h["got_at_diff"] = g[max(0, j - 8):j + 24].hex()
        h["want_at_diff"] = expect[max(0, j - 8):j + 24].hex()
    return h


def duplex(c, rest, segs, pause, got, expect_len, tls, state, deadline=40.0):
    """send `rest` in the given segment sizes and receive concurrently, from one thread (an SSL object must not
    be used from two); plain sockets half-close when done sending and read until EOF, TLS sockets stop once
    the expected number of bytes has arrived"""
    import select
    import ssl as _ssl
    c.setblocking(False)
    i, k, sent_all, recv_eof = 0, 0, False, False
    t_end = time.time() + deadline
    next_send = 0.0
    while True:
        if time.time() > t_end:
            state["how"] = "timeout"
            return
        if i >= len(rest) and not sent_all:
            sent_all = True
            if not tls:
                c.shutdown(socket.SHUT_WR)
        if tls and sent_all and len(got) >= expect_len:
            state["how"] = "complete"
            return
        want_w = (not sent_all) and time.time() >= next_send
        if recv_eof and sent_all:
            state["how"] = "eof"
            return
        rl, wl, _ = select.select([] if recv_eof else [c], [c] if want_w else [], [], 0.05)
        pending = tls and c.pending() > 0
        if (rl or pending) and not recv_eof:
            try:
                d = c.recv(65536)
                if not d:
                    recv_eof = True          # the peer finished first; keep sending what is left
                else:
                    got.extend(d)
            except (_ssl.SSLWantReadError, _ssl.SSLWantWriteError, BlockingIOError):
                pass
        if wl and want_w:
            n = segs[k % len(segs)]
            chunk = rest[i:i + n]
            try:
                m = c.send(chunk)
                i += m
                if m == len(chunk):
                    k += 1
                    if pause and k % 7 == 0:
                        next_send = time.time() + pause
            except (_ssl.SSLWantReadError, _ssl.SSLWantWriteError, BlockingIOError):
                pass


def scenarios(r, tier, tiny=False):
    out, n = [], 0
    sizes_small = [0, 1, 24, 25, 4095, 4096, 4097, 65535, 65536, 65537, 200_000]
    big = 1_500_000 if tier == "quick" else 6_000_000
    for kind in rw.CLIENTS:
        for conn in rw.CONNECTORS:
            for beh in rw.BEHAVIOURS:
                if tiny and tier == "quick" and r.random() < 0.6:
                    continue
                if tiny == "no-tls" and (kind in ("https", "socks5tls") or conn in ("c_https", "c_quic")):
                    continue          # one TLS record per byte: a throughput exercise, not a fidelity one
                reps = 1 if tier == "quick" else 3
                for _ in range(reps):
                    size = r.choice(sizes_small)
                    if r.random() < (0.08 if tier == "quick" else 0.2) and not tiny:
                        size = big
                    if tiny:
                        size = min(size, 20_000)
                    if beh in ("source", "closefirst") and r.random() < 0.5:
                        size = r.choice([0, 1, 70_000])
                    segs = r.choice([None, [1, 2, 3, 5, 8, 13], [1460], [4096], [65536], [7, 70000, 1], [r.randint(1, 9000) for _ in range(5)]])
                    if size > 300_000 and segs and sum(segs) / len(segs) < 8000:
                        segs = [16384, 1, 70000]          # multi-MB payloads in small writes only measure the Python client
                    if size > 5_000 and segs and max(segs) < 1000:
                        segs = [16384, 1, 70000] if size > 300_000 else [1, 1460, 2, 4096]
                    early = 0
                    if r.random() < 0.5:
                        early = r.choice([1, 24, min(size, 1000), min(size, 70_000), size])
                        early = min(early, size)
                    n += 1
                    out.append(dict(kind=kind, conn=conn, behaviour=beh, size=size, segs=segs, early=early,
                                    pause=r.choice([0, 0, 0.002]), tag="%s/%s/%s/%d" % (kind, conn, beh, n)))
    return out


IO_CONFIGS = {"quick": [(True, 65536), (False, 65536), (False, 7)],
              "thorough": [(True, 65536), (False, 65536), (False, 7), (True, 1024), (False, 1), (True, 1 << 20)]}


def pattern(S):
    """S bytes whose content depends on the position (a lost or repeated stretch changes the digest)"""
    blk = b"".join(b"%07x\n" % i for i in range(0, 1 << 13))
    return (blk * (S // len(blk) + 1))[:S]


def stalled_reader_scan(driver, sizes, splice=True, upload=False):
    """a receiver that does not read for a second while the sender writes S bytes and closes; afterwards the receiver
    must get exactly those S bytes (whatever a full socket did not take at once - a partial splice, a partial write -
    must not be dropped).  upload=False: the origin sends, the client stalls; upload=True: the client sends, the
    origin stalls."""
    import hashlib
    lp = e2e.free_port()
    p = e2e.Proxy(driver, [{"name": "http", "bind": "%s:%d" % (LOOP, lp)}], [{"name": "direct"}], [{"target": "direct"}],
                  io={"useSplice": splice, "bufferSize": 65536}, metrics=False, name="stall")

    def drain(c, first_wait):
        time.sleep(first_wait)
        got, how, h = 0, "eof", hashlib.md5()
        c.settimeout(5.0)
        try:
            while True:
                d = c.recv(1 << 16)
                if not d:
                    break
                got += len(d)
                h.update(d)
        except socket.timeout:
            how = "timeout"
        except OSError:
            how = "reset"
        return got, how, h.hexdigest()

    def one(S):
        data = pattern(S)
        want = hashlib.md5(data).hexdigest()
        out = {}

        def oh(c, a, rec):
            if upload:
                out["r"] = drain(c, 1.0)
                return
            c.sendall(data)
            c.shutdown(socket.SHUT_WR)
            c.settimeout(20)
            try:
                while c.recv(65536):
                    pass
            except OSError:
                pass
        org = e2e.Server(oh)
        org.sock.setsockopt(socket.SOL_SOCKET, socket.SO_RCVBUF, 8192)      # inherited by the accepted connection
        try:
            c = socket.socket()
            c.setsockopt(socket.SOL_SOCKET, socket.SO_RCVBUF, 8192)
            c.connect((LOOP, lp))
            c.sendall(b"CONNECT %s:%d HTTP/1.1\r\n\r\n" % (LOOP.encode(), org.port))
            head = e2e.recv_exact(c, 39)
            if upload:
                c.settimeout(30)
                try:
                    c.sendall(data)
                    c.shutdown(socket.SHUT_WR)
                except OSError:
                    pass
                drain(c, 0)                      # the origin closes once it has seen the end of the stream
                t_end = time.time() + 10
                while "r" not in out and time.time() < t_end:
                    time.sleep(0.05)
                got, how, dig = out.get("r", (0, "origin never finished", ""))
            else:
                got, how, dig = drain(c, 1.0)
            c.close()
        finally:
            org.close()
        return S, got, how, dig == want
    with p:
        with concurrent.futures.ThreadPoolExecutor(16) as ex:
            return list(ex.map(one, sizes))


def run(tier, seed, replay=None):
    rep = Report("C01", tier, seed)
    coq, model, driver, blog = standard_setup("C01")
    proof_coverage(rep, coq, [
        "kernel splice/TCP semantics, tokio, rustls and quinn are modelled as byte pipes with arbitrary read / write sizes",
        "end-to-end tie: fake origins and clients of checks/e2e.py, checks/relay_world.py"])
    broken = handle_coq_result(rep, coq)
    if driver is None:
        rep.coverage.update({"evaluations": 0, "distinct_nontrivial": 0})
        rep.broken_obligation("correspondence C01: hook-built binary does not build from /repo", blog[-3000:])
        return rep.finish()
    r = rng(seed, "C01")
    total, shapes, dist = 0, set(), collections.Counter()
    not_established = collections.Counter()
    for (splice, bufsz) in IO_CONFIGS[tier]:
        tiny = ("no-tls" if bufsz < 4 else True) if bufsz < 1024 else False
        scs = json.load(open(replay))["scenarios"] if replay else scenarios(r, tier, tiny)
        if replay:
            cfg = json.load(open(replay)).get("io")
            if cfg and [splice, bufsz] != cfg:
                continue
        w = rw.Chain(driver, "tiny" if tiny else tier, splice=splice, bufsz=bufsz, name="c01-%s-%d" % ("s" if splice else "b", bufsz))
        try:
            with concurrent.futures.ThreadPoolExecutor(16) as ex:
                hs = list(ex.map(lambda sc: run_tunnel(w, sc), scs))
            time.sleep(0.3)
            alive = w.alive()
            recs = {k: list(s.records) for k, s in w.origin.items()}
        finally:
            w.close()
        io = [splice, bufsz]
        if not alive:
            rep.fail("C01: a proxy process died during the relay scenarios (splice=%s bufferSize=%d)" % (splice, bufsz),
                     {"kind": "failing-input", "io": io, "scenarios": scs[:50]})
        for h in hs:
            total += 1
            desc = "%s client -> %s, origin %s, %d bytes (early %d, segments %s), splice=%s bufferSize=%d" % (
                h["kind"], h["conn"], h["behaviour"], h["size"], h["early"], h["segs"], splice, bufsz)
            sc = {k: h[k] for k in ("kind", "conn", "behaviour", "size", "segs", "early", "pause", "tag")}
            if "error" in h:
                rep.fail("C01: %s: %s" % (desc, h["error"]), {"kind": "failing-input", "io": io, "scenarios": [sc]})
                continue
            if not h["established"]:
                not_established[(h["kind"], h["conn"])] += 1
                rep.fail("C01: %s: tunnel not established, reply %s" % (desc, h["reply"][:60]), {"kind": "failing-input", "io": io, "scenarios": [sc]})
                continue
            shapes.add((h["kind"], h["conn"], h["behaviour"], splice, bufsz))
            dist["%s|%s" % (h["behaviour"], "big" if h["size"] > 300_000 else "small")] += 1
            if not h["ok_client"]:
                rep.fail("C01: %s: client received %d bytes, expected %d; first difference at offset %s (%s)" % (desc, h["got_len"], h["expect_len"], h.get("first_diff"), h["how"]),
                         {"kind": "failing-input", "io": io, "scenarios": [sc], "history": h})
            # what the origin received from this connection
            payload = payload_for(h["tag"], h["size"])
            rs = recs[(h["conn"], h["behaviour"])]
            if h["size"] >= 24:
                mine = [x for x in rs if bytes(x["rx"][:24]) == payload[:24]]
                if len(mine) != 1:
                    rep.fail("C01: %s: %d origin connections start with this tunnel's tag" % (desc, len(mine)), {"kind": "failing-input", "io": io, "scenarios": [sc]})
                elif bytes(mine[0]["rx"]) != payload:
                    g = bytes(mine[0]["rx"])
                    j = next((x for x in range(min(len(g), len(payload))) if g[x] != payload[x]), min(len(g), len(payload)))
                    rep.fail("C01: %s: origin received %d bytes, client sent %d; first difference at offset %d" % (desc, len(g), len(payload), j),
                             {"kind": "failing-input", "io": io, "scenarios": [sc], "origin_at_diff": g[max(0, j - 8):j + 24].hex()})
        # every origin connection must be explained by a tunnel: no stray bytes anywhere
        for (cn, b), rs in recs.items():
            tags = {payload_for(h["tag"], 24) for h in hs if h["conn"] == cn and h["behaviour"] == b and h["size"] >= 24}
            for x in rs:
                if len(x["rx"]) >= 24 and bytes(x["rx"][:24]) not in tags:
                    rep.fail("C01: origin %s/%s received a stream that no client sent: %r..." % (cn, b, bytes(x["rx"][:40])),
                             {"kind": "failing-input", "io": io, "scenarios": scs[:20]})
        if replay:
            break
    # a receiver that stalls: partial splices / partial writes into a full socket, both I/O modes, both directions
    if not replay:
        rr = rng(seed, "C01-stall")
        n_scan = 16 if tier == "quick" else 96
        for splice in (True, False):
            for upload in (False, True):
                sizes = sorted(rr.sample(range(3_000_000, 6_200_000, 8192), n_scan))
                res = stalled_reader_scan(driver, sizes, splice, upload)
                for S, got, how, same in res:
                    total += 1
                    if got != S or not same:
                        rep.fail("C01: %s mode, stalled %s: the %s sent %d bytes and closed, the other side then received %d (%s)%s" % (
                                 "splice" if splice else "buffered", "origin" if upload else "client", "client" if upload else "origin", S, got, how,
                                 "" if got != S else " with different content"),
                                 {"kind": "failing-input", "io": [splice, 65536], "stalled_reader_size": S, "upload": upload, "received": got})
                dist["stalled-%s-%s" % ("origin" if upload else "client", "splice" if splice else "buffered")] = len(res)
    # ---- a one-way upload that lasts longer than the idle period (2 s here, 600 s by default): the tunnel carries data all
    #      the time, every byte must arrive -----------------------------------------------------------------------------
    if not replay:
        import halfclose_cases as hc
        for splice in (True, False):
            lp_ = e2e.free_port()
            px = e2e.Proxy(driver, [{"name": "http", "bind": "%s:%d" % (LOOP, lp_)}], [{"name": "direct"}], [{"target": "direct"}], timeouts={"idle": 2, "udp": 2},
                           io={"useSplice": splice, "bufferSize": 65536}, metrics=False, name="c01-long-%s" % ("s" if splice else "b"))
            o_read = e2e.Server(hc.read_all_origin)
            try:
                px.start()
                h = hc.upload_longer_than_idle(lp_, o_read, 12, 0.4)
            finally:
                px.stop()
                o_read.close()
                import shutil
                shutil.rmtree(px.dir, ignore_errors=True)
            total += 1
            dist["upload-longer-than-idle-%s" % ("splice" if splice else "buffered")] = 1
            if not h["intact"]:
                rep.fail("C01: %s mode, idle period 2 s: the client sent %d bytes, 16 every %.1fs, to an origin that only reads: %d arrived (%s)" % (
                    "splice" if splice else "buffered", h["want"], h["gap"], h["got"], h["error"] or "the tunnel was cut"),
                    {"kind": "failing-input", "io": [splice, 65536], "scenario": h})
    rep.coverage.update({
        "evaluations": total,
        "distinct_nontrivial": len(shapes),
        "rule": "client kinds %s x connectors %s x origin behaviours %s x I/O configurations %s; sizes 0..%s, segmentations incl. 1-byte and 70000-byte writes, early data glued to the handshake, 16 tunnels in flight at a time with connection-tagged content; stalled-receiver scan (client or origin not reading for 1 s while 3-6 MB arrive) in splice and buffered mode, content compared by digest" % (
            rw.CLIENTS, rw.CONNECTORS, rw.BEHAVIOURS, IO_CONFIGS[tier], "1.5 MB" if tier == "quick" else "6 MB"),
        "input_distribution": dict(dist),
        "not_established": {"%s->%s" % k: v for k, v in not_established.items()},
    })
    rep.assumptions = ["fake endpoints behave as scripted", "TLS clients end a tunnel by closing after the expected number of bytes (no TLS half-close in Python's ssl module)"]
    if broken and not rep.violations:
        rep.broken_obligation(broken[0], broken[1])
    return rep.finish()
