"""Generators for the byte-level codecs (SOCKS4/4a/5, HTTP head, RPFM frames, SOCKS-UDP header,
CONNECT line) shared by C03, C05, C12."""
from common import *


def hx(b):
    return bytes(b).hex() if len(b) else "-"


def hxe(b):
    return bytes(b).hex()


def tgt_domain(h, p):
    return "D%s:%d" % (hxe(h), p)


def tgt_v4(ip, p):
    return "4%s:%d" % (bytes(ip).hex(), p)


def tgt_v6(ip, p):
    return "6%s:%d" % (bytes(ip).hex(), p)


def is_utf8(b):
    try:
        bytes(b).decode("utf-8")
        return True
    except UnicodeDecodeError:
        return False


def cuts_all(n):
    """all segmentations of a string of length n as lists of cut positions (n <= 12)"""
    for mask in range(1 << max(0, n - 1)):
        yield [i + 1 for i in range(n - 1) if mask >> i & 1]


def segment(b, cuts):
    out, prev = [], 0
    for c in cuts:
        out.append(b[prev:c])
        prev = c
    out.append(b[prev:])
    return [x for x in out if len(x)]


def chunks_arg(chs):
    return ",".join(hx(c) for c in chs) if chs else "-"


def rand_cuts(r, n, k=None):
    if n <= 1:
        return []
    k = k if k is not None else r.randrange(0, min(n, 6))
    return sorted(r.sample(range(1, n), min(k, n - 1)))


def hosts(r, tier):
    """interesting host byte strings (all valid UTF-8 unless noted by the caller)"""
    hs = [b"", b"a", b"ab", b"a.b", b"abcd", b"example.com", b"1.2.3.4", b"999.1.1.1", b"01.2.3.4", b"[::1]", b"::1",
          b"a:b", b"a:80", "bücher.de".encode(), "x ".encode(), " y".encode(), b"-", b"a..b", b"xn--abc"]
    for L in [3, 4, 5, 63, 64, 127, 128, 200, 250, 251, 252, 253, 254, 255, 256, 257, 258, 259, 260, 300, 511, 512]:
        hs.append(bytes(97 + (i % 26) for i in range(L)))
    if tier == "thorough":
        for L in list(range(6, 63, 5)) + [1000, 8191, 8192, 8193, 20000, 65530, 65533, 65534, 65535, 65536, 65540]:
            hs.append(bytes(97 + (i % 26) for i in range(L)))
    specials = [0, 9, 10, 11, 12, 13, 32, 0x7f, ord(":"), ord("["), ord("]"), ord("/"), ord("@"), ord("%"), 0x1f, 1]
    for sp in specials:
        hs.append(bytes([sp]) + b"evil")
        hs.append(b"ev" + bytes([sp]) + b"il")
        hs.append(b"evil" + bytes([sp]))
    hs.append(b"evil:1 HTTP/1.1\r\n\r\nx")
    hs.append(b"a b")
    hs.append(b"a\r\nX-Injected: 1")
    for _ in range(40 if tier == "thorough" else 10):
        L = r.randrange(1, 40)
        hs.append(bytes(r.choice(b"abcdefghijklmnopqrstuvwxyz0123456789.-") for _ in range(L)))
    return hs


def bad_utf8_hosts():
    return [b"\xff", b"a\x80b", b"\xc3", b"\xe2\x82", b"\xed\xa0\x80", b"\xf5\x80\x80\x80", b"ok\xc0\xaf"]


PORTS = [0, 1, 80, 255, 256, 443, 8080, 65534, 65535]


def targets(r, tier):
    ts = []
    for h in hosts(r, tier):
        ts.append(("domain", h, r.choice(PORTS)))
    for p in PORTS:
        ts.append(("domain", b"example.com", p))
    for ip in [b"\x00\x00\x00\x00", b"\x00\x00\x00\x01", b"\x00\x00\x00\xff", b"\x00\x00\x01\x00", b"\x01\x02\x03\x04", b"\x7f\x00\x00\x01",
               b"\xff\xff\xff\xff", b"\x0a\x00\x00\x01"]:
        ts.append(("v4", ip, r.choice(PORTS)))
    for ip in [bytes(16), bytes(15) + b"\x01", bytes(10) + b"\xff\xff\x01\x02\x03\x04", bytes(range(16)), b"\xff" * 16,
               b"\x20\x01\x0d\xb8" + bytes(11) + b"\x01", b"\xfe\x80" + bytes(6) + bytes(range(8))]:
        ts.append(("v6", ip, r.choice(PORTS)))
    return ts


def tstr(t):
    k, h, p = t
    return tgt_domain(h, p) if k == "domain" else (tgt_v4(h, p) if k == "v4" else tgt_v6(h, p))


# ---- message builders (what a peer would send) -------------------------------------------------

def socks5_addr(t):
    k, h, p = t
    pb = bytes([p >> 8, p & 255])
    if k == "domain":
        return bytes([3, len(h) & 255]) + h + pb
    if k == "v4":
        return bytes([1]) + h + pb
    return bytes([4]) + h + pb


def socks_req_msg(r, t, ver, auth=None, cmd=1):
    k, h, p = t
    pb = bytes([p >> 8, p & 255])
    if ver == 4:
        user = (auth[0] if auth else b"")
        if k == "domain":
            return bytes([4, cmd]) + pb + bytes([0, 0, 0, 1]) + user + b"\0" + h + b"\0"
        return bytes([4, cmd]) + pb + h + user + b"\0"
    if auth:
        u, pw = auth
        return bytes([5, 2, 0, 2]) + bytes([1, len(u)]) + u + bytes([len(pw)]) + pw + bytes([5, cmd, 0]) + socks5_addr(t)
    return bytes([5, 1, 0]) + bytes([5, cmd, 0]) + socks5_addr(t)


def http_req_msg(method, resource, version=b"HTTP/1.1", headers=()):
    return method + b" " + resource + b" " + version + b"\r\n" + b"".join(k + b": " + v + b"\r\n" for k, v in headers) + b"\r\n"


def http_resp_msg(code, status, version=b"HTTP/1.1", headers=()):
    return version + b" " + str(code).encode() + b" " + status + b"\r\n" + b"".join(k + b": " + v + b"\r\n" for k, v in headers) + b"\r\n"


def rpfm_addr(t):
    if t is None:
        return b""
    k, h, p = t
    pb = bytes([p >> 8, p & 255])
    if k == "domain":
        return bytes([3, (len(h) + 2) & 255]) + h + pb
    if k == "v4":
        return bytes([1, 6]) + h + pb
    return bytes([2, 18]) + h + pb


def rpfm_msg(sid, t, body):
    a = rpfm_addr(t)
    return b"RPFM" + sid.to_bytes(4, "big") + (len(a) & 0xffff).to_bytes(2, "big") + (len(body) & 0xffff).to_bytes(2, "big") + a + body


def small_targets(r):
    return [("domain", b"a.b", 80), ("domain", b"example.com", 443), ("v4", b"\x01\x02\x03\x04", 80),
            ("v6", bytes(15) + b"\x01", 8080), ("domain", b"", 0), ("domain", bytes(97 + i % 26 for i in range(255)), 65535)]


def valid_messages(r, tier):
    """(op prefix, message bytes, label) for every stream codec"""
    msgs = []
    for t in small_targets(r):
        k, h, p = t
        if len(h) <= 255:
            msgs.append(("socks_req_read 0", socks_req_msg(r, t, 5), "s5"))
            msgs.append(("socks_req_read 1", socks_req_msg(r, t, 5, auth=(b"user", b"pw")), "s5auth"))
            msgs.append(("socks_resp_read", bytes([5, 0, 0]) + socks5_addr(t), "s5resp"))
        if k != "v6" and b"\0" not in h:
            msgs.append(("socks_req_read 0", socks_req_msg(r, t, 4, auth=(b"id", b"")), "s4" if k == "v4" else "s4a"))
        res = (h + b":" + str(p).encode()) if k == "domain" else None
        if res is not None and not any(c <= 32 for c in h):
            msgs.append(("http_req_read", http_req_msg(b"CONNECT", res, headers=[(b"Host", res)] if res else []), "hreq"))
    msgs.append(("socks_resp_read", bytes([0, 90, 0, 80, 1, 2, 3, 4]), "s4resp"))
    msgs.append(("socks_resp_read", bytes([0, 91, 0, 0, 0, 0, 0, 0]), "s4resp"))
    msgs.append(("http_req_read", http_req_msg(b"GET", b"/", headers=[(b"Host", b"test"), (b"X", b"a: b")]), "hreq"))
    msgs.append(("http_req_read", http_req_msg(b"CONNECT", b"a:1", headers=[(b"Proxy-Protocol", b"udp"), (b"Proxy-Channel", b"inline")]), "hreq"))
    msgs.append(("http_resp_read", http_resp_msg(200, b"OK"), "hresp"))
    msgs.append(("http_resp_read", http_resp_msg(200, b"Connection established", headers=[(b"Session-Id", b"7")]), "hresp"))
    msgs.append(("http_resp_read", http_resp_msg(503, b"Service unavailable", headers=[(b"Content-Type", b"text/plain"), (b"Content-Length", b"3")]), "hresp"))
    msgs.append(("http_resp_read", b"HTTP/1.1 200 OK\n\n", "hresp"))
    return msgs


def frame_sequences(r, tier):
    seqs = []
    ts = [None] + small_targets(r)[:5]
    for n in [1, 2, 3]:
        for _ in range(3 if tier == "quick" else 10):
            frs = []
            for _ in range(n):
                t = r.choice(ts)
                if t and t[0] == "domain" and len(t[1]) > 253:
                    t = None
                body = bytes(r.randrange(256) for _ in range(r.choice([0, 1, 2, 5, 30])))
                frs.append(rpfm_msg(r.randrange(1 << 32), t, body))
            seqs.append(b"".join(frs))
    return seqs
