"""C08 — rule-language type soundness: accepted expressions never fail at request time.
Proof: Props/C08.v over the checker/evaluator model MiluEval.v (see level_note for what is proved).
Tie: the extracted parser + checker + evaluator vs the real milu crate in the redproxy script
environment, on typed-generated, bounded-exhaustive and random programs under several requests;
the oracle is the property itself: accepted => value of that type or an inherently dynamic error."""
import itertools
import json
import re

from common import *
import c09

# besides the i64 extremes, the boundaries of every narrower width a value might be cast to on its way (u8, u16, i32, u32)
INT_EDGE = [0, 1, 2, 7, 63, 64, 255, 256, 65535, 65536, 2147483647, 2147483648, 4294967295, 4294967296, 4294967297, 4294967359, 8589934595,
            0x7fffffff00000000, 9223372036854775807]
STRS = ["", "a", "abc", "a,b,c", "10.1.2.3", "10.0.0.0/8", "12", "+7", "-9223372036854775808", "x y", "0x10"]
PATS = ["a", "b c", "abc", "zz", "10", "-"]
BINOPS_INT = ["+", "-", "*", "/", "%", "&", "|", "^", "<<", ">>", ">>>"]
CMP = ["==", "!=", "<", "<=", ">", ">="]


def lit_str(s):
    return '"' + s.replace("\\", "\\\\").replace('"', '\\"') + '"'


class G:
    """typed generator; every method returns (source text, uses: set of flags)"""

    def __init__(self, r):
        self.r = r

    def int_(self, d, sc):
        r = self.r
        if d <= 0 or r.random() < 0.25:
            k = r.random()
            if k < 0.6 or not sc.get("int"):
                return str(r.choice(INT_EDGE))
            return r.choice(sc["int"])
        k = r.random()
        if k < 0.35:
            return "(%s %s %s)" % (self.int_(d - 1, sc), r.choice(BINOPS_INT), self.int_(d - 1, sc))
        if k < 0.42:
            return "%s(%s)" % (r.choice(["-", "~"]), self.int_(d - 1, sc))
        if k < 0.5:
            return "to_integer(%s)" % self.str_(d - 1, sc)
        if k < 0.6:
            n = r.randrange(1, 4)
            return "[%s][%s]" % (", ".join(self.int_(d - 1, sc) for _ in range(n)), r.choice(["0", "1", "-1", "2", "-3", self.int_(d - 1, sc)]))
        if k < 0.68:
            return "(%s, %s).%d" % (self.int_(d - 1, sc), self.str_(d - 1, sc), 0)
        if k < 0.78:
            return "(if %s then %s else %s)" % (self.bool_(d - 1, sc), self.int_(d - 1, sc), self.int_(d - 1, sc))
        if k < 0.9:
            name = r.choice(["x", "y", "a"])
            sc2 = dict(sc)
            sc2["int"] = sc.get("int", []) + ["(%s + 0)" % name]
            if r.random() < 0.25:
                # alias chains and scalars bound through another binding / a request object
                inner = r.choice(["p", "q"])
                bound = r.choice([self.int_(d - 1, sc), "request.target.port", "request.source.port"])
                sc3 = dict(sc)
                sc3["int"] = sc.get("int", []) + ["(%s + 0)" % name, "(%s * 1)" % inner]
                return "(let %s = %s in let %s = %s in %s)" % (inner, bound, name, inner, self.int_(d - 1, sc3))
            return "(let %s = %s in %s)" % (name, self.int_(d - 1, sc), self.int_(d - 1, sc2))
        return r.choice(["request.target.port", "request.source.port"])

    def bool_(self, d, sc):
        r = self.r
        if d <= 0 or r.random() < 0.2:
            return r.choice(["true", "false"])
        k = r.random()
        if k < 0.25:
            return "(%s %s %s)" % (self.int_(d - 1, sc), r.choice(CMP), self.int_(d - 1, sc))
        if k < 0.35:
            return "(%s %s %s)" % (self.str_(d - 1, sc), r.choice(CMP), self.str_(d - 1, sc))
        if k < 0.5:
            return "(%s %s %s)" % (self.bool_(d - 1, sc), r.choice(["&&", "||", "and", "or", "xor", "^^", "==", "!="]), self.bool_(d - 1, sc))
        if k < 0.56:
            return "!(%s)" % self.bool_(d - 1, sc)
        if k < 0.66:
            return "(%s %s %s)" % (self.str_(d - 1, sc), r.choice(["=~", "!~"]), lit_str(r.choice(PATS)))
        if k < 0.76:
            n = r.randrange(1, 4)
            return "(%s _: [%s])" % (self.int_(d - 1, sc), ", ".join(self.int_(d - 1, sc) for _ in range(n)))
        if k < 0.82:
            return "(%s _: [%s])" % (self.str_(d - 1, sc), ", ".join(self.str_(d - 1, sc) for _ in range(r.randrange(1, 3))))
        if k < 0.9:
            return "cidr_match(%s, %s)" % (r.choice(["request.source.host", lit_str("10.1.2.3"), lit_str("192.168.0.1"), self.str_(d - 1, sc)]),
                                           lit_str(r.choice(["10.0.0.0/8", "192.168.0.0/16", "0.0.0.0/0", "10.1.2.3", "10.1.2.0/33", "10.1.2.3/8", "any", "nonsense"])))
        return "(if %s then %s else %s)" % (self.bool_(d - 1, sc), self.bool_(d - 1, sc), self.bool_(d - 1, sc))

    def str_(self, d, sc):
        r = self.r
        if d <= 0 or r.random() < 0.25:
            k = r.random()
            if k < 0.6:
                return lit_str(r.choice(STRS))
            return r.choice(["request.listener", "request.connector", "request.feature", "request.target.host", "request.target.type",
                             "request.source.host", "request.source.type"])
        k = r.random()
        if k < 0.2:
            return "to_string(%s)" % r.choice([self.int_(d - 1, sc), self.bool_(d - 1, sc), self.str_(d - 1, sc)])
        if k < 0.4:
            return "strcat([%s])" % ", ".join(self.str_(d - 1, sc) for _ in range(r.randrange(1, 4)))
        if k < 0.55:
            return "split(%s, %s)[%s]" % (self.str_(d - 1, sc), lit_str(r.choice([",", ".", "", "ab", ":"])), r.choice(["0", "1", "-1", "5"]))
        if k < 0.7:
            return "(if %s then %s else %s)" % (self.bool_(d - 1, sc), self.str_(d - 1, sc), self.str_(d - 1, sc))
        if k < 0.85:
            return "(%s ? %s : %s)" % (self.bool_(d - 1, sc), self.str_(d - 1, sc), self.str_(d - 1, sc))
        if r.random() < 0.5:
            v = r.choice(["t", "s"])
            obj = r.choice(["request.target", "request.source", "request.listener", lit_str("z")])
            use = r.choice(["strcat([%s])" % v, "to_string(%s)" % v, "(if %s == %s then %s else %s)" % (v, lit_str("a.b:80"), v, lit_str("n")),
                            "(let u = %s in strcat([u, %s]))" % (v, v)])
            return "(let %s = %s in %s)" % (v, obj, use)
        return "strcat([request.target, %s, request.source])" % lit_str(":")


LITS = {"int": "7", "bool": "true", "str": '"s"', "arr": "[1,2]", "tup": '(1,"a")', "empty": "[]", "sarr": '["a"]', "req": "request", "tgt": "request.target"}


# witnesses of the recorded soundness holes (Coq: hole_* in C08Proofs.v / MiluSoundLet.v) and programs of the sound
# let fragment right next to them
HOLE_WITNESSES = [
    '(if false then (let a = 1 in let b = a+0 in b) else (let a = "s" in let b = a+0 in b)) + 1',
    'let h = [request.target][0] in h =~ "x"',
    'let t = (request.listener, 1) in let request = 5 in t.0 =~ "x"',
    '(let a = 1 in [a])[0]',
    'let a = 1 in a + 1',
    'let host = request.target.host in host == "x" || host =~ "y"',
    'let a = 2 in let b = a * 3 in let a = b + 1 in a + b',
]


def exhaustive(r):
    """every operator / builtin over every combination of literal operand kinds (depth 2)"""
    out = list(HOLE_WITNESSES)
    kinds = list(LITS.values())
    for op in c09.BIN:
        for a, b in itertools.product(kinds, kinds):
            out.append("%s %s %s" % (a, op, b))
    for u in c09.UN:
        for a in kinds:
            out.append("%s %s" % (u, a))
    for f in ["to_string", "to_integer", "split", "strcat", "cidr_match", "nosuch", "request", "Plus", "Index"]:
        out.append("%s()" % f)
        for a in kinds:
            out.append("%s(%s)" % (f, a))
            out.append("%s(%s, %s)" % (f, a, r.choice(kinds)))
        out.append("%s(1,2,3)" % f)
    for a in kinds:
        for ix in ["0", "1", "-1", "99", '"x"', "true", "[0]"]:
            out.append("%s[%s]" % (a, ix))
        for acc in ["0", "1", "5", "host", "port", "type", "target", "source", "listener", "nope"]:
            out.append("(%s).%s" % (a, acc))
        for b, c in itertools.product(kinds[:5], kinds[:5]):
            out.append("if %s then %s else %s" % (a, b, c))
        out.append("let x = %s in x" % a)
        out.append("let x = %s in x == x" % a)
        out.append("let x = %s in [x]" % a)
        out.append("(let x = %s in (x, 1)).0" % a)
        out.append("%s _: [%s]" % (a, a))
        out.append("%s _: %s" % (a, a))
    out += ["(let a = 1 in [a])[0]", "let a = 1 in let y = (a,2) in let a = \"s\" in y.0 + 1", "[[],[1]][1][0] =~ \"x\"",
            "let a = 1; a = \"x\" in a + 1", "let a = a in a", "let in 1", "let f = to_string in f(1)", "to_string(to_string)",
            "request.target.port == 80", "request.target.port == \"80\"", "request.target == \"a.b:80\"", "request.source.type == \"ipv4\"",
            "[request.target][0]", "[1, \"a\"]", "[[1],[\"a\"]]", "[[1],[]]", "[[],[1]]", "([], [])", "[1][0][0]", "1(2)", "(1)(2)", "\"f\"(1)",
            "9223372036854775807 + 1", "-9223372036854775807 - 2", "9223372036854775807 * 2", "-(-9223372036854775807 - 1)",
            "(-9223372036854775807 - 1) / -1", "(-9223372036854775807 - 1) % -1", "1 << 64", "1 << -1", "1 >> 64", "1 >>> 64", "5 / 0", "5 % 0",
            "[1,2,3][4294967296]", "[1,2,3][4294967297]", "[1,2,3][-4294967295]", "(1,2).4294967296", "(1,2).4294967297",
            "[1,2,3][-4]", "[1,2,3][3]", "[1,2,3][-9223372036854775807 - 1]", "[1][9223372036854775807]",
            "to_integer(\"9223372036854775808\")", "to_integer(\"\")", "to_integer(\"-\")", "to_integer(\" 1\")",
            "\"a\" =~ \"(\"", "\"a\" =~ \"[\"", "\"a\" =~ \"a{1000000000}\"", "split(\"\", \"\")", "split(\"a\", \"a\")", "strcat([])", "strcat([1])",
            "true && 1", "1 && true", "false && (1/0 == 1)", "true || (1/0 == 1)", "false xor (1/0 == 1)", "if true then 1 else 1/0",
            "1 _: []", "[] _: [[]]", "(1,2) == (1,2)", "[1] == [1]", "request == request"]
    for op in ("<<", ">>", ">>>"):
        for amt in ("63", "64", "65", "4294967295", "4294967296", "4294967297", "4294967359", "4294967360", "8589934595", "0x7fffffff00000000", "(1 << 32)", "(1 << 32) + 5", "-4294967296",
                    "9223372036854775807", "(-9223372036854775807 - 1)", "request.target.port << 26"):
            for lhs in ("1", "-1", "request.target.port", "9223372036854775807"):
                out.append("%s %s %s" % (lhs, op, amt))
                out.append("(%s %s %s) == %s" % (lhs, op, amt, lhs))
    return out


REQS = [
    ("6c", "63", "tcp", "40a000001:1234", "D" + b"example.com".hex() + ":443"),
    ("-", "-", "udp", "47f000001:0", "401020304:65535"),
    (b"http".hex(), "-", "tcp", "6" + (bytes(15) + b"\x01").hex() + ":65535", "6" + bytes.fromhex("20010db8000000000000000000000001").hex() + ":0"),
    (("x" * 70000).encode().hex(), b"direct".hex(), "udpbind", "4c0a80001:53", "D:0"),
    ("-", "-", "tcp", "400000000:0", "U"),
]


def known_class(src, in_sound_let_fragment=False):
    """classes of the recorded soundness holes.  A program with `let` inside the fragment wf_sl of
    soundness_scalar_let belongs to none of them: for it the theorem says the failure cannot happen"""
    tags = []
    if "[]" in src.replace(" ", ""):
        tags.append("C08-any-empty-array")
    if "let" in src and not in_sound_let_fragment:
        if "[" in src or "," in src:
            tags.append("C08-lazy-aggregate-scope")
        tags.append("C08-let-outside-sound-fragment")
    return tags


_LIT2 = re.compile(r"^\s*(-?\s*\d+|\(-9223372036854775807 - 1\))\s*(\+|-|\*|/|%|&|\||\^|<<|>>>|>>)\s*(-?\d+|0x[0-9a-fA-F]+|\(-9223372036854775807 - 1\))\s*$")


def documented_value(src):
    """the documented result of `<integer literal> <operator> <integer literal>` on 64-bit signed integers, computed
    here independently of the model: '(int n)' or 'ERR:arith' (overflow, division by zero, shift amount outside 0..63);
    None for any other program"""
    m = _LIT2.match(src)
    if not m:
        return None
    def lit(t):
        t = t.replace(" ", "")
        if t == "(-9223372036854775807-1)":
            return -(1 << 63)
        return int(t, 16) if t.startswith("0x") else int(t)
    a, op, b = lit(m.group(1)), m.group(2), lit(m.group(3))
    lo, hi = -(1 << 63), (1 << 63) - 1
    if not (lo <= a <= hi and lo <= b <= hi):
        return None
    if op in ("<<", ">>", ">>>"):
        if not 0 <= b <= 63:
            return "ERR:arith"
        if op == "<<":
            v = (a << b) & ((1 << 64) - 1)
            v = v - (1 << 64) if v >> 63 else v
            return "(int %d)" % v if (v >> b) == a else None        # a shift that drops set bits: left to the model comparison
        if op == ">>":
            return "(int %d)" % (a >> b)
        return "(int %d)" % ((a & ((1 << 64) - 1)) >> b if b else a)
    if op in ("/", "%"):
        if b == 0 or (a == lo and b == -1):
            return "ERR:arith"
        q = abs(a) // abs(b) * (1 if (a < 0) == (b < 0) else -1)
        return "(int %d)" % (q if op == "/" else a - q * b)
    v = {"+": a + b, "-": a - b, "*": a * b, "&": a & b, "|": a | b, "^": a ^ b}[op]
    return "(int %d)" % v if lo <= v <= hi else "ERR:arith"


def run(tier, seed, replay=None):
    rep = Report("C08", tier, seed)
    coq, model, driver, blog = standard_setup("C08")
    proof_coverage(rep, coq, ["oracles (Section variables of MiluEval.v): the regex crate, IpAddr/AnyIpCidr text parsing; the runner supplies literal-pattern and IPv4 instances and marks the rest opaque"])
    broken = handle_coq_result(rep, coq)
    if driver is None:
        rep.coverage.update({"evaluations": 0, "distinct_nontrivial": 0})
        rep.broken_obligation("correspondence C08: hook-built driver does not build from /repo", blog[-3000:])
        return rep.finish()
    r = rng(seed, "C08")
    texts = run_impl(driver, ["req_texts %s %s %s" % (q[2], q[3], q[4]) for q in REQS], shards=1)
    if replay:
        cases = [(c["kind"], c["line"], c["meta"]) for c in json.load(open(replay)).get("cases", [])]
    else:
        srcs = []
        g = G(r)
        n = 3000 if tier == "thorough" else 700
        for _ in range(n):
            d = r.choice([1, 2, 2, 3, 3, 4])
            t = r.choice(["int", "bool", "bool", "str"])
            srcs.append(("typed", getattr(g, t + "_")(d, {})))
        for s in exhaustive(r):
            srcs.append(("exhaustive", s))
        for _ in range(1500 if tier == "thorough" else 300):
            t = c09.rand_tree(r, r.choice([2, 3, 4]))
            if not c09.bad_shape(t):
                srcs.append(("untyped", c09.join(c09.toks(t), lambda i: " ")))
        cases = []
        for kind, s in srcs:
            qi = r.randrange(len(REQS)) if kind != "exhaustive" else 0
            q = REQS[qi]
            line = "milu_eval %s %s %s %s %s %s %s" % (s.encode().hex() or "-", q[0], q[1], q[2], q[3], q[4], texts[qi])
            cases.append((kind, line, dict(src=s, req=qi)))
    seen, uniq = set(), []
    for c in cases:
        if c[1] not in seen:
            seen.add(c[1])
            uniq.append(c)
    cases = uniq
    lines = [c[1] for c in cases]
    impl, mod = run_pair(driver, model, lines)
    # which programs with `let` lie in the fragment wf_sl of the soundness theorem (MiluSoundLet.v)
    let_srcs = sorted({meta["src"] for (_, _, meta) in cases if "let" in meta["src"] and "`" not in meta["src"]})
    sl_out = run_model(model, ["milu_wfsl %s" % (s_.encode().hex() or "-") for s_ in let_srcs]) if let_srcs else []
    in_sl = {s_ for s_, o in zip(let_srcs, sl_out) if o == "SL"}
    dist, accepted, classes = {}, 0, {}
    for (kind, line, meta), oi, om in zip(cases, impl, mod):
        dist[kind] = dist.get(kind, 0) + 1
        src = meta["src"]
        bad = None
        if "PANIC" in oi or oi.startswith("CRASH"):
            bad = "checker or evaluator panicked: %s" % oi[:80]
        elif oi.startswith("T=") and not oi.startswith("T=ERR") and "RT=ERR" not in oi:
            accepted += 1
            v = oi.split(" V=", 1)[1] if " V=" in oi else ""
            rt = oi.split(" RT=")[1].split(" ")[0] if " RT=" in oi else ""
            classes[v.split(" ")[0][:8] if v.startswith("(") else v] = classes.get(v.split(" ")[0][:8] if v.startswith("(") else v, 0) + 1
            if v == "ERR:type":
                bad = "accepted with type %s but evaluation fails with a type error" % rt
            elif v.startswith("("):
                want = {"integer": "(int", "boolean": "(bool", "string": "(str"}.get(rt)
                if rt.startswith("["):
                    want = "(arr"
                elif rt.startswith("("):
                    want = "(tup"
                if want and not v.startswith(want):
                    bad = "accepted with type %s but evaluates to %s" % (rt, v[:40])
        doc = documented_value(src) if not bad and oi.startswith("T=integer") and " V=" in oi else None
        if doc is not None:
            v_ = oi.split(" V=", 1)[1].strip()
            if v_ != doc:
                bad = "evaluates to %s, the documented 64-bit result is %s" % (v_[:40], doc)
        if bad:
            rep.fail("C08 oracle: %r: %s" % (src[:120], bad),
                     {"kind": "failing-input", "cases": [dict(kind=kind, line=line, meta=meta)], "source": src, "observed": oi, "model": om},
                     known_class(src, src in in_sl) if "panicked" not in bad else ())
    # link between the theorems' hypothesis wf_lf and what the parser produces: every parsed
    # program without `let` and without `[]` must pass the executable test wf_lfb
    lf = [(kind, meta["src"]) for (kind, line, meta), oi in zip(cases, impl)
          if oi != "SYNTAX" and "let" not in meta["src"] and "[]" not in meta["src"].replace(" ", "") and "`" not in meta["src"]]
    wf_out = run_model(model, ["milu_wf %s" % (s.encode().hex() or "-") for _, s in lf])
    n_wf = sum(1 for o in wf_out if o == "WF")
    rep.coverage["let_programs"] = len(let_srcs)
    rep.coverage["let_programs_in_sound_fragment"] = len(in_sl)
    not_wf = [s for (_, s), o in zip(lf, wf_out) if o == "NOT-WF"]
    if not_wf and not rep.violations:
        rep.broken_obligation("C08: a parsed let-free program is outside wf_lf, the hypothesis of the soundness theorems (%d programs)" % len(not_wf), not_wf[0])
    # to_string of a let-bound request object prints the object's debug form, which the model renders as an opaque
    # marker; the marker does not survive string functions applied to it (split, indexing), so such programs are
    # compared by the implementation-only oracle above and not with the model
    opaque_obj = re.compile(r"let\s+(\w+)\s*=\s*request\.(source|target)\s+in\s+to_string\(\1\)")
    n_diff, first = diff_stats(rep, cases, impl, mod, "C08", "", lossy=lambda meta: bool(opaque_obj.search(meta.get("src", ""))))
    if n_diff and not rep.violations:
        rep.broken_obligation("correspondence C08: checker/evaluator model (MiluEval.v) and the milu crate differ on %d program(s)" % n_diff, json.dumps(first)[:3000])
        rep.violations[-1][1]["cases"] = [dict(kind=first["kind"], line=first["line"], meta=first["meta"])]
    if broken and not rep.violations:
        rep.broken_obligation(broken[0], broken[1])
    rep.coverage.update({
        "evaluations": len(cases), "distinct_nontrivial": accepted,
        "rule": "typed generator (int/bool/string expressions over every operator, builtin, let/if/?:, indexing, membership, request.* and cidr_match, depth 1-4), every operator and builtin over every combination of literal operand kinds (depth-2 exhaustive, incl. ill-typed), untyped random trees, a list of edge programs (i64 extremes, shifts, indices, regexes); 5 requests incl. port 0/65535 and a 70 kB listener name; non-trivial = distinct program accepted by the checker",
        "input_distribution": dist, "accepted": accepted, "let_free_programs_in_wf_lf": n_wf, "let_free_programs_outside_wf_lf": len(not_wf), "value_classes": classes, "model_impl_disagreements": n_diff,
        "samples": [dict(source=cases[i][2]["src"][:100], impl=impl[i][:100]) for i in range(0, len(cases), max(1, len(cases) // 6))][:6],
    })
    rep.assumptions = ["regex crate and IP/CIDR text parsing are oracles", "template strings are outside the model"]
    return rep.finish()
