"""IPv6 destinations end to end (property C03): a client asks for [v6]:port - HTTP CONNECT with the bracketed literal, SOCKS5
with ATYP 4 - through an entry proxy whose connectors (direct, http, socks5, socks4, quic) lead to an exit proxy and on to an
echo origin that listens on the machine's global IPv6 address.  Through every connector that can carry an IPv6 destination
the origin must be reached at exactly that address; SOCKS4 cannot carry it and must refuse without contacting anything."""
import socket
import struct
import threading

import e2e
import relay_world as rw
from e2e import LOOP


def run(binary, v6, name="v6dest"):
    crt, key = rw.tls_material()
    srv = socket.socket(socket.AF_INET6)
    srv.bind((v6, 0))
    srv.listen(64)
    oport = srv.getsockname()[1]
    accepted = []

    def acc():
        while True:
            try:
                c, a = srv.accept()
            except OSError:
                return
            accepted.append(a)

            def h(c=c):
                try:
                    while True:
                        d = c.recv(4096)
                        if not d:
                            break
                        c.sendall(d)
                except OSError:
                    pass
                e2e.close_quiet(c)
            threading.Thread(target=h, daemon=True).start()
    threading.Thread(target=acc, daemon=True).start()
    p2l = {"http": e2e.free_port(), "socks": e2e.free_port(), "quic": e2e.free_port(socket.SOCK_DGRAM)}
    p2 = e2e.Proxy(binary, [{"name": "http", "bind": "%s:%d" % (LOOP, p2l["http"])}, {"name": "socks", "bind": "%s:%d" % (LOOP, p2l["socks"])},
                            {"name": "quic", "bind": "%s:%d" % (LOOP, p2l["quic"]), "tls": {"cert": crt, "key": key}}], [{"name": "direct"}], [{"target": "direct"}],
                   metrics=False, name=name + "-exit")
    conns = [{"name": "direct"}, {"name": "c_http", "type": "http", "server": LOOP, "port": p2l["http"]}, {"name": "c_socks", "type": "socks", "server": LOOP, "port": p2l["socks"]},
             {"name": "c_socks4", "type": "socks", "server": LOOP, "port": p2l["socks"], "version": 4},
             {"name": "c_quic", "type": "quic", "server": LOOP, "port": p2l["quic"], "tls": {"insecure": True}}]
    lps = {c["name"]: e2e.free_port() for c in conns}
    sps = {c["name"]: e2e.free_port() for c in conns}
    ls = [{"name": "l-" + n, "type": "http", "bind": "%s:%d" % (LOOP, p)} for n, p in lps.items()] + \
         [{"name": "s-" + n, "type": "socks", "bind": "%s:%d" % (LOOP, p)} for n, p in sps.items()]
    rules = [{"filter": "request.listener == \"l-%s\" || request.listener == \"s-%s\"" % (n, n), "target": n} for n in lps]
    p1 = e2e.Proxy(binary, ls, conns, rules, metrics=False, name=name + "-entry")
    out = []
    p2.start()
    try:
        p1.start()
        try:
            for n in lps:
                for client in ("http", "socks5"):
                    before = len(accepted)
                    est, echoed, reply = False, False, b""
                    try:
                        if client == "http":
                            c, head, extra = e2e.http_connect(lps[n], "[%s]:%d" % (v6, oport), timeout=4)
                            reply = head[:40]
                            est = head.startswith(b"HTTP/1.1 200")
                        else:
                            c = socket.create_connection((LOOP, sps[n]), timeout=4)
                            c.sendall(b"\x05\x01\x00")
                            e2e.recv_exact(c, 2)
                            c.sendall(b"\x05\x01\x00\x04" + socket.inet_pton(socket.AF_INET6, v6) + struct.pack(">H", oport))
                            reply = c.recv(100)
                            est = reply[:2] == b"\x05\x00"
                        if est:
                            c.sendall(b"ping6")
                            echoed = e2e.recv_exact(c, 5, timeout=3) == b"ping6"
                        e2e.close_quiet(c)
                    except OSError as e:
                        reply = str(e).encode()
                    out.append(dict(client=client, connector=n, established=est, echoed=echoed, origin_contacts=len(accepted) - before, reply=reply.hex()[:80]))
            alive = p1.alive() and p2.alive()
        finally:
            p1.stop()
    finally:
        p2.stop()
        try:
            srv.close()
        except OSError:
            pass
        import shutil
        shutil.rmtree(p1.dir, ignore_errors=True)
        shutil.rmtree(p2.dir, ignore_errors=True)
    return out, alive
