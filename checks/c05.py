"""C05 — no remote input can crash or wedge the proxy (decoder level).
Proof: Props/C05.v — crash-freedom of every reader program under every segmentation, totality of
the buffer decoders, fragments never panic, and the panic-site inventory regenerated from the
source equals the audited one (Gen_panics.v vs PanicSites.v).
Tie: hostile inputs through every real decoder (hook-built driver) vs the extracted model; the
oracle is 'no panic, no hang'."""
import json
import time

from common import *
from codec_cases import *


def mutate(r, msg):
    m = bytearray(msg)
    k = r.randrange(6)
    if not m:
        return bytes([r.randrange(256)])
    if k == 0:
        m[r.randrange(len(m))] = r.choice([0, 1, 2, 3, 4, 5, 0x7f, 0x80, 0xff, r.randrange(256)])
    elif k == 1:
        del m[r.randrange(len(m)):]
    elif k == 2:
        i = r.randrange(len(m) + 1)
        m[i:i] = bytes(r.randrange(256) for _ in range(r.randrange(1, 5)))
    elif k == 3:
        i = r.randrange(len(m))
        del m[i:i + r.randrange(1, 4)]
    elif k == 4:
        i = r.randrange(len(m))
        m[i] = (m[i] + r.choice([1, 255, 128])) & 255
    else:
        m += bytes(r.randrange(256) for _ in range(r.randrange(1, 9)))
    return bytes(m)


READERS = ["socks_req_read 0", "socks_req_read 1", "socks_resp_read", "http_req_read", "http_resp_read", "frame_stream"]
BUFOPS = ["frame_decode", "udp_decode", "target_parse"]


def gen(r, tier):
    cases = []
    scale = 4 if tier == "thorough" else 1
    # 1. random byte strings into everything
    for _ in range(300 * scale):
        b = bytes(r.randrange(256) for _ in range(r.choice([0, 1, 2, 3, 4, 5, 8, 12, 13, 20, 40, 64])))
        op = r.choice(READERS)
        cases.append(("rand", "%s %s" % (op, chunks_arg(segment(b, rand_cuts(r, len(b))))), dict(op=op)))
        op = r.choice(BUFOPS)
        cases.append(("rand", "%s %s" % (op, hx(b)), dict(op=op)))
    # 2. protocol-shaped prefixes with hostile length / type bytes
    for ver in (4, 5):
        for b1 in (0, 1, 2, 3, 255):
            for b2 in (0, 1, 2, 3, 4, 5, 255):
                for tail in (b"", b"\x00", bytes(300), b"\xff" * 20):
                    m = bytes([ver, b1, b2]) + tail
                    cases.append(("shape", "socks_req_read %d %s" % (r.randrange(2), hx(m)), dict(op="socks_req_read")))
    for b0 in (0, 5, 4, 1, 255):
        for atyp in (0, 1, 2, 3, 4, 5, 255):
            for tail in (b"", b"\x00", b"\xff" + bytes(300), bytes(range(40))):
                m = bytes([b0, 0, 0, atyp]) + tail
                cases.append(("shape", "socks_resp_read %s" % hx(m), dict(op="socks_resp_read")))
                cases.append(("shape", "udp_decode %s" % hx(m), dict(op="udp_decode")))
    for alen in (0, 1, 2, 7, 8, 9, 20, 255, 256, 65535):
        for blen in (0, 1, 65535):
            for tag in (0, 1, 2, 3, 4, 255):
                for l in (0, 1, 2, 6, 18, 255):
                    attr = (bytes([tag, l]) + bytes(range(30)))[:min(alen, 32)]
                    m = b"RPFM" + bytes(4) + alen.to_bytes(2, "big") + blen.to_bytes(2, "big") + attr
                    cases.append(("shape", "frame_decode %s" % hx(m), dict(op="frame_decode")))
                    if alen <= 32 and blen <= 1:
                        full = m + bytes(alen - len(attr)) + bytes(blen)
                        cases.append(("shape", "frame_decode %s" % hx(full), dict(op="frame_decode")))
                        cases.append(("shape", "frame_stream %s" % chunks_arg(segment(full + full[:5], rand_cuts(r, len(full) + 5))), dict(op="frame_stream")))
    # 3. mutated valid messages, segmented
    msgs = valid_messages(r, tier)
    for op, msg, label in msgs:
        for _ in range(12 * scale):
            m = mutate(r, msg)
            if r.random() < 0.3:
                m = mutate(r, m)
            cases.append(("mut", "%s %s" % (op, chunks_arg(segment(m, rand_cuts(r, len(m))))), dict(op=op.split()[0], label=label)))
    for seq in frame_sequences(r, tier):
        for _ in range(6 * scale):
            m = mutate(r, seq)
            cases.append(("mut", "frame_stream %s" % chunks_arg(segment(m, rand_cuts(r, len(m)))), dict(op="frame_stream")))
            cases.append(("mut", "frame_decode %s" % hx(m), dict(op="frame_decode")))
    # 4. HTTP heads: hostile status lines, header shapes, lengths
    lines = [b"", b"\r\n", b"\n", b" ", b"HTTP/1.1", b"HTTP/1.1 ", b"HTTP/1.1 200", b"HTTP/1.1 200 ", b"HTTP/1.1  200 OK", b"HTTP/1.1 99999 x",
             b"HTTP/1.1 -1 x", b"HTTP/1.1 +200 x", b"HTTP/1.1 2e2 x", b"HTTP/ 200 x", b"http/1.1 200 x", b"HTTP/1.1\t200\tOK", b"\xff\xfe 200 OK",
             b"HTTP/1.1 200 OK\r\nSession-Id: x", b"HTTP/1.1 200 OK\r\nSession-Id: 99999999999", b"HTTP/1.1 200 OK\r\nSession-Id: -1",
             b"HTTP/1.1 200 OK\r\nSession-Id:", b"HTTP/1.1 200 OK\r\nNoColon", b"HTTP/1.1 200 OK\r\n: v", b"HTTP/1.1 200 OK\r\nK: ",
             b"GET", b"GET /", b"GET / HTTP/1.1 x", b"GET  /  HTTP/1.1", b"CONNECT a:1 HTTP/1.1", b"CONNECT \x00 HTTP/1.1", b"A B HTTP/" + b"9" * 70000,
             b"X" * 65534, b"X" * 65535, b"X" * 65536, b"X" * 65537, b"\xc2\x85 / HTTP/1.1", b"GET / HTTP/1.1\xe2\x80\xa8"]
    for l in lines:
        for end in (b"\r\n\r\n", b"\n\n", b"\r\n", b"", b"\r\nA: b\r\n\r\n"):
            m = l + end
            for op in ("http_req_read", "http_resp_read"):
                cases.append(("http", "%s %s" % (op, chunks_arg(segment(m, rand_cuts(r, len(m), 2)))), dict(op=op)))
            cases.append(("http", "connect_write %s %s" % (tgt_domain(b"a.b", 80), hx(m)), dict(op="connect_write")))
            cases.append(("http", "connect_write %s %s udp" % (tgt_domain(b"a.b", 80), hx(m)), dict(op="connect_write_udp")))
    many = b"GET / HTTP/1.1\r\n" + b"".join(b"H%d: v\r\n" % i for i in range(300)) + b"\r\n"
    cases.append(("http", "http_req_read %s" % hx(many), dict(op="http_req_read")))
    # 5. upstream replies to the SOCKS connector
    for _ in range(120 * scale):
        rep = bytes(r.choice([0, 1, 2, 5, 255, r.randrange(256)]) for _ in range(r.randrange(0, 14)))
        auth = r.choice(["none", "%s/%s" % (hx(b"u"), hx(b"p"))])
        cases.append(("upstream", "socks_req_write 5 1 %s %s %s" % (tgt_domain(b"a.b", 80), auth, chunks_arg(segment(rep, rand_cuts(r, len(rep), 2)))), dict(op="socks_req_write")))
    for m in (b"\x05\x02", b"\x05\x02\x01\x00", b"\x05\x02\x01\x01", b"\x05\xff", b"\x05", b"", b"\x04\x00", b"\x05\x00", b"\x05\x01"):
        for auth in ("none", "%s/%s" % (hx(b"u"), hx(b"p")), "%s/%s" % (hx(b"u" * 300), hx(b"p"))):
            cases.append(("upstream", "socks_req_write 5 1 %s %s %s" % (tgt_domain(b"a.b", 80), auth, hx(m)), dict(op="socks_req_write")))
    # 6. QUIC datagram fragments carrying frames: garbage through reassembly + Frame::from_buffer
    for _ in range(150 * scale):
        ops = []
        for _ in range(r.randrange(1, 6)):
            if r.random() < 0.5:
                body = rpfm_msg(r.randrange(1 << 32), r.choice([None, ("domain", b"a.b", 80), ("v4", b"\x01\x02\x03\x04", 1)]), b"xy")
                if r.random() < 0.5:
                    body = mutate(r, body)
                k = r.randrange(1, 4)
                cut = max(1, len(body) // k)
                pieces = [body[i:i + cut] for i in range(0, len(body), cut)]
                idv = r.randrange(4)
                for i, pc in enumerate(pieces):
                    ops.append("r" + hx(bytes([0, idv, len(pieces), i]) + pc))
            else:
                ops.append("r" + hx(bytes(r.randrange(256) for _ in range(r.randrange(0, 10)))))
            if r.random() < 0.1:
                ops.append("t")
        r.shuffle(ops)
        cases.append(("fragframe", "frag_seq frame %s %s" % (r.choice("lz"), ",".join(ops)), dict(op="frag_seq")))
    # 7. every boundary of the 4-byte fragment header (id, total, seq): as the first fragment of its id, and against an
    #    entry that already exists for that id (with the same and with a different total)
    edge = [0, 1, 2, 3, 63, 64, 65, 126, 127, 128, 129, 254, 255]
    for total in edge:
        for seq in sorted(set([0, 1, total - 1, total, total + 1, 126, 127, 128, 255]) & set(range(256))):
            for body in (b"", b"x", rpfm_msg(7, ("v4", b"\x01\x02\x03\x04", 1), b"xy")):
                h = bytes([0, 9, total, seq]) + body
                cases.append(("fraghdr", "frag_seq frame l r%s" % hx(h), dict(op="frag_seq")))
                for t0 in (2, 3, 127):
                    first = bytes([0, 9, t0, 0]) + b"ab"
                    cases.append(("fraghdr", "frag_seq frame l r%s,r%s,r%s" % (hx(first), hx(h), hx(bytes([0, 9, t0, 1]) + b"cd")), dict(op="frag_seq")))
    return cases


def run(tier, seed, replay=None):
    rep = Report("C05", tier, seed)
    coq, model, driver, blog = standard_setup("C05")
    proof_coverage(rep, coq, ["translator gen/translate.py (panic-site inventory, Cargo profile)"])
    broken = handle_coq_result(rep, coq)
    if driver is None:
        rep.coverage.update({"evaluations": 0, "distinct_nontrivial": 0})
        rep.broken_obligation("correspondence C05: hook-built driver does not build from /repo", blog[-3000:])
        return rep.finish()
    r = rng(seed, "C05")
    if replay:
        cases = [(c["kind"], c["line"], c["meta"]) for c in json.load(open(replay)).get("cases", [])]
    else:
        cases = gen(r, tier)
    lines = [c[1] for c in cases]
    impl, mod = run_pair(driver, model, lines)
    dist, classes = {}, set()
    for (kind, line, meta), oi, om in zip(cases, impl, mod):
        dist[kind + ":" + meta["op"]] = dist.get(kind + ":" + meta["op"], 0) + 1
        if oi.startswith("PANIC") or oi.startswith("CRASH"):
            rep.fail("C05 oracle: %s on peer-controlled input: %s" % ("decoder panicked" if oi.startswith("PANIC") else "driver died or hung", oi[:120]),
                     {"kind": "failing-input", "cases": [dict(kind=kind, line=line, meta=meta)], "observed": oi, "model": om})
        classes.add((meta["op"], oi.split(" ")[0][:3], line))
    n_diff, first = diff_stats(rep, cases, impl, mod, "C05", "")
    if tier == "thorough" and not replay:
        drv_dbg, _ = ensure_driver("debug")
        if drv_dbg:
            impl_d = run_impl(drv_dbg, lines)
            mod_d = run_model(model, lines, "debug")
            for (kind, line, meta), oi, om in zip(cases, impl_d, mod_d):
                if oi.startswith("PANIC") or oi.startswith("CRASH"):
                    rep.fail("C05 oracle (overflow-checked build): decoder panicked: " + oi[:120],
                             {"kind": "failing-input", "cases": [dict(kind=kind, line=line, meta=meta)], "observed": oi, "arith": "debug"})
            rep.coverage["debug_arithmetic_cases"] = len(lines)
    if n_diff and not rep.violations:
        rep.broken_obligation("correspondence C05: decoder models and the implementation differ on %d hostile input(s)" % n_diff, json.dumps(first))
        rep.violations[-1][1]["cases"] = [dict(kind=first["kind"], line=first["line"], meta=first["meta"])]
    if broken and not rep.violations:
        detail = broken[1]
        if "sites_fingerprint" in coq.get("log", "") or "C05Proofs" in coq.get("log", ""):
            detail += "\n" + site_diff()
        rep.broken_obligation(broken[0] + " (no panicking input found among %d hostile inputs)" % len(cases), detail)
    fd = None
    if not replay:
        fd = fd_exhaustion(rep, driver)
    rep.coverage.update({
        "evaluations": len(cases) + (fd or 0), "distinct_nontrivial": len(set(l for _, _, l in classes)),
        "rule": "random byte strings, protocol-shaped prefixes with every hostile length/type byte, mutated valid messages (flip, truncate, insert, delete, extend) under random segmentation, hostile HTTP status/header lines incl. Session-Id values and 64 KiB boundary lines, hostile upstream replies to the SOCKS5 connector, garbage fragments through reassembly + Frame::from_buffer, every boundary value of the fragment header (total x seq x first-of-its-id / existing entry with the same or another total); every case is non-trivial (distinct hostile input); classes counted by (decoder, outcome)",
        "input_distribution": dist, "outcome_classes": len(set((a, b) for a, b, _ in classes)),
        "model_impl_disagreements": n_diff,
        "panic_sites_audited": len(open(os.path.join(COQ, "theories", "Gen", "Gen_panics.v")).read().split('";')),
        "samples": [dict(case=cases[i][1][:160], impl=impl[i][:100], model=mod[i][:100]) for i in range(0, len(cases), max(1, len(cases) // 6))][:6],
    })
    rep.assumptions = ["a panic is process death: Cargo.toml sets panic='abort' for both profiles (Gen_profile.v, re-read every run)",
                       "the driver build overrides panic to 'unwind' only so that it can report the panic site",
                       "resource exhaustion by connection count: one scenario (descriptor limit 200, 150 clients per listener, both I/O modes); memory exhaustion is not exercised",
                       "tproxy listener (needs CAP_NET_ADMIN) is not exercised"]
    return rep.finish()


def fd_exhaustion(rep, driver):
    """more clients than the descriptor limit allows, on every TCP listener kind and in both I/O modes; afterwards the
    process must be alive and every listener must serve a new client (a remote party must not be able to wedge it)"""
    import e2e
    import socket
    from e2e import LOOP
    n = 0
    org = e2e.Server(e2e.echo_handler)
    try:
        for splice in (True, False):
            lp = {"http": e2e.free_port(), "socks": e2e.free_port(), "rev": e2e.free_port()}
            listeners = [{"name": "http", "bind": "%s:%d" % (LOOP, lp["http"])}, {"name": "socks", "bind": "%s:%d" % (LOOP, lp["socks"])},
                         {"name": "rev", "type": "reverse", "bind": "%s:%d" % (LOOP, lp["rev"]), "target": "%s:%d" % (LOOP, org.port)}]
            p = e2e.Proxy(driver, listeners, [{"name": "direct"}], [{"target": "direct"}], io={"useSplice": splice, "bufferSize": 65536}, metrics=False, name="c05-fd", nofile=200)
            p.start()
            held = []
            try:
                for kind in ("http", "socks", "rev"):
                    misses = 0
                    for _ in range(150):
                        if misses >= 6:
                            break              # the limit is reached: further clients are not accepted
                        try:
                            if kind == "http":
                                c, head, extra = e2e.http_connect(lp["http"], "%s:%d" % (LOOP, org.port), timeout=1.0)
                            elif kind == "socks":
                                c, sel, rp_ = e2e.socks5_connect(lp["socks"], LOOP, org.port, timeout=1.0)
                            else:
                                c = socket.create_connection((LOOP, lp["rev"]), timeout=1.0)
                            held.append(c)
                            misses = 0
                        except OSError:
                            misses += 1
                        if not p.alive():
                            break
                    for c in held:
                        e2e.close_quiet(c)
                    held = []
                    time.sleep(1.2)
                    n += 1
                    what = "%s listener, splice=%s, descriptor limit 200, 150 clients then all closed" % (kind, splice)
                    if not p.alive():
                        rep.fail("C05: %s: the process died (exit %s)" % (what, p.proc.poll()), {"kind": "failing-input", "scenario": what})
                        break
                    ok = False
                    for _ in range(3):
                        try:
                            if kind == "http":
                                c, head, extra = e2e.http_connect(lp["http"], "%s:%d" % (LOOP, org.port), timeout=3.0)
                                ok = head.startswith(b"HTTP/1.1 200")
                            elif kind == "socks":
                                c, sel, rp_ = e2e.socks5_connect(lp["socks"], LOOP, org.port, timeout=3.0)
                                ok = rp_[:2] == b"\x05\x00"
                            else:
                                c = socket.create_connection((LOOP, lp["rev"]), timeout=3.0)
                                c.sendall(b"ping")
                                ok = e2e.recv_exact(c, 4, timeout=3.0) == b"ping"
                            e2e.close_quiet(c)
                        except OSError:
                            ok = False
                        if ok:
                            break
                        time.sleep(0.5)
                    if not ok:
                        rep.fail("C05: %s: the listener no longer serves new clients although the process is running" % what, {"kind": "failing-input", "scenario": what})
            finally:
                for c in held:
                    e2e.close_quiet(c)
                p.stop()
                import shutil
                shutil.rmtree(p.dir, ignore_errors=True)
    finally:
        org.close()
    return n


def site_diff():
    import re as _re
    gen = _re.findall(r'"([^"]+)"', open(os.path.join(COQ, "theories", "Gen", "Gen_panics.v")).read())
    exp = _re.findall(r'\("([^"]+)",', open(os.path.join(COQ, "theories", "PanicSites.v")).read())
    new = [s for s in gen if s not in exp]
    gone = [s for s in exp if s not in gen]
    return "panic-site inventory changed: new sites %s; vanished sites %s" % (new[:10], gone[:10])
