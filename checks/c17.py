"""C17 — load-balancer selection laws.
Proof: Props/C17.v (Lb.v): fairness of round robin on every k*n window and under every
interleaving of the atomic counter, membership, stickiness, possibility for random.
Tie: the real LoadBalanceConnector (built from YAML by connectors::from_value, init, verify)
in front of recording members, driven sequentially and from concurrent tasks; the laws are
checked on the observed selections; the recorded connector must be the member whose connect ran."""
import collections
import json

from common import *
import c02

h = c02.h


def lb_yaml(members, algo=None):
    y = "name: lb\ntype: loadbalance\nconnectors: [%s]\n" % ", ".join(members)
    if algo:
        y += "algorithm: %s\n" % algo
    return y


def run(tier, seed, replay=None):
    rep = Report("C17", tier, seed)
    coq, model, driver, blog = standard_setup("C17")
    proof_coverage(rep, coq, ["DefaultHasher and thread_rng are parameters of the model (hash, choice)"])
    broken = handle_coq_result(rep, coq)
    if driver is None:
        rep.coverage.update({"evaluations": 0, "distinct_nontrivial": 0})
        rep.broken_obligation("correspondence C17: hook-built driver does not build from /repo", blog[-3000:])
        return rep.finish()
    r = rng(seed, "C17")
    names = ["m%d" % i for i in range(8)]
    conns_all = ",".join("%s:t:ok" % h(n) for n in names) + "," + ",".join("%s:t:err" % h(n) for n in ("down0", "down1"))
    q = c02.REQ_POOL[0]
    cases = []
    for n in range(1, 8):
        members = names[:n]
        if n >= 3 and r.random() < 0.5:
            members = members[:-1] + [members[0]]          # a duplicate entry
        for k in ([1, 2, 5] if tier == "quick" else [1, 2, 3, 5, 11]):
            cases.append(dict(kind="rr-seq", members=members, count=k * len(members), tasks=1, algo=None, targets=[q[2]]))
        for tasks in ([4, 16] if tier == "quick" else [2, 4, 8, 16, 32]):
            cases.append(dict(kind="rr-conc", members=members, count=6 * len(members), tasks=tasks, algo=None, targets=[q[2]]))
            cases.append(dict(kind="rr-conc", members=members, count=(400 if tier == "quick" else 2000) * len(members), tasks=tasks, algo=None, targets=[q[2]]))
        # a window that does not start at ticket 0: two runs on the same instance are not possible per op,
        # so offset windows are covered by k>1 (any k*n sub-window of the sequence is checked below)
        keys = ["request.target.host", "request.source.host", "to_string(request.target.port)", "strcat([request.listener, request.target.host])"]
        tg = ["D%s:%d" % (("host%d.example" % i).encode().hex(), 80 + i % 3) for i in range(6)]
        cases.append(dict(kind="hash", members=members, count=24, tasks=1, algo="{hashBy: '%s'}" % r.choice(keys), targets=tg))
        if n >= 2:
            # the key is the request's target itself: the same destination text in its two internal forms (socket address
            # / host name that happens to be an IP literal) is the same key value
            tg2 = []
            for i in range(8):
                ip = "10.%d.0.%d" % (i, 7 + i)
                port = 443 + i
                tg2.append("4%s:%d" % ("".join("%02x" % int(x) for x in ip.split(".")), port))
                tg2.append("D%s:%d" % (ip.encode().hex(), port))
            cases.append(dict(kind="hash-obj", members=members, count=32, tasks=1, algo="{hashBy: 'request.target'}", targets=tg2))
        cases.append(dict(kind="random", members=members, count=60 * len(members) if tier == "quick" else 200 * len(members), tasks=1, algo="random", targets=[q[2]]))
    # the member actually used is the one recorded - also when the member is itself a balancer (the record names the
    # connector that opened the connection, not a balancer on the way) and when the member's connect fails
    def inner_yaml(name, members, algo=None):
        return lb_yaml(members, algo).replace("name: lb\n", "name: %s\n" % name)
    cases.append(dict(kind="nested", members=["east", "m2"], count=12, tasks=1, algo=None, targets=[q[2]], inner=[inner_yaml("east", ["m0", "m1"])], leaves=["m0", "m1", "m2"]))
    cases.append(dict(kind="nested", members=["east", "west"], count=16, tasks=4, algo=None, targets=[q[2]],
                      inner=[inner_yaml("east", ["m0", "m1"]), inner_yaml("west", ["deep", "m3"]), inner_yaml("deep", ["m4"], "random")], leaves=["m0", "m1", "m3", "m4"]))
    cases.append(dict(kind="failing-member", members=["m0", "down0", "m1"], count=9, tasks=1, algo=None, targets=[q[2]], leaves=["m0", "down0", "m1"]))
    cases.append(dict(kind="failing-member", members=["down0", "down1"], count=6, tasks=1, algo="random", targets=[q[2]], leaves=["down0", "down1"]))
    cases.append(dict(kind="failing-member", members=["east", "m2"], count=8, tasks=1, algo=None, targets=[q[2]], inner=[inner_yaml("east", ["down0", "m1"])], leaves=["down0", "m1", "m2"]))
    cases.append(dict(kind="bad-empty", members=[], count=1, tasks=1, algo=None, targets=[q[2]]))
    cases.append(dict(kind="bad-unknown", members=["m0", "zz"], count=1, tasks=1, algo=None, targets=[q[2]]))
    cases.append(dict(kind="bad-key-type", members=["m0"], count=1, tasks=1, algo="{hashBy: 'request.target.port'}", targets=[q[2]]))
    if replay:
        cases = json.load(open(replay)).get("scenarios", cases)
    lines = ["lb_seq %s %s %d %d %s %s %s t%s" % (h(lb_yaml(c["members"], c["algo"])), conns_all, c["count"], c["tasks"], h(q[0]), q[1], ",".join(c["targets"]),
                                                  (" " + ",".join(h(y) for y in c["inner"])) if c.get("inner") else "")
             for c in cases]
    impl = run_impl(driver, lines)
    # tight-loop stress of the atomic counter: every member exactly per*tasks/n times
    stress = []
    for n in (2, 3, 5, 7):
        per = (3000 if tier == "quick" else 20000) * n
        stress.append((n, per, 16, "lb_stress %s %s %d 16" % (h(lb_yaml(names[:n])), conns_all, per)))
    sres = run_impl(driver, [s[3] for s in stress], shards=1, timeout=600)
    for (n, per, tasks, _), o in zip(stress, sres):
        counts = dict((bytes.fromhex(kv.split("=")[0]).decode(), int(kv.split("=")[1])) for kv in o.split(",")) if "=" in o else {}
        want = per * tasks // n
        if counts != {m: want for m in names[:n]}:
            rep.fail("C17 oracle: %d tasks x %d tight-loop selections over %d members: counts %s, each member should get %d" % (tasks, per, n, counts or o[:80], want),
                     {"kind": "failing-input", "scenarios": [dict(kind="stress", n=n, per=per, tasks=tasks)], "observed": o[:300]})
    dist, nt = {}, 0
    for c, line, oi in zip(cases, lines, impl):
        dist[c["kind"]] = dist.get(c["kind"], 0) + 1
        bad = None
        if "PANIC" in oi or oi.startswith("CRASH"):
            bad = "load balancer panicked: " + oi[:100]
        elif c["kind"].startswith("bad-"):
            if not oi.startswith("LB-"):
                bad = "invalid load balancer configuration accepted: " + oi[:100]
        elif oi.startswith("LB-"):
            bad = "valid load balancer rejected: " + oi
        else:
            picks = [bytes.fromhex(p).decode() if "MISMATCH" not in p else p for p in oi.split(",")]
            nt += 1
            n = len(c["members"])
            if any("MISMATCH" in p for p in picks):
                bad = "recorded connector differs from the member whose connect() ran: " + [p for p in picks if "MISMATCH" in p][0]
            elif any(p not in c.get("leaves", c["members"]) for p in picks):
                bad = "selected a connector that is not a member: %s" % [p for p in picks if p not in c["members"]][:2]
            elif len(picks) != c["count"]:
                bad = "%d selections for %d requests" % (len(picks), c["count"])
            elif c["kind"] == "rr-seq":
                # every window of n consecutive selections is exactly the member list rotated
                for s in range(0, len(picks) - n + 1):
                    if collections.Counter(picks[s:s + n]) != collections.Counter(c["members"]):
                        bad = "round robin window at %d is %s" % (s, picks[s:s + n])
                        break
            elif c["kind"] == "rr-conc":
                want = collections.Counter()
                for m in c["members"]:
                    want[m] += c["count"] // n
                if collections.Counter(picks) != want:
                    bad = "concurrent round robin counts %s, expected %s" % (dict(collections.Counter(picks)), dict(want))
            elif c["kind"] == "hash":
                by_target = {}
                for i, p in enumerate(picks):
                    t = c["targets"][i % len(c["targets"])]
                    key = t if "host" in c["algo"] and "port" not in c["algo"] else t
                    by_target.setdefault(key, set()).add(p)
                if any(len(v) > 1 for v in by_target.values()):
                    bad = "hash-by: the same request key was sent to different members: %s" % {k[:20]: sorted(v) for k, v in by_target.items() if len(v) > 1}
            elif c["kind"] == "hash-obj":
                by_key = {}
                for i, p in enumerate(picks):
                    t = c["targets"][i % len(c["targets"])]
                    hostpart, port = t[1:].rsplit(":", 1)
                    text = (".".join(str(int(hostpart[j:j + 2], 16)) for j in range(0, 8, 2)) if t[0] == "4" else bytes.fromhex(hostpart).decode()) + ":" + port
                    by_key.setdefault(text, set()).add(p)
                if any(len(v) > 1 for v in by_key.values()):
                    bad = "hash-by request.target: requests whose key evaluates to the same text were sent to different members: %s" % {k: sorted(v) for k, v in by_key.items() if len(v) > 1}
            elif c["kind"] == "random":
                if set(picks) != set(c["members"]):
                    bad = "random never selected %s in %d draws" % (sorted(set(c["members"]) - set(picks)), len(picks))
        if bad:
            rep.fail("C17 oracle: " + bad, {"kind": "failing-input", "scenarios": [c], "observed": oi[:400]})
    if broken and not rep.violations:
        rep.broken_obligation(broken[0], broken[1])
    rep.coverage.update({
        "evaluations": sum(c["count"] for c in cases), "distinct_nontrivial": nt,
        "rule": "member lists of 1-7 entries (with duplicates), round robin over k*n sequential selections (every n-window checked), balancers nested two and three deep and members whose connect fails (the record must name the connector whose connect ran), 6n and 400n (2000n thorough) selections from 2-32 concurrent tasks (multiset checked), hash-by over 4 key expressions x 6 requests x 4 repetitions, random with >= 60n draws, three invalid configurations; non-trivial = scenario that produced selections",
        "input_distribution": dist,
        "samples": [dict(kind=cases[i]["kind"], members=cases[i]["members"], observed=impl[i][:120]) for i in range(0, len(cases), max(1, len(cases) // 5))][:5],
        "traces_validated_against_impl": nt,
    })
    rep.assumptions = ["AtomicUsize::fetch_add is atomic (the model's tickets_of_schedule); DefaultHasher is deterministic within a process; thread_rng is uniform enough that 60n draws hit every member (failure probability < 1e-3 for n <= 7)"]
    return rep.finish()
