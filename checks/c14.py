"""C14 — the management API never blocks the data plane; a stalled client hurts only itself.
Proof: Props/C14.v (Locks.v): for the lock discipline the translator reads from the source (Gen_locks.v) -
no thread waits for its peer while it holds a lock; locks are taken in one global order (history list,
registry, one context) - every reachable state of any number of threads has a thread that can step
whenever one is waiting (no deadlock), and a lock holder never sits at an external wait, so every wait is
bounded by the holder's remaining straight-line steps.
Tie: the real binary with clients stalled after every prefix of their handshake on every TCP listener
protocol (incl. inside the TLS handshake), tunnels blocked on a peer that does not read, and connection churn;
meanwhile the latency of every API endpoint (status, live, history, rules GET and POST, metrics, logrotate) and
of fresh tunnels on every listener."""
import collections
import concurrent.futures
import json
import socket
import ssl
import struct
import threading
import time
import urllib.request

from common import *
import e2e
import relay_world as rw
from e2e import LOOP

LIMIT = 1.5        # seconds: any API call or fresh tunnel slower than this while others are stalled is a violation


def handshake_bytes(kind, port):
    tgt = "%s:%d" % (LOOP, port)
    if kind in ("http", "https"):
        return b"CONNECT " + tgt.encode() + b" HTTP/1.1\r\nHost: " + tgt.encode() + b"\r\nProxy-Connection: keep-alive\r\n\r\n"
    if kind == "socks5":
        return b"\x05\x01\x00" + b"\x05\x01\x00\x01" + socket.inet_aton(LOOP) + struct.pack(">H", port)
    if kind == "socks5auth":
        return b"\x05\x01\x02" + b"\x01\x05alice\x06secret" + b"\x05\x01\x00\x01" + socket.inet_aton(LOOP) + struct.pack(">H", port)
    if kind == "socks4":
        return b"\x04\x01" + struct.pack(">H", port) + socket.inet_aton(LOOP) + b"user\0"
    if kind == "socks4a":
        return b"\x04\x01" + struct.pack(">H", port) + b"\0\0\0\x01" + b"user\0" + b"localhost\0"
    raise ValueError(kind)


def fresh_tunnel(lp, kind, port):
    """a complete tunnel set-up plus one echo round trip; returns seconds or raises"""
    t0 = time.time()
    if kind == "http":
        c, head, extra = e2e.http_connect(lp["http"], "%s:%d" % (LOOP, port), timeout=5.0)
        ok = head.startswith(b"HTTP/1.1 200")
    elif kind == "socks5":
        c, sel, rep = e2e.socks5_connect(lp["socks"], LOOP, port, timeout=5.0)
        ok = rep[:2] == b"\x05\x00"
    else:
        c, rep = e2e.socks4_connect(lp["socks"], LOOP, port, timeout=5.0)
        ok = rep[:2] == b"\x00\x5a"
    if not ok:
        e2e.close_quiet(c)
        raise RuntimeError("not established")
    c.sendall(b"ping")
    d = e2e.recv_exact(c, 4, timeout=5.0)
    e2e.close_quiet(c)
    if d != b"ping":
        raise RuntimeError("echo %r" % d)
    return time.time() - t0


def api_call(p, name):
    t0 = time.time()
    if name == "rules-post":
        st, _ = p.api("rules", data=RULES, timeout=5.0)          # the list the proxy was started with: posting it changes nothing
    elif name == "logrotate":
        st, _ = p.api("logrotate", timeout=5.0)
    elif name == "metrics":
        url = "http://%s:%d/api/metrics" % (LOOP, p.api_port)
        with urllib.request.urlopen(url, timeout=5.0) as r:
            r.read()
            st = r.status
    else:
        st, _ = p.api(name, timeout=5.0)
    if st != 200:
        raise RuntimeError("status %s" % st)
    return time.time() - t0


RULES = [{"filter": "request.target.port == 1", "target": "deny"}, {"filter": "request.target.port == 2", "target": "lb"},
         {"filter": "request.target.port == 3", "target": "dead"}, {"filter": "request.target.port != 4", "target": "direct"}]
API = ["status", "live", "history", "rules", "rules-post", "metrics", "logrotate"]
FRESH = ["http", "socks5", "socks4"]


def measure(p, lp, port, rounds):
    """latency of every API endpoint and of fresh tunnels, each `rounds` times, concurrently"""
    res = collections.defaultdict(list)
    jobs = [(("api", a)) for a in API for _ in range(rounds)] + [("fresh", k) for k in FRESH for _ in range(rounds)]

    def one(j):
        try:
            t = api_call(p, j[1]) if j[0] == "api" else fresh_tunnel(lp, j[1], port)
            return j, t, None
        except Exception as e:
            return j, None, str(e)[:80]
    with concurrent.futures.ThreadPoolExecutor(12) as ex:
        for j, t, err in ex.map(one, jobs):
            res["%s:%s" % j].append((t, err))
    return res


def run(tier, seed, replay=None):
    rep = Report("C14", tier, seed)
    coq, model, driver, blog = standard_setup("C14")
    proof_coverage(rep, coq, ["tokio's Mutex / RwLock are fair FIFO locks; a task that is not waiting for a lock or for its peer is eventually scheduled",
                              "latency threshold %.1fs on a loaded 16-core machine" % LIMIT])
    broken = handle_coq_result(rep, coq)
    if driver is None:
        rep.coverage.update({"evaluations": 0, "distinct_nontrivial": 0})
        rep.broken_obligation("correspondence C14: hook-built binary does not build from /repo", blog[-3000:])
        return rep.finish()
    r = rng(seed, "C14")
    crt, key = rw.tls_material()
    org = e2e.Server(e2e.echo_handler)
    src = e2e.Server(rw.make_origin("source", "thorough"))
    lp = {k: e2e.free_port() for k in ("http", "socks", "https", "socksauth")}
    listeners = [{"name": "http", "bind": "%s:%d" % (LOOP, lp["http"])}, {"name": "socks", "bind": "%s:%d" % (LOOP, lp["socks"])},
                 {"name": "https", "type": "http", "bind": "%s:%d" % (LOOP, lp["https"]), "tls": {"cert": crt, "key": key}},
                 {"name": "socksauth", "type": "socks", "bind": "%s:%d" % (LOOP, lp["socksauth"]), "auth": {"required": True, "users": [{"username": "alice", "password": "secret"}]}}]
    # routes that end in every kind of refusal (by target port): 1 deny, 2 a load balancer (carries TCP only: a UDP request fails the
    # feature gate), 3 an upstream that is down, 4 no rule at all
    dead_port = e2e.free_port()
    conns = [{"name": "direct"}, {"name": "lb", "type": "loadbalance", "connectors": ["direct"]}, {"name": "dead", "type": "http", "server": LOOP, "port": dead_port}]
    p = e2e.Proxy(driver, listeners, conns, RULES, metrics=True, access_log=True, name="c14", history=50)
    n_eval, dist, worst = 0, collections.Counter(), {}
    held = []

    def judge(phase, res):
        nonlocal n_eval
        for k, vals in res.items():
            for t, err in vals:
                n_eval += 1
                dist[phase] += 1
                if err is not None or t > LIMIT:
                    rep.fail("C14: while %s: %s %s" % (phase, k, ("failed: " + err) if err else "took %.1fs" % t),
                             {"kind": "failing-input", "phase": phase, "operation": k, "seconds": t, "error": err})
                else:
                    worst[k] = max(worst.get(k, 0), t)
    try:
        p.start()
        judge("idle (baseline)", measure(p, lp, org.port, 2))
        # ---- requests that are refused in every way the dispatcher knows: each must be answered, and none may leave
        #      anything behind that slows the API or later connections down -------------------------------------------
        def refused(what, data, port):
            t0 = time.time()
            try:
                c = socket.create_connection((LOOP, port), timeout=3)
                c.sendall(data)
                got, how = e2e.recv_all(c, timeout=LIMIT + 1.5)
                e2e.close_quiet(c)
            except OSError as e:
                got, how = b"", "error:%s" % e
            return what, time.time() - t0, got, how
        ip = socket.inet_aton(LOOP)
        refusals = []
        for port_, why in ((1, "deny rule"), (3, "upstream down"), (4, "no rule")):
            refusals.append(("CONNECT refused by: %s" % why, ("CONNECT %s:%d HTTP/1.1\r\n\r\n" % (LOOP, port_)).encode(), lp["http"]))
            refusals.append(("SOCKS5 CONNECT refused by: %s" % why, b"\x05\x01\x00\x05\x01\x00\x01" + ip + struct.pack(">H", port_), lp["socks"]))
            refusals.append(("SOCKS4 CONNECT refused by: %s" % why, b"\x04\x01" + struct.pack(">H", port_) + ip + b"u\x00", lp["socks"]))
        refusals.append(("CONNECT with Proxy-Protocol: udp routed to an upstream that carries TCP only", ("CONNECT %s:2 HTTP/1.1\r\nProxy-Protocol: udp\r\n\r\n" % LOOP).encode(), lp["http"]))
        refusals.append(("SOCKS5 BIND", b"\x05\x01\x00\x05\x02\x00\x01" + ip + struct.pack(">H", 9), lp["socks"]))
        refusals.append(("SOCKS5 unknown command", b"\x05\x01\x00\x05\x09\x00\x01" + ip + struct.pack(">H", 9), lp["socks"]))
        refusals.append(("GET instead of CONNECT", b"GET / HTTP/1.1\r\nHost: x\r\n\r\n", lp["http"]))
        for rnd in range(2):
            with concurrent.futures.ThreadPoolExecutor(len(refusals)) as ex:
                outs_r = list(ex.map(lambda a: refused(*a), refusals))
            for what, t, got, how in outs_r:
                n_eval += 1
                dist["refused"] += 1
                if not got or how != "eof" or t > LIMIT + 1.0:
                    rep.fail("C14: %s: %s after %.1fs (reply %r) - a refused request must be answered and closed" % (what, how, t, got[:40]),
                             {"kind": "failing-input", "phase": "refusals", "operation": what, "seconds": t})
            judge("after %d requests were refused in every way (round %d)" % (len(refusals), rnd + 1), measure(p, lp, org.port, 2))
        # ---- clients stalled after every prefix of their handshake ---------------------------
        stalls = []
        for kind, port in (("http", lp["http"]), ("socks5", lp["socks"]), ("socks4", lp["socks"]), ("socks4a", lp["socks"]), ("socks5auth", lp["socksauth"])):
            hs = handshake_bytes(kind, org.port)
            ks = list(range(len(hs))) if tier == "thorough" or len(hs) < 30 else sorted(set([0, 1, 2, 3, 5, 8, len(hs) - 1, len(hs) - 2] + [r.randrange(len(hs)) for _ in range(12)]))
            for k in ks:
                stalls.append((kind, port, hs[:k]))
        # inside and right after the TLS handshake
        stalls.append(("https-tcp-only", lp["https"], b""))
        stalls.append(("https-half-hello", lp["https"], b"\x16\x03\x01\x02\x00\x01\x00\x01\xfc\x03\x03"))
        for kind, port, prefix in stalls:
            try:
                c = socket.create_connection((LOOP, port), timeout=3)
                if prefix:
                    c.sendall(prefix)
                held.append(c)
            except OSError as e:
                rep.fail("C14: could not open a connection to stall (%s): %s" % (kind, e), {"kind": "failing-input", "phase": "stall", "operation": kind})
        # a TLS client that completed the TLS handshake and then sends half a request
        try:
            ctx = ssl.SSLContext(ssl.PROTOCOL_TLS_CLIENT)
            ctx.check_hostname = False
            ctx.verify_mode = ssl.CERT_NONE
            c = ctx.wrap_socket(socket.create_connection((LOOP, lp["https"]), timeout=3), server_hostname="localhost")
            c.sendall(b"CONNECT 127.0.0.1:")
            held.append(c)
        except OSError as e:
            rep.fail("C14: TLS stall client: %s" % e, {"kind": "failing-input", "phase": "stall", "operation": "https"})
        time.sleep(0.5)
        judge("%d clients are stalled in their handshake" % len(held), measure(p, lp, org.port, 2 if tier == "quick" else 6))
        # ---- tunnels blocked on a client that does not read ------------------------------------
        for kind in ("http", "socks5"):
            for _ in range(3):
                try:
                    if kind == "http":
                        c, head, extra = e2e.http_connect(lp["http"], "%s:%d" % (LOOP, src.port))
                    else:
                        c, sel, rp_ = e2e.socks5_connect(lp["socks"], LOOP, src.port)
                    c.setsockopt(socket.SOL_SOCKET, socket.SO_RCVBUF, 4096)
                    held.append(c)
                except OSError as e:
                    rep.fail("C14: could not open a tunnel to block (%s): %s" % (kind, e), {"kind": "failing-input", "phase": "block", "operation": kind})
        time.sleep(0.7)
        judge("tunnels are blocked on a client that does not read (and %d clients stalled)" % len(stalls), measure(p, lp, org.port, 2 if tier == "quick" else 6))
        # ---- churn: set-up, teardown and garbage collection while the API is polled ---------------
        stop = threading.Event()

        def churn():
            while not stop.is_set():
                try:
                    fresh_tunnel(lp, r.choice(FRESH), org.port)
                except Exception:
                    pass
        ts = [threading.Thread(target=churn, daemon=True) for _ in range(6)]
        for t in ts:
            t.start()
        t_end = time.time() + (3.0 if tier == "quick" else 12.0)
        while time.time() < t_end:
            judge("connections are set up and torn down continuously", measure(p, lp, org.port, 1))
        stop.set()
        for t in ts:
            t.join(10)
        if not p.alive():
            rep.fail("C14: the proxy died during the scenarios", {"kind": "failing-input", "phase": "end", "operation": "alive"})
    finally:
        for c in held:
            e2e.close_quiet(c)
        p.stop()
        org.close()
        src.close()
        import shutil
        shutil.rmtree(p.dir, ignore_errors=True)
    # ---- UDP: a session whose client does not read next to a session on the same QUIC connection ----------------------
    import udp_world as uw
    nb = None
    try:
        w = uw.UdpWorld(driver, name="c14-udp")
        try:
            for attempt in (0, 1):
                nb = uw.stalled_neighbour(w, "c_quic_dgram", b"c14nb%d" % attempt)
                if min(nb.get("during", 0), nb.get("later", 0)) >= 4:
                    break
            alive_u = w.alive()
        finally:
            w.close()
        n_eval += 1
        dist["udp-stalled-neighbour"] += 1
        if nb["before"] < 5 or not nb.get("a_established") or not alive_u:
            rep.fail("C14: UDP stalled-neighbour scenario could not be set up: %s" % nb, {"kind": "failing-input", "phase": "udp", "operation": "setup", "history": nb})
        elif min(nb.get("during", 0), nb.get("later", 0)) < 4:
            rep.fail("C14: while a UDP-over-CONNECT client does not read its connection (a chatty origin sends it 12000 datagrams), another UDP session through the same QUIC connection got %d and then %d of 5 echoes (5 before, %d after the stalled client left): a slow client delays other clients" % (
                nb.get("during", 0), nb.get("later", 0), nb.get("after", 0)), {"kind": "failing-input", "phase": "udp", "operation": "stalled neighbour", "history": nb})
    except OSError as e:
        rep.fail("C14: UDP world: %s" % e, {"kind": "failing-input", "phase": "udp", "operation": "setup"})
    # ---- QUIC: a handshake that never completes (only the client's first packet reaches the listener) -------------------
    import quic_stall
    qs = None
    try:
        for attempt in (0, 1):
            qs = quic_stall.run(driver, name="c14-qstall%d" % attempt)
            if qs.get("new_connection_1", (False, 0))[0] and qs.get("new_connection_2", (False, 0))[0]:
                break
        n_eval += 1
        dist["quic-stalled-handshake"] += 1
        if not qs.get("established_before", (False, 0))[0] or qs.get("relay_datagrams_seen", 0) < 1:
            rep.fail("C14: QUIC stalled-handshake scenario could not be set up: %s" % qs, {"kind": "failing-input", "phase": "quic", "operation": "setup", "history": qs})
        else:
            for k, what in (("existing_connection", "a tunnel through an established QUIC connection"), ("new_connection_1", "a NEW QUIC connection from another client"),
                            ("new_connection_2", "a second NEW QUIC connection")):
                ok, secs = qs.get(k, (False, 0))
                if not ok or secs > LIMIT + 1.0:
                    rep.fail("C14: while one QUIC handshake is stalled (the listener saw the client's first packet and nothing more): %s %s after %.1fs" % (
                        what, "was not served" if not ok else "was served only", secs), {"kind": "failing-input", "phase": "quic", "operation": k, "history": qs})
                    break
    except OSError as e:
        rep.fail("C14: QUIC world: %s" % e, {"kind": "failing-input", "phase": "quic", "operation": "setup"})
    rep.coverage.update({
        "quic_stalled_handshake": qs,
        "udp_stalled_neighbour": nb,
        "evaluations": n_eval, "distinct_nontrivial": len(stalls) + len(API) + len(FRESH),
        "rule": "14 requests refused in every way (deny, no rule, upstream down, UDP to a TCP-only balancer, BIND, unknown command, GET) on http / SOCKS5 / SOCKS4, each answered and followed by latency probes; clients stalled after k bytes of their handshake for k over every prefix (thorough) or a spread of prefixes (quick) of HTTP CONNECT, SOCKS5, SOCKS5 with password, SOCKS4, SOCKS4a, plus TCP-only / half ClientHello / post-handshake stalls on a TLS listener; 6 tunnels blocked on a reader that does not read; 6 churn threads; meanwhile every API endpoint %s and fresh tunnels on %s, limit %.1fs each" % (API, FRESH, LIMIT),
        "input_distribution": dict(dist), "stalled_clients": len(stalls) + 1, "worst_latency_s": {k: round(v, 3) for k, v in worst.items()},
    })
    rep.assumptions = ["latency threshold %.1fs" % LIMIT, "tproxy listeners are not exercised; QUIC: a stalled UDP-over-CONNECT client next to a session on the same QUIC connection, and a QUIC handshake that never completes (one-packet relay) next to new QUIC connections"]
    if broken and not rep.violations:
        rep.broken_obligation(broken[0], broken[1])
    return rep.finish()
