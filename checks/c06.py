"""C06 — the client is told "established" iff the upstream path is; failures get one complete reply.
Proof: Props/C06.v (Callbacks.v over Dispatch.v): exactly one reply per connection, success iff
on_connect, on_connect only after the connector's connect succeeded, the SOCKS failure replies and
the HTTP 503 (status line, headers, body of exactly Content-Length bytes) parse with the protocol's
own reader for every body.
Tie: the hook-built binary in its normal mode on loopback; raw clients of the three listener
protocols are driven through every outcome class against fake origins / upstream proxies and read
until EOF; the bytes received must equal the model's client_bytes for the outcome class (for the HTTP
503, with the body actually received as the message), and the success reply must coincide with,
and follow, the establishment observed at the origin / upstream."""
import collections
import concurrent.futures
import json
import re
import socket
import struct
import time

from common import *
import e2e
from e2e import LOOP

PAYLOAD = b"ping-" + bytes(range(256)) * 3
SRC_FILES = ["src/common/h11c.rs", "src/listeners/socks.rs", "src/common/socks.rs", "src/common/http.rs", "src/main.rs", "src/context.rs", "src/copy.rs"]


def tgt_arg(host, port):
    try:
        ip = socket.inet_aton(host)
        return "4%s:%d" % (ip.hex(), port)
    except OSError:
        return "D%s:%d" % (host.encode().hex(), port)


# further upstream answers that do NOT establish the path (interim 1xx then the final refusal, a lone 1xx, redirects,
# authentication required, server errors, odd codes; SOCKS reply codes other than success)
HUP_REFUSALS = {
    "hup100": b"HTTP/1.1 100 Continue\r\n\r\nHTTP/1.1 403 Forbidden\r\nContent-Length: 0\r\n\r\n",
    "hup101": b"HTTP/1.1 101 Switching Protocols\r\nUpgrade: x\r\n\r\n",
    "hup199": b"HTTP/1.1 199 Odd\r\n\r\n",
    "hup099": b"HTTP/1.1 099 Odd\r\n\r\n",
    "hup302": b"HTTP/1.1 302 Found\r\nLocation: http://elsewhere/\r\nContent-Length: 0\r\n\r\n",
    "hup407": b"HTTP/1.1 407 Proxy Authentication Required\r\nProxy-Authenticate: Basic realm=x\r\nContent-Length: 0\r\n\r\n",
    "hup500": b"HTTP/1.1 500 Internal Server Error\r\nContent-Length: 0\r\n\r\n",
    "hup999": b"HTTP/1.1 999 Odd\r\n\r\n",
}
S5_REFUSALS = {"s5r1": 1, "s5r2": 2, "s5r4": 4, "s5r8": 8, "s5rff": 255}
S4_REFUSALS = {"s4r92": 92, "s4r93": 93, "s4r0": 0, "s4r255": 255}
MORE_FAILING = list(HUP_REFUSALS) + list(S5_REFUSALS) + list(S4_REFUSALS)


def global_ipv6():
    """a non-loopback, non-link-local IPv6 address of this machine, or None"""
    try:
        for l in open("/proc/net/if_inet6"):
            f = l.split()
            if len(f) >= 6 and f[3] == "00" and f[5] != "lo":
                h = f[0]
                return socket.inet_ntop(socket.AF_INET6, bytes.fromhex(h))
    except OSError:
        pass
    return None


class World:
    """origins, fake upstream proxies, and one proxy instance routing by target port"""

    def __init__(self, binary, udp_timeout=2):
        self.servers = []
        mk = lambda h: self._srv(h)
        self.origin = {}
        routes = ["direct", "hup", "hupslow", "s5", "s4", "lb"]
        for r in routes:
            self.origin[r] = mk(e2e.echo_handler)
        self.closed_port = e2e.free_port()
        self.deny_port = e2e.free_port()
        self.norule_port = e2e.free_port()
        for k in ["hup403", "hup403u", "hupclose", "hupgarbage", "s5no", "s5die", "s4no", "dead", "hup200junk"] + MORE_FAILING:
            self.origin[k] = mk(e2e.echo_handler)          # must never be reached
        self.up = {
            "hup": mk(e2e.http_upstream(relay_to=(LOOP, self.origin["hup"].port))),
            "hupslow": mk(e2e.http_upstream(relay_to=(LOOP, self.origin["hupslow"].port), reply_delay=0.5)),
            "hup403": mk(e2e.http_upstream(verdict=b"HTTP/1.1 403 Forbidden\r\nContent-Length: 0\r\n\r\n")),
            "hup403u": mk(e2e.http_upstream(verdict="HTTP/1.1 403 Acc\u00e8s refus\u00e9 \u2013 \u7981\u6b62\r\nX-Reason: \u00fcber\r\n\r\n".encode())),
            "hupclose": mk(e2e.http_upstream(verdict=None)),
            "hupgarbage": mk(e2e.http_upstream(verdict=b"SSH-2.0-OpenSSH_9.0\r\n\r\n")),
            "s5": mk(e2e.socks5_upstream(rep=0, relay_to=(LOOP, self.origin["s5"].port))),
            "s5no": mk(e2e.socks5_upstream(rep=5)),
            "s5die": mk(e2e.socks5_upstream(after_greeting_close=True)),
            "s4": mk(e2e.socks4_upstream(code=90, relay_to=(LOOP, self.origin["s4"].port))),
            "s4no": mk(e2e.socks4_upstream(code=91)),
        }
        for k, v in HUP_REFUSALS.items():
            self.up[k] = mk(e2e.http_upstream(verdict=v))
        for k, v in S5_REFUSALS.items():
            self.up[k] = mk(e2e.socks5_upstream(rep=v))
        for k, v in S4_REFUSALS.items():
            self.up[k] = mk(e2e.socks4_upstream(code=v))
        # domain targets are only sent through upstream proxies, which relay to a fixed origin
        conns = [{"name": "direct", "dns": {"servers": "system", "family": "V4Only"}}]
        for k in ["hup", "hupslow", "hup403", "hup403u", "hupclose", "hupgarbage"] + list(HUP_REFUSALS):
            conns.append({"name": k, "type": "http", "server": LOOP, "port": self.up[k].port})
        conns.append({"name": "dead", "type": "http", "server": LOOP, "port": self.closed_port})
        for k in ["s5", "s5no", "s5die"] + list(S5_REFUSALS):
            conns.append({"name": k, "type": "socks", "server": LOOP, "port": self.up[k].port})
        for k in ["s4", "s4no"] + list(S4_REFUSALS):
            conns.append({"name": k, "type": "socks", "server": LOOP, "port": self.up[k].port, "version": 4})
        conns.append({"name": "lb", "type": "loadbalance", "connectors": ["direct", "hup"]})
        self.route_port = {}
        rules = []
        for c in conns:
            n = c["name"]
            p = self.origin[n].port if n in self.origin else None
            if p is None:
                continue
            self.route_port[n] = p
            rules.append({"filter": "request.target.port == %d" % p, "target": n})
        # the lb's http member relays to origin 'hup'; both members reach an echo origin
        rules.append({"filter": "request.target.port == %d" % self.closed_port, "target": "direct"})
        rules.append({"filter": "request.target.port == %d" % self.deny_port, "target": "deny"})
        rules.append({"filter": "request.feature == \"UdpForward\" && request.listener == \"socks\"", "target": "direct"})
        self.route_port["refused"] = self.closed_port
        self.route_port["deny"] = self.deny_port
        self.route_port["norule"] = self.norule_port
        self.lp = {k: e2e.free_port() for k in ("http", "socks", "socksauth", "socksnoudp")}
        listeners = [
            {"name": "http", "bind": "%s:%d" % (LOOP, self.lp["http"])},
            {"name": "socks", "bind": "%s:%d" % (LOOP, self.lp["socks"])},
            {"name": "socksauth", "type": "socks", "bind": "%s:%d" % (LOOP, self.lp["socksauth"]),
             "auth": {"required": True, "users": [{"username": "alice", "password": "secret"}, {"username": "bob", "password": ""}]}},
            {"name": "socksnoudp", "type": "socks", "bind": "%s:%d" % (LOOP, self.lp["socksnoudp"]), "allowUdp": False},
        ]
        self.proxy = e2e.Proxy(binary, listeners, conns, rules, timeouts={"idle": 600, "udp": udp_timeout}, metrics=False, name="c06")
        self.proxy.start()

    def _srv(self, h):
        s = e2e.Server(h)
        self.servers.append(s)
        return s

    def close(self):
        self.proxy.stop()
        import shutil
        shutil.rmtree(self.proxy.dir, ignore_errors=True)
        for s in self.servers:
            s.close()


ESTABLISHING = {"direct", "hup", "hupslow", "s5", "s4", "lb"}
FAILING = {"refused": 1, "hup403": 1, "hup403u": 1, "hupclose": 1, "hupgarbage": 1, "s5no": 1, "s5die": 1, "s4no": 1, "dead": 1, "deny": 0, "norule": 0}
FAILING.update({k: 1 for k in MORE_FAILING})


def upstream_answer_cases(r, mult):
    """answers of a next-hop HTTP proxy to the connector's CONNECT: (description, chunks, udp)"""
    out = []
    codes = [100, 101, 102, 103, 199, 200, 201, 202, 204, 206, 226, 299, 300, 301, 302, 304, 400, 403, 404, 407, 500, 502, 503, 504, 599, 600, 999, 0, 1, 20, 99]
    def seg(b, how):
        if how == "whole" or len(b) < 2:
            return [b]
        if how == "bytes":
            return [b[i:i + 1] for i in range(len(b))]
        cuts = sorted(r.sample(range(1, len(b)), min(len(b) - 1, r.randint(1, 4))))
        return [b[i:j] for i, j in zip([0] + cuts, cuts + [len(b)])]
    for c in codes:
        for hdrs in (b"", b"Content-Length: 0\r\n", b"Session-Id: 7\r\n"):
            for udp in (False, True):
                ans = b"HTTP/1.1 %03d Reason\r\n" % c + hdrs + b"\r\n"
                out.append(("status %03d" % c, seg(ans, r.choice(["whole", "cuts", "bytes"] if mult > 1 else ["whole", "cuts"])), udp))
    for c in (100, 101, 102, 103, 199):
        for fin in (200, 403, 502):
            ans = b"HTTP/1.1 %d Interim\r\n\r\nHTTP/1.1 %d Final\r\nSession-Id: 9\r\n\r\n" % (c, fin)
            out.append(("interim %d then %d" % (c, fin), seg(ans, "cuts"), False))
            out.append(("interim %d then %d" % (c, fin), seg(ans, "whole"), True))
    for what, ans in (("HTTP/1.0 200", b"HTTP/1.0 200 OK\r\n\r\n"), ("no reason phrase", b"HTTP/1.1 200\r\n\r\n"), ("no reason, trailing space", b"HTTP/1.1 200 \r\n\r\n"),
                      ("lower case", b"http/1.1 200 ok\r\n\r\n"), ("HTTP/2", b"HTTP/2 200 OK\r\n\r\n"), ("four digits", b"HTTP/1.1 2000 OK\r\n\r\n"), ("two digits", b"HTTP/1.1 20 OK\r\n\r\n"),
                      ("signed", b"HTTP/1.1 +200 OK\r\n\r\n"), ("65736 = 200 mod 65536", b"HTTP/1.1 65736 OK\r\n\r\n"), ("head cut short", b"HTTP/1.1 200 OK\r\nX: y\r\n"), ("status line only", b"HTTP/1.1 200 OK\r\n"),
                      ("empty", b""), ("bare LF", b"HTTP/1.1 200 OK\n\n"), ("garbage", b"SSH-2.0-x\r\n\r\n"), ("200 in the reason", b"HTTP/1.1 403 200\r\n\r\n"), ("200 in a header", b"HTTP/1.1 403 No\r\nX-Status: 200\r\n\r\n")):
        for udp in (False, True):
            out.append((what, seg(ans, "cuts" if ans else "whole"), udp))
    for what, h in (("Session-Id max", b"Session-Id: 4294967295"), ("Session-Id 2^32", b"Session-Id: 4294967296"), ("Session-Id text", b"Session-Id: x"), ("Session-Id negative", b"Session-Id: -1"),
                    ("Session-Id lower case name", b"session-id: 5"), ("Session-Id spaces", b"Session-Id:   5  "), ("Session-Id empty", b"Session-Id: "), ("Session-Id twice", b"Session-Id: 1\r\nSession-Id: 2"),
                    ("Session-Id hex", b"Session-Id: 0x10"), ("Session-Id long", b"Session-Id: 000000000000000000005")):
        out.append((what, seg(b"HTTP/1.1 200 OK\r\n" + h + b"\r\n\r\n", "cuts"), True))
        out.append((what, seg(b"HTTP/1.1 200 OK\r\n" + h + b"\r\n\r\n", "whole"), False))
    return out * 1 if mult == 1 else out + [(w_, seg(b"".join(ch), "cuts"), u) for w_, ch, u in out for _ in range(mult - 1)]


def run_tcp(w, proto, route, host):
    """one CONNECT-style request; returns the history"""
    port = w.route_port[route]
    hist = {"proto": proto, "route": route, "host": host, "port": port, "kind": "tcp"}
    t_start = time.time()
    try:
        if proto == "http":
            c, head, extra = e2e.http_connect(w.lp["http"], "%s:%d" % (host, port))
            first = head + extra
            hist["pre"] = b""
        elif proto == "socks5":
            c, sel, rep = e2e.socks5_connect(w.lp["socks"], host, port)
            hist["pre"] = sel
            first = rep
        else:
            c, rep = e2e.socks4_connect(w.lp["socks"], host, port, user=b"me")
            hist["pre"] = b""
            first = rep
    except OSError as e:
        hist["error"] = "client: %s" % e
        return hist
    hist["t_reply"] = time.time() - t_start
    hist["t_reply_abs"] = time.time()
    established_claim = (first.startswith(b"HTTP/1.1 200") if proto == "http" else
                         (first[:2] == b"\x05\x00" if proto == "socks5" else first[:2] == b"\x00\x5a"))
    hist["claimed"] = established_claim
    rest = b""
    how = None
    try:
        rest, how = after_reply(c, established_claim)
    except OSError as e:
        how = "error:%s" % e
    e2e.close_quiet(c)
    hist["received"] = first + rest
    hist["how"] = how
    return hist


def after_reply(c, established):
    """established: send the payload, read its echo, then make sure nothing else follows while the tunnel is
    open ('open').  Otherwise read until the proxy closes ('eof')."""
    if not established:
        return e2e.recv_all(c, timeout=6.0)
    c.sendall(PAYLOAD)
    got = e2e.recv_exact(c, len(PAYLOAD), timeout=6.0)
    more, how = e2e.recv_all(c, timeout=0.3)
    return got + more, ("open" if how == "timeout" else how)


def socks_special(w, what):
    """listener-level refusals: unsupported commands, failed authentication, no common method"""
    hist = {"proto": "socks5", "route": what, "kind": "special", "host": LOOP, "port": w.route_port["direct"]}
    port = w.route_port["direct"]
    try:
        if what == "bind5":
            c, sel, rep = e2e.socks5_connect(w.lp["socks"], LOOP, port, cmd=2)
        elif what == "cmd9":
            c, sel, rep = e2e.socks5_connect(w.lp["socks"], LOOP, port, cmd=9)
        elif what == "udp-not-allowed":
            c, sel, rep = e2e.socks5_connect(w.lp["socksnoudp"], "0.0.0.0", 0, cmd=3)
        elif what == "badpass5":
            c, sel, rep = e2e.socks5_connect(w.lp["socksauth"], LOOP, port, auth=(b"alice", b"wrong"), methods=b"\x02")
        elif what == "baduser5":
            c, sel, rep = e2e.socks5_connect(w.lp["socksauth"], LOOP, port, auth=(b"mallory", b"secret"), methods=b"\x02")
        elif what == "goodpass5":
            c, sel, rep = e2e.socks5_connect(w.lp["socksauth"], LOOP, port, auth=(b"alice", b"secret"), methods=b"\x02")
        elif what == "nomethod5":
            c, sel, rep = e2e.socks5_connect(w.lp["socksauth"], LOOP, port, methods=b"\x00")
        elif what == "bind4":
            hist["proto"] = "socks4"
            c, rep = e2e.socks4_connect(w.lp["socks"], LOOP, port, cmd=2)
            sel = b""
        elif what == "baduser4":
            hist["proto"] = "socks4"
            c, rep = e2e.socks4_connect(w.lp["socksauth"], LOOP, port, user=b"mallory")
            sel = b""
        elif what == "gooduser4":
            hist["proto"] = "socks4"
            c, rep = e2e.socks4_connect(w.lp["socksauth"], LOOP, port, user=b"bob")
            sel = b""
        else:
            raise ValueError(what)
    except OSError as e:
        hist["error"] = "client: %s" % e
        return hist
    hist["pre"] = sel
    good = what in ("goodpass5", "gooduser4")
    try:
        rest, how = after_reply(c, good and rep[:2] in (b"\x05\x00", b"\x00\x5a"))
    except OSError as e:
        rest, how = b"", "error:%s" % e
    e2e.close_quiet(c)
    hist["received"] = rep + rest
    hist["how"] = how
    hist["claimed"] = rep[:2] in (b"\x05\x00", b"\x00\x5a")
    return hist


def http_special(w, what):
    hist = {"proto": "http", "route": what, "kind": "special", "host": LOOP, "port": w.route_port["direct"]}
    port = w.route_port["direct"]
    if what == "get":
        req = b"GET http://%s:%d/ HTTP/1.1\r\nHost: x\r\n\r\n" % (LOOP.encode(), port)
    elif what == "badproto":
        req = b"CONNECT %s:%d HTTP/1.1\r\nProxy-Protocol: sctp\r\n\r\n" % (LOOP.encode(), port)
    elif what == "udp-unsupported":
        # UDP through the load balancer, which only forwards TCP
        req = b"CONNECT %s:%d HTTP/1.1\r\nProxy-Protocol: udp\r\n\r\n" % (LOOP.encode(), w.route_port["lb"])
    else:
        raise ValueError(what)
    try:
        c = socket.create_connection((LOOP, w.lp["http"]), timeout=5)
        c.sendall(req)
        data, how = e2e.recv_all(c, timeout=6.0)
    except OSError as e:
        hist["error"] = "client: %s" % e
        return hist
    e2e.close_quiet(c)
    hist["pre"] = b""
    hist["received"] = data
    hist["how"] = how
    hist["claimed"] = data.startswith(b"HTTP/1.1 200")
    return hist


def udp_associate_idle(w):
    """SOCKS5 UDP ASSOCIATE through the direct connector, then idle until timeouts.udp expires: everything
    the proxy writes on the control connection"""
    hist = {"proto": "socks5", "route": "udp-idle", "kind": "udp", "host": "0.0.0.0", "port": 0}
    try:
        c, sel, rep = e2e.socks5_connect(w.lp["socks"], "0.0.0.0", 0, cmd=3)
        hist["pre"] = sel
        rest, how = e2e.recv_all(c, timeout=12.0)
    except OSError as e:
        hist["error"] = "client: %s" % e
        return hist
    e2e.close_quiet(c)
    hist["received"] = rep + rest
    hist["reply"] = rep
    hist["how"] = how
    hist["claimed"] = rep[:2] == b"\x05\x00"
    return hist


def expected_line(h, klass, msg=b""):
    p = {"http": 0, "socks5": 5, "socks4": 4}[h["proto"]]
    return "client_reply %d %s %s %d" % (p, tgt_arg(h["host"], h["port"]), hexs(msg), klass)


def run(tier, seed, replay=None):
    rep = Report("C06", tier, seed)
    coq, model, driver, blog = standard_setup("C06")
    proof_coverage(rep, coq, [
        "the error text of the HTTP 503 body (easy_error formatting) is a parameter of the model (msg)",
        "UDP associations: the model covers TCP tunnels; the control connection of a SOCKS5 UDP association is checked end to end only",
        "end-to-end tie: OS sockets, tokio scheduling and the fake endpoints of checks/e2e.py are outside the model"])
    broken = handle_coq_result(rep, coq)
    if driver is None:
        rep.coverage.update({"evaluations": 0, "distinct_nontrivial": 0})
        rep.broken_obligation("correspondence C06: hook-built binary does not build from /repo", blog[-3000:])
        return rep.finish()
    r = rng(seed, "C06")
    rounds = 2 if tier == "quick" else 10
    w = World(driver)
    hists = []
    try:
        jobs = []
        for _ in range(rounds):
            for proto in ("http", "socks5", "socks4"):
                for route in sorted(ESTABLISHING) + sorted(FAILING):
                    hosts = [LOOP]
                    if route in ("hup", "hupslow", "s5", "s4", "hup403", "s5no", "s4no", "deny", "norule", "dead"):
                        hosts.append(r.choice(["origin.test", "a.b.example", "x" * r.randint(1, 200) + ".test", "b\u00fccher.example", "\u4f8b\u3048.test"]))
                    for host in hosts:
                        jobs.append(("tcp", proto, route, host))
            for s in ("bind5", "cmd9", "udp-not-allowed", "badpass5", "baduser5", "goodpass5", "nomethod5", "bind4", "baduser4", "gooduser4"):
                jobs.append(("socks", s))
            for s in ("get", "badproto", "udp-unsupported"):
                jobs.append(("http", s))
        jobs.append(("udp-idle",))
        r.shuffle(jobs)

        def do(j):
            if j[0] == "tcp":
                return e2e_retry(lambda: run_tcp(w, j[1], j[2], j[3]))
            if j[0] == "socks":
                return e2e_retry(lambda: socks_special(w, j[1]))
            if j[0] == "http":
                return e2e_retry(lambda: http_special(w, j[1]))
            return udp_associate_idle(w)
        with concurrent.futures.ThreadPoolExecutor(12) as ex:
            hists = list(ex.map(do, jobs))
        alive = w.proxy.alive()
        origin_seen = {k: len(s.records) for k, s in w.origin.items()}
    finally:
        w.close()
    if not alive:
        rep.fail("C06: the proxy process died while serving the scenarios", {"kind": "failing-input", "scenario": "process exit during C06 scenarios"})
    # ---- model expectations ------------------------------------------------------------
    lines, idx = [], []
    for i, h in enumerate(hists):
        if "error" in h or h["kind"] == "udp":
            continue
        route = h["route"]
        if h["kind"] == "tcp":
            klass = 2 if route in ESTABLISHING else FAILING[route]
        else:
            klass = 2 if route in ("goodpass5", "gooduser4") else 0
        msg = b""
        if h["proto"] == "http" and klass in (0, 1):
            i4 = h["received"].find(b"\r\n\r\n")
            msg = h["received"][i4 + 4:] if i4 >= 0 else b""
        lines.append(expected_line(h, klass, msg))
        idx.append((i, klass))
    mod = run_model(model, lines) if lines else []
    n_eval, shapes, outcomes = 0, set(), collections.Counter()
    for (i, klass), om in zip(idx, mod):
        h = hists[i]
        n_eval += 1
        exp = bytes.fromhex(om.split("W=")[1]) if om.startswith("OK W=") and om != "OK W=-" else b""
        got = h["received"]
        route = h["route"]
        shapes.add((h["proto"], route, h["host"] == LOOP))
        special_http = h["kind"] == "special" and h["proto"] == "http" and route in ("get", "badproto")
        pre_ok = True
        if special_http:
            # refused before a callback exists: a bare 400 and close
            exp = b"HTTP/1.1 400 Bad Request\r\n\r\n"
        if route == "nomethod5":
            exp = b""
            pre_ok = h["pre"] == b"\x05\xff"
        elif h["kind"] == "special" and route in ("badpass5", "baduser5", "goodpass5"):
            pre_ok = h["pre"] == b"\x05\x02"      # socks5_connect consumed the 2-byte sub-negotiation reply
        if klass == 2:
            exp = exp + PAYLOAD
        outcomes["class%d" % klass] += 1
        desc = "%s listener, route %s, target %s:%d" % (h["proto"], route, h["host"][:30], h["port"])
        if not pre_ok:
            rep.fail("C06: %s: negotiation bytes %r" % (desc, h["pre"]), {"kind": "failing-input", "scenario": jsonable(h)})
        if got != exp:
            rep.fail("C06: %s: client received %r..., the model's reply for outcome class %d is %r..." % (desc, got[:80], klass, exp[:80]),
                     {"kind": "failing-input", "scenario": jsonable(h), "expected_hex": exp.hex()[:4000]})
        if h["how"] != ("open" if klass == 2 else "eof"):
            rep.fail("C06: %s: connection not closed after the reply (%s)" % (desc, h["how"]), {"kind": "failing-input", "scenario": jsonable(h)})
        if h["claimed"] != (klass == 2):
            rep.fail("C06: %s: client told established=%s but the outcome class is %d" % (desc, h["claimed"], klass), {"kind": "failing-input", "scenario": jsonable(h)})
    for h in hists:
        if "error" in h:
            rep.fail("C06: %s listener, route %s: %s" % (h["proto"], h["route"], h["error"]), {"kind": "failing-input", "scenario": jsonable(h)})
    # origins behind failing routes must never have been reached; the others as often as success was claimed
    for k in ["hup403", "hup403u", "hupclose", "hupgarbage", "s5no", "s5die", "s4no", "dead"] + MORE_FAILING:
        if origin_seen.get(k):
            rep.fail("C06: origin behind route %s was reached %d times" % (k, origin_seen[k]), {"kind": "failing-input", "scenario": k})
    claimed_by_route = collections.Counter(h["route"] for h in hists if h.get("claimed") and h["kind"] == "tcp")
    # the load balancer alternates between the direct member (origin 'lb') and the http member (origin 'hup')
    tot_claim = sum(claimed_by_route[k] for k in ESTABLISHING)
    tot_seen = sum(origin_seen[k] for k in ESTABLISHING)
    good_special = sum(1 for h in hists if h["kind"] == "special" and h["route"] in ("goodpass5", "gooduser4") and h.get("claimed"))
    if tot_claim + good_special > tot_seen:
        rep.fail("C06: %d clients were told 'established' but the origins accepted only %d connections" % (tot_claim + good_special, tot_seen),
                 {"kind": "failing-input", "scenario": "count of success replies vs origin accepts", "claimed": dict(claimed_by_route), "seen": origin_seen})
    # "only after": with the slow upstream the client's 200 must not precede the upstream's verdict
    for h in hists:
        if h["kind"] == "tcp" and h["route"] == "hupslow" and h.get("claimed") and h.get("t_reply", 9) < 0.45:
            rep.fail("C06: %s listener: success reply after %.2fs although the upstream proxy answered only after 0.5s" % (h["proto"], h["t_reply"]),
                     {"kind": "failing-input", "scenario": jsonable(h)})
    # UDP association: one reply on the control connection, whatever happens later
    for h in hists:
        if h["kind"] != "udp" or "error" in h:
            continue
        n_eval += 1
        got = h["received"]
        ok_len = 10
        if not h["claimed"]:
            rep.fail("C06: SOCKS5 UDP ASSOCIATE via direct refused: %r" % got[:20], {"kind": "failing-input", "scenario": jsonable(h)})
        elif len(got) != ok_len:
            rep.fail("C06: SOCKS5 UDP association that idles out: control connection received %r (a success reply followed by %d more bytes)" % (got[:30], len(got) - ok_len),
                     {"kind": "failing-input", "scenario": jsonable(h)}, tags=["C06-udp-associate-double-reply"])
    # ---- what the HTTP connector makes of the next hop's answer: the real h11c_connect against the model ------------
    import codec_cases as cdc
    import re as _re
    ucases = upstream_answer_cases(r, 1 if tier == "quick" else 6)
    tgt = cdc.tgt_domain(b"origin.test", 443)
    ulines = ["connect_write %s %s%s" % (tgt, cdc.chunks_arg(ch), " udp" if udp else "") for _, ch, udp in ucases]
    ui = run_impl(driver, ulines)
    um = run_model(model, ulines)
    n_udiff = 0
    for (what, ch, udp), oi, om in zip(ucases, ui, um):
        n_eval += 1
        full = b"".join(ch)
        # canonical spelling only: the property does not say how lenient the reading of odd but legal HTTP (empty reason phrase, empty header value) must be
        m = _re.match(rb"^HTTP/1\.[01] (\d{3}) [!-~][^\r\n]*\r\n((?:[!-9;-~]+: [!-~][^\r\n]*\r\n)*)\r\n", full)
        strict_code = int(m.group(1)) if m else None
        m = _re.match(rb"(?i)^HTTP/[0-9.]+ +\+?([0-9]+)", full)
        code = int(m.group(1)) if m else None
        complete = any(x in full for x in (b"\r\n\r\n", b"\n\n", b"\n\r\n"))
        rp = {"kind": "failing-input", "cases": [dict(kind="connect", line="connect_write %s %s%s" % (tgt, cdc.chunks_arg(ch), " udp" if udp else ""), meta=dict(what=what))], "answer": full[:200].decode("latin1"), "observed": oi, "model": om}
        told = oi.startswith("OK ")
        # oracle from the property alone: "established" only on a complete final 2xx answer; a plain complete 200 establishes
        if told and (code is None or not 200 <= code <= 299 or not complete):
            rep.fail("C06: HTTP connector, upstream answer %r (%s): the tunnel is reported as established" % (full[:60], what), rp)
        elif not told and strict_code == 200 and not udp and oi.startswith("ERR"):
            rep.fail("C06: HTTP connector, upstream answer %r (%s): a complete 200 is treated as a failure" % (full[:60], what), rp)
        elif canon(oi).split(" ")[0] != canon(om).split(" ")[0]:
            n_udiff += 1
            rep.fail("C06: HTTP connector, upstream answer %r (%s): the implementation says %s, the model's connect_reply says %s" % (full[:60], what, oi[:20], om[:20]), rp)
        outcomes["upstream-answer:" + oi.split(" ")[0]] += 1
    # ---- clients that connect over IPv6 from a non-loopback address (::1 is folded into IPv4 by the listeners) ---------
    v6 = global_ipv6()
    if v6:
        try:
            t_ = socket.socket(socket.AF_INET6, socket.SOCK_STREAM)
            t_.bind((v6, 0))
            t_.close()
        except OSError:
            v6 = None
    v6_stats = {"address": v6, "cases": 0}
    if v6:
        import struct
        org6 = e2e.Server(e2e.echo_handler)
        lp6 = {"http": e2e.free_port(), "socks": e2e.free_port()}
        closed6 = e2e.free_port()
        px = e2e.Proxy(driver, [{"name": "http", "bind": "[%s]:%d" % (v6, lp6["http"])}, {"name": "socks", "bind": "[%s]:%d" % (v6, lp6["socks"])}],
                       [{"name": "direct"}], [{"filter": "request.target.port == 1", "target": "deny"}, {"filter": "request.target.port != 4", "target": "direct"}],
                       metrics=False, name="c06-v6")

        def v6_request(proto, port_t):
            ip4 = socket.inet_aton(LOOP)
            if proto == "http":
                data, lport = ("CONNECT %s:%d HTTP/1.1\r\n\r\n" % (LOOP, port_t)).encode(), lp6["http"]
            elif proto == "socks5":
                data, lport = b"\x05\x01\x00\x05\x01\x00\x01" + ip4 + struct.pack(">H", port_t), lp6["socks"]
            elif proto == "socks5-bind":
                data, lport = b"\x05\x01\x00\x05\x02\x00\x01" + ip4 + struct.pack(">H", port_t), lp6["socks"]
            elif proto == "socks4":
                data, lport = b"\x04\x01" + struct.pack(">H", port_t) + ip4 + b"u\x00", lp6["socks"]
            elif proto == "socks4-bind":
                data, lport = b"\x04\x02" + struct.pack(">H", port_t) + ip4 + b"u\x00", lp6["socks"]
            else:
                data, lport = b"\x04\x01" + struct.pack(">H", port_t) + b"\x00\x00\x00\x01u\x00localhost\x00", lp6["socks"]
            c = socket.socket(socket.AF_INET6, socket.SOCK_STREAM)
            c.settimeout(5)
            try:
                c.bind((v6, 0))
                c.connect((v6, lport))
                c.sendall(data)
                if port_t == org6.port and "bind" not in proto:
                    time.sleep(0.3)
                    c.sendall(b"ping")
                    got = b""
                    c.settimeout(1.5)
                    try:
                        while not got.endswith(b"ping"):
                            d = c.recv(4096)
                            if not d:
                                break
                            got += d
                    except socket.timeout:
                        pass
                    return got, "open"
                return e2e.recv_all(c, timeout=4.0)
            except OSError as e:
                return b"", "error:%s" % e
            finally:
                e2e.close_quiet(c)
        try:
            px.start()
            for proto in ("http", "socks5", "socks4", "socks4a", "socks5-bind", "socks4-bind"):
                for port_t, why in ((1, "deny rule"), (closed6, "origin refuses"), (4, "no rule"), (org6.port, "reachable")):
                    if "bind" in proto and why != "reachable":
                        continue
                    got, how = v6_request(proto, port_t)
                    n_eval += 1
                    v6_stats["cases"] += 1
                    outcomes["v6:%s:%s" % (proto, why)] += 1
                    ok_expected = why == "reachable" and "bind" not in proto
                    if proto == "http":
                        m_ = re.match(rb"HTTP/1\.1 (\d{3}) [^\r\n]*\r\n((?:[^\r\n]+\r\n)*)\r\n", got)
                        code = int(m_.group(1)) if m_ else None
                        cl = re.search(rb"(?i)content-length: *(\d+)", m_.group(2)) if m_ else None
                        body = got[m_.end():] if m_ else b""
                        good = (code == 200 and got.endswith(b"ping")) if ok_expected else (code is not None and code >= 400 and cl is not None and int(cl.group(1)) == len(body) and how == "eof")
                    elif proto.startswith("socks5"):
                        rp_ = got[2:]
                        full = len(rp_) >= 10 and rp_[0] == 5 and ((rp_[3] == 1 and len(rp_) >= 10) or (rp_[3] == 4 and len(rp_) >= 22))
                        good = got[:2] == b"\x05\x00" and full and ((rp_[1] == 0 and got.endswith(b"ping")) if ok_expected else (rp_[1] != 0 and how == "eof" and len(rp_) in (10, 22)))
                    else:
                        good = len(got) >= 8 and got[0] == 0 and ((got[1] == 90 and got.endswith(b"ping")) if ok_expected else (got[1] in (91, 92, 93) and len(got) == 8 and how == "eof"))
                    if not good:
                        rep.fail("C06: %s client connecting from %s, target %s: received %r (%s) - %s" % (
                            proto, v6, why, got[:60], how, "expected the tunnel" if ok_expected else "expected one complete failure reply in the client's protocol"),
                            {"kind": "failing-input", "scenario": {"client_address": v6, "proto": proto, "why": why}, "reply": got.hex()[:400]})
            if not px.alive():
                rep.fail("C06: the proxy died during the IPv6 client scenarios", {"kind": "failing-input", "scenario": "alive"})
        finally:
            px.stop()
            org6.close()
            import shutil
            shutil.rmtree(px.dir, ignore_errors=True)
    rep.coverage.update({
        "ipv6_clients": v6_stats,
        "upstream_answer_cases": len(ucases), "upstream_answer_disagreements": n_udiff,
        "evaluations": n_eval,
        "distinct_nontrivial": len(shapes),
        "rule": "3 listener protocols x 33 routes (6 establishing incl. slow upstream and load balancer; refused, 403, upstream closes, garbage verdict, interim 100 then 403, lone 101 / 199 / 099, 302, 407, 500, 999, SOCKS5 rep 1 2 4 5 8 255, SOCKS5 dies after greeting, SOCKS4 91 92 93 0 255, dead upstream, deny, no rule) x IPv4/domain targets; listener-level refusals (BIND, unknown cmd, UDP not allowed, bad password, unknown user, no common method, GET, bad Proxy-Protocol, UDP over SOCKS4); SOCKS5 UDP association idling out",
        "input_distribution": dict(outcomes),
        "origin_accepts": origin_seen,
        "rounds": rounds,
    })
    rep.assumptions = ["fake endpoints (checks/e2e.py) behave as scripted", "loopback TCP delivers in order"]
    if broken:
        if not rep.violations:
            rep.broken_obligation(broken[0], broken[1])
    return rep.finish()


def jsonable(h):
    out = {}
    for k, v in h.items():
        out[k] = v.hex()[:2000] if isinstance(v, (bytes, bytearray)) else v
    return out


def e2e_retry(fn):
    """a scenario whose client could not even connect is re-run once"""
    h = fn()
    if "error" in h:
        time.sleep(0.2)
        h = fn()
    return h
