From Coq Require Import List NArith Arith PeanoNat Lia Bool.
Import ListNotations.
Open Scope N_scope.

Inductive res (A:Type) := Ok (a:A) | Err (e:N) | Eof.
Arguments Ok {A}. Arguments Err {A}. Arguments Eof {A}.

Inductive rp (A:Type) : Type :=
| Ret (a:A)
| Fail (e:N)
| ReadU8 (k : N -> rp A)
| ReadExact (n:nat) (k : list N -> rp A)
| ReadUntil (d:N) (k : list N -> bool -> rp A).
Arguments Ret {A}. Arguments Fail {A}. Arguments ReadU8 {A}. Arguments ReadExact {A}. Arguments ReadUntil {A}.

(* split at first occurrence of d, delimiter included in the prefix *)
Fixpoint split_until (d:N) (s:list N) : option (list N * list N) :=
  match s with
  | [] => None
  | b :: s' => if N.eqb b d then Some ([b], s')
               else match split_until d s' with
                    | Some (p, r) => Some (b :: p, r)
                    | None => None end
  end.

(* denotational: whole remaining input known *)
Fixpoint run_whole {A} (p : rp A) (s : list N) : res A * list N :=
  match p with
  | Ret a => (Ok a, s)
  | Fail e => (Err e, s)
  | ReadU8 k => match s with [] => (Eof, []) | b :: s' => run_whole (k b) s' end
  | ReadExact n k => if Nat.leb n (length s) then run_whole (k (firstn n s)) (skipn n s) else (Eof, [])
  | ReadUntil d k => match split_until d s with
                     | Some (p', r) => run_whole (k p' true) r
                     | None => run_whole (k s false) [] end
  end.

(* operational: BufReader buffer + future chunks (all nonempty); [] = EOF *)
Definition st := (list N * list (list N))%type.

Fixpoint pull1 (rbuf : list N) (cs : list (list N)) : option (N * st) :=
  match rbuf with
  | b :: r => Some (b, (r, cs))
  | [] => match cs with
          | [] => None
          | c :: cs' => match c with
                        | b :: r => Some (b, (r, cs'))
                        | [] => None       (* a 0-byte read is EOF *)
                        end
          end
  end.

Fixpoint take (n:nat) (acc rbuf : list N) (cs : list (list N)) : option (list N * st) :=
  if Nat.leb n (length rbuf) then Some (acc ++ firstn n rbuf, (skipn n rbuf, cs))
  else match cs with
       | [] => None
       | c :: cs' => match c with [] => None | _ => take (n - length rbuf) (acc ++ rbuf) c cs' end
       end.

Fixpoint until_ (d:N) (acc rbuf : list N) (cs : list (list N)) : (list N * bool * st) :=
  match split_until d rbuf with
  | Some (p, r) => (acc ++ p, true, (r, cs))
  | None => match cs with
            | [] => (acc ++ rbuf, false, ([], []))
            | c :: cs' => match c with [] => (acc ++ rbuf, false, ([], [])) | _ => until_ d (acc ++ rbuf) c cs' end
            end
  end.

Fixpoint run_chunked {A} (p : rp A) (s : st) : res A * st :=
  match p with
  | Ret a => (Ok a, s)
  | Fail e => (Err e, s)
  | ReadU8 k => match pull1 (fst s) (snd s) with None => (Eof, ([],[])) | Some (b, s') => run_chunked (k b) s' end
  | ReadExact n k => match take n [] (fst s) (snd s) with None => (Eof, ([],[])) | Some (bs, s') => run_chunked (k bs) s' end
  | ReadUntil d k => let '(bs, found, s') := until_ d [] (fst s) (snd s) in run_chunked (k bs found) s'
  end.

Definition flat (s : st) : list N := fst s ++ concat (snd s).
Definition wf (cs : list (list N)) := Forall (fun c => c <> []) cs.

Lemma pull1_spec rbuf cs : wf cs ->
  match pull1 rbuf cs with
  | None => rbuf ++ concat cs = []
  | Some (b, s') => rbuf ++ concat cs = b :: flat s' /\ wf (snd s')
  end.
Proof.
  intros Hwf. destruct rbuf as [|b r]; simpl.
  - destruct cs as [|c cs']; simpl; [reflexivity|].
    inversion Hwf as [|? ? Hc Hcs]; subst. destruct c as [|b r]; [congruence|]. simpl. split; [reflexivity|assumption].
  - split; [reflexivity|assumption].
Qed.

Lemma take_spec : forall cs n acc rbuf, wf cs ->
  match take n acc rbuf cs with
  | None => (length (rbuf ++ concat cs) < n)%nat
  | Some (bs, s') => bs = acc ++ firstn n (rbuf ++ concat cs) /\ flat s' = skipn n (rbuf ++ concat cs) /\ wf (snd s') /\ (n <= length (rbuf ++ concat cs))%nat
  end.
Proof.
  induction cs as [|c cs IH]; intros n acc rbuf Hwf; simpl.
  - rewrite app_nil_r. destruct (Nat.leb_spec n (length rbuf)).
    + unfold flat; simpl. rewrite app_nil_r. repeat split; auto.
    + assumption.
  - destruct (Nat.leb_spec n (length rbuf)) as [Hle|Hgt].
    + unfold flat; simpl. rewrite firstn_app, skipn_app.
      replace (n - length rbuf)%nat with 0%nat by lia. simpl. rewrite app_nil_r.
      repeat split; auto. rewrite app_length. lia.
    + inversion Hwf as [|? ? Hc Hcs]; subst. destruct c as [|b r] eqn:Ec; [congruence|]. rewrite <- Ec in *.
      specialize (IH (n - length rbuf)%nat (acc ++ rbuf) c Hcs).
      destruct (take (n - length rbuf) (acc ++ rbuf) c cs) as [[bs s']|].
      * destruct IH as (H1 & H2 & H3 & H4). repeat split; auto.
        -- rewrite H1. rewrite (firstn_app n rbuf). rewrite (@firstn_all2 _ n rbuf) by lia. rewrite <- app_assoc. reflexivity.
        -- rewrite H2. rewrite (skipn_app n rbuf). rewrite (@skipn_all2 _ n rbuf) by lia. reflexivity.
        -- rewrite !app_length in *. lia.
      * rewrite !app_length in *. lia.
Qed.

Lemma split_until_app_none d a b : split_until d a = None ->
  split_until d (a ++ b) = match split_until d b with Some (p, r) => Some (a ++ p, r) | None => None end.
Proof.
  induction a as [|x a IH]; simpl; intros H.
  - destruct (split_until d b) as [[p r]|]; reflexivity.
  - destruct (N.eqb x d); [discriminate|].
    destruct (split_until d a) as [[p r]|] eqn:E; [discriminate|].
    rewrite IH by reflexivity. destruct (split_until d b) as [[p r]|]; reflexivity.
Qed.

Lemma split_until_app_some d a b p r : split_until d a = Some (p, r) -> split_until d (a ++ b) = Some (p, r ++ b).
Proof.
  revert p r. induction a as [|x a IH]; simpl; intros p r H; [discriminate|].
  destruct (N.eqb x d). { inversion H; subst; reflexivity. }
  destruct (split_until d a) as [[p' r']|] eqn:E; [|discriminate]. inversion H; subst.
  rewrite (IH _ _ eq_refl). reflexivity.
Qed.

Lemma until_spec : forall cs d acc rbuf, wf cs ->
  let '(bs, found, s') := until_ d acc rbuf cs in
  wf (snd s') /\
  match split_until d (rbuf ++ concat cs) with
  | Some (p, r) => found = true /\ bs = acc ++ p /\ flat s' = r
  | None => found = false /\ bs = acc ++ rbuf ++ concat cs /\ flat s' = []
  end.
Proof.
  induction cs as [|c cs IH]; intros d acc rbuf Hwf; simpl.
  - rewrite app_nil_r. destruct (split_until d rbuf) as [[p r]|] eqn:E; unfold flat; simpl.
    + rewrite ?app_nil_r. auto.
    + rewrite ?app_nil_r. auto.
  - destruct (split_until d rbuf) as [[p r]|] eqn:E.
    + rewrite (split_until_app_some _ _ _ _ _ E). unfold flat; simpl. auto.
    + inversion Hwf as [|? ? Hc Hcs]; subst. destruct c as [|b0 r0] eqn:Ec; [congruence|]. rewrite <- Ec in *.
      specialize (IH d (acc ++ rbuf) c Hcs).
      destruct (until_ d (acc ++ rbuf) c cs) as [[bs found] s'].
      destruct IH as [Hw IH]. split; [assumption|].
      rewrite (split_until_app_none _ _ _ E).
      destruct (split_until d (c ++ concat cs)) as [[p r]|].
      * destruct IH as (? & ? & ?). subst. rewrite <- app_assoc. auto.
      * destruct IH as (? & ? & ?). subst. rewrite <- app_assoc. auto.
Qed.

Theorem chunking_irrelevant {A} (p : rp A) : forall s, wf (snd s) ->
  fst (run_chunked p s) = fst (run_whole p (flat s)) /\
  flat (snd (run_chunked p s)) = snd (run_whole p (flat s)).
Proof.
  induction p as [a|e|k IH|n k IH|d k IH]; intros [rbuf cs] Hwf;
    cbn [run_chunked run_whole fst snd] in *; change (flat (rbuf, cs)) with (rbuf ++ concat cs).
  - auto.
  - auto.
  - pose proof (pull1_spec rbuf cs Hwf) as H.
    destruct (pull1 rbuf cs) as [[b s']|].
    + destruct H as [H1 H2]. rewrite H1. apply IH; assumption.
    + rewrite H. auto.
  - pose proof (take_spec cs n [] rbuf Hwf) as H.
    destruct (take n [] rbuf cs) as [[bs s']|].
    + destruct H as (H1 & H2 & H3 & H4). destruct (Nat.leb_spec n (length (rbuf ++ concat cs))); [|lia].
      simpl in H1. subst bs. rewrite <- H2. apply IH; assumption.
    + destruct (Nat.leb_spec n (length (rbuf ++ concat cs))); [lia|]. auto.
  - pose proof (until_spec cs d [] rbuf Hwf) as H.
    destruct (until_ d [] rbuf cs) as [[bs found] s'].
    destruct H as [Hw H].
    destruct (split_until d (rbuf ++ concat cs)) as [[p r]|].
    + destruct H as (? & ? & ?). subst. simpl. apply IH; assumption.
    + destruct H as (? & ? & H3). subst. simpl. rewrite <- H3. apply IH; assumption.
Qed.
Print Assumptions chunking_irrelevant.
