From Coq Require Import List NArith Arith PeanoNat Lia Bool.
Import ListNotations.
Open Scope N_scope.

Definition W : N := 128.
Definition full : N := N.ones W.

Definition bm_new (total seq : N) : N :=
  N.lor (N.land (N.shiftl full total) full) (N.shiftl 1 seq).
Definition bm_has (b seq : N) : bool := N.testbit b seq.
Definition bm_set (b seq : N) : N := N.lor b (N.shiftl 1 seq).
Definition bm_done (b : N) : bool := N.eqb b full.

(* abstract meaning: bits >= total are set, plus the seen set *)
Definition inv (b total : N) (seen : N -> bool) : Prop :=
  forall i, N.testbit b i = (i <? W) && ((total <=? i) || seen i).

Lemma testbit_one_shift seq i : N.testbit (N.shiftl 1 seq) i = (i =? seq).
Proof.
  destruct (N.eqb_spec i seq) as [->|Hne].
  - rewrite N.shiftl_spec_high' by lia. rewrite N.sub_diag. reflexivity.
  - destruct (N.lt_ge_cases i seq).
    + apply N.shiftl_spec_low; assumption.
    + rewrite N.shiftl_spec_high' by assumption.
      replace (i - seq) with (N.succ (N.pred (i - seq))) by lia.
      rewrite N.bit0_odd || idtac. 
      change 1 with (N.ones 1). rewrite N.ones_spec_high; [reflexivity|lia].
Qed.

Lemma testbit_full i : N.testbit full i = (i <? W).
Proof.
  unfold full. destruct (N.ltb_spec i W).
  - apply N.ones_spec_low; assumption.
  - apply N.ones_spec_high; assumption.
Qed.

Lemma inv_new total seq : total <= 127 -> seq < total ->
  inv (bm_new total seq) total (fun i => i =? seq).
Proof.
  intros Ht Hs i. unfold bm_new.
  rewrite N.lor_spec, N.land_spec, testbit_one_shift, testbit_full.
  assert (Hsh : N.testbit (N.shiftl full total) i = (total <=? i) && (i - total <? W)).
  { destruct (N.leb_spec total i).
    - rewrite N.shiftl_spec_high' by assumption. rewrite testbit_full. reflexivity.
    - rewrite N.shiftl_spec_low by assumption. reflexivity. }
  rewrite Hsh. unfold W in *.
  destruct (N.ltb_spec i 128), (N.leb_spec total i), (N.ltb_spec (i - total) 128), (N.eqb_spec i seq);
    simpl; try reflexivity; lia.
Qed.

Lemma inv_set b total seen seq : seq < W -> inv b total seen ->
  inv (bm_set b seq) total (fun i => (i =? seq) || seen i).
Proof.
  intros Hs H i. unfold bm_set. rewrite N.lor_spec, testbit_one_shift, H.
  destruct (N.ltb_spec i W); simpl.
  - destruct (total <=? i), (i =? seq), (seen i); reflexivity.
  - destruct (N.eqb_spec i seq); [lia|reflexivity].
Qed.

Lemma done_iff b total seen : total <= W -> inv b total seen ->
  (bm_done b = true <-> forall i, i < total -> seen i = true).
Proof.
  intros Ht H. unfold bm_done. rewrite N.eqb_eq. split.
  - intros -> i Hi. specialize (H i). rewrite testbit_full in H.
    destruct (N.ltb_spec i W); [|lia]. simpl in H.
    destruct (N.leb_spec total i); [lia|]. simpl in H. congruence.
  - intros Hall. apply N.bits_inj. intros i. rewrite H, testbit_full.
    destruct (N.ltb_spec i W); simpl; [|reflexivity].
    destruct (N.leb_spec total i); simpl; [reflexivity|]. apply Hall; assumption.
Qed.
Print Assumptions done_iff.
