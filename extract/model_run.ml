(* Line-protocol driver around the extracted Coq model (Model, from coq/extraction/Extract.v).
   Parsing and printing only; the same protocol as harness/driver.rs. *)
open Model

let rec pos_of_int (i : int) : positive =
  if i = 1 then XH
  else if i land 1 = 0 then XO (pos_of_int (i lsr 1))
  else XI (pos_of_int (i lsr 1))
let n_of_int (i : int) : n = if i = 0 then N0 else Npos (pos_of_int i)
let rec int_of_pos = function
  | XH -> 1
  | XO p -> 2 * int_of_pos p
  | XI p -> 2 * int_of_pos p + 1
let int_of_n = function N0 -> 0 | Npos p -> int_of_pos p

let unhex (s : String.t) : n list =
  if s = "-" || s = "" then []
  else
    let len = String.length s / 2 in
    List.init len (fun i -> n_of_int (int_of_string ("0x" ^ String.sub s (2 * i) 2)))
let hex (b : n list) : String.t =
  if b = [] then "-"
  else String.concat "" (List.map (fun x -> Printf.sprintf "%02x" (int_of_n x)) b)

let split_on c s = if s = "" then [] else String.split_on_char c s

exception Model_panic

(* ---- codecs --------------------------------------------------------------------------- *)

let chunks_of s = if s = "-" || s = "" then [] else List.map unhex (split_on ',' s)
let hexe b = if b = [] then "" else hex b

let show_target = function
  | TDomain (h, p) -> Printf.sprintf "D%s:%d" (hexe h) (int_of_n p)
  | TV4 (ip, p) -> Printf.sprintf "4%08x:%d" (int_of_n ip) (int_of_n p)
  | TV6 (ip, p) -> Printf.sprintf "6%s:%d" (hex ip) (int_of_n p)
  | TUnknown -> "U"

let parse_target s =
  if s = "U" then TUnknown
  else
    let kind = s.[0] in
    let rest = String.sub s 1 (String.length s - 1) in
    let i = String.rindex rest ':' in
    let h = String.sub rest 0 i and p = String.sub rest (i + 1) (String.length rest - i - 1) in
    let port = n_of_int (int_of_string p) in
    match kind with
    | 'D' -> TDomain (unhex h, port)
    | '4' -> TV4 (n_of_int (int_of_string ("0x" ^ h)), port)
    | _ -> TV6 (unhex h, port)

let show_auth = function
  | None -> "none"
  | Some (u, p) -> Printf.sprintf "%s/%s" (hex u) (hex p)
let parse_auth s =
  if s = "none" then None
  else
    let i = String.index s '/' in
    Some (unhex (String.sub s 0 i), unhex (String.sub s (i + 1) (String.length s - i - 1)))

let flat_sst (rbuf, cs) = rbuf @ List.concat cs

let socks_req_read args =
  match args with
  | [ req; cs ] -> (
      let (r, st), w = x_socks_req_read (req = "1") (chunks_of cs) in
      match r with
      | ROk q ->
          Printf.sprintf "OK v=%d c=%d t=%s a=%s W=%s L=%s" (int_of_n q.sr_ver) (int_of_n q.sr_cmd)
            (show_target q.sr_target) (show_auth q.sr_auth) (hex w) (hex (flat_sst st))
      | RPanic _ -> raise Model_panic
      | _ -> Printf.sprintf "ERR W=%s" (hex w))
  | _ -> "BAD-ARGS"

let socks_req_write args =
  match args with
  | [ ver; cmd; t; auth; cs ] -> (
      let cmd = n_of_int (int_of_string cmd) and t = parse_target t and auth = parse_auth auth in
      match int_of_string ver with
      | 4 -> (
          match write_req_v4 cmd t auth with
          | Ok b -> "OK W=" ^ hex b
          | Err _ -> "ERR W=-"
          | Panic _ -> raise Model_panic)
      | 5 -> (
          let (r, _), w = x_socks_req_write5 cmd t auth (chunks_of cs) in
          match r with
          | ROk _ -> "OK W=" ^ hex w
          | RPanic _ -> raise Model_panic
          | _ -> "ERR W=" ^ hex w)
      | _ -> "ERR W=-")
  | _ -> "BAD-ARGS"

let socks_resp_read args =
  match args with
  | [ cs ] -> (
      let (r, st), _ = x_socks_resp_read (chunks_of cs) in
      match r with
      | ROk p ->
          Printf.sprintf "OK v=%d c=%d t=%s L=%s" (int_of_n p.sp_ver) (int_of_n p.sp_cmd)
            (show_target p.sp_target) (hex (flat_sst st))
      | RPanic _ -> raise Model_panic
      | _ -> "ERR")
  | _ -> "BAD-ARGS"

let socks_resp_write args =
  match args with
  | [ ver; cmd; t ] -> (
      match
        write_response
          { sp_ver = n_of_int (int_of_string ver); sp_cmd = n_of_int (int_of_string cmd); sp_target = parse_target t }
      with
      | Ok b -> "OK W=" ^ hex b
      | Err _ -> "ERR W=-"
      | Panic _ -> raise Model_panic)
  | _ -> "BAD-ARGS"

(* client_reply <0|5|4> <target> <msg hex> <class 0..3> *)
let client_reply args =
  match args with
  | [ p; t; msg; k ] ->
      "OK W=" ^ hex (x_client_bytes (n_of_int (int_of_string p)) (parse_target t) (unhex msg) (n_of_int (int_of_string k)))
  | _ -> "BAD-ARGS"

let show_headers hs =
  if hs = [] then "-" else String.concat ";" (List.map (fun (k, v) -> hex k ^ "=" ^ hex v) hs)
let parse_headers s =
  if s = "-" then []
  else
    List.map
      (fun kv ->
        let i = String.index kv '=' in
        (unhex (String.sub kv 0 i), unhex (String.sub kv (i + 1) (String.length kv - i - 1))))
      (split_on ';' s)

let http_req_read args =
  match args with
  | [ cs ] -> (
      let (r, st), _ = x_http_req_read (chunks_of cs) in
      match r with
      | ROk q ->
          Printf.sprintf "OK m=%s r=%s v=%s h=%s L=%s" (hex q.hq_method) (hex q.hq_resource) (hex q.hq_version)
            (show_headers q.hq_headers) (hex (flat_sst st))
      | RPanic _ -> raise Model_panic
      | _ -> "ERR")
  | _ -> "BAD-ARGS"

let http_resp_read args =
  match args with
  | [ cs ] -> (
      let (r, st), _ = x_http_resp_read (chunks_of cs) in
      match r with
      | ROk p ->
          Printf.sprintf "OK v=%s c=%d s=%s h=%s L=%s" (hex p.hp_version) (int_of_n p.hp_code) (hex p.hp_status)
            (show_headers p.hp_headers) (hex (flat_sst st))
      | RPanic _ -> raise Model_panic
      | _ -> "ERR")
  | _ -> "BAD-ARGS"

let http_req_write args =
  match args with
  | [ m; r; v; hs ] ->
      "OK W="
      ^ hex (write_http_request { hq_method = unhex m; hq_resource = unhex r; hq_version = unhex v; hq_headers = parse_headers hs })
  | _ -> "BAD-ARGS"

let http_resp_write args =
  match args with
  | v :: c :: st :: hs :: rest ->
      let head =
        write_http_response
          { hp_version = unhex v; hp_code = n_of_int (int_of_string c); hp_status = unhex st; hp_headers = parse_headers hs }
      in
      let body = match rest with [ b ] -> unhex b | _ -> [] in
      "OK W=" ^ hex (head @ body)
  | _ -> "BAD-ARGS"

let show_frame f =
  Printf.sprintf "F/%d/%s/%s" (int_of_n f.f_sid)
    (match f.f_addr with None -> "none" | Some t -> show_target t)
    (hex f.f_body)

let parse_frame sid addr body =
  { f_sid = n_of_int (int_of_string sid); f_addr = (if addr = "none" then None else Some (parse_target addr)); f_body = unhex body }

let frame_decode args =
  match args with
  | [ b ] -> ( match from_buffer (unhex b) with Ok f -> "OK " ^ show_frame f | Err _ -> "ERR" | Panic _ -> raise Model_panic)
  | _ -> "BAD-ARGS"

let frame_encode args =
  match args with
  | [ sid; addr; body ] -> (
      match encode_frame (parse_frame sid addr body) with
      | Ok b -> "OK W=" ^ hex b
      | Err _ -> "ERR W=-"
      | Panic _ -> raise Model_panic)
  | _ -> "BAD-ARGS"

let frame_stream args =
  match args with
  | [ cs ] ->
      let frs, e = x_sfr_all (chunks_of cs) in
      let tail = match e with Ok _ -> "END" | Err _ -> "ERR" | Panic _ -> raise Model_panic in
      String.concat "," (List.map show_frame frs @ [ tail ])
  | _ -> "BAD-ARGS"

(* dgram_hop <mtu> <ids: shared:<start> | own | i,j,..> <writes sid/addr/body;...> <sched k.i,k.i,...> *)
let rec nat_of_int i = if i <= 0 then O else S (nat_of_int (i - 1))
let dgram_hop ovf args =
  match args with
  | [ mtu; ids; writes; sched ] -> (
      let ws =
        List.map
          (fun w -> match split_on '/' w with
             | [ sid; addr; body ] -> (n_of_int (int_of_string sid), parse_frame "0" addr (if body = "-" then "" else body))
             | _ -> failwith "bad write")
          (split_on ';' writes)
      in
      let idl =
        if String.length ids > 7 && String.sub ids 0 7 = "shared:" then x_ids_of true (n_of_int (int_of_string (String.sub ids 7 (String.length ids - 7)))) ws
        else if ids = "own" then x_ids_of false N0 ws
        else List.map (fun i -> n_of_int (int_of_string i)) (split_on ',' ids)
      in
      let sc =
        List.map
          (fun e -> match split_on '.' e with [ k; i ] -> (nat_of_int (int_of_string k), nat_of_int (int_of_string i)) | _ -> failwith "bad sched")
          (if sched = "-" then [] else split_on ',' sched)
      in
      match x_dgram_hop ovf (n_of_int (int_of_string mtu)) idl ws sc with
      | Ok outs ->
          "ids=" ^ String.concat "," (List.map (fun i -> string_of_int (int_of_n i)) idl) ^ " " ^
          String.concat ","
            (List.map
               (function
                 | Ok None -> "-"
                 | Ok (Some f) -> show_frame f
                 | Err _ -> "ERR"
                 | Panic _ -> raise Model_panic)
               outs)
      | Err _ -> "SEND-ERR"
      | Panic _ -> raise Model_panic)
  | _ -> "BAD-ARGS"

let udp_decode args =
  match args with
  | [ b ] -> (
      match decode_udp (unhex b) with
      | Ok (t, body) -> "OK " ^ show_frame { f_sid = N0; f_addr = Some t; f_body = body }
      | Err _ -> "ERR"
      | Panic _ -> raise Model_panic)
  | _ -> "BAD-ARGS"

let udp_encode args =
  match args with
  | [ addr; body ] -> (
      let t = if addr = "none" then None else Some (parse_target addr) in
      match encode_udp t (unhex body) with Ok b -> "OK W=" ^ hex b | Err _ -> "ERR" | Panic _ -> raise Model_panic)
  | _ -> "BAD-ARGS"

let target_parse args =
  match args with
  | [ h ] -> (
      let s = unhex h in
      if (match s with c :: _ -> int_of_n c = 91 | [] -> false) then "OPAQUE"
      else if not (utf8_valid s) then "OPAQUE"
      else match x_parse_target s with Some t -> "OK " ^ show_target t | None -> "ERR")
  | _ -> "BAD-ARGS"

let target_print args =
  match args with
  | [ t ] -> ( match parse_target t with TV6 _ -> "OPAQUE" | t -> hex (x_print_target t))
  | _ -> "BAD-ARGS"

let connect_write args =
  let go t cs udp =
    match parse_target t with
    | TV6 _ -> "OPAQUE"
    | t -> (
        match (if udp then x_write_connect_udp t else x_write_connect t) with
        | Err _ -> "ERR W=-"
        | Panic _ -> raise Model_panic
        | Ok w -> (
            let (r, _), _ = x_connect_reply udp (chunks_of cs) in
            match r with
            | ROk _ -> "OK W=" ^ hex w
            | RPanic _ -> raise Model_panic
            | _ -> "ERR W=" ^ hex w))
  in
  match args with
  | [ t; cs ] -> go t cs false
  | [ t; cs; "udp" ] -> go t cs true
  | _ -> "BAD-ARGS"

(* ---- fragments ------------------------------------------------------------------------ *)

let show_raw (o : (bytes option) outcome option) : String.t =
  match o with
  | None -> "t"
  | Some (Ok None) -> "-"
  | Some (Ok (Some b)) -> "E" ^ hex b
  | Some (Err _) -> "ERR"
  | Some (Panic _) -> raise Model_panic

let frag_seq ovf args =
  match args with
  | kind :: tmo :: rest ->
      let ops = match rest with [] -> [] | o :: _ -> split_on ',' o in
      let ops =
        List.map
          (fun o -> if o = "t" || o = "w" then FTimer else FRecv (unhex (String.sub o 1 (String.length o - 1))))
          ops
      in
      let timeout = if tmo = "z" then N0 else n_of_int 1000000000 in
      if tmo = "m" then begin
        (* medium lifetime with explicit waits: the same reassemble / timer functions, the clock advanced by the glue:
           one tick per op, 2000 ticks per wait, lifetime 1000 ticks *)
        let now = ref 0 and st = ref { fs_queue = []; fs_timer = [] } and outs = ref [] in
        List.iter (fun o ->
          if o = "t" then (st := timer (n_of_int !now) !st; outs := "t" :: !outs)
          else if o = "w" then (now := !now + 2000; outs := "w" :: !outs)
          else begin
            let dg = unhex (String.sub o 1 (String.length o - 1)) in
            let (st', r) = reassemble (fun b -> Some b) ovf (n_of_int !now) (n_of_int 1000) !st dg in
            st := st';
            outs := show_raw (Some r) :: !outs
          end;
          now := !now + 1) (match rest with [] -> [] | o :: _ -> split_on ',' o);
        String.concat "," (List.rev !outs)
      end else
      if kind = "raw" then
        let outs = frag_run (fun b -> Some b) ovf timeout N0 { fs_queue = []; fs_timer = [] } ops in
        String.concat "," (List.map show_raw outs)
      else
        let fb b = match from_buffer b with Ok f -> Some f | _ -> None in
        let outs = frag_run fb ovf timeout N0 { fs_queue = []; fs_timer = [] } ops in
        String.concat ","
          (List.map
             (function
               | None -> "t"
               | Some (Ok None) -> "-"
               | Some (Ok (Some f)) ->
                   Printf.sprintf "F:%d:%s:%s" (int_of_n f.f_sid)
                     (match f.f_addr with None -> "none" | Some t -> show_target t)
                     (hex f.f_body)
               | Some (Err _) -> "ERR"
               | Some (Panic _) -> raise Model_panic)
             outs)
  | _ -> "BAD-ARGS"

let frag_make ovf args =
  match args with
  | [ mtu; next_id; payload ] -> (
      match make_fragments ovf (n_of_int (int_of_string mtu)) (n_of_int (int_of_string next_id)) (unhex payload) with
      | Ok (nid, frs) -> Printf.sprintf "%d %s" (int_of_n nid) (String.concat "," (List.map hex frs))
      | Err _ -> "ERR"
      | Panic _ -> raise Model_panic)
  | _ -> "BAD-ARGS"

let frag_rt ovf args =
  match args with
  | [ mtu; next_id; payload; perm ] -> (
      match make_fragments ovf (n_of_int (int_of_string mtu)) (n_of_int (int_of_string next_id)) (unhex payload) with
      | Ok (_, frs) ->
          let arr = Array.of_list frs in
          let k = Array.length arr in
          let ops =
            List.map (fun ix -> FRecv arr.(int_of_string ix mod (max k 1))) (split_on ',' perm)
          in
          let outs =
            frag_run (fun b -> Some b) ovf (n_of_int 1000000000) N0 { fs_queue = []; fs_timer = [] } ops
          in
          Printf.sprintf "%d %s" k (String.concat "," (List.map show_raw outs))
      | Err _ -> "ERR"
      | Panic _ -> raise Model_panic)
  | _ -> "BAD-ARGS"

(* ---- milu -------------------------------------------------------------------------- *)

let char_of_ascii (Ascii (b0, b1, b2, b3, b4, b5, b6, b7)) =
  let v b k = if b then 1 lsl k else 0 in
  Char.chr (v b0 0 + v b1 1 + v b2 2 + v b3 3 + v b4 4 + v b5 5 + v b6 6 + v b7 7)
let rec ocaml_string = function EmptyString -> "" | String (c, r) -> String.make 1 (char_of_ascii c) ^ ocaml_string r

let int_of_z z =
  (* decimal text of an i64-range integer; negative accumulation so that i64::MIN is representable *)
  let rec neg p = match p with
    | XH -> (-1L)
    | XO q -> Int64.mul 2L (neg q)
    | XI q -> Int64.sub (Int64.mul 2L (neg q)) 1L in
  match z with
  | Z0 -> "0"
  | Zneg p -> Int64.to_string (neg p)
  | Zpos p -> let s = Int64.to_string (neg p) in String.sub s 1 (String.length s - 1)

let rec sexp (e : expr) : String.t =
  match e with
  | EInt z -> Printf.sprintf "(int %s)" (int_of_z z)
  | EBool b -> Printf.sprintf "(bool %b)" b
  | EStr s -> Printf.sprintf "(str %s)" (hex s)
  | EId s -> Printf.sprintf "(id %s)" (hex s)
  | EArr l -> "(arr" ^ String.concat "" (List.map (fun x -> " " ^ sexp x) l) ^ ")"
  | ETup l -> "(tup" ^ String.concat "" (List.map (fun x -> " " ^ sexp x) l) ^ ")"
  | ENat n -> Printf.sprintf "(nat %s)" (ocaml_string n)
  | ECall (f, args) -> "(call " ^ sexp f ^ String.concat "" (List.map (fun x -> " " ^ sexp x) args) ^ ")"

let milu_parse args =
  match args with
  | [ h ] -> (
      let src = unhex h in
      if List.exists (fun c -> int_of_n c = 96) src then "OPAQUE"
      else if not (utf8_valid src) then "OPAQUE"
      else
        match x_milu_parse src with
        | POk (e, _) -> "OK " ^ sexp e
        | PErr | PFail -> "ERR"
        | PPanic -> raise Model_panic)
  | _ -> "BAD-ARGS"

(* milu_rt <tokens joined by ','>: prefix encoding of a MiluRoundtrip.tree
   A,<hex id>  N,<decimal>  B,<m>,<j>,l,r  U,<j>,t  X,a,i  F,a,<hex field>  K,<n>,f,args..  C,c,y,n *)
let milu_rt args =
  match args with
  | [ enc ] ->
      let toks = ref (String.split_on_char ',' enc) in
      let next () = match !toks with t :: r -> toks := r; t | [] -> failwith "short" in
      let rec nat_of_i i = if i <= 0 then O else S (nat_of_i (i - 1)) in
      let nat_of s = nat_of_i (int_of_string s) in
      let rec tr () =
        match next () with
        | "A" -> TAtom (unhex (next ()))
        | "N" -> let d = next () in TInt (List.init (String.length d) (fun i -> n_of_int (Char.code d.[i])))
        | "B" -> let m = nat_of (next ()) in let j = nat_of (next ()) in let l = tr () in let r = tr () in TBin (m, j, l, r)
        | "U" -> let j = nat_of (next ()) in TUn (j, tr ())
        | "X" -> let a = tr () in let i = tr () in TIndex (a, i)
        | "F" -> let a = tr () in TAccess (a, unhex (next ()))
        | "K" -> let n = int_of_string (next ()) in let f = tr () in
                 let rec go k = if k = 0 then [] else let x = tr () in x :: go (k - 1) in TCall (f, go n)
        | "C" -> let c = tr () in let y = tr () in let n = tr () in TCond (c, y, n)
        | _ -> failwith "tok" in
      let t = tr () in
      "OK " ^ hex (x_rt_print t) ^ " " ^ sexp (x_rt_denote t)
  | [ enc; fillers ] ->
      (* second argument: `,`-separated hex fillers, used for the token gaps in printing order *)
      let toks = ref (String.split_on_char ',' enc) in
      let next () = match !toks with t :: r -> toks := r; t | [] -> failwith "short" in
      let rec nat_of_i i = if i <= 0 then O else S (nat_of_i (i - 1)) in
      let nat_of s = nat_of_i (int_of_string s) in
      let rec tr () =
        match next () with
        | "A" -> TAtom (unhex (next ()))
        | "N" -> let d = next () in TInt (List.init (String.length d) (fun i -> n_of_int (Char.code d.[i])))
        | "B" -> let m = nat_of (next ()) in let j = nat_of (next ()) in let l = tr () in let r = tr () in TBin (m, j, l, r)
        | "U" -> let j = nat_of (next ()) in TUn (j, tr ())
        | "X" -> let a = tr () in let i = tr () in TIndex (a, i)
        | "F" -> let a = tr () in TAccess (a, unhex (next ()))
        | "K" -> let n = int_of_string (next ()) in let f = tr () in
                 let rec go k = if k = 0 then [] else let x = tr () in x :: go (k - 1) in TCall (f, go n)
        | "C" -> let c = tr () in let y = tr () in let n = tr () in TCond (c, y, n)
        | _ -> failwith "tok" in
      let t = tr () in
      let fs = List.map unhex (String.split_on_char ',' fillers) in
      "OK " ^ hex (x_rt_print_ws fs t) ^ " " ^ sexp (x_rt_denote t)
  | _ -> "BAD-ARGS"

(* idle_check <period_s> <client_delta_ms> <server_delta_ms> (signed decimal) *)
let idle_check args =
  match args with
  | [ p; dc; ds ] ->
      let sg s = let v = int_of_string s in (v <= 0, n_of_int (abs v)) in
      let (cp, cv) = sg dc and (sp, sv) = sg ds in
      let ((tc, ts), cl) = x_idle_check (n_of_int (int_of_string p)) cp cv sp sv in
      Printf.sprintf "OK c=%b s=%b close=%b" tc ts cl
  | _ -> "BAD-ARGS"

(* idle_period <tcp|udp> <configured seconds or -> *)
let idle_period args =
  match args with
  | [ k; v ] ->
      let o = if v = "-" then None else Some (n_of_int (int_of_string v)) in
      string_of_int (int_of_n (if k = "tcp" then x_tcp_period o else x_udp_period o))
  | _ -> "BAD-ARGS"

(* connector tables: entries `,`-separated, <name>:P or <name>:L<m>.<m>... (names are numbers; L alone = no members) *)
let parse_table (s : String.t) =
  if s = "-" then [] else
  List.map (fun e ->
    match String.split_on_char ':' e with
    | [ n; k ] ->
        let name = n_of_int (int_of_string n) in
        if k = "P" then (name, KPlain)
        else
          let ms = String.sub k 1 (String.length k - 1) in
          (name, KLb (if ms = "" then [] else List.map (fun m -> n_of_int (int_of_string m)) (String.split_on_char '.' ms)))
    | _ -> failwith "table") (String.split_on_char ',' s)

let cfg_table args =
  match args with
  | [ t ] -> if x_table_ok (parse_table t) then "OK" else "REJECT"
  | _ -> "BAD-ARGS"

let cfg_resolve args =
  match args with
  | [ t; n; cs ] ->
      let rec nat_of_i i = if i <= 0 then O else S (nat_of_i (i - 1)) in
      let choices = if cs = "-" then [] else List.map (fun c -> nat_of_i (int_of_string c)) (String.split_on_char '.' cs) in
      (match x_resolve (parse_table t) (n_of_int (int_of_string n)) choices with
       | Leaf l -> "LEAF " ^ string_of_int (int_of_n l)
       | Unknown -> "UNKNOWN"
       | OutOfFuel -> "OUT-OF-FUEL")
  | _ -> "BAD-ARGS"

(* lifecycle <class> <states `,`-separated>: class H | R | C | F1 | F0 | X<c><s> *)
let cstate_of = function
  | "ClientConnected" -> ClientConnected | "ClientRequested" -> ClientRequested | "ServerConnecting" -> ServerConnecting
  | "Connected" -> Connected | "ServerShutdown" -> ServerShutdown | "ClientShutdown" -> ClientShutdown
  | "Terminated" -> Terminated | "ErrorOccured" -> ErrorOccured | _ -> failwith "state"
let cstate_name = function
  | ClientConnected -> "ClientConnected" | ClientRequested -> "ClientRequested" | ServerConnecting -> "ServerConnecting"
  | Connected -> "Connected" | ServerShutdown -> "ServerShutdown" | ClientShutdown -> "ClientShutdown"
  | Terminated -> "Terminated" | ErrorOccured -> "ErrorOccured"
let lifecycle args =
  match args with
  | [ cls; sts ] ->
      let states = if sts = "" then [] else List.map cstate_of (String.split_on_char ',' sts) in
      let oc = match cls with
        | "H" -> HandshakeFailed | "R" -> Refused | "C" -> ConnectFailed | "F1" -> Finished true | "F0" -> Finished false
        | _ -> RelayFailed (cls.[1] = '1', cls.[2] = '1') in
      let expected = x_state_log oc in
      Printf.sprintf "OK ok=%b same=%b expected=%s" (x_lifecycle_ok states) (states = expected) (String.concat "," (List.map cstate_name expected))
  | _ -> "BAD-ARGS"

(* socks_select <required 0|1> <methods hex> ; auth_check <required> <users u:p,.. hex> <creds u:p hex | ->  *)
let socks_select args =
  match args with
  | [ r; ms ] -> (match x_select_method (r = "1") (unhex ms) with Some m -> "OK " ^ string_of_int (int_of_n m) | None -> "OK none")
  | _ -> "BAD-ARGS"
let pair_of s = match String.split_on_char ':' s with [ u; p ] -> (unhex u, unhex p) | _ -> failwith "pair"
let auth_check args =
  match args with
  | [ r; us; k ] ->
      let users = if us = "-" then [] else List.map pair_of (String.split_on_char ',' us) in
      let key = if k = "-" then None else Some (pair_of k) in
      if x_auth_check (r = "1") users key then "OK true" else "OK false"
  | _ -> "BAD-ARGS"

(* ---- milu evaluator ------------------------------------------------------------------ *)

exception Opaque

let ostring_of_bytes (b : n list) : String.t = String.concat "" (List.map (fun x -> String.make 1 (Char.chr (int_of_n x))) b)
let bytes_of_ostring (s : String.t) : n list = List.init (String.length s) (fun i -> n_of_int (Char.code s.[i]))

(* oracle for the regex crate: only patterns without metacharacters are computed *)
let regex_oracle (p : n list) (t : n list) : bool option =
  let ps = ostring_of_bytes p and ts = ostring_of_bytes t in
  let plain c = (c >= 'a' && c <= 'z') || (c >= 'A' && c <= 'Z') || (c >= '0' && c <= '9') || c = ' ' || c = '_' || c = '-' || c = ':' || c = '/' in
  if not (String.for_all plain ps) then raise Opaque
  else
    let lp = String.length ps and lt = String.length ts in
    let rec go i = if i + lp > lt then false else if String.sub ts i lp = ps then true else go (i + 1) in
    Some (go 0)

let parse_v4_text (s : String.t) : int option =
  match String.split_on_char '.' s with
  | [ a; b; c; d ] -> (
      let oct x =
        let l = String.length x in
        if l = 0 || l > 3 || (l > 1 && x.[0] = '0') || not (String.for_all (fun c -> c >= '0' && c <= '9') x) then None
        else let v = int_of_string x in if v <= 255 then Some v else None
      in
      match (oct a, oct b, oct c, oct d) with
      | Some a, Some b, Some c, Some d -> Some ((((a * 256) + b) * 256 + c) * 256 + d)
      | _ -> None)
  | _ -> None

(* oracle for IpAddr::from_str + AnyIpCidr::from_str; the containment itself is the Coq function *)
let cidr_oracle (ip : n list) (cidr : n list) : bool =
  let ips = ostring_of_bytes ip and cs = ostring_of_bytes cidr in
  if String.contains ips ':' || String.contains cs ':' then raise Opaque
  else
    match parse_v4_text ips with
    | None -> false
    | Some a -> (
        if cs = "any" then true
        else
          let net, len =
            match String.index_opt cs '/' with
            | None -> (cs, Some 32)
            | Some i ->
                let l = String.sub cs (i + 1) (String.length cs - i - 1) in
                ( String.sub cs 0 i,
                  if l <> "" && String.length l <= 3 && String.for_all (fun c -> c >= '0' && c <= '9') l then Some (int_of_string l) else None )
          in
          (* the cidr crate is lenient about the text (leading zeros, short forms, "+8"): only
             canonical texts are computed, everything else is left to the implementation *)
          let canon_len = match len with Some l -> string_of_int l = (match String.index_opt cs '/' with Some i -> String.sub cs (i + 1) (String.length cs - i - 1) | None -> "32") | None -> false in
          match (parse_v4_text net, len) with
          | Some nv, Some l when canon_len ->
              if l > 32 then false
              else if x_cidr_net_ok (n_of_int 32) (n_of_int l) (n_of_int nv) then x_cidr_contains (n_of_int 32) (n_of_int l) (n_of_int nv) (n_of_int a)
              else false
          | _ -> raise Opaque)

let rec show_ty = function
  | TyStr -> "string" | TyInt -> "integer" | TyBool -> "boolean"
  | TyArr t -> "[" ^ show_ty t ^ "]"
  | TyTup l -> "(" ^ String.concat "," (List.map show_ty l) ^ ")"
  | TyAny -> "any"
  | _ -> "native"

let show_value = function
  | VInt z -> Printf.sprintf "(int %s)" (int_of_z z)
  | VBool b -> Printf.sprintf "(bool %b)" b
  | VStr s -> if List.exists (fun x -> int_of_n x = 255) s then raise Opaque else Printf.sprintf "(str %s)" (hex s)
  | VArr l -> sexp (EArr l)
  | VTup l -> sexp (ETup l)
  | _ -> raise Opaque

let err_class e = match int_of_n e with 1 -> "type" | 2 -> "arith" | 3 -> "index" | 4 -> "regex" | 5 -> "parse" | _ -> "FUEL"

let parse_addr_obj (spec : String.t) host ty text port_text =
  let kind = match spec.[0] with 'D' -> 3 | '4' -> 1 | '6' -> 2 | _ -> 0 in
  let port = match int_of_string_opt (ostring_of_bytes (unhex port_text)) with Some p -> p | None -> 0 in
  { a_kind = n_of_int kind; a_host = unhex host; a_port = (if port = 0 then Z0 else Zpos (pos_of_int port));
    a_type = unhex ty; a_text = unhex text }

let default_request =
  let z = { a_kind = n_of_int 1; a_host = bytes_of_ostring "0.0.0.0"; a_port = Z0; a_type = bytes_of_ostring "ipv4"; a_text = bytes_of_ostring "0.0.0.0:0" } in
  { rq_listener = []; rq_connector = []; rq_feature = bytes_of_ostring "TcpForward"; rq_source = z;
    rq_target = { a_kind = N0; a_host = bytes_of_ostring "unknown"; a_port = Z0; a_type = bytes_of_ostring "unknown"; a_text = bytes_of_ostring "unknown" } }

let mk_request = function
  | [ l; c; _f; s; t; feat; sh; st; sp; stx; th; tt; tp; ttx ] ->
      Some { rq_listener = unhex l; rq_connector = (if c = "-" then [] else unhex c); rq_feature = unhex feat;
             rq_source = parse_addr_obj s sh st stx sp; rq_target = parse_addr_obj t th tt ttx tp }
  | _ -> None

let milu_eval args =
  match args with
  | h :: rest -> (
      let src = unhex h in
      if List.exists (fun c -> int_of_n c = 96) src || not (utf8_valid src) then "OPAQUE"
      else
        let rq = match mk_request rest with Some r -> r | None -> default_request in
        match x_milu_parse src with
        | PPanic -> raise Model_panic
        | PErr | PFail -> "SYNTAX"
        | POk (e, _) -> (
            try
              match x_type_of regex_oracle cidr_oracle rq e with
              | Panic _ -> "T=PANIC"
              | Err _ -> "T=ERR"
              | Ok t -> (
                  let ts = show_ty t in
                  match x_real_type_of regex_oracle cidr_oracle rq e with
                  | Panic _ -> Printf.sprintf "T=%s RT=PANIC" ts
                  | Err _ -> Printf.sprintf "T=%s RT=ERR" ts
                  | Ok rt -> (
                      let rts = show_ty rt in
                      match x_real_value_of regex_oracle cidr_oracle rq e with
                      | Panic _ -> Printf.sprintf "T=%s RT=%s V=PANIC" ts rts
                      | Err c -> Printf.sprintf "T=%s RT=%s V=ERR:%s" ts rts (err_class c)
                      | Ok v -> Printf.sprintf "T=%s RT=%s V=%s" ts rts (show_value v)))
            with Opaque -> "OPAQUE"))
  | _ -> "BAD-ARGS"

(* ---- dispatch ------------------------------------------------------------------------ *)

let feature_code = function "t" -> 0 | "B" -> 1 | "u" -> 2 | "b" -> 3 | _ -> 0
let state_name i = match i with
  | 0 -> "ClientConnected" | 1 -> "ClientRequested" | 2 -> "ServerConnecting" | 3 -> "Connected"
  | 4 -> "ServerShutdown" | 5 -> "ClientShutdown" | 6 -> "Terminated" | _ -> "ErrorOccured"

let parse_rules spec =
  if spec = "-" then []
  else
    List.map
      (fun r ->
        let i = String.index r ':' in
        let t = String.sub r 0 i and f = String.sub r (i + 1) (String.length r - i - 1) in
        (unhex t, if f = "-" then None else Some (unhex f)))
      (split_on ';' spec)

let parse_conns spec =
  if spec = "-" then []
  else
    List.map
      (fun c ->
        match String.split_on_char ':' c with
        | [ n; fs; ok ] ->
            { c_name = unhex n; c_feats = List.map (fun ch -> n_of_int (feature_code (String.make 1 ch))) (List.init (String.length fs) (String.get fs)); c_ok = ok = "ok" }
        | _ -> failwith "conn")
      (split_on ',' spec)

let show_trace t =
  let ev = function
    | EvConnect c -> "connect:" ^ hex c | EvOnConnect -> "on_connect" | EvOnError -> "on_error" | EvOnFinish -> "on_finish" in
  Printf.sprintf "ev=%s client=- fwd=%s anyfwd=%d conn=%s states=%s err=%d"
    (if t.t_events = [] then "-" else String.concat "," (List.map ev t.t_events))
    (hex t.t_forwarded) (List.length t.t_forwarded)
    (match t.t_connector with None -> "-" | Some c -> hex c)
    (String.concat ">" (List.map (fun s -> state_name (int_of_n s)) t.t_states))
    (if t.t_error then 1 else 0)

let dispatch args =
  match args with
  | rules :: conns :: lbs :: l :: s :: t :: f :: payload :: texts -> (
      if lbs <> "-" then "OPAQUE"
      else
        let rq = match mk_request (l :: "-" :: f :: s :: t :: texts) with Some r -> r | None -> default_request in
        let srcs = parse_rules rules in
        if List.exists (fun (_, fo) -> match fo with Some b -> List.exists (fun c -> int_of_n c = 96) b || not (utf8_valid b) | None -> false) srcs then "OPAQUE"
        else
          try
            match x_dispatch regex_oracle cidr_oracle default_request rq srcs (parse_conns conns) (n_of_int (feature_code f)) (List.concat (chunks_of payload)) with
            | Ok None -> "RULES-ERR"
            | Ok (Some tr) -> show_trace tr
            | Err _ -> "MODEL-ERR"
            | Panic _ -> raise Model_panic
          with Opaque -> "OPAQUE")
  | _ -> "BAD-ARGS"

(* ---- reload / load balancer ---------------------------------------------------------- *)

let reload_seq args =
  match args with
  | conns :: steps :: l :: s :: t :: f :: texts -> (
      let rq = match mk_request (l :: "-" :: f :: s :: t :: texts) with Some r -> r | None -> default_request in
      let opaque = ref false in
      let ops =
        List.map
          (fun st ->
            if String.length st > 0 && st.[0] = 'S' then (
              let srcs = parse_rules (String.sub st 1 (String.length st - 1)) in
              if List.exists (fun (_, fo) -> match fo with Some b -> List.exists (fun c -> int_of_n c = 96) b || not (utf8_valid b) | None -> false) srcs then opaque := true;
              RSet srcs)
            else if st = "I" then RIdentity
            else RProbe (rq, n_of_int (feature_code f)))
          (split_on '|' steps)
      in
      if !opaque then "OPAQUE"
      else
        try
          let outs = x_rrun regex_oracle cidr_oracle default_request (parse_conns conns) ops in
          String.concat "|"
            (List.map
               (function
                 | RoSet true -> "OK"
                 | RoSet false -> "ERR"
                 | RoTrace (Ok tr) ->
                     let full = show_trace tr in
                     let fl = String.split_on_char ' ' full in
                     List.nth fl 0 ^ "/" ^ List.nth fl 4
                 | RoTrace (Panic _) -> raise Model_panic
                 | RoTrace (Err _) -> "MODEL-ERR")
               outs)
        with Opaque -> "OPAQUE")
  | _ -> "BAD-ARGS"

(* ---- main ----------------------------------------------------------------------------- *)

let run_line ovf line =
  match String.split_on_char ' ' line with
  | [] -> ""
  | op :: args -> (
      try
        match op with
        | "frag_seq" -> frag_seq ovf args
        | "dgram_hop" -> dgram_hop ovf args
        | "frag_make" -> frag_make ovf args
        | "frag_rt" -> frag_rt ovf args
        | "dispatch" -> dispatch args
        | "reload_seq" -> reload_seq args
        | "milu_parse" -> milu_parse args
        | "milu_rt" -> milu_rt args
        | "lifecycle" -> lifecycle args
        | "socks_select" -> socks_select args
        | "auth_check" -> auth_check args
        | "cfg_table" -> cfg_table args
        | "cfg_resolve" -> cfg_resolve args
        | "idle_check" -> idle_check args
        | "idle_period" -> idle_period args
        | "milu_eval" -> milu_eval args
        | "milu_wf" -> (match args with
            | [ h ] -> (match x_milu_parse (unhex h) with POk (e, _) -> if x_wf_lfb e then "WF" else "NOT-WF" | _ -> "SYNTAX")
            | _ -> "BAD-ARGS")
        | "milu_wfsl" -> (match args with
            | [ h ] -> (match x_milu_parse (unhex h) with POk (e, _) -> if x_wf_slb e then "SL" else "NOT-SL" | _ -> "SYNTAX")
            | _ -> "BAD-ARGS")
        | "socks_req_read" -> socks_req_read args
        | "socks_req_write" -> socks_req_write args
        | "socks_resp_read" -> socks_resp_read args
        | "socks_resp_write" -> socks_resp_write args
        | "http_req_read" -> http_req_read args
        | "http_resp_read" -> http_resp_read args
        | "http_req_write" -> http_req_write args
        | "http_resp_write" -> http_resp_write args
        | "frame_decode" -> frame_decode args
        | "frame_encode" -> frame_encode args
        | "frame_stream" -> frame_stream args
        | "udp_decode" -> udp_decode args
        | "udp_encode" -> udp_encode args
        | "target_parse" -> target_parse args
        | "target_print" -> target_print args
        | "connect_write" -> connect_write args
        | "client_reply" -> client_reply args
        | _ -> "UNKNOWN-OP " ^ op
      with
      | Model_panic -> "PANIC"
      | Invalid_argument _ | Failure _ | Not_found -> "BAD-ARGS")

let () =
  let ovf = Array.length Sys.argv > 1 && Sys.argv.(1) = "debug" in
  try
    while true do
      let line = input_line stdin in
      let line = String.trim line in
      if line <> "" then print_endline (run_line ovf line)
    done
  with End_of_file -> ()
