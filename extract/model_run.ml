(* Line-protocol driver around the extracted Coq model (Model, from coq/extraction/Extract.v).
   Parsing and printing only; the same protocol as harness/driver.rs. *)
open Model

let rec pos_of_int (i : int) : positive =
  if i = 1 then XH
  else if i land 1 = 0 then XO (pos_of_int (i lsr 1))
  else XI (pos_of_int (i lsr 1))
let n_of_int (i : int) : n = if i = 0 then N0 else Npos (pos_of_int i)
let rec int_of_pos = function
  | XH -> 1
  | XO p -> 2 * int_of_pos p
  | XI p -> 2 * int_of_pos p + 1
let int_of_n = function N0 -> 0 | Npos p -> int_of_pos p

let unhex (s : string) : n list =
  if s = "-" || s = "" then []
  else
    let len = String.length s / 2 in
    List.init len (fun i -> n_of_int (int_of_string ("0x" ^ String.sub s (2 * i) 2)))
let hex (b : n list) : string =
  if b = [] then "-"
  else String.concat "" (List.map (fun x -> Printf.sprintf "%02x" (int_of_n x)) b)

let split_on c s = if s = "" then [] else String.split_on_char c s

exception Model_panic

(* ---- fragments ------------------------------------------------------------------------ *)

let show_raw (o : (bytes option) outcome option) : string =
  match o with
  | None -> "t"
  | Some (Ok None) -> "-"
  | Some (Ok (Some b)) -> "E" ^ hex b
  | Some (Err _) -> "ERR"
  | Some (Panic _) -> raise Model_panic

let frag_seq ovf args =
  match args with
  | kind :: tmo :: rest ->
      let ops = match rest with [] -> [] | o :: _ -> split_on ',' o in
      let ops =
        List.map
          (fun o -> if o = "t" then FTimer else FRecv (unhex (String.sub o 1 (String.length o - 1))))
          ops
      in
      let timeout = if tmo = "z" then N0 else n_of_int 1000000000 in
      if kind = "raw" then
        let outs = frag_run (fun b -> Some b) ovf timeout N0 { fs_queue = []; fs_timer = [] } ops in
        String.concat "," (List.map show_raw outs)
      else "UNSUPPORTED"
  | _ -> "BAD-ARGS"

let frag_make ovf args =
  match args with
  | [ mtu; next_id; payload ] -> (
      match make_fragments ovf (n_of_int (int_of_string mtu)) (n_of_int (int_of_string next_id)) (unhex payload) with
      | Ok (nid, frs) -> Printf.sprintf "%d %s" (int_of_n nid) (String.concat "," (List.map hex frs))
      | Err _ -> "ERR"
      | Panic _ -> raise Model_panic)
  | _ -> "BAD-ARGS"

let frag_rt ovf args =
  match args with
  | [ mtu; next_id; payload; perm ] -> (
      match make_fragments ovf (n_of_int (int_of_string mtu)) (n_of_int (int_of_string next_id)) (unhex payload) with
      | Ok (_, frs) ->
          let arr = Array.of_list frs in
          let k = Array.length arr in
          let ops =
            List.map (fun ix -> FRecv arr.(int_of_string ix mod (max k 1))) (split_on ',' perm)
          in
          let outs =
            frag_run (fun b -> Some b) ovf (n_of_int 1000000000) N0 { fs_queue = []; fs_timer = [] } ops
          in
          Printf.sprintf "%d %s" k (String.concat "," (List.map show_raw outs))
      | Err _ -> "ERR"
      | Panic _ -> raise Model_panic)
  | _ -> "BAD-ARGS"

(* ---- main ----------------------------------------------------------------------------- *)

let run_line ovf line =
  match String.split_on_char ' ' line with
  | [] -> ""
  | op :: args -> (
      try
        match op with
        | "frag_seq" -> frag_seq ovf args
        | "frag_make" -> frag_make ovf args
        | "frag_rt" -> frag_rt ovf args
        | _ -> "UNKNOWN-OP " ^ op
      with
      | Model_panic -> "PANIC"
      | Invalid_argument _ | Failure _ -> "BAD-ARGS")

let () =
  let ovf = Array.length Sys.argv > 1 && Sys.argv.(1) = "debug" in
  try
    while true do
      let line = input_line stdin in
      let line = String.trim line in
      if line <> "" then print_endline (run_line ovf line)
    done
  with End_of_file -> ()
