From RP Require Import Base Stream.

Lemma pull1_spec rbuf cs : wf_chunks cs ->
  match pull1 rbuf cs with
  | None => rbuf ++ concat cs = []
  | Some (b, s') => rbuf ++ concat cs = b :: flat s' /\ wf_chunks (snd s')
  end.
Proof.
  intros Hwf. destruct rbuf as [|b r]; cbn.
  - destruct cs as [|c cs']; cbn; [reflexivity|].
    inversion Hwf as [|? ? Hc Hcs]; subst. destruct c as [|b r]; [congruence|].
    cbn. split; [reflexivity|assumption].
  - split; [reflexivity|assumption].
Qed.

Lemma take_spec : forall cs n acc rbuf, wf_chunks cs ->
  match take n acc rbuf cs with
  | None => (length (rbuf ++ concat cs) < n)%nat
  | Some (bs, s') => bs = acc ++ firstn n (rbuf ++ concat cs) /\
                     flat s' = skipn n (rbuf ++ concat cs) /\ wf_chunks (snd s') /\
                     (n <= length (rbuf ++ concat cs))%nat
  end.
Proof.
  induction cs as [|c cs IH]; intros n acc rbuf Hwf; cbn [take concat].
  - rewrite app_nil_r. destruct (Nat.leb_spec n (length rbuf)).
    + unfold flat; cbn. rewrite app_nil_r. repeat split; auto.
    + assumption.
  - destruct (Nat.leb_spec n (length rbuf)) as [Hle|Hgt].
    + unfold flat; cbn [fst snd concat]. rewrite firstn_app, skipn_app.
      replace (n - length rbuf)%nat with 0%nat by lia. cbn [firstn skipn]. rewrite app_nil_r.
      repeat split; auto. rewrite app_length. lia.
    + inversion Hwf as [|? ? Hc Hcs]; subst. destruct c as [|b r] eqn:Ec; [congruence|].
      rewrite <- Ec in *.
      specialize (IH (n - length rbuf)%nat (acc ++ rbuf) c Hcs).
      destruct (take (n - length rbuf) (acc ++ rbuf) c cs) as [[bs s']|].
      * destruct IH as (H1 & H2 & H3 & H4). repeat split; auto.
        -- rewrite H1. rewrite (firstn_app n rbuf). rewrite (@firstn_all2 _ n rbuf) by lia.
           rewrite <- app_assoc. reflexivity.
        -- rewrite H2. rewrite (skipn_app n rbuf). rewrite (@skipn_all2 _ n rbuf) by lia.
           reflexivity.
        -- rewrite !app_length in *. lia.
      * rewrite !app_length in *. lia.
Qed.

Lemma split_until_app_none d a b : split_until d a = None ->
  split_until d (a ++ b) =
  match split_until d b with Some (p, r) => Some (a ++ p, r) | None => None end.
Proof.
  induction a as [|x a IH]; cbn [split_until app]; intros H.
  - destruct (split_until d b) as [[p r]|]; reflexivity.
  - destruct (x =? d); [discriminate|].
    destruct (split_until d a) as [[p r]|] eqn:E; [discriminate|].
    rewrite IH by reflexivity. destruct (split_until d b) as [[p r]|]; reflexivity.
Qed.

Lemma split_until_app_some d a b p r :
  split_until d a = Some (p, r) -> split_until d (a ++ b) = Some (p, r ++ b).
Proof.
  revert p r. induction a as [|x a IH]; cbn [split_until app]; intros p r H; [discriminate|].
  destruct (x =? d). { inversion H; subst; reflexivity. }
  destruct (split_until d a) as [[p' r']|] eqn:E; [|discriminate]. inversion H; subst.
  rewrite (IH _ _ eq_refl). reflexivity.
Qed.

Lemma until_spec : forall cs d acc rbuf, wf_chunks cs ->
  let '(bs, found, s') := until_ d acc rbuf cs in
  wf_chunks (snd s') /\
  match split_until d (rbuf ++ concat cs) with
  | Some (p, r) => found = true /\ bs = acc ++ p /\ flat s' = r
  | None => found = false /\ bs = acc ++ rbuf ++ concat cs /\ flat s' = []
  end.
Proof.
  induction cs as [|c cs IH]; intros d acc rbuf Hwf; cbn [until_ concat].
  - rewrite app_nil_r. destruct (split_until d rbuf) as [[p r]|] eqn:E; unfold flat; cbn.
    + rewrite ?app_nil_r. split; [constructor|auto].
    + rewrite ?app_nil_r. split; [constructor|auto].
  - destruct (split_until d rbuf) as [[p r]|] eqn:E.
    + rewrite (split_until_app_some _ _ _ _ _ E). unfold flat; cbn. auto.
    + inversion Hwf as [|? ? Hc Hcs]; subst. destruct c as [|b0 r0] eqn:Ec; [congruence|].
      rewrite <- Ec in *.
      specialize (IH d (acc ++ rbuf) c Hcs).
      destruct (until_ d (acc ++ rbuf) c cs) as [[bs found] s'].
      destruct IH as [Hw IH]. split; [assumption|].
      rewrite (split_until_app_none _ _ _ E).
      destruct (split_until d (c ++ concat cs)) as [[p r]|].
      * destruct IH as (? & ? & ?). subst. rewrite <- app_assoc. auto.
      * destruct IH as (? & ? & ?). subst. rewrite <- app_assoc. auto.
Qed.

(* Segmentation never matters: same result, same bytes written, and what is left unread
   (BufReader buffer ++ segments still in flight) is the same suffix of the input. *)
Theorem chunking_irrelevant {A} (p : rp A) : forall s, wf_chunks (snd s) ->
  let '(r1, s1, w1) := run_chunked p s in
  let '(r2, rest2, w2) := run_whole p (flat s) in
  r1 = r2 /\ flat s1 = rest2 /\ w1 = w2 /\ wf_chunks (snd s1).
Proof.
  induction p as [a|e|c|k IH|n k IH|d k IH|bs k IH]; intros [rbuf cs] Hwf;
    cbn [run_chunked run_whole fst snd] in *;
    change (flat (rbuf, cs)) with (rbuf ++ concat cs).
  - auto.
  - auto.
  - auto.
  - pose proof (pull1_spec rbuf cs Hwf) as H.
    destruct (pull1 rbuf cs) as [[b s']|].
    + destruct H as [H1 H2]. rewrite H1. apply IH; assumption.
    + rewrite H. repeat split; constructor.
  - pose proof (take_spec cs n [] rbuf Hwf) as H.
    destruct (take n [] rbuf cs) as [[bs s']|].
    + destruct H as (H1 & H2 & H3 & H4).
      destruct (Nat.leb_spec n (length (rbuf ++ concat cs))); [|lia].
      cbn [app] in H1. subst bs. rewrite <- H2. apply IH; assumption.
    + destruct (Nat.leb_spec n (length (rbuf ++ concat cs))); [lia|].
      repeat split; constructor.
  - pose proof (until_spec cs d [] rbuf Hwf) as H.
    destruct (until_ d [] rbuf cs) as [[bs found] s'].
    destruct H as [Hw H].
    destruct (split_until d (rbuf ++ concat cs)) as [[p r]|].
    + destruct H as (? & ? & ?). subst. cbn [app]. apply IH; assumption.
    + destruct H as (? & ? & H3). subst. cbn [app]. rewrite <- H3. apply IH; assumption.
  - specialize (IH (rbuf, cs) Hwf). cbn [fst snd] in IH.
    change (flat (rbuf, cs)) with (rbuf ++ concat cs) in IH.
    destruct (run_chunked k (rbuf, cs)) as [[r1 s1] w1].
    destruct (run_whole k (rbuf ++ concat cs)) as [[r2 rest2] w2].
    destruct IH as (? & ? & ? & ?). subst. auto.
Qed.

(* ------------------------------------------------------------------------------------- *)
(* Truncation.  A program is strict when a delimiter search that hits the end of the input
   always fails (every read_until / read_line of redproxy-rs after the fixes).  For strict
   programs success is stable under extension of the input, hence a proper prefix of a
   message that is consumed exactly can never be accepted. *)

Inductive strict {A} : rp A -> Prop :=
| s_ret a : strict (Ret a)
| s_fail e : strict (Fail e)
| s_crash c : strict (Crash c)
| s_u8 k : (forall b, strict (k b)) -> strict (ReadU8 k)
| s_exact n k : (forall bs, strict (k bs)) -> strict (ReadExact n k)
| s_until d k : (forall bs, strict (k bs true)) -> (forall bs, exists e, k bs false = Fail e) ->
                strict (ReadUntil d k)
| s_write bs k : strict k -> strict (Write bs k).

Lemma strict_bind {A B} (p : rp A) (f : A -> rp B) :
  strict p -> (forall a, strict (f a)) -> strict (rbind p f).
Proof.
  intros Hp Hf. induction Hp; cbn [rbind]; try constructor; auto.
  intros bs0. destruct (H1 bs0) as [e He]. exists e. rewrite He. reflexivity.
Qed.

Lemma run_whole_extend {A} (p : rp A) : strict p -> forall s x a rest w,
  run_whole p s = (ROk a, rest, w) -> run_whole p (s ++ x) = (ROk a, rest ++ x, w).
Proof.
  induction 1 as [a0|e|c|k Hk IH|n k Hk IH|d k Hk IH Hf|bs k Hk IH]; intros s x a rest w Hrun;
    cbn [run_whole] in *.
  - inversion Hrun; subst. reflexivity.
  - discriminate.
  - discriminate.
  - destruct s as [|b s']; [discriminate|]. cbn [app]. apply IH. exact Hrun.
  - destruct (Nat.leb_spec n (length s)) as [Hle|Hgt]; [|discriminate].
    assert (Hle' : (n <=? length (s ++ x))%nat = true)
      by (apply Nat.leb_le; rewrite app_length; lia).
    rewrite Hle'. rewrite firstn_app, skipn_app.
    replace (n - length s)%nat with 0%nat by lia. cbn [firstn skipn]. rewrite app_nil_r.
    apply IH. exact Hrun.
  - destruct (split_until d s) as [[p' r]|] eqn:E.
    + rewrite (split_until_app_some _ _ _ _ _ E). apply IH. exact Hrun.
    + destruct (Hf s) as [e He]. rewrite He in Hrun. cbn in Hrun. discriminate.
  - destruct (run_whole k s) as [[r0 rest0] w0] eqn:E. inversion Hrun; subst.
    rewrite (IH _ x _ _ _ E). reflexivity.
Qed.

Theorem truncation_never_ok {A} (p : rp A) : strict p -> forall m a w,
  run_whole p m = (ROk a, [], w) ->
  forall k, (k < length m)%nat -> forall a' rest' w', run_whole p (firstn k m) <> (ROk a', rest', w').
Proof.
  intros Hs m a w Hm k Hk a' rest' w' Hrun.
  pose proof (run_whole_extend p Hs _ (skipn k m) _ _ _ Hrun) as Hext.
  rewrite firstn_skipn in Hext. rewrite Hm in Hext. inversion Hext as [[Ha Hrest Hw]].
  symmetry in Hrest. apply app_eq_nil in Hrest. destruct Hrest as [_ Hsk].
  apply (f_equal (@length _)) in Hsk. rewrite skipn_length in Hsk. cbn in Hsk. lia.
Qed.

(* and the same statement for the operational interpreter, via chunking_irrelevant *)
Corollary truncation_never_ok_chunked {A} (p : rp A) : strict p -> forall m a w,
  run_whole p m = (ROk a, [], w) ->
  forall cs, wf_chunks cs -> (length (concat cs) < length m)%nat ->
  concat cs = firstn (length (concat cs)) m ->
  forall a' s' w', run_chunked p ([], cs) <> (ROk a', s', w').
Proof.
  intros Hs m a w Hm cs Hwf Hlen Hpre a' s' w' Hrun.
  pose proof (chunking_irrelevant p ([], cs) Hwf) as H. rewrite Hrun in H.
  unfold flat in H. cbn [fst snd app] in H.
  destruct (run_whole p (concat cs)) as [[r2 rest2] w2] eqn:E.
  destruct H as (Hr & _). subst r2. rewrite Hpre in E.
  exact (truncation_never_ok p Hs m a w Hm _ Hlen _ _ _ E).
Qed.
