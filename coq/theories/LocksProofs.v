(* Proofs about the lock discipline model of Locks.v (property C14): a lock holder is never parked at an
   external wait, a waiting thread implies a runnable thread (no deadlock, and progress never depends on a peer),
   steps preserve well-formedness, every instantiation of a rank-disciplined generated program is disciplined, and
   the generated table is rank-disciplined. *)
From RP Require Import Base Locks.
From RP.Gen Require Gen_locks.
Local Open Scope nat_scope.

(* ---------- small facts ---------- *)

Lemma lock_eqb_eq : forall a b, lock_eqb a b = true <-> a = b.
Proof.
  intros [a1 a2] [b1 b2]. unfold lock_eqb. simpl.
  rewrite andb_true_iff, !Nat.eqb_eq. split.
  - intros [-> ->]. reflexivity.
  - intros H. inversion H. auto.
Qed.

Lemma lock_eqb_refl : forall a, lock_eqb a a = true.
Proof. intros a. apply lock_eqb_eq. reflexivity. Qed.

Lemma holds_In : forall t l, holds t l = true <-> In l (t_held t).
Proof.
  intros t l. unfold holds. rewrite existsb_exists. split.
  - intros [x [Hin He]]. apply lock_eqb_eq in He. subst. exact Hin.
  - intros Hin. exists l. split; [exact Hin | apply lock_eqb_refl].
Qed.

Lemma held_somewhere_holder : forall s l, held_somewhere s l = true <-> exists h, In h s /\ holds h l = true.
Proof. intros s l. unfold held_somewhere. apply existsb_exists. Qed.

Lemma held_somewhere_app : forall a b l, held_somewhere (a ++ b) l = held_somewhere a l || held_somewhere b l.
Proof. intros. unfold held_somewhere. apply existsb_app. Qed.

Lemma held_somewhere_cons : forall t b l, held_somewhere (t :: b) l = holds t l || held_somewhere b l.
Proof. reflexivity. Qed.

Lemma sys_ok_thread_ok : forall s t, sys_ok s -> In t s -> thread_ok t = true.
Proof. intros s t [H _] Hin. rewrite forallb_forall in H. auto. Qed.

(* ---------- 1. a lock holder is never parked at an external wait ---------- *)

Theorem holder_not_at_ext : forall t l, thread_ok t = true -> holds t l = true ->
  match t_prog t with Ext :: _ => False | [] => False | _ => True end.
Proof.
  intros [held prog] l. unfold thread_ok, holds. simpl.
  destruct held as [|x held]; simpl; [discriminate|].
  destruct prog as [|[l'|l'|] r]; simpl; intros H _; try discriminate; exact I.
Qed.

(* the next acquisition of a disciplined thread has a rank above every lock it holds *)
Lemma next_acq_rank : forall t l l' r, thread_ok t = true -> holds t l = true -> t_prog t = Acq l' :: r ->
  rank l < rank l'.
Proof.
  intros [held prog] l l' r. unfold thread_ok. simpl. intros Hok Hh ->. simpl in Hok.
  apply andb_true_iff in Hok. destruct Hok as [Hall _].
  rewrite forallb_forall in Hall. apply holds_In in Hh. simpl in Hh.
  apply Hall in Hh. apply Nat.ltb_lt in Hh. exact Hh.
Qed.

(* ---------- 2. no deadlock ---------- *)

Definition all_held (s : sys) : list lock := flat_map t_held s.
Definition max_held_rank (s : sys) : nat := list_max (map rank (all_held s)).

Lemma held_rank_le_max : forall s h l, In h s -> holds h l = true -> rank l <= max_held_rank s.
Proof.
  intros s h l Hin Hh. unfold max_held_rank.
  assert (Hf : Forall (fun k => k <= list_max (map rank (all_held s))) (map rank (all_held s))).
  { apply list_max_le. apply Nat.le_refl. }
  rewrite Forall_forall in Hf. apply Hf. apply in_map.
  unfold all_held. apply in_flat_map. exists h. split; [exact Hin|]. apply holds_In. exact Hh.
Qed.

(* the holder chain: from any held lock we reach a runnable lock holder whose held lock has a rank at least as
   large *)
Lemma chain_end : forall s, sys_ok s -> forall n l h, In h s -> holds h l = true ->
  S (max_held_rank s) - rank l <= n ->
  exists u l', In u s /\ runnable s u = true /\ holds u l' = true /\ rank l <= rank l'.
Proof.
  intros s Hok n. induction n as [|n IH]; intros l h Hin Hh Hb.
  - pose proof (held_rank_le_max s h l Hin Hh). lia.
  - pose proof (sys_ok_thread_ok s h Hok Hin) as Hth.
    pose proof (holder_not_at_ext h l Hth Hh) as Hne.
    destruct (t_prog h) as [|[l'|l'|] r] eqn:Hp; try contradiction.
    + (* next step is Acq l' *)
      pose proof (next_acq_rank h l l' r Hth Hh Hp) as Hlt.
      destruct (held_somewhere s l') eqn:Hs.
      * apply held_somewhere_holder in Hs. destruct Hs as [h' [Hin' Hh']].
        pose proof (held_rank_le_max s h' l' Hin' Hh').
        destruct (IH l' h' Hin' Hh') as [u [l2 [Hu [Hr [Hhu Hle]]]]]; [lia|].
        exists u, l2. repeat split; auto. lia.
      * exists h, l. repeat split; auto. unfold runnable. rewrite Hp, Hs. reflexivity.
    + (* next step is Rel *)
      exists h, l. repeat split; auto. unfold runnable. rewrite Hp. reflexivity.
Qed.

(* 3. stronger form: the runnable thread is a lock holder (the end of the holder chain starting at the lock the
   waiter wants), and it holds a lock of rank at least the rank of the wanted lock *)
Theorem waiting_implies_holder_runnable : forall s t l r, sys_ok s -> In t s -> t_prog t = Acq l :: r ->
  waiting s t = true ->
  exists u l', In u s /\ runnable s u = true /\ holds u l' = true /\ rank l <= rank l'.
Proof.
  intros s t l r Hok Hin Hp Hw. unfold waiting in Hw. rewrite Hp in Hw.
  apply held_somewhere_holder in Hw. destruct Hw as [h [Hh Hl]].
  exact (chain_end s Hok (S (max_held_rank s) - rank l) l h Hh Hl (Nat.le_refl _)).
Qed.

Theorem waiting_implies_someone_runnable : forall s t, sys_ok s -> In t s -> waiting s t = true ->
  exists u, In u s /\ runnable s u = true.
Proof.
  intros s t Hok Hin Hw.
  destruct (t_prog t) as [|[l|l|] r] eqn:Hp; unfold waiting in Hw; rewrite Hp in Hw; try discriminate.
  assert (Hw' : waiting s t = true) by (unfold waiting; rewrite Hp; exact Hw).
  destruct (waiting_implies_holder_runnable s t l r Hok Hin Hp Hw') as [u [l' [Hu [Hr _]]]].
  exists u. auto.
Qed.

(* ---------- 4. preservation ---------- *)

Lemma exclusive_mid : forall s1 t s2,
  exclusive (s1 ++ t :: s2) <->
  exclusive (s1 ++ s2) /\ (forall l, holds t l = true -> held_somewhere (s1 ++ s2) l = false).
Proof.
  induction s1 as [|x s1 IH]; intros t s2; cbn [app exclusive].
  - tauto.
  - rewrite IH. split.
    + intros [Hx [Hex Ht]]. split; [split|].
      * intros l Hl. specialize (Hx l Hl).
        rewrite held_somewhere_app, held_somewhere_cons in Hx.
        rewrite held_somewhere_app.
        destruct (held_somewhere s1 l), (holds t l), (held_somewhere s2 l); simpl in *; congruence.
      * exact Hex.
      * intros l Hl. rewrite held_somewhere_cons. rewrite (Ht l Hl), orb_false_r.
        destruct (holds x l) eqn:Hxl; [|reflexivity].
        specialize (Hx l Hxl). rewrite held_somewhere_app, held_somewhere_cons, Hl in Hx.
        rewrite orb_true_r in Hx. discriminate.
    + intros [[Hx Hex] Ht]. split; [|split].
      * intros l Hl. specialize (Hx l Hl).
        rewrite held_somewhere_app in Hx. rewrite held_somewhere_app, held_somewhere_cons.
        destruct (holds t l) eqn:Htl.
        -- specialize (Ht l Htl). rewrite held_somewhere_cons, Hl in Ht. discriminate.
        -- exact Hx.
      * exact Hex.
      * intros l Hl. specialize (Ht l Hl). rewrite held_somewhere_cons in Ht.
        apply orb_false_iff in Ht. tauto.
Qed.

Lemma forallb_mid : forall (f : thread -> bool) s1 t s2,
  forallb f (s1 ++ t :: s2) = true <-> forallb f (s1 ++ s2) = true /\ f t = true.
Proof.
  intros. rewrite !forallb_app. simpl. rewrite !andb_true_iff. tauto.
Qed.

(* replacing a thread by one that is well formed and holds only locks that the old one held or that are free
   elsewhere keeps the system well formed *)
Lemma replace_ok : forall s1 t t' s2, sys_ok (s1 ++ t :: s2) -> thread_ok t' = true ->
  (forall l, holds t' l = true -> holds t l = true \/ held_somewhere (s1 ++ s2) l = false) ->
  sys_ok (s1 ++ t' :: s2).
Proof.
  intros s1 t t' s2 [Hf He] Hok Hsub. apply forallb_mid in Hf. apply exclusive_mid in He.
  destruct Hf as [Hf _]. destruct He as [He Ht]. split.
  - apply forallb_mid. auto.
  - apply exclusive_mid. split; [exact He|].
    intros l Hl. destruct (Hsub l Hl) as [H|H]; auto.
Qed.

Lemma remove_lock_subset : forall l x held, In x (remove_lock l held) -> In x held.
Proof.
  intros l x held. induction held as [|y held IH]; simpl; [tauto|].
  destruct (lock_eqb l y); simpl; tauto.
Qed.

Lemma do_step_thread_ok : forall t, thread_ok t = true -> thread_ok (do_step t) = true.
Proof.
  intros [held prog]. unfold thread_ok, do_step. simpl.
  destruct prog as [|[l|l|] r]; simpl; auto.
  - intros H. apply andb_true_iff in H. tauto.
  - intros H. apply andb_true_iff in H. tauto.
  - destruct held; [auto | discriminate].
Qed.

Theorem step_preserves_ok : forall s1 t s2, sys_ok (s1 ++ t :: s2) -> runnable (s1 ++ t :: s2) t = true ->
  sys_ok (s1 ++ do_step t :: s2).
Proof.
  intros s1 t s2 Hok Hr.
  assert (Hth : thread_ok t = true).
  { apply (sys_ok_thread_ok _ t Hok). apply in_or_app. right. left. reflexivity. }
  apply (replace_ok s1 t); [exact Hok | apply do_step_thread_ok; exact Hth |].
  intros l Hl. unfold runnable in Hr. unfold do_step in Hl.
  destruct (t_prog t) as [|[l'|l'|] r] eqn:Hp; try discriminate.
  - (* Acq l' *)
    apply holds_In in Hl. simpl in Hl. destruct Hl as [<-|Hl].
    + right. apply negb_true_iff in Hr.
      rewrite held_somewhere_app, held_somewhere_cons in Hr. rewrite held_somewhere_app.
      apply orb_false_iff in Hr. destruct Hr as [H1 H2]. apply orb_false_iff in H2.
      destruct H2 as [_ H2]. rewrite H1, H2. reflexivity.
    + left. apply holds_In. exact Hl.
  - (* Rel l' *)
    left. apply holds_In in Hl. simpl in Hl. apply holds_In. eapply remove_lock_subset. exact Hl.
Qed.

Theorem ext_step_preserves_ok : forall s1 t s2 r, sys_ok (s1 ++ t :: s2) -> t_prog t = Ext :: r ->
  sys_ok (s1 ++ do_step t :: s2).
Proof.
  intros s1 t s2 r Hok Hp.
  assert (Hth : thread_ok t = true).
  { apply (sys_ok_thread_ok _ t Hok). apply in_or_app. right. left. reflexivity. }
  apply (replace_ok s1 t); [exact Hok | apply do_step_thread_ok; exact Hth |].
  intros l Hl. left. unfold do_step in Hl. rewrite Hp in Hl. exact Hl.
Qed.

(* ---------- 5. instantiation ---------- *)

(* strictly decreasing from the head: every later element is smaller *)
Fixpoint desc (l : list nat) : Prop :=
  match l with
  | [] => True
  | x :: r => (forall y, In y r -> y < x) /\ desc r
  end.

Lemma in_remove_nat : forall r y l, In y (remove Nat.eq_dec r l) -> In y l.
Proof.
  intros r y l. induction l as [|x l IH]; simpl; [tauto|].
  destruct (Nat.eq_dec r x); simpl; tauto.
Qed.

Lemma desc_remove : forall r l, desc l -> desc (remove Nat.eq_dec r l).
Proof.
  intros r l. induction l as [|x l IH]; simpl; [tauto|].
  intros [Hx Hd]. destruct (Nat.eq_dec r x); simpl; auto.
  split; auto. intros y Hy. apply Hx. eapply in_remove_nat. exact Hy.
Qed.

Lemma remove_notin : forall r l, ~ In r l -> remove Nat.eq_dec r l = l.
Proof.
  intros r l. induction l as [|x l IH]; simpl; [reflexivity|].
  intros Hn. destruct (Nat.eq_dec r x); [subst; tauto|]. f_equal. apply IH. tauto.
Qed.

Lemma find_remove_lock : forall r held h, desc (map rank held) ->
  find (fun x => Nat.eqb (rank x) r) held = Some h ->
  map rank (remove_lock h held) = remove Nat.eq_dec r (map rank held).
Proof.
  intros r held h. induction held as [|x held IH]; simpl; [discriminate|].
  intros [Hx Hd] Hf. destruct (Nat.eqb (rank x) r) eqn:He.
  - inversion Hf; subst h. apply Nat.eqb_eq in He. rewrite lock_eqb_refl.
    destruct (Nat.eq_dec r (rank x)); [|congruence].
    symmetry. apply remove_notin. intros Hin. apply Hx in Hin. lia.
  - apply Nat.eqb_neq in He.
    pose proof (find_some _ _ Hf) as [_ Hr]. apply Nat.eqb_eq in Hr.
    destruct (lock_eqb h x) eqn:Hhx.
    + apply lock_eqb_eq in Hhx. subst. contradiction.
    + destruct (Nat.eq_dec r (rank x)); [congruence|]. simpl. f_equal. apply IH; assumption.
Qed.

Lemma instantiate_disciplined_gen : forall p inst k held, desc (map rank held) ->
  rank_disciplined (map rank held) p = true -> disciplined held (instantiate inst k held p) = true.
Proof.
  induction p as [|[r|r|] p IH]; intros inst k held Hd Hr; simpl in *.
  - destruct held; simpl in *; [reflexivity | discriminate].
  - apply andb_true_iff in Hr. destruct Hr as [Hall Hr]. rewrite forallb_forall in Hall.
    apply andb_true_iff. split.
    + apply forallb_forall. intros x Hx. apply (Hall (rank x)). apply in_map. exact Hx.
    + apply IH; simpl.
      * split; [|exact Hd]. intros y Hy. apply Nat.ltb_lt. apply Hall. exact Hy.
      * exact Hr.
  - apply andb_true_iff in Hr. destruct Hr as [Hex Hr].
    destruct (find (fun h => Nat.eqb (rank h) r) held) as [h|] eqn:Hf; simpl.
    + apply andb_true_iff. split.
      * apply existsb_exists. exists h. split; [|apply lock_eqb_refl].
        apply (find_some _ _ Hf).
      * apply IH.
        -- rewrite (find_remove_lock r held h Hd Hf). apply desc_remove. exact Hd.
        -- rewrite (find_remove_lock r held h Hd Hf). exact Hr.
    + exfalso. apply existsb_exists in Hex. destruct Hex as [y [Hy He]].
      apply in_map_iff in Hy. destruct Hy as [x [Hxy Hx]].
      pose proof (find_none _ _ Hf x Hx) as Hn. simpl in Hn.
      apply Nat.eqb_eq in He. subst. rewrite Nat.eqb_refl in Hn. discriminate.
  - destruct held; simpl in *; [|discriminate]. apply (IH inst k []); simpl; auto.
Qed.

Theorem instantiate_disciplined : forall inst p k, rank_disciplined [] p = true ->
  disciplined [] (instantiate inst k [] p) = true.
Proof.
  intros inst p k H. apply instantiate_disciplined_gen; simpl; auto.
Qed.

(* ---------- 6. the generated table ---------- *)

Theorem generated_programs_disciplined :
  forallb (fun np => rank_disciplined [] (snd np)) Gen_locks.programs = true.
Proof. vm_compute; reflexivity. Qed.

(* every generated function, with any instances, run as a thread starting with no lock held, is a well-formed
   thread *)
Corollary generated_threads_ok : forall name p inst k, In (name, p) Gen_locks.programs ->
  thread_ok (mk_thread [] (instantiate inst k [] p)) = true.
Proof.
  intros name p inst k Hin. unfold thread_ok. simpl. apply instantiate_disciplined.
  pose proof generated_programs_disciplined as H. rewrite forallb_forall in H.
  apply (H (name, p) Hin).
Qed.

Print Assumptions holder_not_at_ext.
Print Assumptions waiting_implies_someone_runnable.
Print Assumptions waiting_implies_holder_runnable.
Print Assumptions step_preserves_ok.
Print Assumptions ext_step_preserves_ok.
Print Assumptions instantiate_disciplined.
Print Assumptions generated_programs_disciplined.
Print Assumptions generated_threads_ok.
