(* Loops that serve many peers one after the other (property C14): the accept loops of the listeners
   (src/listeners/http.rs, socks.rs, quic.rs).  Such a loop takes the next peer when it is free; what it does with a peer
   either happens in a task of the peer's own (spawned: the loop is free again at once) or is awaited in the loop itself
   (inline: the loop is busy until that peer's handshake ends - which is up to the peer).
   Time in milliseconds.  A connection attempt: when it arrives, and how long its handshake takes (None: the peer never
   completes it - a stalled client, or one whose packets stop arriving). *)
From RP Require Import Base.
From RP.Gen Require Gen_locks.
From Coq Require Import String.

Definition attempt := (N * option N)%type.

(* free_at: from when on the loop is free (None: never again).  Result: when each attempt is taken up (None: never). *)
Fixpoint serve (inline : bool) (free_at : option N) (atts : list attempt) : list (option N) :=
  match atts with
  | [] => []
  | (t, d) :: rest =>
      if inline then
        let start := match free_at with Some f => Some (N.max t f) | None => None end in
        let free' := match start, d with Some s, Some d' => Some (s + d') | _, _ => None end in
        start :: serve inline free' rest
      else Some t :: serve inline free_at rest
  end.

(* handshakes in tasks of their own: every peer is taken up the moment it arrives, whatever the other peers do *)
Theorem spawned_handshakes_never_delay : forall atts free_at,
  serve false free_at atts = map (fun a => Some (fst a)) atts.
Proof. induction atts as [|[t d] atts IH]; intros f; [reflexivity|]. cbn [serve map fst]. f_equal. apply IH. Qed.

(* a handshake awaited in the loop: one peer that never completes it keeps every later peer out, for ever *)
Theorem inline_handshake_blocks_everyone : forall t atts free_at,
  serve true free_at ((t, None) :: atts) = hd None (serve true free_at [(t, None)]) :: map (fun _ => None) atts.
Proof.
  intros t atts f. cbn [serve hd]. f_equal.
  assert (H : forall l, serve true None l = map (fun _ => None) l).
  { induction l as [|[t' d'] l IH]; [reflexivity|]. cbn [serve map]. f_equal. apply IH. }
  destruct f; apply H.
Qed.

(* ... and a slow one delays them by as long as it likes *)
Theorem inline_handshake_delays : forall t d t2 d2,
  t <= t2 -> serve true (Some 0) [(t, Some d); (t2, d2)] = [Some t; Some (N.max t2 (t + d))].
Proof. intros t d t2 d2 H. cbn [serve]. rewrite (N.max_l t 0) by lia. reflexivity. Qed.

(* which listeners await the handshake in the loop: read from the source by the translator *)
Definition inline_of (listener : string) : bool :=
  match find (fun e => String.eqb (fst e) listener) Gen_locks.accept_loop_awaits_handshake_inline with
  | Some (_, b) => b
  | None => true
  end.
