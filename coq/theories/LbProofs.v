From RP Require Import Base Lb.
From Coq Require Import Permutation.

Lemma count_pos_app n j a b : count_pos n j (a ++ b) = (count_pos n j a + count_pos n j b)%nat.
Proof. unfold count_pos. rewrite filter_app, app_length. reflexivity. Qed.

Lemma count_pos_perm n j a b : Permutation a b -> count_pos n j a = count_pos n j b.
Proof.
  unfold count_pos. induction 1 as [|x l l' _ IH|x y l|l l' l'' _ IH1 _ IH2]; cbn [filter].
  - reflexivity.
  - destruct (Nat.eqb (x mod n) j); cbn [List.length]; congruence.
  - destruct (Nat.eqb (x mod n) j), (Nat.eqb (y mod n) j); reflexivity.
  - congruence.
Qed.

(* [0, m) with m <= n: position j occurs once iff j < m *)
Lemma count_pos_prefix n j : forall m, (m <= n)%nat ->
  count_pos n j (seq 0 m) = if (j <? m)%nat then 1%nat else 0%nat.
Proof.
  induction m as [|m IH]; intros Hm; [reflexivity|].
  rewrite seq_S, count_pos_app, IH by lia. cbn [Nat.add].
  unfold count_pos. cbn [filter]. rewrite Nat.mod_small by lia.
  destruct (Nat.eqb_spec m j) as [->|Hne]; cbn [List.length].
  - destruct (Nat.ltb_spec j j); [lia|]. destruct (Nat.ltb_spec j (S j)); [reflexivity|lia].
  - destruct (Nat.ltb_spec j m), (Nat.ltb_spec j (S m)); lia.
Qed.

(* sliding the window by one ticket does not change the counts: the ticket that leaves and the
   one that enters have the same position *)
Lemma count_pos_slide n j s : (0 < n)%nat -> count_pos n j (seq (S s) n) = count_pos n j (seq s n).
Proof.
  intros Hn. destruct n as [|m]; [lia|].
  rewrite (seq_S m (S s)). change (seq s (S m)) with (s :: seq (S s) m).
  rewrite count_pos_app. unfold count_pos at 2 3. cbn [filter].
  replace ((S s + m) mod S m)%nat with (s mod S m)%nat.
  2:{ replace (S s + m)%nat with (s + 1 * S m)%nat by lia. rewrite Nat.mod_add by lia. reflexivity. }
  destruct (Nat.eqb (s mod S m) j); cbn [List.length]; unfold count_pos; lia.
Qed.

Lemma count_pos_window n j s : (0 < n)%nat -> (j < n)%nat -> count_pos n j (seq s n) = 1%nat.
Proof.
  intros Hn Hj. induction s as [|s IH].
  - rewrite count_pos_prefix by lia. destruct (Nat.ltb_spec j n); [reflexivity|lia].
  - rewrite count_pos_slide by assumption. exact IH.
Qed.

(* round robin is fair on every window of k*n consecutive tickets, wherever the counter stands *)
Theorem rr_fair_any_window n j : (0 < n)%nat -> (j < n)%nat -> forall k s,
  count_pos n j (seq s (k * n)) = k.
Proof.
  intros Hn Hj. induction k as [|k IH]; intros s; [reflexivity|].
  cbn [Nat.mul]. rewrite seq_app, count_pos_app, count_pos_window, IH by assumption. reflexivity.
Qed.

(* under any interleaving of the tasks' fetch_adds the tickets handed out are consecutive *)
Lemma tickets_consecutive {Task} (sched : list Task) : forall c,
  map snd (tickets_of_schedule sched c) = seq c (List.length sched).
Proof. induction sched as [|t r IH]; intros c; cbn; [reflexivity|]. rewrite IH. reflexivity. Qed.

(* hence concurrent selection is fair too: whatever the schedule and however the selections are
   later collected (any permutation), k*n selections hit every position exactly k times *)
Theorem rr_fair_concurrent {Task} n j k (sched : list Task) c collected :
  (0 < n)%nat -> (j < n)%nat -> List.length sched = (k * n)%nat ->
  Permutation collected (map snd (tickets_of_schedule sched c)) ->
  count_pos n j collected = k.
Proof.
  intros Hn Hj Hl Hp. rewrite (count_pos_perm n j _ _ Hp), tickets_consecutive, Hl.
  apply rr_fair_any_window; assumption.
Qed.

(* every algorithm only ever selects a configured member *)
Theorem only_members {A} (members : list A) ticket m :
  member_at members ticket = Some m -> In m members.
Proof.
  unfold member_at. destruct members as [|x r]; [discriminate|]. apply nth_error_In.
Qed.

Theorem member_at_total {A} (members : list A) ticket :
  members <> [] -> exists m, member_at members ticket = Some m.
Proof.
  intros Hne. unfold member_at. destruct members as [|x r]; [contradiction|].
  destruct (nth_error (x :: r) (ticket mod List.length (x :: r))) eqn:E; [eauto|].
  apply nth_error_None in E. pose proof (Nat.mod_upper_bound ticket (List.length (x :: r))). cbn [List.length] in *. lia.
Qed.

(* hash-by: the member is a function of the key value alone *)
Theorem hash_sticky {A K} (hash : K -> nat) (members : list A) k1 k2 :
  k1 = k2 -> member_at members (hash k1) = member_at members (hash k2).
Proof. intros ->. reflexivity. Qed.

(* random: every member can be selected (by the choice equal to its position) *)
Theorem random_possible {A} (members : list A) i m :
  nth_error members i = Some m -> member_at members i = Some m.
Proof.
  intros H. unfold member_at. destruct members as [|x r]; [destruct i; discriminate|].
  assert (Hi : (i < List.length (x :: r))%nat) by (apply nth_error_Some; congruence).
  rewrite Nat.mod_small by assumption. exact H.
Qed.
