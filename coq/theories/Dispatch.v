(* Model of rule loading (GlobalState::set_rules, Rule::init, Filter::validate), rule evaluation
   (Rule::evaluate) and request dispatch (process_request in src/main.rs) as an effect trace. *)
From RP Require Import Base Target MiluSyntax MiluParser MiluDoc MiluEval.
From Coq Require Import ZArith String.

Record rule := mk_rule { r_target : bytes; r_filter : option expr }.
Record connector := mk_conn { c_name : bytes; c_feats : list N; c_ok : bool }.

Inductive effect := EvConnect (c : bytes) | EvOnConnect | EvOnError | EvOnFinish.

(* ContextState *)
Definition ST_CONNECTED_CLIENT : N := 0.
Definition ST_REQUESTED : N := 1.
Definition ST_CONNECTING : N := 2.
Definition ST_CONNECTED : N := 3.
Definition ST_SERVER_SHUTDOWN : N := 4.
Definition ST_CLIENT_SHUTDOWN : N := 5.
Definition ST_TERMINATED : N := 6.
Definition ST_ERROR : N := 7.

Record trace := mk_trace {
  t_events : list effect;
  t_forwarded : bytes;            (* client payload that reached the selected upstream *)
  t_connector : option bytes;     (* connector name recorded on the context *)
  t_states : list N;
  t_error : bool }.

Definition DENY : bytes := [100; 101; 110; 121].

Section Dispatch.
Variable parse_src : bytes -> pres expr.
Variable regex_match : bytes -> bytes -> option bool.
Variable cidr_match_text : bytes -> bytes -> bool.
Variable fuel : nat.

(* Rule::init: parse the filter and require type boolean (Type's == with the Any wildcard) *)
Definition init_rule (rq0 : request) (src : bytes * option bytes) : outcome rule :=
  match snd src with
  | None => Ok (mk_rule (fst src) None)
  | Some s =>
    match parse_src s with
    | POk e _ =>
      t <- type_of regex_match cidr_match_text rq0 fuel [] e ;;
      if ty_eqb t TyBool then Ok (mk_rule (fst src) (Some e)) else Err E_TYPE
    | PPanic => Panic 60
    | _ => Err E_TYPE
    end
  end.

Fixpoint find_conn (name : bytes) (cs : list connector) : option connector :=
  match cs with
  | [] => None
  | c :: r => if bytes_eq (c_name c) name then Some c else find_conn name r
  end.

(* set_rules: every rule initialises and names deny or an existing connector, or nothing changes *)
Definition set_rules (rq0 : request) (conns : list connector) (srcs : list (bytes * option bytes))
  : outcome (list rule) :=
  rs <- map_o (init_rule rq0) srcs ;;
  if forallb (fun r => bytes_eq (r_target r) DENY || match find_conn (r_target r) conns with Some _ => true | None => false end) rs
  then Ok rs else Err E_TYPE.

(* Rule::evaluate: no filter matches everything; an evaluation error counts as no match *)
Definition rule_matches (rq : request) (r : rule) : outcome bool :=
  match r_filter r with
  | None => Ok true
  | Some e =>
    match real_value_of regex_match cidr_match_text rq fuel [] e with
    | Ok (VBool b) => Ok b
    | Ok _ => Ok false
    | Err _ => Ok false
    | Panic s => Panic s
    end
  end.

(* the find_map of process_request *)
Fixpoint first_match (rq : request) (rs : list rule) : outcome (option rule) :=
  match rs with
  | [] => Ok None
  | r :: rest => m <- rule_matches rq r ;; if m then Ok (Some r) else first_match rq rest
  end.

Definition process_request (rq : request) (rs : list rule) (conns : list connector) (feature : N) (payload : bytes)
  : outcome trace :=
  m <- first_match rq rs ;;
  let denied := mk_trace [EvOnError] [] None [ST_CONNECTED_CLIENT; ST_ERROR] true in
  match m with
  | None => Ok denied
  | Some r =>
    if bytes_eq (r_target r) DENY then Ok denied else
    match find_conn (r_target r) conns with
    | None => Panic 61            (* set_rules resolved every target *)
    | Some c =>
      if negb (existsb (N.eqb feature) (c_feats c)) then Ok denied else
      if c_ok c then
        Ok (mk_trace [EvConnect (c_name c); EvOnConnect; EvOnFinish] payload (Some (c_name c))
              [ST_CONNECTED_CLIENT; ST_CONNECTING; ST_CONNECTED; ST_CLIENT_SHUTDOWN; ST_SERVER_SHUTDOWN; ST_TERMINATED] false)
      else
        Ok (mk_trace [EvConnect (c_name c); EvOnError] [] (Some (c_name c))
              [ST_CONNECTED_CLIENT; ST_CONNECTING; ST_ERROR] true)
    end
  end.

Definition dispatch (rq0 rq : request) (srcs : list (bytes * option bytes)) (conns : list connector)
           (feature : N) (payload : bytes) : outcome (option trace) :=
  match set_rules rq0 conns srcs with
  | Ok rs => t <- process_request rq rs conns feature payload ;; Ok (Some t)
  | Err _ => Ok None
  | Panic s => Panic s
  end.

End Dispatch.
