(* The sockets of the reverse UDP listener (property C10): src/listeners/reverse.rs udp_accept, src/common/udp.rs
   udp_socket / UdpFrameReader.  The listener owns one socket; every session gets a socket of its own that shares the
   listener's address (SO_REUSEADDR) and is bound first and connected to the session's client afterwards.  The kernel
   hands an arriving datagram to the connected socket of its sender if there is one; otherwise to the most recently
   bound socket that is not connected - a session socket inside its bind-connect window, else the listener's.
   What is queued on a socket stays there when the socket is connected later.

   `filter = true`: the session's reader ignores a datagram whose source is not the session's client (fix b14e8ad; read
   from the source by the translator, Gen_udp.session_reader_ignores_other_sources).  `filter = false`: it forwards
   whatever its socket holds (the code before).  Clients are numbers. *)
From RP Require Import Base.
Local Open Scope nat_scope.

Inductive rev_ev :=
| Arrive (src : N) (p : bytes)     (* a datagram of client src reaches the host *)
| AcceptBind                       (* udp_accept takes the next datagram of the listener's socket; for a new client it creates
                                      the session and binds its socket *)
| AcceptConnect (src : N)          (* ... and connects that socket to the client *)
| ReadStep (k : N).                (* the reader of session k takes the next datagram of the session's socket *)

Record ssock := mk_ss { ss_owner : N; ss_conn : bool; ss_q : list (N * bytes) }.

Record rstate := mk_rs {
  r_lq : list (N * bytes);                   (* listener socket, oldest first *)
  r_socks : list ssock;                      (* session sockets, newest first *)
  r_handed : list (N * N * bytes);           (* (session, real source, payload) forwarded upstream, newest first *)
  r_dropped : list (N * bytes);              (* ignored by a reader *)
  r_misrouted : nat                          (* datagrams the kernel queued on the unconnected socket of another client's session *)
}.
Definition r_init : rstate := mk_rs [] [] [] [] 0.

Definition has_sock (src : N) (l : list ssock) : bool := existsb (fun s => N.eqb (ss_owner s) src) l.

(* kernel demultiplexing of one datagram over the session sockets (newest first); None: none of them takes it *)
Fixpoint push_conn (src : N) (p : bytes) (l : list ssock) : option (list ssock) :=
  match l with
  | [] => None
  | s :: r =>
      if ss_conn s && N.eqb (ss_owner s) src then Some (mk_ss (ss_owner s) true (ss_q s ++ [(src, p)]) :: r)
      else match push_conn src p r with Some r' => Some (s :: r') | None => None end
  end.
Fixpoint push_unconn (src : N) (p : bytes) (l : list ssock) : option (list ssock * bool) :=
  match l with
  | [] => None
  | s :: r =>
      if negb (ss_conn s) then Some (mk_ss (ss_owner s) false (ss_q s ++ [(src, p)]) :: r, negb (N.eqb (ss_owner s) src))
      else match push_unconn src p r with Some (r', f) => Some (s :: r', f) | None => None end
  end.

Fixpoint connect_sock (src : N) (l : list ssock) : list ssock :=
  match l with
  | [] => []
  | s :: r => if N.eqb (ss_owner s) src then mk_ss src true (ss_q s) :: r else s :: connect_sock src r
  end.

(* the reader of session k pops the head of its socket's queue *)
Fixpoint pop_sock (k : N) (l : list ssock) : option (N * bytes * list ssock) :=
  match l with
  | [] => None
  | s :: r =>
      if N.eqb (ss_owner s) k then
        match ss_q s with
        | [] => None
        | d :: q => Some (d, mk_ss k (ss_conn s) q :: r)
        end
      else match pop_sock k r with Some (d, r') => Some (d, s :: r') | None => None end
  end.

Definition rstep (filter : bool) (st : rstate) (ev : rev_ev) : rstate :=
  match ev with
  | Arrive src p =>
      match push_conn src p (r_socks st) with
      | Some l => mk_rs (r_lq st) l (r_handed st) (r_dropped st) (r_misrouted st)
      | None =>
          match push_unconn src p (r_socks st) with
          | Some (l, foreign) => mk_rs (r_lq st) l (r_handed st) (r_dropped st) (if foreign then S (r_misrouted st) else r_misrouted st)
          | None => mk_rs (r_lq st ++ [(src, p)]) (r_socks st) (r_handed st) (r_dropped st) (r_misrouted st)
          end
      end
  | AcceptBind =>
      match r_lq st with
      | [] => st
      | (src, p) :: q =>
          (* the datagram is handed to the session of its sender - an existing one (tx.send), or the one created now *)
          let socks := if has_sock src (r_socks st) then r_socks st else mk_ss src false [] :: r_socks st in
          mk_rs q socks ((src, src, p) :: r_handed st) (r_dropped st) (r_misrouted st)
      end
  | AcceptConnect src => mk_rs (r_lq st) (connect_sock src (r_socks st)) (r_handed st) (r_dropped st) (r_misrouted st)
  | ReadStep k =>
      match pop_sock k (r_socks st) with
      | None => st
      | Some ((src, p), l) =>
          if filter && negb (N.eqb src k) then mk_rs (r_lq st) l (r_handed st) ((src, p) :: r_dropped st) (r_misrouted st)
          else mk_rs (r_lq st) l ((k, src, p) :: r_handed st) (r_dropped st) (r_misrouted st)
      end
  end.

Definition rrun (filter : bool) (evs : list rev_ev) : rstate := fold_left (rstep filter) evs r_init.

(* the class of the known finding: some datagram arrived inside another client's bind-connect window *)
Definition KnownClass_C10_window (evs : list rev_ev) : Prop := 0 < r_misrouted (rrun true evs).
