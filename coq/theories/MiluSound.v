(* Type soundness of the milu evaluator model on the let-free fragment (C08 stage B).

   Main results (all closed under the global context):
     type_of_total_good     : for wf_lf e, `type_of fuel [] e` never panics and every type it
                              computes is free of TyAny / TyThunk.
     soundness_let_free     : a wf_lf expression accepted by the checker never evaluates to a
                              type error (Err E_TYPE) and never panics; its value is typed by
                              `vtyped`.
     soundness_let_free_real: the same for the top-level entry points real_type_of/real_value_of.
     soundness_let_free_real_strict : at the top level the result even satisfies the strict value
                              typing `vtyped_strict`.

   FINDING (recorded, not a weakening of the statement shape):  the value typing needs one clause
   that brief item 2 does not list, namely  `VAddr _ : TyStr`.  The checker computes the element
   type of an array literal with real_type_of (which collapses TyAddr to TyStr) while the
   evaluator fetches elements with value_of (which does not collapse), so
       [request.target][0]
   has static type TyStr and dynamic value VAddr _.  This is harmless because every consumer of a
   string goes through real_value_of first; `soundness_refuted_by` below shows that the statement
   with the strict relation `vtyped_strict` (no VAddr/TyStr clause) is false, and
   `soundness_let_free_real_strict` shows that strictness is recovered at the real_* level. *)
From RP Require Import Base Target MiluSyntax MiluDoc MiluEval.
From Coq Require Import ZArith String List Lia Bool.
Import ListNotations.
Local Open Scope string_scope.

(* ====================================================================================== *)
(* 1. the let-free, empty-array-free fragment                                              *)
(* ====================================================================================== *)

Definition is_unary (n : string) : bool := existsb (String.eqb n) ["Not"; "BitNot"; "Negative"].
Definition is_binop (n : string) : bool :=
  is_int_op n || is_cmp_op n || existsb (String.eqb n) ["And"; "Or"; "Xor"; "Like"; "NotLike"].

(* arity with which the parser builds calls of operator natives; None = not an operator native
   (no constraint: such calls are never built by the parser, the theorems hold for them anyway) *)
Definition native_arity (n : string) : option nat :=
  if existsb (String.eqb n) ["Index"; "Access"; "IsMemberOf"] then Some 2%nat
  else if String.eqb n "If" then Some 3%nat
  else if is_unary n then Some 1%nat
  else if is_binop n then Some 2%nat
  else None.

Definition is_field (e : expr) : Prop := match e with EId _ | EInt _ => True | _ => False end.

Definition call_ok (f : expr) (args : list expr) : Prop :=
  match f with
  | ENat name =>
    name <> "Scope" /\
    (forall n, native_arity name = Some n -> List.length args = n) /\
    (name = "Access" -> match args with [_; i] => is_field i | _ => False end)
  | _ => True
  end.

Inductive wf_lf : expr -> Prop :=
| wf_int z : wf_lf (EInt z)
| wf_bool b : wf_lf (EBool b)
| wf_str s : wf_lf (EStr s)
| wf_id x : wf_lf (EId x)
| wf_nat n : wf_lf (ENat n)
| wf_arr l : l <> [] -> Forall wf_lf l -> wf_lf (EArr l)
| wf_tup l : Forall wf_lf l -> wf_lf (ETup l)
| wf_call f args : wf_lf f -> Forall wf_lf args -> call_ok f args -> wf_lf (ECall f args).

(* ====================================================================================== *)
(* 2. outcomes                                                                             *)
(* ====================================================================================== *)

(* "no type error, no panic, and P on success" *)
Definition okres {A} (P : A -> Prop) (o : outcome A) : Prop :=
  match o with Ok a => P a | Err c => c <> E_TYPE | Panic _ => False end.
(* "no panic, and P on success" *)
Definition ores {A} (P : A -> Prop) (o : outcome A) : Prop :=
  match o with Ok a => P a | Err _ => True | Panic _ => False end.

Lemma okres_bind {A B} (P : A -> Prop) (Q : B -> Prop) x k :
  okres P x -> (forall a, P a -> okres Q (k a)) -> okres Q (obind x k).
Proof. destruct x; simpl; auto. Qed.

Lemma ores_bind {A B} (P : A -> Prop) (Q : B -> Prop) x k :
  ores P x -> (forall a, P a -> ores Q (k a)) -> ores Q (obind x k).
Proof. destruct x; simpl; auto. Qed.

Lemma okres_impl {A} (P Q : A -> Prop) o : okres P o -> (forall a, P a -> Q a) -> okres Q o.
Proof. destruct o; simpl; auto. Qed.

Lemma ores_impl {A} (P Q : A -> Prop) o : ores P o -> (forall a, P a -> Q a) -> ores Q o.
Proof. destruct o; simpl; auto. Qed.

Lemma obind_ok {A B} (x : outcome A) (k : A -> outcome B) b :
  obind x k = Ok b -> exists a, x = Ok a /\ k a = Ok b.
Proof. destruct x; simpl; intros; try discriminate; eauto. Qed.

Lemma map_o_ok {A B} (g : A -> outcome B) l ys :
  map_o g l = Ok ys -> Forall2 (fun x y => g x = Ok y) l ys.
Proof.
  revert ys; induction l as [|x r IH]; simpl; intros ys H.
  - inversion H; constructor.
  - apply obind_ok in H; destruct H as [y [Hy H]].
    apply obind_ok in H; destruct H as [ys' [Hys H]].
    inversion H; subst. constructor; auto.
Qed.

Lemma map_o_okres {A B} (P : A -> B -> Prop) (g : A -> outcome B) l :
  Forall (fun x => okres (P x) (g x)) l -> okres (Forall2 P l) (map_o g l).
Proof.
  induction 1 as [|x r Hx Hr IH]; simpl.
  - constructor.
  - eapply okres_bind; [exact Hx|]. intros y Hy.
    eapply okres_bind; [exact IH|]. intros ys Hys. simpl. constructor; auto.
Qed.

Lemma map_o_ores {A B} (P : A -> B -> Prop) (g : A -> outcome B) l :
  Forall (fun x => ores (P x) (g x)) l -> ores (Forall2 P l) (map_o g l).
Proof.
  induction 1 as [|x r Hx Hr IH]; simpl.
  - constructor.
  - eapply ores_bind; [exact Hx|]. intros y Hy.
    eapply ores_bind; [exact IH|]. intros ys Hys. simpl. constructor; auto.
Qed.

Lemma E_FUEL_ne : E_FUEL <> E_TYPE. Proof. discriminate. Qed.
Lemma E_ARITH_ne : E_ARITH <> E_TYPE. Proof. discriminate. Qed.
Lemma E_INDEX_ne : E_INDEX <> E_TYPE. Proof. discriminate. Qed.
Lemma E_REGEX_ne : E_REGEX <> E_TYPE. Proof. discriminate. Qed.
Lemma E_PARSE_ne : E_PARSE <> E_TYPE. Proof. discriminate. Qed.
#[local] Hint Resolve E_FUEL_ne E_ARITH_ne E_INDEX_ne E_REGEX_ne E_PARSE_ne : core.

(* ====================================================================================== *)
(* 3. types: TyAny/TyThunk-free types, ty_eqb is an equivalence on them                    *)
(* ====================================================================================== *)

Lemma ty_ind' (P : ty -> Prop) :
  P TyStr -> P TyInt -> P TyBool ->
  (forall t, P t -> P (TyArr t)) ->
  (forall l, Forall P l -> P (TyTup l)) ->
  P TyAny -> (forall en e, P (TyThunk en e)) -> (forall n, P (TyFn n)) -> P TyReq ->
  (forall a, P (TyAddr a)) -> forall t, P t.
Proof.
  intros Hs Hi Hb Ha Ht Hany Hth Hfn Hrq Had.
  fix IH 1. intros [ | | | t | l | | en e | n | | a].
  - exact Hs.
  - exact Hi.
  - exact Hb.
  - apply Ha. apply IH.
  - apply Ht. induction l as [|x r IHl]; constructor; [apply IH | exact IHl].
  - exact Hany.
  - apply Hth.
  - apply Hfn.
  - exact Hrq.
  - apply Had.
Qed.

Fixpoint goodb (t : ty) : bool :=
  match t with
  | TyAny | TyThunk _ _ => false
  | TyArr t => goodb t
  | TyTup l => forallb goodb l
  | _ => true
  end.

Fixpoint ty_list_eqb (l1 l2 : list ty) : bool :=
  match l1, l2 with
  | [], [] => true
  | x :: r1, y :: r2 => ty_eqb x y && ty_list_eqb r1 r2
  | _, _ => false
  end.

Lemma ty_eqb_tup x y : ty_eqb (TyTup x) (TyTup y) = ty_list_eqb x y.
Proof.
  reflexivity.
Qed.

Lemma bytes_eq_eq a b : bytes_eq a b = true <-> a = b.
Proof.
  revert b; induction a as [|x a IH]; intros [|y b]; simpl; split; intros H; try discriminate; auto.
  - apply andb_true_iff in H; destruct H as [H1 H2]. apply N.eqb_eq in H1. apply IH in H2. congruence.
  - inversion H; subst. rewrite N.eqb_refl. simpl. apply IH; auto.
Qed.

(* normal form: ty_eqb on good types is equality of normal forms *)
Definition norm_addr (a : addrobj) : addrobj := mk_addr (a_kind a) [] 0%Z [] (a_text a).
Fixpoint norm (t : ty) : ty :=
  match t with
  | TyArr t => TyArr (norm t)
  | TyTup l => TyTup (map norm l)
  | TyAddr a => TyAddr (norm_addr a)
  | t => t
  end.

Lemma addr_eqb_norm a b : addr_eqb a b = true <-> norm_addr a = norm_addr b.
Proof.
  unfold addr_eqb, norm_addr. rewrite andb_true_iff, N.eqb_eq, bytes_eq_eq. split.
  - intros [-> ->]; reflexivity.
  - intros H; inversion H; auto.
Qed.

Lemma ty_eqb_norm a : forall b, goodb a = true -> goodb b = true -> ty_eqb a b = true -> norm a = norm b.
Proof.
  induction a using ty_ind'; intros b Ga Gb E; destruct b; simpl in Ga, Gb; try discriminate;
    try reflexivity; try (simpl in E; discriminate).
  - simpl in E. simpl. f_equal. auto.
  - rewrite ty_eqb_tup in E. simpl. f_equal.
    revert l0 Gb E. induction H as [|x r Hx Hr IHr]; intros [|y l0] Gb E; simpl in *; try discriminate; auto.
    apply andb_true_iff in Ga; destruct Ga. apply andb_true_iff in Gb; destruct Gb.
    apply andb_true_iff in E; destruct E. f_equal; auto.
  - simpl in E. apply String.eqb_eq in E. subst; reflexivity.
  - simpl in E. simpl. f_equal. apply addr_eqb_norm; auto.
Qed.

Lemma norm_ty_eqb a : forall b, goodb a = true -> goodb b = true -> norm a = norm b -> ty_eqb a b = true.
Proof.
  induction a using ty_ind'; intros b Ga Gb E; destruct b; simpl in Ga, Gb; try discriminate;
    try reflexivity; try (simpl in E; discriminate).
  - simpl in E. inversion E. simpl. auto.
  - rewrite ty_eqb_tup. simpl in E. inversion E as [E']. clear E.
    revert l0 Gb E'. induction H as [|x r Hx Hr IHr]; intros [|y l0] Gb E; simpl in *; try discriminate; auto.
    apply andb_true_iff in Ga; destruct Ga. apply andb_true_iff in Gb; destruct Gb.
    inversion E. apply andb_true_iff; split; auto.
  - simpl in E. inversion E. simpl. apply String.eqb_refl.
  - simpl in E. simpl. apply addr_eqb_norm. congruence.
Qed.

Lemma ty_eqb_sym a b : goodb a = true -> goodb b = true -> ty_eqb a b = true -> ty_eqb b a = true.
Proof. intros. apply norm_ty_eqb; auto. symmetry. apply ty_eqb_norm; auto. Qed.

Lemma ty_eqb_trans a b c :
  goodb a = true -> goodb b = true -> goodb c = true ->
  ty_eqb a b = true -> ty_eqb b c = true -> ty_eqb a c = true.
Proof.
  intros. apply norm_ty_eqb; auto. transitivity (norm b); apply ty_eqb_norm; auto.
Qed.

Lemma ty_eqb_refl a : goodb a = true -> ty_eqb a a = true.
Proof. intros; apply norm_ty_eqb; auto. Qed.

Lemma ty_list_eqb_nth ts ts2 n t :
  ty_list_eqb ts ts2 = true -> nth_error ts n = Some t ->
  exists t2, nth_error ts2 n = Some t2 /\ ty_eqb t t2 = true.
Proof.
  revert ts2 n; induction ts as [|x r IH]; intros [|y ts2] [|n] E Hn; simpl in *; try discriminate.
  - apply andb_true_iff in E; destruct E. inversion Hn; subst. eauto.
  - apply andb_true_iff in E; destruct E. eauto.
Qed.

(* shape lemmas: on good types ty_eqb against a base type is equality *)
Lemma ty_eqb_base t b :
  goodb t = true -> goodb b = true -> norm b = b -> (forall t', norm t' = b -> t' = b) ->
  ty_eqb t b = true -> t = b.
Proof. intros Gt Gb Nb Inv E. apply Inv. rewrite <- Nb. apply ty_eqb_norm; auto. Qed.

Lemma ty_eqb_int t : goodb t = true -> ty_eqb t TyInt = true -> t = TyInt.
Proof. intros G E. destruct t; simpl in *; try discriminate; auto. Qed.
Lemma ty_eqb_bool t : goodb t = true -> ty_eqb t TyBool = true -> t = TyBool.
Proof. intros G E. destruct t; simpl in *; try discriminate; auto. Qed.
Lemma ty_eqb_bool' t : goodb t = true -> ty_eqb TyBool t = true -> t = TyBool.
Proof. intros G E. destruct t; simpl in *; try discriminate; auto. Qed.
Lemma ty_eqb_str t : goodb t = true -> ty_eqb t TyStr = true -> t = TyStr.
Proof. intros G E. destruct t; simpl in *; try discriminate; auto. Qed.
Lemma ty_eqb_arrstr t : goodb t = true -> ty_eqb t (TyArr TyStr) = true -> t = TyArr TyStr.
Proof.
  intros G E. destruct t; simpl in *; try discriminate; auto.
  f_equal. apply ty_eqb_str; auto.
Qed.

(* ====================================================================================== *)
(* 4. the model, cut into named pieces (each equation holds by computation)                *)
(* ====================================================================================== *)

Section Sound.
Variable regex_match : bytes -> bytes -> option bool.
Variable cidr_match_text : bytes -> bytes -> bool.
Variable rq : request.

Local Notation type_of := (MiluEval.type_of regex_match cidr_match_text rq).
Local Notation value_of := (MiluEval.value_of regex_match cidr_match_text rq).
Local Notation real_type_of := (MiluEval.real_type_of regex_match cidr_match_text rq).
Local Notation real_value_of := (MiluEval.real_value_of regex_match cidr_match_text rq).
Local Notation req_field_type := (MiluEval.req_field_type rq).
Local Notation req_field := (MiluEval.req_field rq).

(* ---- checker pieces ---- *)
Definition t_index (f : nat) (en : env) (args : list expr) : outcome ty :=
  match args with
  | obj :: ix :: _ =>
    ti <- type_of f en ix ;;
    if negb (ty_eqb ti TyInt) then Err E_TYPE else
    to <- type_of f en obj ;;
    match to with TyArr t => Ok t | _ => Err E_TYPE end
  | _ => Panic 46
  end.

Definition t_tuple_case (ix : expr) (tt : ty) : outcome ty :=
  match ix with
  | EInt i => match tt with
              | TyTup ts => if (0 <=? i)%Z then
                              match nth_error ts (zidx ts i) with Some t => Ok t | None => Err E_TYPE end
                            else Err E_TYPE
              | _ => Err E_TYPE
              end
  | _ => Err E_TYPE
  end.

Definition t_access (f : nat) (en : env) (args : list expr) : outcome ty :=
  match args with
  | obj :: ix :: _ =>
    to <- type_of f en obj ;;
    match to with
    | TyReq => match ix with EId nm => req_field_type nm | _ => Err E_TYPE end
    | TyAddr _ => match ix with EId nm => addr_field_type nm | _ => Err E_TYPE end
    | TyThunk en' e' => tt <- type_of f en' e' ;; t_tuple_case ix tt
    | TyTup _ => t_tuple_case ix to
    | _ => Err E_TYPE
    end
  | _ => Panic 47
  end.

Definition t_if (f : nat) (en : env) (args : list expr) : outcome ty :=
  match args with
  | [c; y; n] =>
    tc <- type_of f en c ;; ty_ <- type_of f en y ;; tn <- type_of f en n ;;
    if negb (ty_eqb TyBool tc) then Err E_TYPE
    else if negb (ty_eqb ty_ tn) then Err E_TYPE else Ok ty_
  | c :: y :: n :: _ =>
    tc <- type_of f en c ;; ty_ <- type_of f en y ;; tn <- type_of f en n ;;
    _ <- map_o (type_of f en) (skipn 3 args) ;;
    if negb (ty_eqb TyBool tc) then Err E_TYPE
    else if negb (ty_eqb ty_ tn) then Err E_TYPE else Ok ty_
  | _ => t <- map_o (type_of f en) args ;; Panic 48
  end.

Definition t_scope (f : nat) (en : env) (args : list expr) : outcome ty :=
  match args with
  | vars :: body :: _ => fr <- scope_frame vars ;; type_of f (fr :: en) body
  | _ => Panic 49
  end.

Definition t_member (f : nat) (en : env) (args : list expr) : outcome ty :=
  match args with
  | a :: ary :: rest =>
    ta <- type_of f en a ;; tary <- type_of f en ary ;;
    _ <- map_o (type_of f en) rest ;;
    match tary with
    | TyArr t => if ty_eqb ta t then Ok TyBool else Err E_TYPE
    | _ => Err E_TYPE
    end
  | _ => t <- map_o (type_of f en) args ;; Panic 50
  end.

Definition t_cmp (f : nat) (en : env) (args : list expr) : outcome ty :=
  match args with
  | [a; b] =>
    ta <- real_type_of f en a ;; tb <- real_type_of f en b ;;
    match ta, tb with
    | TyInt, TyInt | TyStr, TyStr | TyBool, TyBool => Ok TyBool
    | _, _ => Err E_TYPE
    end
  | _ => Err E_TYPE
  end.

Definition t_sig (f : nat) (en : env) (name : string) (args : list expr) : outcome ty :=
  match fn_sig name with
  | None => Err E_TYPE
  | Some (ats, rt) =>
    if negb (List.length args =? List.length ats)%nat then Err E_TYPE else
    ts <- map_o (real_type_of f en) args ;;
    if forallb (fun p => ty_eqb (fst p) (snd p)) (combine ts ats) then Ok rt else Err E_TYPE
  end.

Definition tcall (f : nat) (en : env) (name : string) (args : list expr) : outcome ty :=
  if String.eqb name "Index" then t_index f en args
  else if String.eqb name "Access" then t_access f en args
  else if String.eqb name "If" then t_if f en args
  else if String.eqb name "Scope" then t_scope f en args
  else if String.eqb name "IsMemberOf" then t_member f en args
  else if is_cmp_op name then t_cmp f en args
  else t_sig f en name args.

Lemma type_of_call f en fe args :
  type_of (S f) en (ECall fe args) = name <- callee (value_of f) en fe ;; tcall f en name args.
Proof. reflexivity. Qed.

Lemma type_of_arr f en x r :
  type_of (S f) en (EArr (x :: r)) =
  t <- real_type_of f en x ;;
  _ <- map_o (fun y => ty' <- real_type_of f en y ;; if ty_eqb ty' t then Ok tt else Err E_TYPE) (x :: r) ;;
  Ok (TyArr t).
Proof. reflexivity. Qed.

Lemma type_of_tup f en l : type_of (S f) en (ETup l) = ts <- map_o (type_of f en) l ;; Ok (TyTup ts).
Proof. reflexivity. Qed.

(* ---- evaluator pieces ---- *)
Definition v_index (f : nat) (en : env) (args : list expr) : outcome value :=
  match args with
  | obj :: ix :: _ =>
    vi <- value_of f en ix ;; i <- as_int vi ;;
    vo <- value_of f en obj ;;
    match vo with
    | VArr l => el <- vec_get l i ;; value_of f en el
    | _ => Err E_TYPE
    end
  | _ => Panic 51
  end.

Definition v_tuple_case (f : nat) (en : env) (ix : expr) (tv : value) : outcome value :=
  match ix with
  | EInt i => match tv with
              | VTup l => if (0 <=? i)%Z then
                            match nth_error l (zidx l i) with Some el => value_of f en el | None => Err E_TYPE end
                          else Err E_TYPE
              | _ => Err E_TYPE
              end
  | _ => Err E_TYPE
  end.

Definition v_access (f : nat) (en : env) (args : list expr) : outcome value :=
  match args with
  | obj :: ix :: _ =>
    vo <- value_of f en obj ;;
    match vo with
    | VReq => match ix with EId nm => req_field nm | _ => Err E_TYPE end
    | VAddr a => match ix with EId nm => addr_field a nm | _ => Err E_TYPE end
    | VThunk en' e' => tv <- value_of f en' e' ;; v_tuple_case f en ix tv
    | VTup _ => v_tuple_case f en ix vo
    | _ => Err E_TYPE
    end
  | _ => Panic 52
  end.

Definition v_if (f : nat) (en : env) (args : list expr) : outcome value :=
  match args with
  | c :: y :: n :: _ =>
    vc <- value_of f en c ;; b <- as_bool vc ;;
    if b then value_of f en y else value_of f en n
  | [c; _] | [c] => vc <- value_of f en c ;; b <- as_bool vc ;; Panic 53
  | [] => Panic 53
  end.

Definition v_scope (f : nat) (en : env) (args : list expr) : outcome value :=
  match args with
  | vars :: body :: _ => fr <- scope_frame vars ;; value_of f (fr :: en) body
  | _ => Panic 54
  end.

Definition member_go (f : nat) (en : env) (va : value) : list expr -> outcome value :=
  fix go (l : list expr) : outcome value :=
    match l with
    | [] => Ok (VBool false)
    | x :: r => vx <- value_of f en x ;; if value_eqb vx va then Ok (VBool true) else go r
    end.

Definition v_member (f : nat) (en : env) (args : list expr) : outcome value :=
  match args with
  | a :: ary :: _ =>
    va <- real_value_of f en a ;; vary <- real_value_of f en ary ;;
    match vary with
    | VArr l => member_go f en va l
    | _ => Err E_TYPE
    end
  | _ => Panic 55
  end.

Definition v_cmp (f : nat) (en : env) (name : string) (args : list expr) : outcome value :=
  match args with
  | [a; b] => va <- real_value_of f en a ;; vb <- real_value_of f en b ;; cmp_values name va vb
  | _ => Err E_TYPE
  end.

Definition v_and (f : nat) (en : env) (args : list expr) : outcome value :=
  match args with
  | [a; b] => va <- real_value_of f en a ;; x <- as_bool va ;;
              if x then vb <- real_value_of f en b ;; y <- as_bool vb ;; Ok (VBool y) else Ok (VBool false)
  | _ => Err E_TYPE
  end.
Definition v_or (f : nat) (en : env) (args : list expr) : outcome value :=
  match args with
  | [a; b] => va <- real_value_of f en a ;; x <- as_bool va ;;
              if x then Ok (VBool true) else vb <- real_value_of f en b ;; y <- as_bool vb ;; Ok (VBool y)
  | _ => Err E_TYPE
  end.
Definition v_xor (f : nat) (en : env) (args : list expr) : outcome value :=
  match args with
  | [a; b] => va <- real_value_of f en a ;; x <- as_bool va ;;
              vb <- real_value_of f en b ;; y <- as_bool vb ;; Ok (VBool (xorb x y))
  | _ => Err E_TYPE
  end.

Definition concat_go (f : nat) (en : env) : list expr -> bytes -> outcome value :=
  fix go (l : list expr) (acc : bytes) : outcome value :=
    match l with
    | [] => Ok (VStr acc)
    | x :: r => vx <- real_value_of f en x ;; s <- as_str vx ;; go r (acc ++ s)%list
    end.

Definition v_un (f : nat) (en : env) (name : string) (a : value) : outcome value :=
  if String.eqb name "Not" then x <- as_bool a ;; Ok (VBool (negb x))
  else if String.eqb name "BitNot" then x <- as_int a ;; Ok (VInt (- x - 1))
  else if String.eqb name "Negative" then x <- as_int a ;; chk (- x)
  else if String.eqb name "ToString" then Ok (VStr (display_value a))
  else if String.eqb name "ToInteger" then
    s <- as_str a ;; match parse_i64 s with Some z => Ok (VInt z) | None => Err E_PARSE end
  else if String.eqb name "StringConcat" then
    match a with
    | VArr l => concat_go f en l []
    | _ => Err E_TYPE
    end
  else Panic 56.

Definition v_bin (name : string) (a b : value) : outcome value :=
  if is_int_op name then x <- as_int a ;; y <- as_int b ;; int_op name x y
  else if String.eqb name "Like" || String.eqb name "NotLike" then
    s <- as_str a ;; p <- as_str b ;;
    match regex_match p s with
    | Some m => Ok (VBool (if String.eqb name "Like" then m else negb m))
    | None => Err E_REGEX
    end
  else if String.eqb name "Split" then
    s <- as_str a ;; d <- as_str b ;; Ok (VArr (map EStr (split_str s d)))
  else if String.eqb name "CidrMatch" then
    ip <- as_str a ;; c <- as_str b ;; Ok (VBool (cidr_match_text ip c))
  else Panic 57.

Definition v_sig (f : nat) (en : env) (name : string) (args : list expr) : outcome value :=
  match fn_sig name with
  | None => Err E_TYPE
  | Some (ats, _) =>
    if negb (List.length args =? List.length ats)%nat then Err E_TYPE else
    if String.eqb name "And" then v_and f en args
    else if String.eqb name "Or" then v_or f en args
    else if String.eqb name "Xor" then v_xor f en args
    else
      vs <- map_o (real_value_of f en) args ;;
      match vs with
      | [a] => v_un f en name a
      | [a; b] => v_bin name a b
      | _ => Panic 58
      end
  end.

Definition vcall (f : nat) (en : env) (name : string) (args : list expr) : outcome value :=
  if String.eqb name "Index" then v_index f en args
  else if String.eqb name "Access" then v_access f en args
  else if String.eqb name "If" then v_if f en args
  else if String.eqb name "Scope" then v_scope f en args
  else if String.eqb name "IsMemberOf" then v_member f en args
  else if is_cmp_op name then v_cmp f en name args
  else v_sig f en name args.

Lemma value_of_call f en fe args :
  value_of (S f) en (ECall fe args) = name <- callee (value_of f) en fe ;; vcall f en name args.
Proof. reflexivity. Qed.


(* ====================================================================================== *)
(* 5. the checker is total on wf_lf expressions and computes only good types               *)
(* ====================================================================================== *)

Definition tres (o : outcome ty) : Prop := ores (fun t => goodb t = true) o.

Lemma type_of_id f x :
  type_of (S f) [] (EId x) =
  match root_lookup x with
  | None => Err E_TYPE
  | Some (VThunk en' e') => Ok (TyThunk en' e')
  | Some (VFn n) => Ok (TyFn n)
  | Some VReq => Ok TyReq
  | Some _ => Err E_TYPE
  end.
Proof. reflexivity. Qed.

Lemma value_of_id f x :
  value_of (S f) [] (EId x) = match root_lookup x with Some v => Ok v | None => Err E_TYPE end.
Proof. reflexivity. Qed.

Lemma root_lookup_cases x v : root_lookup x = Some v ->
  v = VFn "ToString" \/ v = VFn "ToInteger" \/ v = VFn "Split" \/ v = VFn "StringConcat" \/
  v = VFn "CidrMatch" \/ v = VReq.
Proof.
  unfold root_lookup.
  repeat match goal with |- context [if ?c then _ else _] => destruct c end;
    intros H; inversion H; auto 10.
Qed.

Definition nm_ok (name : string) (args : list expr) : Prop :=
  name <> "Scope" /\ (forall n, native_arity name = Some n -> List.length args = n).

Lemma callee_ores f fe args :
  call_ok fe args -> ores (fun name => nm_ok name args) (callee (value_of f) [] fe).
Proof.
  intros Hc. destruct fe; simpl; auto.
  - destruct f as [|f]; [exact I|]. rewrite value_of_id.
    destruct (root_lookup s) as [v|] eqn:E; simpl; auto.
    apply root_lookup_cases in E.
    repeat destruct E as [E|E]; subst v; simpl; auto;
      (split; [discriminate | intros n Hn; vm_compute in Hn; discriminate]).
  - destruct Hc as [H1 [H2 _]]. split; auto.
Qed.

Lemma fn_sig_good name ats rt : fn_sig name = Some (ats, rt) -> goodb rt = true.
Proof.
  unfold fn_sig.
  repeat match goal with |- context [if ?c then _ else _] => destruct c end;
    intros H; inversion H; reflexivity.
Qed.

Lemma req_field_type_tres nm : tres (req_field_type nm).
Proof.
  unfold MiluEval.req_field_type.
  repeat match goal with |- context [if ?c then _ else _] => destruct c end; simpl; auto.
Qed.

Lemma addr_field_type_tres nm : tres (addr_field_type nm).
Proof.
  unfold addr_field_type.
  repeat match goal with |- context [if ?c then _ else _] => destruct c end; simpl; auto.
Qed.

Lemma tuple_case_tres ix tt : goodb tt = true -> tres (t_tuple_case ix tt).
Proof.
  intros G. destruct ix; simpl; auto. destruct tt; simpl; auto.
  destruct (0 <=? z)%Z; simpl; auto.
  destruct (nth_error l (zidx l z)) eqn:E; simpl; auto.
  apply nth_error_In in E. simpl in G. rewrite forallb_forall in G. auto.
Qed.

Lemma real_type_tres f :
  (forall e, wf_lf e -> tres (type_of f [] e)) -> forall e, wf_lf e -> tres (real_type_of f [] e).
Proof.
  intros IH e W. unfold MiluEval.real_type_of. specialize (IH e W).
  destruct (type_of f [] e) as [t| |]; simpl in *; auto.
  destruct t; simpl in *; auto; discriminate.
Qed.

Lemma Forall2_good_forallb {A} (l : list A) ts :
  Forall2 (fun _ t => goodb t = true) l ts -> forallb goodb ts = true.
Proof. induction 1; simpl; auto. rewrite H, IHForall2. reflexivity. Qed.

Lemma map_o_tres_any {A} (g : expr -> outcome A) l :
  Forall (fun x => ores (fun _ => True) (g x)) l -> ores (fun _ => True) (map_o g l).
Proof.
  intros H. eapply ores_impl; [apply (map_o_ores (fun _ _ => True)); exact H | auto].
Qed.

Lemma tcall_tres f name args :
  (forall e, wf_lf e -> tres (type_of f [] e)) ->
  Forall wf_lf args -> nm_ok name args -> tres (tcall f [] name args).
Proof.
  intros IH Wa [Hns Har]. pose proof (real_type_tres f IH) as IHr.
  assert (IHany : forall e, wf_lf e -> ores (fun _ => True) (type_of f [] e)).
  { intros e W. eapply ores_impl; [apply IH; auto | auto]. }
  unfold tcall.
  destruct (String.eqb_spec name "Index") as [->|NI].
  { assert (L : List.length args = 2%nat) by (apply Har; reflexivity).
    destruct args as [|obj [|ix [|]]]; try discriminate.
    inversion Wa as [|? ? Wo Wa']; subst. inversion Wa' as [|? ? Wi _]; subst.
    unfold t_index.
    eapply ores_bind; [apply IH; auto|]. intros ti Gti.
    destruct (negb _); simpl; auto.
    eapply ores_bind; [apply IH; auto|]. intros to Gto.
    destruct to; simpl; auto. }
  destruct (String.eqb_spec name "Access") as [->|NA].
  { assert (L : List.length args = 2%nat) by (apply Har; reflexivity).
    destruct args as [|obj [|ix [|]]]; try discriminate.
    inversion Wa as [|? ? Wo Wa']; subst.
    unfold t_access.
    eapply ores_bind; [apply IH; auto|]. intros to Gto.
    destruct to; simpl; auto; try discriminate.
    - apply tuple_case_tres; auto.
    - destruct ix; simpl; auto. apply req_field_type_tres.
    - destruct ix; simpl; auto. apply addr_field_type_tres. }
  destruct (String.eqb_spec name "If") as [->|NF].
  { assert (L : List.length args = 3%nat) by (apply Har; reflexivity).
    destruct args as [|c [|y [|n [|]]]]; try discriminate.
    inversion Wa as [|? ? Wc Wa']; subst. inversion Wa' as [|? ? Wy Wa'']; subst.
    inversion Wa'' as [|? ? Wn _]; subst.
    unfold t_if.
    eapply ores_bind; [apply IH; auto|]. intros tc Gtc.
    eapply ores_bind; [apply IH; auto|]. intros ty_ Gty.
    eapply ores_bind; [apply IH; auto|]. intros tn Gtn.
    destruct (negb _); simpl; auto. destruct (negb _); simpl; auto. }
  destruct (String.eqb_spec name "Scope") as [->|NS]; [congruence|].
  destruct (String.eqb_spec name "IsMemberOf") as [->|NM].
  { assert (L : List.length args = 2%nat) by (apply Har; reflexivity).
    destruct args as [|a [|ary [|]]]; try discriminate.
    inversion Wa as [|? ? Wa1 Wa']; subst. inversion Wa' as [|? ? Wa2 _]; subst.
    unfold t_member.
    eapply ores_bind; [apply IH; auto|]. intros ta Gta.
    eapply ores_bind; [apply IH; auto|]. intros tary Gtary.
    simpl. destruct tary; simpl; auto. destruct (ty_eqb ta tary); simpl; auto. }
  destruct (is_cmp_op name).
  { unfold t_cmp. destruct args as [|a [|b [|]]]; simpl; auto.
    inversion Wa as [|? ? Wa1 Wa']; subst. inversion Wa' as [|? ? Wa2 _]; subst.
    eapply ores_bind; [apply IHr; auto|]. intros ta Gta.
    eapply ores_bind; [apply IHr; auto|]. intros tb Gtb.
    destruct ta, tb; simpl; auto. }
  unfold t_sig. destruct (fn_sig name) as [[ats rt]|] eqn:Es; simpl; auto.
  destruct (negb _); simpl; auto.
  eapply ores_bind with (P := fun _ => True).
  { apply map_o_tres_any. eapply Forall_impl; [|exact Wa].
    intros e W. eapply ores_impl; [apply IHr; auto | auto]. }
  intros ts _. destruct (forallb _ _); simpl; auto.
  eapply fn_sig_good; eauto.
Qed.

Lemma type_of_total_good_sec : forall f e, wf_lf e -> tres (type_of f [] e).
Proof.
  induction f as [|f IH]; intros e W.
  - exact I.
  - pose proof (real_type_tres f IH) as IHr.
    inversion W; subst; try (simpl; reflexivity).
    + (* EId *)
      rewrite type_of_id. destruct (root_lookup x) as [v|] eqn:E; [|exact I].
      apply root_lookup_cases in E. repeat destruct E as [E|E]; subst v; simpl; auto.
    + (* EArr *)
      destruct l as [|x r]; [congruence|]. rewrite type_of_arr.
      inversion H0; subst.
      eapply ores_bind; [apply IHr; auto|]. intros t Gt.
      eapply ores_bind with (P := fun _ => True).
      { apply map_o_tres_any. eapply Forall_impl; [|exact H0].
        intros y Wy. eapply ores_bind; [apply IHr; auto|]. intros t' _.
        destruct (ty_eqb t' t); simpl; auto. }
      intros _ _. simpl. auto.
    + (* ETup *)
      rewrite type_of_tup.
      eapply ores_bind with (P := Forall2 (fun _ t => goodb t = true) l).
      { apply map_o_ores. eapply Forall_impl; [|exact H]. intros x Wx. apply IH; auto. }
      intros ts Hts. simpl. eapply Forall2_good_forallb; eauto.
    + (* ECall *)
      rewrite type_of_call.
      eapply ores_bind; [apply callee_ores; eauto|].
      intros name Hn. apply tcall_tres; auto.
Qed.

Lemma type_of_good f e t : wf_lf e -> type_of f [] e = Ok t -> goodb t = true.
Proof. intros W H. pose proof (type_of_total_good_sec f e W) as G. rewrite H in G. exact G. Qed.

Lemma real_type_of_inv f e t' :
  wf_lf e -> real_type_of f [] e = Ok t' ->
  exists t, type_of f [] e = Ok t /\ goodb t = true /\
            t' = match t with TyAddr _ => TyStr | _ => t end.
Proof.
  intros W H. unfold MiluEval.real_type_of in H.
  apply obind_ok in H. destruct H as [t [Ht H]].
  pose proof (type_of_good _ _ _ W Ht) as G.
  exists t. split; auto. split; auto.
  destruct t; simpl in G; try discriminate; inversion H; auto.
Qed.

Lemma real_type_of_good f e t : wf_lf e -> real_type_of f [] e = Ok t -> goodb t = true.
Proof.
  intros W H. destruct (real_type_of_inv _ _ _ W H) as [t0 [_ [G ->]]].
  destruct t0; auto.
Qed.


(* ====================================================================================== *)
(* 6. value typing                                                                         *)
(* ====================================================================================== *)

(* static type after the real_type_of collapse *)
Definition rty (t : ty) : ty := match t with TyAddr _ => TyStr | _ => t end.

Definition elem_rtyped (t : ty) (x : expr) : Prop :=
  wf_lf x /\ exists f t', real_type_of f [] x = Ok t' /\ ty_eqb t' t = true.
Definition elem_typed (x : expr) (t : ty) : Prop :=
  wf_lf x /\ exists f t', type_of f [] x = Ok t' /\ ty_eqb t' t = true.

(* Arrays and tuples are lazy: they hold unevaluated, well-typed elements.
   The clause VAddr/TyStr is forced by the model (see the header and soundness_refuted_by). *)
Definition vtyped (v : value) (t : ty) : Prop :=
  match v, t with
  | VInt _, TyInt => True
  | VBool _, TyBool => True
  | VStr _, TyStr => True
  | VFn n, TyFn m => n = m
  | VReq, TyReq => True
  | VAddr a, TyAddr b => addr_eqb a b = true
  | VAddr _, TyStr => True
  | VArr l, TyArr t => Forall (elem_rtyped t) l
  | VTup l, TyTup ts => Forall2 elem_typed l ts
  | _, _ => False
  end.

(* the relation of brief item 2 read literally *)
Definition vtyped_strict (v : value) (t : ty) : Prop :=
  match v, t with
  | VInt _, TyInt => True
  | VBool _, TyBool => True
  | VStr _, TyStr => True
  | VFn n, TyFn m => n = m
  | VReq, TyReq => True
  | VAddr a, TyAddr b => addr_eqb a b = true
  | VArr l, TyArr t => Forall (elem_rtyped t) l
  | VTup l, TyTup ts => Forall2 elem_typed l ts
  | _, _ => False
  end.

Definition noaddr (v : value) : Prop := match v with VAddr _ => False | _ => True end.

Lemma vtyped_strict_iff v t : vtyped_strict v t <-> vtyped v t /\ (t = TyStr -> noaddr v).
Proof.
  destruct v, t; simpl; split; try tauto; try (intros [H1 H2]; auto; fail);
    try (intros H; split; [exact H | intros; discriminate || exact I]).
Qed.

Lemma addr_eqb_refl a : addr_eqb a a = true.
Proof. apply addr_eqb_norm; reflexivity. Qed.

Lemma vtyped_rty v t : vtyped v t -> vtyped v (rty t).
Proof. destruct v, t; simpl; auto. Qed.

Lemma goodb_rty t : goodb t = true -> goodb (rty t) = true.
Proof. destruct t; simpl; auto. Qed.

Lemma vt_int v : vtyped v TyInt -> exists z, v = VInt z.
Proof. destruct v; simpl; try contradiction; eauto. Qed.
Lemma vt_bool v : vtyped v TyBool -> exists b, v = VBool b.
Proof. destruct v; simpl; try contradiction; eauto. Qed.
Lemma vt_str v : vtyped v TyStr -> noaddr v -> exists s, v = VStr s.
Proof. destruct v; simpl; try contradiction; eauto. Qed.
Lemma vt_arr v t : vtyped v (TyArr t) -> exists l, v = VArr l /\ Forall (elem_rtyped t) l.
Proof. destruct v; simpl; try contradiction; eauto. Qed.
Lemma vt_tup v ts : vtyped v (TyTup ts) -> exists l, v = VTup l /\ Forall2 elem_typed l ts.
Proof. destruct v; simpl; try contradiction; eauto. Qed.
Lemma vt_req v : vtyped v TyReq -> v = VReq.
Proof. destruct v; simpl; try contradiction; eauto. Qed.
Lemma vt_addr v a : vtyped v (TyAddr a) -> exists b, v = VAddr b.
Proof. destruct v; simpl; try contradiction; eauto. Qed.

(* vtyped respects ty_eqb on good types *)
Lemma vtyped_eqb v a b :
  goodb a = true -> goodb b = true -> ty_eqb a b = true -> vtyped v a -> vtyped v b.
Proof.
  intros Ga Gb E V.
  pose proof (ty_eqb_norm a b Ga Gb E) as N.
  destruct v, a; simpl in V; try contradiction; destruct b; simpl in N; try discriminate N; simpl; auto.
  - (* VArr *)
    simpl in Ga, Gb, E. eapply Forall_impl; [|exact V].
    intros x [Wx [f [t' [Hrt Heq]]]]. split; auto. exists f, t'. split; auto.
    eapply ty_eqb_trans; [| | | exact Heq | exact E]; auto.
    eapply real_type_of_good; eauto.
  - (* VTup *)
    rewrite ty_eqb_tup in E. simpl in Ga, Gb. clear N.
    revert l1 Gb E. induction V as [|x t l ts Hx Hl IHl]; intros [|t2 ts2] Gb E; simpl in E; try discriminate.
    + constructor.
    + simpl in Ga, Gb.
      apply andb_true_iff in Ga; destruct Ga as [Ga1 Ga2].
      apply andb_true_iff in Gb; destruct Gb as [Gb1 Gb2].
      apply andb_true_iff in E; destruct E as [E1 E2].
      constructor; auto.
      destruct Hx as [Wx [f [t' [Ht Heq]]]]. split; auto. exists f, t'. split; auto.
      eapply ty_eqb_trans; [| | | exact Heq | exact E1]; auto.
      eapply type_of_good; eauto.
  - (* VFn *) inversion N; subst; auto.
  - (* VAddr *)
    simpl in E. apply addr_eqb_norm. apply addr_eqb_norm in V. apply addr_eqb_norm in E. congruence.
Qed.

Lemma real_type_of_inv' f e t' :
  wf_lf e -> real_type_of f [] e = Ok t' ->
  exists t, type_of f [] e = Ok t /\ goodb t = true /\ t' = rty t.
Proof. apply real_type_of_inv. Qed.

Lemma type_real f e t : wf_lf e -> type_of f [] e = Ok t -> real_type_of f [] e = Ok (rty t).
Proof.
  intros W H. pose proof (type_of_good _ _ _ W H) as G.
  unfold MiluEval.real_type_of. rewrite H. simpl.
  destruct t; simpl in *; auto; discriminate.
Qed.

(* ====================================================================================== *)
(* 7. soundness, by induction on the evaluator's fuel                                      *)
(* ====================================================================================== *)

Definition sound_at (f2 : nat) : Prop :=
  forall f1 e T, wf_lf e -> type_of f1 [] e = Ok T ->
                 okres (fun v => vtyped v T) (value_of f2 [] e).

Definition rsound_at (f2 : nat) : Prop :=
  forall f1 e T, wf_lf e -> real_type_of f1 [] e = Ok T ->
                 okres (fun v => vtyped v T /\ noaddr v) (real_value_of f2 [] e).

Lemma sound_rsound f2 : sound_at f2 -> rsound_at f2.
Proof.
  intros IH f1 e T W H.
  destruct (real_type_of_inv' _ _ _ W H) as [t [Ht [G ->]]].
  unfold MiluEval.real_value_of.
  eapply okres_bind; [apply (IH f1 e t W Ht)|].
  intros v Hv. destruct v, t; simpl in *; try contradiction; try discriminate; auto.
Qed.

Ltac fin := simpl; auto; try discriminate; try (intro; discriminate).

(* an element stored in a typed array evaluates to a value of the array's element type *)
Lemma elem_rtyped_value f2 t x :
  sound_at f2 -> goodb t = true -> elem_rtyped t x -> okres (fun v => vtyped v t) (value_of f2 [] x).
Proof.
  intros IH Gt [Wx [f [t' [Hrt Heq]]]].
  destruct (real_type_of_inv' _ _ _ Wx Hrt) as [t0 [Ht0 [G0 ->]]].
  eapply okres_impl; [apply (IH _ _ _ Wx Ht0)|]. intros v Hv.
  apply vtyped_eqb with (a := rty t0); auto using goodb_rty, vtyped_rty.
Qed.

Lemma elem_typed_value f2 t x :
  sound_at f2 -> goodb t = true -> elem_typed x t -> okres (fun v => vtyped v t) (value_of f2 [] x).
Proof.
  intros IH Gt [Wx [f [t' [Ht Heq]]]].
  eapply okres_impl; [apply (IH _ _ _ Wx Ht)|]. intros v Hv.
  apply vtyped_eqb with (a := t'); auto. eapply type_of_good; eauto.
Qed.

(* shapes of evaluated arguments against declared argument types *)
Definition shape_ok (v : value) (at_ : ty) : Prop :=
  match at_ with
  | TyBool => exists b, v = VBool b
  | TyInt => exists z, v = VInt z
  | TyStr => exists s, v = VStr s
  | TyArr TyStr => exists l, v = VArr l /\ Forall (elem_rtyped TyStr) l
  | _ => True
  end.

Lemma shape_of v t at_ :
  goodb t = true -> vtyped v t -> noaddr v -> ty_eqb t at_ = true -> shape_ok v at_.
Proof.
  intros G V N E. destruct at_; simpl; auto.
  - apply ty_eqb_str in E; auto; subst. apply vt_str; auto.
  - apply ty_eqb_int in E; auto; subst. apply vt_int; auto.
  - apply ty_eqb_bool in E; auto; subst. apply vt_bool; auto.
  - destruct at_; auto. apply ty_eqb_arrstr in E; auto; subst. apply vt_arr; auto.
Qed.

Lemma rshape f1 f2 a t at_ :
  rsound_at f2 -> wf_lf a -> real_type_of f1 [] a = Ok t -> ty_eqb t at_ = true ->
  okres (fun v => shape_ok v at_) (real_value_of f2 [] a).
Proof.
  intros IHr W H E. eapply okres_impl; [apply (IHr _ _ _ W H)|].
  intros v [Hv Hn]. eapply shape_of; eauto. eapply real_type_of_good; eauto.
Qed.

Lemma args_shapes f1 f2 args ts : forall ats,
  rsound_at f2 -> Forall wf_lf args ->
  Forall2 (fun a t => real_type_of f1 [] a = Ok t) args ts ->
  List.length args = List.length ats ->
  forallb (fun p => ty_eqb (fst p) (snd p)) (combine ts ats) = true ->
  okres (fun vs => Forall2 shape_ok vs ats) (map_o (real_value_of f2 []) args).
Proof.
  intros ats IHr Wa H. revert ats Wa.
  induction H as [|a t args ts Ha Hr IH]; intros [|at_ ats] Wa L E; simpl in L; try discriminate.
  - simpl. constructor.
  - inversion Wa; subst. simpl in E. apply andb_true_iff in E; destruct E as [E1 E2].
    simpl. eapply okres_bind; [eapply rshape; eauto|]. intros v Hv.
    injection L as L.
    eapply okres_bind; [apply (IH ats); auto|]. intros vs Hvs. simpl. constructor; auto.
Qed.

(* ---- callee ---- *)
Lemma callee_stable f1 f2 fe name :
  callee (value_of f1) [] fe = Ok name -> okres (fun n => n = name) (callee (value_of f2) [] fe).
Proof.
  destruct fe; simpl; try discriminate.
  - destruct f1 as [|f1]; [discriminate|]. rewrite value_of_id.
    destruct f2 as [|f2]; [fin|]. rewrite value_of_id.
    destruct (root_lookup s) as [v|]; simpl; try discriminate.
    destruct v; simpl; try discriminate. intros H; inversion H; auto.
  - intros H; inversion H; auto.
Qed.

Lemma callee_not_scope f fe args name :
  call_ok fe args -> callee (value_of f) [] fe = Ok name -> name <> "Scope".
Proof.
  intros Hc H. pose proof (callee_ores f fe args Hc) as O. rewrite H in O. apply O.
Qed.

(* ---- Index ---- *)
Lemma vec_get_okres (P : expr -> Prop) l i : Forall P l -> okres P (vec_get l i).
Proof.
  intros H. unfold vec_get.
  match goal with |- context [if ?c then _ else _] => destruct c end; fin.
  match goal with |- context [nth_error ?a ?b] => destruct (nth_error a b) eqn:E end; fin.
  apply nth_error_In in E. rewrite Forall_forall in H. auto.
Qed.

Lemma index_sound f1 f2 args T :
  sound_at f2 -> Forall wf_lf args -> t_index f1 [] args = Ok T ->
  okres (fun v => vtyped v T) (v_index f2 [] args).
Proof.
  intros IH Wa H. unfold t_index in H.
  destruct args as [|obj [|ix rest]]; try discriminate.
  inversion Wa as [|? ? Wo Wa']; subst. inversion Wa' as [|? ? Wi _]; subst.
  apply obind_ok in H; destruct H as [ti [Hti H]].
  destruct (negb (ty_eqb ti TyInt)) eqn:Eti; [discriminate|]. apply negb_false_iff in Eti.
  apply obind_ok in H; destruct H as [to [Hto H]].
  destruct to; try discriminate. inversion H; subst.
  pose proof (type_of_good _ _ _ Wi Hti) as Gti.
  pose proof (type_of_good _ _ _ Wo Hto) as Gto. simpl in Gto.
  apply ty_eqb_int in Eti; auto. subst ti.
  unfold v_index.
  eapply okres_bind; [apply (IH _ _ _ Wi Hti)|]. intros vi Hvi.
  apply vt_int in Hvi. destruct Hvi as [i ->]. simpl.
  eapply okres_bind; [apply (IH _ _ _ Wo Hto)|]. intros vo Hvo.
  apply vt_arr in Hvo. destruct Hvo as [l [-> Hl]].
  eapply okres_bind; [apply vec_get_okres; exact Hl|].
  intros el Hel. apply elem_rtyped_value; auto.
Qed.

(* ---- Access ---- *)
Lemma Forall2_nth {A B} (P : A -> B -> Prop) l ts n t :
  Forall2 P l ts -> nth_error ts n = Some t -> exists x, nth_error l n = Some x /\ P x t.
Proof.
  intros H; revert n; induction H; intros [|n] E; simpl in *; try discriminate.
  - inversion E; subst; eauto.
  - eauto.
Qed.

Lemma tuple_case_sound f2 ix l ts T :
  sound_at f2 -> goodb (TyTup ts) = true -> Forall2 elem_typed l ts ->
  t_tuple_case ix (TyTup ts) = Ok T ->
  okres (fun v => vtyped v T) (v_tuple_case f2 [] ix (VTup l)).
Proof.
  intros IH G Hl H. destruct ix; try discriminate. simpl in *.
  destruct (0 <=? z)%Z; try discriminate.
  assert (HL : List.length l = List.length ts) by (clear - Hl; induction Hl; simpl; congruence).
  assert (Hz : zidx l z = zidx ts z) by (unfold zidx; rewrite HL; reflexivity). rewrite Hz.
  destruct (nth_error ts (zidx ts z)) as [t|] eqn:E; try discriminate.
  inversion H; subst t.
  destruct (Forall2_nth _ _ _ _ _ Hl E) as [el [-> Hel]].
  apply elem_typed_value; auto.
  apply nth_error_In in E. rewrite forallb_forall in G. auto.
Qed.

Lemma req_field_sound nm T :
  req_field_type nm = Ok T -> okres (fun v => vtyped v T) (req_field nm).
Proof.
  unfold MiluEval.req_field_type, MiluEval.req_field.
  repeat match goal with |- context [bytes_eq nm ?s] => destruct (bytes_eq nm s) end;
    simpl; intros H; inversion H; simpl; auto using addr_eqb_refl.
Qed.

Lemma addr_field_sound a nm T :
  addr_field_type nm = Ok T -> okres (fun v => vtyped v T) (addr_field a nm).
Proof.
  unfold addr_field_type, addr_field.
  repeat match goal with |- context [bytes_eq nm ?s] => destruct (bytes_eq nm s) eqn:? end;
    simpl; intros H; inversion H; simpl; auto;
    repeat match goal with E : bytes_eq _ _ = true |- _ => apply bytes_eq_eq in E end;
    subst; discriminate.
Qed.

Lemma access_sound f1 f2 args T :
  sound_at f2 -> Forall wf_lf args -> t_access f1 [] args = Ok T ->
  okres (fun v => vtyped v T) (v_access f2 [] args).
Proof.
  intros IH Wa H. unfold t_access in H.
  destruct args as [|obj [|ix rest]]; try discriminate.
  inversion Wa as [|? ? Wo Wa']; subst.
  apply obind_ok in H; destruct H as [to [Hto H]].
  pose proof (type_of_good _ _ _ Wo Hto) as Gto.
  unfold v_access.
  eapply okres_bind; [apply (IH _ _ _ Wo Hto)|]. intros vo Hvo.
  destruct to; try discriminate.
  - apply vt_tup in Hvo. destruct Hvo as [l' [-> Hl]].
    eapply tuple_case_sound; eauto.
  - apply vt_req in Hvo. subst vo. destruct ix; try discriminate.
    apply req_field_sound; auto.
  - apply vt_addr in Hvo. destruct Hvo as [b ->]. destruct ix; try discriminate.
    apply addr_field_sound; auto.
Qed.

(* ---- If ---- *)
Lemma if_inv f1 args T :
  t_if f1 [] args = Ok T ->
  exists c y n rest tc tn, args = c :: y :: n :: rest /\
    type_of f1 [] c = Ok tc /\ type_of f1 [] y = Ok T /\ type_of f1 [] n = Ok tn /\
    ty_eqb TyBool tc = true /\ ty_eqb T tn = true.
Proof.
  intros H. unfold t_if in H.
  destruct args as [|c [|y [|n rest]]].
  - simpl in H. discriminate.
  - apply obind_ok in H. destruct H as [? [_ H]]. discriminate.
  - apply obind_ok in H. destruct H as [? [_ H]]. discriminate.
  - exists c, y, n, rest.
    destruct rest as [|r0 rest].
    + apply obind_ok in H; destruct H as [tc [Htc H]].
      apply obind_ok in H; destruct H as [ty_ [Hty H]].
      apply obind_ok in H; destruct H as [tn [Htn H]].
      destruct (negb (ty_eqb TyBool tc)) eqn:E1; [discriminate|].
      destruct (negb (ty_eqb ty_ tn)) eqn:E2; [discriminate|].
      apply negb_false_iff in E1. apply negb_false_iff in E2. inversion H; subst.
      exists tc, tn. auto 10.
    + apply obind_ok in H; destruct H as [tc [Htc H]].
      apply obind_ok in H; destruct H as [ty_ [Hty H]].
      apply obind_ok in H; destruct H as [tn [Htn H]].
      apply obind_ok in H; destruct H as [? [_ H]].
      destruct (negb (ty_eqb TyBool tc)) eqn:E1; [discriminate|].
      destruct (negb (ty_eqb ty_ tn)) eqn:E2; [discriminate|].
      apply negb_false_iff in E1. apply negb_false_iff in E2. inversion H; subst.
      exists tc, tn. auto 10.
Qed.

Lemma if_sound f1 f2 args T :
  sound_at f2 -> Forall wf_lf args -> t_if f1 [] args = Ok T ->
  okres (fun v => vtyped v T) (v_if f2 [] args).
Proof.
  intros IH Wa H.
  destruct (if_inv _ _ _ H) as [c [y [n [rest [tc [tn [-> [Htc [Hty [Htn [E1 E2]]]]]]]]]]].
  inversion Wa as [|? ? Wc Wa']; subst. inversion Wa' as [|? ? Wy Wa'']; subst.
  inversion Wa'' as [|? ? Wn _]; subst.
  pose proof (type_of_good _ _ _ Wc Htc) as Gc.
  pose proof (type_of_good _ _ _ Wy Hty) as Gy.
  pose proof (type_of_good _ _ _ Wn Htn) as Gn.
  apply ty_eqb_bool' in E1; auto. subst tc.
  unfold v_if.
  eapply okres_bind; [apply (IH _ _ _ Wc Htc)|]. intros vc Hvc.
  apply vt_bool in Hvc. destruct Hvc as [b ->]. simpl.
  destruct b.
  - apply (IH _ _ _ Wy Hty).
  - eapply okres_impl; [apply (IH _ _ _ Wn Htn)|]. intros v Hv.
    apply vtyped_eqb with (a := tn); auto. apply ty_eqb_sym; auto.
Qed.

(* ---- IsMemberOf ---- *)
Lemma member_go_sound f2 va t l :
  sound_at f2 -> goodb t = true -> Forall (elem_rtyped t) l ->
  okres (fun v => vtyped v TyBool) (member_go f2 [] va l).
Proof.
  intros IH G H. induction H as [|x r Hx Hr IHr]; simpl.
  - exact I.
  - eapply okres_bind; [eapply elem_rtyped_value; eauto|]. intros vx _.
    destruct (value_eqb vx va); simpl; auto.
Qed.

Lemma member_sound f1 f2 args T :
  sound_at f2 -> Forall wf_lf args -> t_member f1 [] args = Ok T ->
  okres (fun v => vtyped v T) (v_member f2 [] args).
Proof.
  intros IH Wa H. pose proof (sound_rsound _ IH) as IHr. unfold t_member in H.
  destruct args as [|a [|ary rest]].
  - simpl in H. discriminate.
  - apply obind_ok in H. destruct H as [? [_ H]]. discriminate.
  - inversion Wa as [|? ? W1 Wa']; subst. inversion Wa' as [|? ? W2 _]; subst.
    apply obind_ok in H; destruct H as [ta [Hta H]].
    apply obind_ok in H; destruct H as [tary [Htary H]].
    apply obind_ok in H; destruct H as [? [_ H]].
    destruct tary; try discriminate.
    destruct (ty_eqb ta tary); try discriminate. inversion H; subst T.
    pose proof (type_of_good _ _ _ W2 Htary) as G2. simpl in G2.
    unfold v_member.
    eapply okres_bind; [apply (IHr _ _ _ W1 (type_real _ _ _ W1 Hta))|]. intros va _.
    eapply okres_bind; [apply (IHr _ _ _ W2 (type_real _ _ _ W2 Htary))|]. intros vary [Hv _].
    simpl in Hv. apply vt_arr in Hv. destruct Hv as [l [-> Hl]].
    eapply member_go_sound; eauto.
Qed.

(* ---- comparisons ---- *)
Lemma cmp_sound f1 f2 name args T :
  sound_at f2 -> Forall wf_lf args -> t_cmp f1 [] args = Ok T ->
  okres (fun v => vtyped v T) (v_cmp f2 [] name args).
Proof.
  intros IH Wa H. pose proof (sound_rsound _ IH) as IHr. unfold t_cmp in H.
  destruct args as [|a [|b [|]]]; try discriminate.
  inversion Wa as [|? ? W1 Wa']; subst. inversion Wa' as [|? ? W2 _]; subst.
  apply obind_ok in H; destruct H as [ta [Hta H]].
  apply obind_ok in H; destruct H as [tb [Htb H]].
  unfold v_cmp.
  eapply okres_bind; [apply (IHr _ _ _ W1 Hta)|]. intros va [Hva Na].
  eapply okres_bind; [apply (IHr _ _ _ W2 Htb)|]. intros vb [Hvb Nb].
  destruct ta; try discriminate; destruct tb; try discriminate; inversion H; subst T.
  - apply vt_str in Hva; auto. apply vt_str in Hvb; auto.
    destruct Hva as [? ->], Hvb as [? ->]. simpl. exact I.
  - apply vt_int in Hva. apply vt_int in Hvb.
    destruct Hva as [? ->], Hvb as [? ->]. simpl. exact I.
  - apply vt_bool in Hva. apply vt_bool in Hvb.
    destruct Hva as [? ->], Hvb as [? ->]. simpl. exact I.
Qed.


(* ---- declared-signature builtins ---- *)
Lemma chk_sound z : okres (fun v => vtyped v TyInt) (chk z).
Proof. unfold chk. destruct (in_i64 z); fin. Qed.

Lemma int_op_sound name x y :
  is_int_op name = true -> okres (fun v => vtyped v TyInt) (int_op name x y).
Proof.
  intros H. unfold int_op, chk.
  repeat match goal with |- context [if ?c then _ else _] => destruct c eqn:? end; fin.
  unfold is_int_op in H; simpl in H.
  repeat match goal with E : String.eqb name _ = false |- _ => rewrite E in H; clear E end.
  discriminate.
Qed.

Definition sig_names : list string :=
  ["Not"; "BitNot"; "Negative";
   "Plus"; "Minus"; "Multiply"; "Divide"; "Mod"; "BitAnd"; "BitOr"; "BitXor";
   "ShiftLeft"; "ShiftRight"; "ShiftRightUnsigned";
   "And"; "Or"; "Xor"; "Like"; "NotLike";
   "ToString"; "ToInteger"; "Split"; "StringConcat"; "CidrMatch"].

Lemma fn_sig_names name ats rt : fn_sig name = Some (ats, rt) -> In name sig_names.
Proof.
  unfold fn_sig, is_int_op. simpl existsb.
  repeat match goal with
         | |- context [String.eqb name ?s] => destruct (String.eqb_spec name s) as [->|?]
         end; simpl; intros H; try discriminate H;
    unfold sig_names; simpl; repeat (first [left; reflexivity | right]).
Qed.

Lemma split_typed l : Forall (elem_rtyped TyStr) (map EStr l).
Proof.
  apply Forall_forall. intros x Hx. apply in_map_iff in Hx. destruct Hx as [s [<- _]].
  split; [constructor|]. exists 1%nat, TyStr. split; reflexivity.
Qed.

Lemma concat_go_sound f2 l :
  rsound_at f2 -> Forall (elem_rtyped TyStr) l ->
  forall acc, okres (fun v => vtyped v TyStr) (concat_go f2 [] l acc).
Proof.
  intros IHr H. induction H as [|x r Hx Hr IH]; intros acc; simpl.
  - exact I.
  - destruct Hx as [Wx [f [t' [Hrt Heq]]]].
    eapply okres_bind; [eapply rshape; eauto|]. intros v Hv. simpl in Hv.
    destruct Hv as [s ->]. simpl. apply IH.
Qed.

Lemma bool2_sound f1 f2 args ts :
  rsound_at f2 -> Forall wf_lf args ->
  Forall2 (fun a t => real_type_of f1 [] a = Ok t) args ts ->
  List.length args = 2%nat ->
  forallb (fun p => ty_eqb (fst p) (snd p)) (combine ts [TyBool; TyBool]) = true ->
  okres (fun v => vtyped v TyBool) (v_and f2 [] args) /\
  okres (fun v => vtyped v TyBool) (v_or f2 [] args) /\
  okres (fun v => vtyped v TyBool) (v_xor f2 [] args).
Proof.
  intros IHr Wa Hts L Ef.
  destruct args as [|a [|b [|]]]; try discriminate.
  inversion Wa as [|? ? W1 Wa']; subst. inversion Wa' as [|? ? W2 _]; subst.
  inversion Hts as [|? ta ? ts1 Ha Hts1]; subst.
  inversion Hts1 as [|? tb ? ts2 Hb Hts2]; subst.
  inversion Hts2; subst. simpl in Ef.
  apply andb_true_iff in Ef; destruct Ef as [E1 Ef].
  apply andb_true_iff in Ef; destruct Ef as [E2 _].
  pose proof (rshape _ _ _ _ _ IHr W1 Ha E1) as Sa.
  pose proof (rshape _ _ _ _ _ IHr W2 Hb E2) as Sb.
  unfold v_and, v_or, v_xor. repeat split.
  - eapply okres_bind; [exact Sa|]. intros va Hva; simpl in Hva; destruct Hva as [x ->]. simpl.
    destruct x; [|simpl; exact I].
    eapply okres_bind; [exact Sb|]. intros vb Hvb; simpl in Hvb; destruct Hvb as [y ->]. simpl. exact I.
  - eapply okres_bind; [exact Sa|]. intros va Hva; simpl in Hva; destruct Hva as [x ->]. simpl.
    destruct x; [simpl; exact I|].
    eapply okres_bind; [exact Sb|]. intros vb Hvb; simpl in Hvb; destruct Hvb as [y ->]. simpl. exact I.
  - eapply okres_bind; [exact Sa|]. intros va Hva; simpl in Hva; destruct Hva as [x ->]. simpl.
    eapply okres_bind; [exact Sb|]. intros vb Hvb; simpl in Hvb; destruct Hvb as [y ->]. simpl. exact I.
Qed.

Lemma sig_sound f1 f2 name args T :
  sound_at f2 -> Forall wf_lf args -> t_sig f1 [] name args = Ok T ->
  okres (fun v => vtyped v T) (v_sig f2 [] name args).
Proof.
  intros IH Wa H. pose proof (sound_rsound _ IH) as IHr.
  unfold t_sig in H. destruct (fn_sig name) as [[ats rt]|] eqn:Es; [|discriminate].
  destruct (negb (List.length args =? List.length ats)%nat) eqn:El; [discriminate|].
  apply obind_ok in H. destruct H as [ts [Hts H]]. apply map_o_ok in Hts.
  destruct (forallb _ _) eqn:Ef; [|discriminate]. inversion H; subst rt. clear H.
  unfold v_sig. rewrite Es, El.
  apply negb_false_iff, Nat.eqb_eq in El.
  pose proof (args_shapes f1 f2 args ts ats IHr Wa Hts El Ef) as Hvs.
  pose proof (fn_sig_names _ _ _ Es) as Hin. unfold sig_names in Hin. simpl in Hin.
  repeat destruct Hin as [Hin|Hin]; try contradiction; subst name;
    vm_compute in Es; inversion Es; subst ats T; clear Es;
    cbn [String.eqb Ascii.eqb Bool.eqb];
    try (apply (bool2_sound f1 f2 args ts IHr Wa Hts El Ef));
    (eapply okres_bind; [exact Hvs|]); intros vs Hv; cbv beta in Hv;
    repeat match goal with
           | H : Forall2 shape_ok _ (_ :: _) |- _ => inversion H; clear H; subst
           | H : Forall2 shape_ok _ [] |- _ => inversion H; clear H; subst
           end;
    simpl shape_ok in *;
    repeat match goal with
           | H : exists _, _ |- _ => destruct H
           | H : _ /\ _ |- _ => destruct H
           end; subst;
    unfold v_un, v_bin;
    cbn [String.eqb Ascii.eqb Bool.eqb obind as_int as_bool as_str orb is_int_op existsb];
    first [ simpl; exact I
          | apply chk_sound
          | apply int_op_sound; reflexivity
          | apply concat_go_sound; assumption
          | destruct (parse_i64 _); fin; fail
          | destruct (regex_match _ _); fin; fail
          | simpl; apply split_typed ].
Qed.

(* ---- dispatch ---- *)
Lemma call_sound f1 f2 name args T :
  sound_at f2 -> Forall wf_lf args -> name <> "Scope" -> tcall f1 [] name args = Ok T ->
  okres (fun v => vtyped v T) (vcall f2 [] name args).
Proof.
  intros IH Wa NS H. unfold tcall in H. unfold vcall.
  destruct (String.eqb name "Index"); [eapply index_sound; eauto|].
  destruct (String.eqb name "Access"); [eapply access_sound; eauto|].
  destruct (String.eqb name "If"); [eapply if_sound; eauto|].
  destruct (String.eqb_spec name "Scope"); [contradiction|].
  destruct (String.eqb name "IsMemberOf"); [eapply member_sound; eauto|].
  destruct (is_cmp_op name); [eapply cmp_sound; eauto|].
  eapply sig_sound; eauto.
Qed.

Lemma arr_elems f1 t l us :
  Forall wf_lf l ->
  Forall2 (fun y u => (ty' <- real_type_of f1 [] y ;; if ty_eqb ty' t then Ok tt else Err E_TYPE) = Ok u) l us ->
  Forall (elem_rtyped t) l.
Proof.
  intros W H. induction H as [|y u l us Hy Hl IH]; constructor.
  - inversion W; subst. split; auto.
    apply obind_ok in Hy. destruct Hy as [ty' [Hty Hy]].
    exists f1, ty'. split; auto. destruct (ty_eqb ty' t); auto; discriminate.
  - inversion W; subst. auto.
Qed.

Lemma tup_elems f1 l ts :
  Forall wf_lf l -> Forall2 (fun x t => type_of f1 [] x = Ok t) l ts -> Forall2 elem_typed l ts.
Proof.
  intros W H. induction H as [|x t l ts Hx Hl IH]; constructor.
  - inversion W; subst. split; auto. exists f1, t. split; auto.
    apply ty_eqb_refl. eapply type_of_good; eauto.
  - inversion W; subst. auto.
Qed.

Lemma sound_all : forall f2, sound_at f2.
Proof.
  induction f2 as [|f2 IH]; intros f1 e T W H.
  - simpl. fin.
  - destruct f1 as [|f1]; [discriminate|].
    inversion W; subst.
    + simpl in H. inversion H. simpl. exact I.
    + simpl in H. inversion H. simpl. exact I.
    + simpl in H. inversion H. simpl. exact I.
    + rewrite type_of_id in H. rewrite value_of_id.
      destruct (root_lookup x) as [v|] eqn:E; [|discriminate].
      apply root_lookup_cases in E.
      repeat destruct E as [E|E]; subst v; inversion H; simpl; auto.
    + simpl in H. inversion H. simpl. reflexivity.
    + destruct l as [|x r]; [congruence|]. rewrite type_of_arr in H.
      apply obind_ok in H; destruct H as [t [Ht H]].
      apply obind_ok in H; destruct H as [us [Hus H]].
      inversion H; subst T. apply map_o_ok in Hus.
      change (value_of (S f2) [] (EArr (x :: r))) with (@Ok value (VArr (x :: r))).
      simpl. eapply arr_elems; eauto.
    + rewrite type_of_tup in H.
      apply obind_ok in H; destruct H as [ts [Hts H]].
      inversion H; subst T. apply map_o_ok in Hts.
      change (value_of (S f2) [] (ETup l)) with (@Ok value (VTup l)).
      simpl. eapply tup_elems; eauto.
    + rewrite type_of_call in H.
      apply obind_ok in H; destruct H as [name [Hc Ht]].
      rewrite value_of_call.
      eapply okres_bind; [eapply callee_stable; eauto|]. intros n ->.
      eapply call_sound; eauto. eapply callee_not_scope; eauto.
Qed.

End Sound.

(* ====================================================================================== *)
(* 8. the theorems                                                                         *)
(* ====================================================================================== *)

(* checker totality (brief item 4) together with TyAny/TyThunk-freeness *)
Theorem type_of_total_good :
  forall regex_match cidr_match_text rq fuel e,
    wf_lf e ->
    match type_of regex_match cidr_match_text rq fuel [] e with
    | Ok T => goodb T = true
    | Err _ => True
    | Panic _ => False
    end.
Proof. intros. apply type_of_total_good_sec; auto. Qed.

Corollary type_of_never_panics :
  forall regex_match cidr_match_text rq fuel e s,
    wf_lf e -> type_of regex_match cidr_match_text rq fuel [] e <> Panic s.
Proof.
  intros rm cm rq fuel e s W H.
  pose proof (type_of_total_good rm cm rq fuel e W) as G. rewrite H in G. exact G.
Qed.

Theorem soundness_let_free :
  forall regex_match cidr_match_text rq fuel1 fuel2 e T,
    wf_lf e ->
    type_of regex_match cidr_match_text rq fuel1 [] e = Ok T ->
    match value_of regex_match cidr_match_text rq fuel2 [] e with
    | Ok v => vtyped regex_match cidr_match_text rq v T
    | Err c => c <> E_TYPE
    | Panic _ => False
    end.
Proof. intros rm cm rq f1 f2 e T W H. exact (sound_all rm cm rq f2 f1 e T W H). Qed.

(* at the level of the entry points the result is never an un-coerced address: strict typing *)
Theorem soundness_let_free_real_strict :
  forall regex_match cidr_match_text rq fuel1 fuel2 e T,
    wf_lf e ->
    real_type_of regex_match cidr_match_text rq fuel1 [] e = Ok T ->
    match real_value_of regex_match cidr_match_text rq fuel2 [] e with
    | Ok v => vtyped_strict regex_match cidr_match_text rq v T
    | Err c => c <> E_TYPE
    | Panic _ => False
    end.
Proof.
  intros rm cm rq f1 f2 e T W H.
  pose proof (sound_rsound rm cm rq f2 (sound_all rm cm rq f2) f1 e T W H) as R.
  destruct (real_value_of rm cm rq f2 [] e); simpl in *; auto.
  apply vtyped_strict_iff. destruct R; auto.
Qed.

Theorem soundness_let_free_real :
  forall regex_match cidr_match_text rq fuel1 fuel2 e T,
    wf_lf e ->
    real_type_of regex_match cidr_match_text rq fuel1 [] e = Ok T ->
    match real_value_of regex_match cidr_match_text rq fuel2 [] e with
    | Ok v => vtyped regex_match cidr_match_text rq v T
    | Err c => c <> E_TYPE
    | Panic _ => False
    end.
Proof.
  intros rm cm rq f1 f2 e T W H.
  pose proof (soundness_let_free_real_strict rm cm rq f1 f2 e T W H) as R.
  destruct (real_value_of rm cm rq f2 [] e); auto.
  apply vtyped_strict_iff in R. tauto.
Qed.

(* ====================================================================================== *)
(* 9. the strict reading of the value typing is refuted by the model                       *)
(* ====================================================================================== *)

Definition rm0 : bytes -> bytes -> option bool := fun _ _ => None.
Definition cm0 : bytes -> bytes -> bool := fun _ _ => false.
Definition addr0 : addrobj := mk_addr 0 [] 0%Z [] [].
Definition rq0 : request := mk_req [] [] [] addr0 addr0.

(* [request.target][0] *)
Definition cex : expr :=
  ECall (ENat "Index")
        [EArr [ECall (ENat "Access") [EId (bs "request"); EId (bs "target")]]; EInt 0].

Lemma cex_wf : wf_lf cex.
Proof.
  unfold cex.
  apply wf_call; [constructor | | ].
  - constructor; [|constructor; [constructor|constructor]].
    apply wf_arr; [discriminate|]. constructor; [|constructor].
    apply wf_call; [constructor | repeat constructor | ].
    split; [discriminate|]. split.
    + intros n Hn. vm_compute in Hn. inversion Hn. reflexivity.
    + intros _. exact I.
  - split; [discriminate|]. split.
    + intros n Hn. vm_compute in Hn. inversion Hn. reflexivity.
    + intros Hn. discriminate Hn.
Qed.

(* With vtyped_strict in place of vtyped the statement of soundness_let_free is false:
   the checker assigns TyStr, the evaluator returns the address object itself. *)
Lemma soundness_refuted_by :
  exists e fuel1 fuel2 T v,
    wf_lf e /\
    type_of rm0 cm0 rq0 fuel1 [] e = Ok T /\
    value_of rm0 cm0 rq0 fuel2 [] e = Ok v /\
    ~ vtyped_strict rm0 cm0 rq0 v T.
Proof.
  exists cex, 10%nat, 10%nat, TyStr, (VAddr addr0).
  split; [exact cex_wf|]. split; [vm_compute; reflexivity|]. split; [vm_compute; reflexivity|].
  simpl. auto.
Qed.

(* non-vacuity: `if 1 < 2 then to_string([3][0]) else "x"` is wf_lf, checks and evaluates *)
Definition ex_ok : expr :=
  ECall (ENat "If")
        [ECall (ENat "Lesser") [EInt 1; EInt 2];
         ECall (EId (bs "to_string")) [ECall (ENat "Index") [EArr [EInt 3]; EInt 0]];
         EStr (bs "x")].

Lemma ex_ok_sane :
  wf_lf ex_ok /\
  type_of rm0 cm0 rq0 10%nat [] ex_ok = Ok TyStr /\
  value_of rm0 cm0 rq0 10%nat [] ex_ok = Ok (VStr (bs "3")).
Proof.
  split; [|split; vm_compute; reflexivity].
  unfold ex_ok.
  repeat first
    [ apply wf_call | apply wf_arr; [discriminate|] | apply Forall_cons | apply Forall_nil
    | apply wf_int | apply wf_str | apply wf_id | apply wf_nat
    | exact I
    | (split; [discriminate | split;
        [ intros n Hn; vm_compute in Hn; inversion Hn; reflexivity
        | intros Hn; discriminate Hn ]]) ].
Qed.

Print Assumptions type_of_total_good.
Print Assumptions soundness_refuted_by.
Print Assumptions soundness_let_free_real_strict.
Print Assumptions soundness_let_free.
Print Assumptions soundness_let_free_real.
