(* Lock discipline of the registry, the history list, the rule list and the contexts (property C14).
   A lock is a pair (rank, instance): rank 0 the history list, 1 the registry of live contexts, 2 a context (one
   instance per connection), 3 the rule list.  tokio's RwLock is treated as exclusive (the worst case for waiting).
   A thread is what it still has to do (steps) and the locks it holds.  Ext is a wait for the thread's peer - a
   client or an upstream that may never speak.  The programs of the real functions are produced by the translator
   (Gen_locks.v, ranks only); the theorems hold for any assignment of instances. *)
From RP Require Import Base.
From RP.Gen Require Gen_locks.
Local Open Scope nat_scope.

Definition lock := (nat * nat)%type.
Definition rank (l : lock) : nat := fst l.
Definition lock_eqb (a b : lock) : bool := Nat.eqb (fst a) (fst b) && Nat.eqb (snd a) (snd b).

Inductive step := Acq (l : lock) | Rel (l : lock) | Ext.

Fixpoint remove_lock (l : lock) (h : list lock) : list lock :=
  match h with
  | [] => []
  | x :: r => if lock_eqb l x then r else x :: remove_lock l r
  end.

(* the discipline: a lock is only taken when its rank exceeds the rank of every lock held; only held locks are
   released; the peer is only waited for with no lock held; at the end nothing is held *)
Fixpoint disciplined (held : list lock) (p : list step) : bool :=
  match p with
  | [] => match held with [] => true | _ => false end
  | Acq l :: r => forallb (fun h => rank h <? rank l) held && disciplined (l :: held) r
  | Rel l :: r => existsb (lock_eqb l) held && disciplined (remove_lock l held) r
  | Ext :: r => match held with [] => disciplined held r | _ => false end
  end.

Record thread := mk_thread { t_held : list lock; t_prog : list step }.
Definition sys := list thread.

Definition holds (t : thread) (l : lock) : bool := existsb (lock_eqb l) (t_held t).
Definition held_somewhere (s : sys) (l : lock) : bool := existsb (fun t => holds t l) s.

(* a thread can take its next step without anybody else's help - and without its peer *)
Definition runnable (s : sys) (t : thread) : bool :=
  match t_prog t with
  | Acq l :: _ => negb (held_somewhere s l)
  | Rel _ :: _ => true
  | Ext :: _ => false
  | [] => false
  end.

Definition waiting (s : sys) (t : thread) : bool :=
  match t_prog t with Acq l :: _ => held_somewhere s l | _ => false end.

(* well-formed system: every thread is in the middle of a disciplined program, and no lock has two holders *)
Definition thread_ok (t : thread) : bool := disciplined (t_held t) (t_prog t).
Fixpoint exclusive (s : sys) : Prop :=
  match s with
  | [] => True
  | t :: r => (forall l, holds t l = true -> held_somewhere r l = false) /\ exclusive r
  end.
Definition sys_ok (s : sys) : Prop := forallb thread_ok s = true /\ exclusive s.

(* one step of thread number i *)
Definition do_step (t : thread) : thread :=
  match t_prog t with
  | Acq l :: r => mk_thread (l :: t_held t) r
  | Rel l :: r => mk_thread (remove_lock l (t_held t)) r
  | Ext :: r => mk_thread (t_held t) r
  | [] => t
  end.

(* instantiate a rank program of Gen_locks with lock instances: the k-th acquisition of the program takes
   instance (inst k); a release releases the most recently acquired lock of that rank *)
Fixpoint instantiate (inst : nat -> nat) (k : nat) (held : list lock) (p : list Gen_locks.step) : list step :=
  match p with
  | [] => []
  | Gen_locks.Acq r :: q => Acq (r, inst k) :: instantiate inst (S k) ((r, inst k) :: held) q
  | Gen_locks.Rel r :: q =>
      match find (fun h => Nat.eqb (rank h) r) held with
      | Some h => Rel h :: instantiate inst k (remove_lock h held) q
      | None => Rel (r, 0) :: instantiate inst k held q
      end
  | Gen_locks.Ext :: q => Ext :: instantiate inst k held q
  end.

(* rank-level discipline of a generated program (decidable on the generated table) *)
Fixpoint rank_disciplined (held : list nat) (p : list Gen_locks.step) : bool :=
  match p with
  | [] => match held with [] => true | _ => false end
  | Gen_locks.Acq r :: q => forallb (fun h => h <? r) held && rank_disciplined (r :: held) q
  | Gen_locks.Rel r :: q => existsb (Nat.eqb r) held && rank_disciplined (remove Nat.eq_dec r held) q
  | Gen_locks.Ext :: q => match held with [] => rank_disciplined held q | _ => false end
  end.
