(* UDP sessions (property C10): the per-source session table of the reverse UDP listener (udp_accept,
   src/listeners/reverse.rs) and the dispatch of reassembled frames to sessions by session id
   (quic_frames_thread, src/common/quic.rs).  Payload fidelity through the codecs is C03's udp_roundtrip /
   rpfm_roundtrip, restated in Props/C10.v. *)
From RP Require Import Base.
From RP.Gen Require Gen_udp.

Definition memN (x : N) (l : list N) : bool := existsb (N.eqb x) l.

(* ---- reverse listener: one session per client address -------------------------------------- *)
Record ustate := mk_u { u_sessions : list N;                 (* client addresses with an open session, oldest first *)
                        u_handed : list (N * bytes) }.       (* (session, payload) handed to a session, in order *)
Definition u_init : ustate := mk_u [] [].

(* a datagram arrives from client address src: it is handed to that client's session; a new session is created
   first when there is none - and (fix 00495ad; read from the source by the translator) the datagram that opens the
   session is handed to it too *)
Definition accept (s : ustate) (d : N * bytes) : ustate :=
  let '(src, payload) := d in
  if memN src (u_sessions s) then mk_u (u_sessions s) (u_handed s ++ [(src, payload)])
  else mk_u (u_sessions s ++ [src])
            (if Gen_udp.reverse_first_datagram_forwarded then u_handed s ++ [(src, payload)] else u_handed s).

Definition accept_all (ds : list (N * bytes)) : ustate := fold_left accept ds u_init.

Definition of_session (k : N) (l : list (N * bytes)) : list bytes :=
  map snd (filter (fun e => N.eqb (fst e) k) l).

(* ---- frames dispatched by session id -------------------------------------------------------- *)
(* sessions: ids with a registered receiver; a frame is sent to the receiver registered under its session id and
   to nobody else; a frame with an unknown id is dropped *)
Definition dispatch (sessions : list N) (frames : list (N * bytes)) : list (N * bytes) :=
  filter (fun f => memN (fst f) sessions) frames.

