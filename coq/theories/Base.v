(* Shared conventions: bytes are N below 256, byte strings are lists of N, outcomes carry an
   explicit Panic constructor wherever the Rust code can panic. *)
From Coq Require Export List NArith Arith PeanoNat Lia Bool.
Export ListNotations.
Open Scope N_scope.

Definition byte := N.
Definition bytes := list N.

Inductive outcome (A : Type) : Type :=
| Ok (a : A)
| Err (e : N)
| Panic (site : N).
Arguments Ok {A} a.
Arguments Err {A} e.
Arguments Panic {A} site.

Definition obind {A B} (x : outcome A) (f : A -> outcome B) : outcome B :=
  match x with Ok a => f a | Err e => Err e | Panic s => Panic s end.
Notation "x <- e ;; k" := (obind e (fun x => k)) (at level 61, e at next level, right associativity).

Definition is_panic {A} (x : outcome A) : bool :=
  match x with Panic _ => true | _ => false end.

Definition len {A} (b : list A) : N := N.of_nat (length b).

(* big-endian fixed width integers *)
Definition u16_be (x : N) : bytes := [ (x / 256) mod 256; x mod 256 ].
Definition u32_be (x : N) : bytes :=
  [ (x / 16777216) mod 256; (x / 65536) mod 256; (x / 256) mod 256; x mod 256 ].
Definition get_u16 (b : bytes) : N :=
  match b with h :: l :: _ => h * 256 + l | _ => 0 end.
Definition get_u32 (b : bytes) : N :=
  match b with a :: b :: c :: d :: _ => ((a * 256 + b) * 256 + c) * 256 + d | _ => 0 end.

Definition is_byte (b : N) : bool := b <? 256.
Definition all_bytes (bs : bytes) : bool := forallb is_byte bs.

(* list update at a position (no change when out of range) *)
Fixpoint set_nth {A} (l : list A) (i : nat) (x : A) : list A :=
  match l, i with
  | [], _ => []
  | _ :: t, O => x :: t
  | h :: t, S j => h :: set_nth t j x
  end.

(* association lists as maps with unique keys *)
Fixpoint alookup {V} (k : N) (m : list (N * V)) : option V :=
  match m with
  | [] => None
  | (k', v) :: t => if k =? k' then Some v else alookup k t
  end.
Fixpoint aremove {V} (k : N) (m : list (N * V)) : list (N * V) :=
  match m with
  | [] => []
  | (k', v) :: t => if k =? k' then aremove k t else (k', v) :: aremove k t
  end.
Definition ainsert {V} (k : N) (v : V) (m : list (N * V)) : list (N * V) :=
  (k, v) :: aremove k m.

(* linear-time reversal (List.rev is quadratic, which matters for the extracted model) *)
Definition frev {A} (l : list A) : list A := rev_append l [].
Lemma frev_rev {A} (l : list A) : frev l = rev l.
Proof. unfold frev. symmetry. apply rev_alt. Qed.
