(* Peer authentication (property C07): SOCKS method negotiation (PasswordAuth::select_method, src/common/socks.rs),
   AuthData::check with its verdict cache (src/common/auth.rs), and the TLS policies as configuration-to-verifier
   maps (src/common/tls.rs, src/common/quic.rs).  The external command and the TLS libraries are oracles. *)
From RP Require Import Base.
From RP.Gen Require Gen_auth.

Fixpoint containsN (x : N) (l : bytes) : bool := match l with [] => false | y :: r => (x =? y) || containsN x r end.

(* ---- SOCKS5 method negotiation ------------------------------------------------------------------ *)
Definition select_method (required : bool) (methods : bytes) : option N :=
  if containsN 0 methods && negb required then Some 0
  else if containsN 2 methods then Some 2
  else None.

(* ---- credentials -------------------------------------------------------------------------------- *)
Definition creds := (bytes * bytes)%type.
Fixpoint bytes_eqb (a b : bytes) : bool :=
  match a, b with
  | [], [] => true
  | x :: r, y :: s => (x =? y) && bytes_eqb r s
  | _, _ => false
  end.
Definition creds_eqb (a b : creds) : bool := bytes_eqb (fst a) (fst b) && bytes_eqb (snd a) (snd b).

(* verdict cache: (key, verdict, time at which the entry is removed) *)
Definition cache := list (creds * bool * N).
Fixpoint cache_get (c : cache) (k : creds) (now : N) : option bool :=
  match c with
  | [] => None
  | (k', v, e) :: r => if creds_eqb k k' && (now <? e) then Some v else cache_get r k now
  end.

Record auth_cfg := mk_auth { a_required : bool; a_users : list creds; a_has_cmd : bool; a_cache_timeout : N }.

(* AuthData::check.  cmd k t: the external command's verdict for credentials k when run at time t *)
Definition check (cfg : auth_cfg) (cmd : creds -> N -> bool) (c : cache) (now : N) (k : option creds) : bool * cache :=
  if negb (a_required cfg) then (true, c)
  else match k with
       | None => (false, c)
       | Some k =>
           if existsb (creds_eqb k) (a_users cfg) then (true, c)
           else if negb (a_has_cmd cfg) then (false, c)
           else match cache_get c k now with
                | Some v => (v, c)
                | None => let v := cmd k now in
                          (v, if a_cache_timeout cfg =? 0 then c else (k, v, now + a_cache_timeout cfg) :: c)
                end
       end.

(* a sequence of authentication attempts (time, credentials) against one listener *)
Fixpoint attempts (cfg : auth_cfg) (cmd : creds -> N -> bool) (c : cache) (l : list (N * option creds)) : list bool * cache :=
  match l with
  | [] => ([], c)
  | (t, k) :: r => let '(v, c1) := check cfg cmd c t k in let '(vs, c2) := attempts cfg cmd c1 r in (v :: vs, c2)
  end.

(* ---- TLS policies -------------------------------------------------------------------------------- *)
Inductive presented := NoCert | CertFromConfiguredCA | CertFromOtherCA.
Inductive client_policy := PolicyNone | PolicyOptional | PolicyRequired.
(* which verifier a listener's TLS acceptor is built with is read from the source (Gen_auth); the verifier's own
   behaviour (rustls) is: required -> only certificates chaining to the configured CA; optional -> no certificate, or
   one chaining to it; none -> certificates are not asked for *)
Definition listener_admits (uses_configured_policy : bool) (p : client_policy) (c : presented) : bool :=
  if negb uses_configured_policy then true
  else match p, c with
       | PolicyNone, _ => true
       | PolicyOptional, CertFromOtherCA => false
       | PolicyOptional, _ => true
       | PolicyRequired, CertFromConfiguredCA => true
       | PolicyRequired, _ => false
       end.

Inductive server_cert := ServerGood | ServerOtherCA | ServerWrongName.
Definition connector_accepts (insecure : bool) (s : server_cert) : bool :=
  if insecure then true else match s with ServerGood => true | _ => false end.
