(* Model of src/common/frames.rs: the RPFM frame (MAGIC, session id, attribute length, body
   length, address attribute, body), Frame::read_head / from_buffer / make_header,
   encode_address / decode_address, and StreamFrameReader::read. *)
From RP Require Import Base Stream Target.

Definition MAGIC : bytes := [82; 80; 70; 77].    (* "RPFM" *)
Definition E_MAGIC : N := 30.
Definition E_SHORTBUF : N := 31.
Definition E_TRUNC : N := 32.
Definition E_BADHDR : N := 33.
Definition E_ENCODE : N := 34.

Record frame := mk_frame { f_addr : option target; f_sid : N; f_body : bytes }.

Definition decode_address (buf : bytes) : outcome (option target) :=
  match buf with
  | [] => Ok None
  | _ =>
    if len buf <? 2 then Err E_BADHDR else
    let tag := nth 0 buf 0 in
    let l := nth 1 buf 0 in
    let r := skipn 2 buf in
    if len r <? l then Err E_BADHDR else
    if tag =? 3 then
      if l <? 2 then Err E_BADHDR else
      let hl := N.to_nat (l - 2) in
      Ok (Some (TDomain (lossy (firstn hl r)) (get_u16 (skipn hl r))))
    else if tag =? 1 then
      if negb (l =? 6) then Err E_BADHDR else Ok (Some (TV4 (get_u32 r) (get_u16 (skipn 4 r))))
    else if tag =? 2 then
      if negb (l =? 18) then Err E_BADHDR else Ok (Some (TV6 (firstn 16 r) (get_u16 (skipn 16 r))))
    else Err E_BADHDR
  end.

Definition encode_address (a : option target) : bytes :=
  match a with
  | Some (TDomain h p) => [3; (len h + 2) mod 256] ++ h ++ u16_be p
  | Some (TV4 ip p) => [1; 6] ++ u32_be ip ++ u16_be p
  | Some (TV6 ip p) => [2; 18] ++ ip ++ u16_be p
  | _ => []
  end.

(* what Frame::check_encodable accepts: the attribute length byte and the 16-bit body length
   must hold the real lengths *)
Definition encodable (f : frame) : bool :=
  (match f_addr f with Some (TDomain h _) => len h <=? 253 | _ => true end) &&
  (len (f_body f) <=? 65535).

Definition make_header (f : frame) : bytes :=
  let a := encode_address (f_addr f) in
  MAGIC ++ u32_be (f_sid f) ++ u16_be (len a mod 65536) ++ u16_be (len (f_body f) mod 65536) ++ a.

(* Frame::write_to / Fragmentable::as_buffer behind the encodability check *)
Definition encode_frame (f : frame) : outcome bytes :=
  if encodable f then Ok (make_header f ++ f_body f) else Err E_ENCODE.

Definition bytes_eqb (a b : bytes) : bool :=
  (len a =? len b) && forallb (fun p => fst p =? snd p) (combine a b).

Definition read_head (buf : bytes) : outcome (option N) :=
  if len buf <? 12 then Ok None else
  if negb (bytes_eqb (firstn 4 buf) MAGIC) then Err E_MAGIC else
  Ok (Some (12 + get_u16 (skipn 8 buf) + get_u16 (skipn 10 buf))).

Definition from_buffer (buf : bytes) : outcome frame :=
  if len buf <? 12 then Err E_SHORTBUF else
  if negb (bytes_eqb (firstn 4 buf) MAGIC) then Err E_MAGIC else
  let sid := get_u32 (skipn 4 buf) in
  let alen := get_u16 (skipn 8 buf) in
  let blen := get_u16 (skipn 10 buf) in
  if len buf <? 12 + alen + blen then Err E_TRUNC else
  let attr := firstn (N.to_nat alen) (skipn 12 buf) in
  let body := firstn (N.to_nat blen) (skipn (12 + N.to_nat alen) buf) in
  a <- decode_address attr ;;
  Ok (mk_frame a sid body).

(* StreamFrameReader::read: one call.  `rem` is the reader's `remaining` buffer, `cs` the
   segments still to arrive.  Result: Some frame | None (end of stream) | error; plus the new
   `remaining` and the segments left. *)
Fixpoint sfr_read (rem : bytes) (cs : list bytes) : outcome (option frame) * bytes * list bytes :=
  let more :=
    match cs with
    | [] => (Ok None, rem, [])
    | c :: cs' => match c with
                  | [] => (Ok None, rem, cs')
                  | _ => sfr_read (rem ++ c) cs'
                  end
    end in
  match read_head rem with
  | Err e => (Err e, rem, cs)
  | Panic s => (Panic s, rem, cs)
  | Ok None => more
  | Ok (Some n) =>
      if n <=? len rem then
        match from_buffer (firstn (N.to_nat n) rem) with
        | Ok f => (Ok (Some f), skipn (N.to_nat n) rem, cs)
        | Err e => (Err e, skipn (N.to_nat n) rem, cs)
        | Panic s => (Panic s, skipn (N.to_nat n) rem, cs)
        end
      else more
  end.

(* read until end of stream or error: the frames delivered, and how it ended *)
Fixpoint sfr_all (fuel : nat) (rem : bytes) (cs : list bytes) : list frame * outcome unit :=
  match fuel with
  | O => ([], Err 99)
  | S f =>
      match sfr_read rem cs with
      | (Ok (Some fr), rem', cs') => let '(l, e) := sfr_all f rem' cs' in (fr :: l, e)
      | (Ok None, _, _) => ([], Ok tt)
      | (Err e, _, _) => ([], Err e)
      | (Panic s, _, _) => ([], Panic s)
      end
  end.
