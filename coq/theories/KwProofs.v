(* The keywords if / then / else / let / in of the milu parser end at a word boundary:
   `kw k` is `terminated(tag(k), not(peek(satisfy(is_ascii_alphanumeric || '_'))))`.
   Facts about `kw`, and computed examples on the full parser. *)
From RP Require Import Base Target MiluSyntax MiluParser MiluDoc.
From RP.Gen Require Import Gen_ladder.
From Coq Require Import String.

(* ---- kw against tag -------------------------------------------------------------------- *)

Lemma tag_app k r : tag k (k ++ r) = Some r.
Proof.
  induction k as [|a k IH]; [reflexivity|].
  cbn [app tag]. rewrite N.eqb_refl. exact IH.
Qed.

(* kw only ever answers what tag answers *)
Lemma kw_some_tag k i r : kw k i = Some r -> tag k i = Some r.
Proof.
  unfold kw. destruct (tag k i) as [r'|]; [|discriminate].
  destruct r' as [|b r'']; [intros H; exact H|].
  destruct (is_idc b); [discriminate|intros H; exact H].
Qed.

(* (the converse direction for refusals, tag k i = None -> kw k i = None, is RtEqs.kw_none_of_tag) *)

(* where the plain tag matches and an identifier could not go on, the keyword matches *)
Lemma kw_tag_nonid k i r :
  tag k i = Some r ->
  (match r with b :: _ => is_idc b = false | [] => True end) ->
  kw k i = Some r.
Proof.
  intros Ht Hb. unfold kw. rewrite Ht.
  destruct r as [|b r']; [reflexivity|].
  rewrite Hb. reflexivity.
Qed.

(* at the end of the input the keyword matches *)
Lemma kw_eof k : kw k k = Some [].
Proof.
  apply kw_tag_nonid; [|exact I].
  rewrite <- (app_nil_r k) at 2. apply tag_app.
Qed.

(* a longer word that merely begins with the keyword is refused *)
Lemma kw_refuses_longer_word k b r : is_idc b = true -> kw k (k ++ b :: r) = None.
Proof.
  intros Hb. unfold kw. rewrite tag_app. rewrite Hb. reflexivity.
Qed.

(* the characters that can follow a keyword in printed text: a blank (space, tab, newline,
   carriage return), the start of a comment (# or /), an opening bracket or a quote *)
Lemma is_idc_space b : is_space b = true -> is_idc b = false.
Proof.
  unfold is_space. intros H.
  repeat (apply Bool.orb_true_iff in H; destruct H as [H|H]);
    apply N.eqb_eq in H; subst b; reflexivity.
Qed.

Lemma is_idc_blank_start b : b = 35 \/ b = 47 \/ b = 40 \/ b = 91 \/ b = 34 -> is_idc b = false.
Proof. intros [->|[->|[->|[->| ->]]]]; reflexivity. Qed.

(* kw after a keyword followed by a space *)
Lemma kw_then_space k b r : is_space b = true -> kw k (k ++ b :: r) = Some (b :: r).
Proof.
  intros Hb. apply kw_tag_nonid; [apply tag_app|]. apply is_idc_space. exact Hb.
Qed.

(* ---- the full parser -------------------------------------------------------------------- *)

Definition parse_doc (src : bytes) : pres expr :=
  parse levels parse2_table parse1_table unary_tags MiluDoc.top_rule ternary_cond_rule src.

Definition b_iface : bytes := bytes_of_string "iface".
Definition b_a : bytes := bytes_of_string "a".
Definition b_b : bytes := bytes_of_string "b".
Definition b_x : bytes := bytes_of_string "x".

(* `if iface then a else b`: the condition is the identifier iface (before the repair the inner
   p_if committed to `if ace ...` and the whole source was refused) *)
Example if_iface_accepted :
  parse_doc (bytes_of_string "if iface then a else b")
  = POk (op3 "If"%string (EId b_iface) (EId b_a) (EId b_b)) [].
Proof. vm_compute. reflexivity. Qed.

(* `ifx then a else b` is no longer read as `if x then a else b`: `ifx` is an identifier, and an
   identifier followed by `then` is not an expression - the recoverable error *)
Example ifx_not_if_x :
  parse_doc (bytes_of_string "ifx then a else b") = PErr.
Proof. vm_compute. reflexivity. Qed.

Example if_x_still_accepted :
  parse_doc (bytes_of_string "if x then a else b")
  = POk (op3 "If"%string (EId b_x) (EId b_a) (EId b_b)) [].
Proof. vm_compute. reflexivity. Qed.

(* the other four keywords *)
Example thena_refused : parse_doc (bytes_of_string "if x thena else b") = PErr.
Proof. vm_compute. reflexivity. Qed.
Example elseb_refused : parse_doc (bytes_of_string "if x then a elseb") = PErr.
Proof. vm_compute. reflexivity. Qed.
Example letx_refused : parse_doc (bytes_of_string "letx = a in x") = PErr.
Proof. vm_compute. reflexivity. Qed.
Example inx_refused : parse_doc (bytes_of_string "let x = a inx") = PErr.
Proof. vm_compute. reflexivity. Qed.
Example let_in_accepted :
  parse_doc (bytes_of_string "let x = a in x")
  = POk (op2 "Scope"%string (EArr [ETup [EId b_x; EId b_a]]) (EId b_x)) [].
Proof. vm_compute. reflexivity. Qed.
Example let_inner_accepted :
  parse_doc (bytes_of_string "let inner = a in inner")
  = POk (op2 "Scope"%string (EArr [ETup [EId (bytes_of_string "inner"); EId b_a]])
                            (EId (bytes_of_string "inner"))) [].
Proof. vm_compute. reflexivity. Qed.

(* a bracket or a quote ends a keyword as well *)
Example if_brackets_accepted :
  parse_doc (bytes_of_string "if(x)then(a)else(b)")
  = POk (op3 "If"%string (EId b_x) (EId b_a) (EId b_b)) [].
Proof. vm_compute. reflexivity. Qed.

(* digits and the underscore continue a word *)
Example if_underscore_refused : parse_doc (bytes_of_string "if_ then a else b") = PErr.
Proof. vm_compute. reflexivity. Qed.
Example if_digit_refused : parse_doc (bytes_of_string "if2 then a else b") = PErr.
Proof. vm_compute. reflexivity. Qed.
