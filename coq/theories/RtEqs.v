(* One-step unfolding equations of the mutual parser fixpoint (all by conversion). *)
From RP Require Import Base Target MiluSyntax MiluParser.
From Coq Require Import ZArith String Lia.

Section Eqs.
Variable levels : list level.
Variable parse2_table : list (string * string).
Variable parse1_table : list (string * string).
Variable unary_tags : list string.
Variable top_rule : string.
Variable cond_rule : string.

Notation p_op0' := (p_op0 levels parse2_table parse1_table unary_tags top_rule cond_rule).
Notation p_if' := (p_if levels parse2_table parse1_table unary_tags top_rule cond_rule).
Notation p_let' := (p_let levels parse2_table parse1_table unary_tags top_rule cond_rule).
Notation p_assigns' := (p_assigns levels parse2_table parse1_table unary_tags top_rule cond_rule).
Notation p_rule' := (p_rule levels parse2_table parse1_table unary_tags top_rule cond_rule).
Notation p_level_loop' := (p_level_loop levels parse2_table parse1_table unary_tags top_rule cond_rule).
Notation p_unary' := (p_unary levels parse2_table parse1_table unary_tags top_rule cond_rule).
Notation p_postfix' := (p_postfix levels parse2_table parse1_table unary_tags top_rule cond_rule).
Notation p_postfix_loop' := (p_postfix_loop levels parse2_table parse1_table unary_tags top_rule cond_rule).
Notation p_list' := (p_list levels parse2_table parse1_table unary_tags top_rule cond_rule).
Notation p_list_more' := (p_list_more levels parse2_table parse1_table unary_tags top_rule cond_rule).
Notation p_op_value' := (p_op_value levels parse2_table parse1_table unary_tags top_rule cond_rule).
Notation p_value' := (p_value levels parse2_table parse1_table unary_tags top_rule cond_rule).
Notation p_array' := (p_array levels parse2_table parse1_table unary_tags top_rule cond_rule).
Notation p_tuple' := (p_tuple levels parse2_table parse1_table unary_tags top_rule cond_rule).

Lemma p_op0_S f i0 : p_op0' (S f) i0 =
  let i := skip_blank i0 in
  match p_if' f i with
  | PErr => match p_let' f i with PErr => p_rule' f top_rule i | r => r end
  | r => r
  end.
Proof. reflexivity. Qed.

(* a keyword that does not even match as a plain tag is refused *)
Lemma kw_none_of_tag k i : tag k i = None -> kw k i = None.
Proof. intros H. unfold kw. rewrite H. reflexivity. Qed.

(* p_if when the keyword `if` is absent: only the ternary form *)
Lemma p_if_S_noif f i0 : tag KW_IF (skip_blank i0) = None -> p_if' (S f) i0 =
  let i := skip_blank i0 in
  match p_rule' f cond_rule i with
  | POk c r1 =>
    match ws_char 63 r1 with
    | None => PErr
    | Some r2 =>
      match p_op0' f r2 with
      | POk y r3 =>
        match ws_char 58 r3 with
        | None => PErr
        | Some r4 =>
          match p_op0' f r4 with
          | POk n r5 => POk (op3 "If"%string c y n) r5
          | PErr => PErr | PFail => PFail | PPanic => PPanic
          end
        end
      | PErr => PErr | PFail => PFail | PPanic => PPanic
      end
    end
  | PErr => PErr | PFail => PFail | PPanic => PPanic
  end.
Proof. intros H. cbn [p_if]. cbv zeta. rewrite (kw_none_of_tag _ _ H). reflexivity. Qed.

Lemma p_let_S_nolet f i0 : tag KW_LET (skip_blank i0) = None -> p_let' (S f) i0 = PErr.
Proof. intros H. cbn [p_let]. cbv zeta. rewrite (kw_none_of_tag _ _ H). reflexivity. Qed.

Lemma p_rule_S f name i0 : p_rule' (S f) name i0 =
  match find_level levels name with
  | None => p_unary' f i0
  | Some lv =>
    let i := skip_blank i0 in
    match p_rule' f (lv_next lv) i with
    | POk a r1 => p_level_loop' f lv a r1
    | PErr => PErr | PFail => PFail | PPanic => PPanic
    end
  end.
Proof. reflexivity. Qed.

Lemma p_level_loop_S f lv acc i : p_level_loop' (S f) lv acc i =
  match match_tags (lv_tags lv) (skip_blank i) with
  | None => POk acc i
  | Some (op, r1) =>
    match p_rule' f (lv_next lv) r1 with
    | POk b r2 =>
      match lookup2 parse2_table op with
      | Some name => p_level_loop' f lv (op2 name acc b) r2
      | None => PPanic
      end
    | PErr => POk acc i
    | PFail => PFail | PPanic => PPanic
    end
  end.
Proof. reflexivity. Qed.

Lemma p_unary_S f i0 : p_unary' (S f) i0 =
  let i := skip_blank i0 in
  match match_tags (map (fun t => (t, false)) unary_tags) i with
  | Some (op, r1) =>
    match p_unary' f r1 with
    | POk a r2 =>
      match lookup1 parse1_table op with
      | Some name => POk (op1 name a) r2
      | None => PPanic
      end
    | PErr => p_postfix' f i
    | PFail => PFail | PPanic => PPanic
    end
  | None => p_postfix' f i
  end.
Proof. reflexivity. Qed.

Lemma p_postfix_S f i0 : p_postfix' (S f) i0 =
  match p_op_value' f (skip_blank i0) with
  | POk a r1 => p_postfix_loop' f a r1
  | PErr => PErr | PFail => PFail | PPanic => PPanic
  end.
Proof. reflexivity. Qed.

Lemma p_postfix_loop_S f acc i : p_postfix_loop' (S f) acc i =
  let j := skip_blank i in
  let try_access (_ : unit) :=
    match j with
    | 46 :: r1 =>
      match p_identifier r1 with
      | POk id r2 => p_postfix_loop' f (op2 "Access"%string acc id) r2
      | _ =>
        match p_integer r1 with
        | POk n r2 => p_postfix_loop' f (op2 "Access"%string acc n) r2
        | _ => POk acc i
        end
      end
    | 40 :: r1 =>
      match p_list' f r1 with
      | POk args r2 =>
        match ws_char 41 r2 with
        | Some r3 => p_postfix_loop' f (ECall acc args) r3
        | None => POk acc i
        end
      | PErr => POk acc i
      | PFail => PFail | PPanic => PPanic
      end
    | _ => POk acc i
    end in
  match j with
  | 91 :: r1 =>
    match p_op0' f r1 with
    | POk ix r2 =>
      match ws_char 93 r2 with
      | Some r3 => p_postfix_loop' f (op2 "Index"%string acc ix) r3
      | None => try_access tt
      end
    | PErr => try_access tt
    | PFail => PFail | PPanic => PPanic
    end
  | _ => try_access tt
  end.
Proof. reflexivity. Qed.

Lemma p_list_S f i : p_list' (S f) i =
  match p_op0' f i with
  | PErr => POk [] i
  | PFail => PFail | PPanic => PPanic
  | POk a r1 => p_list_more' f [a] r1
  end.
Proof. reflexivity. Qed.

Lemma p_list_more_S f acc i : p_list_more' (S f) acc i =
  match ws_char 44 i with
  | None => POk (rev acc) i
  | Some r1 =>
    match p_op0' f r1 with
    | PErr => POk (rev acc) i
    | PFail => PFail | PPanic => PPanic
    | POk a r2 => p_list_more' f (a :: acc) r2
    end
  end.
Proof. reflexivity. Qed.

Lemma p_op_value_S f i0 : p_op_value' (S f) i0 =
  let i := skip_blank i0 in
  let plain (_ : unit) := p_value' f i in
  match i with
  | 40 :: r0 =>
    let second (_ : unit) :=
      match p_value' f (skip_blank r0) with
      | POk v r1 => match ws_char 41 r1 with Some r2 => POk v r2 | None => plain tt end
      | PErr => plain tt
      | PFail => PFail | PPanic => PPanic
      end in
    match p_op0' f (skip_blank r0) with
    | POk e r1 => match ws_char 41 r1 with Some r2 => POk e r2 | None => second tt end
    | PErr => second tt
    | PFail => PFail | PPanic => PPanic
    end
  | _ => plain tt
  end.
Proof. reflexivity. Qed.

Lemma p_value_S f i0 : p_value' (S f) i0 =
  let i := skip_blank i0 in
  match p_string i with
  | PErr =>
    match i with
    | 96 :: _ => PFail
    | _ =>
      match p_boolean i with
      | PErr =>
        match p_integer i with
        | PErr =>
          match p_identifier i with
          | PErr => match p_array' f i with PErr => p_tuple' f i | r => r end
          | r => r
          end
        | r => r
        end
      | r => r
      end
    end
  | r => r
  end.
Proof. reflexivity. Qed.

Lemma p_array_S_no f c r : c <> 91 -> p_array' (S f) (c :: r) = PErr.
Proof.
  intros H. cbn [p_array].
  destruct c as [|p]; [reflexivity|].
  repeat (destruct p as [p|p|]; try reflexivity). exfalso; apply H; reflexivity.
Qed.

Lemma p_tuple_S_no f c r : c <> 40 -> p_tuple' (S f) (c :: r) = PErr.
Proof.
  intros H. cbn [p_tuple].
  destruct c as [|p]; [reflexivity|].
  repeat (destruct p as [p|p|]; try reflexivity). exfalso; apply H; reflexivity.
Qed.

End Eqs.
