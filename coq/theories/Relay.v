(* The relay after establishment: copy_half / copy_bidi of src/copy.rs (properties C01, C04).

   One direction is a small-step machine over three byte sequences: what the source has not yet given
   (h_src), what sits in the kernel pipe of the splice path (h_pipe), what the destination has been given
   (h_out).  The environment chooses how many bytes every read returns and how many every splice into the
   destination moves: each step takes a natural number from an oracle, clamped to what the primitive
   allows (at least one byte when there is data, never more than the buffer size or what is there).
   End-of-stream of the source is the empty h_src; h_fin records that the write side of the destination
   has been shut down.

   Buffered mode:  loop { n = read(buf); if n = 0 break; write_all(buf[..n]); flush }  shutdown(dst)
   Splice mode:    loop { n = splice(src -> pipe); if n = 0 break;
                          pending = n; while pending > 0 { pending -= splice(pipe -> dst) } }  shutdown(dst)
   The shape (inner loop, shutdown in both modes) is regenerated from the source: Gen_relay.v. *)
From RP Require Import Base.
Local Open Scope nat_scope.

Inductive mode := Buffered | Splice.
Inductive phase := PRead | PWrite (pending : nat) | PDone.

Record hstate := mk_h { h_src : bytes; h_pipe : bytes; h_out : bytes; h_phase : phase; h_fin : bool }.

Definition h_init (input : bytes) : hstate := mk_h input [] [] PRead false.

Definition clamp (hi n : nat) : nat := Nat.max 1 (Nat.min hi n).

(* one step of one direction; `o` is the environment's choice for this primitive call *)
Definition hstep (m : mode) (bufsz : nat) (s : hstate) (o : nat) : hstate :=
  match h_phase s with
  | PDone => s
  | PRead =>
      match h_src s with
      | [] => mk_h [] (h_pipe s) (h_out s) PDone true            (* read returned 0: leave the loop, shut down *)
      | _ =>
          let k := clamp (Nat.min bufsz (length (h_src s))) o in
          let chunk := firstn k (h_src s) in
          match m with
          | Buffered => mk_h (skipn k (h_src s)) (h_pipe s) (h_out s ++ chunk) PRead false   (* write_all + flush *)
          | Splice => mk_h (skipn k (h_src s)) (h_pipe s ++ chunk) (h_out s) (PWrite (length chunk)) false
          end
      end
  | PWrite pending =>
      let j := clamp (length (h_pipe s)) o in
      let moved := firstn j (h_pipe s) in
      let pending' := pending - length moved in
      mk_h (h_src s) (skipn j (h_pipe s)) (h_out s ++ moved)
           (match pending' with O => PRead | _ => PWrite pending' end) false
  end.

Definition hrun (m : mode) (bufsz : nat) (s : hstate) (os : list nat) : hstate := fold_left (hstep m bufsz) os s.

(* The splice loop as it was before fix dd0dab2 / f9fc70e: one splice out per splice in, whatever it moved,
   and no shutdown of the destination.  Kept to state what the fix repaired. *)
Definition hstep_v0 (bufsz : nat) (s : hstate) (o : nat) : hstate :=
  match h_phase s with
  | PDone => s
  | PRead =>
      match h_src s with
      | [] => mk_h [] (h_pipe s) (h_out s) PDone false
      | _ =>
          let k := clamp (Nat.min bufsz (length (h_src s))) o in
          let chunk := firstn k (h_src s) in
          mk_h (skipn k (h_src s)) (h_pipe s ++ chunk) (h_out s) (PWrite (length chunk)) false
      end
  | PWrite _ =>
      let j := clamp (length (h_pipe s)) o in
      mk_h (h_src s) (skipn j (h_pipe s)) (h_out s ++ firstn j (h_pipe s)) PRead false
  end.

(* ---- both directions of one tunnel, any number of tunnels ------------------------------ *)

(* a schedule entry: which tunnel, which direction (true = client to server), the oracle value *)
Definition sched := list (nat * bool * nat).

Record tunnel := mk_t { t_c2s : hstate; t_s2c : hstate }.

Definition tstep (m : mode) (bufsz : nat) (t : tunnel) (dir : bool) (o : nat) : tunnel :=
  if dir then mk_t (hstep m bufsz (t_c2s t) o) (t_s2c t) else mk_t (t_c2s t) (hstep m bufsz (t_s2c t) o).

Fixpoint update_nth {A} (i : nat) (f : A -> A) (l : list A) : list A :=
  match l, i with
  | [], _ => []
  | x :: r, O => f x :: r
  | x :: r, S i' => x :: update_nth i' f r
  end.

Definition wstep (m : mode) (bufsz : nat) (ts : list tunnel) (e : nat * bool * nat) : list tunnel :=
  let '(i, dir, o) := e in update_nth i (fun t => tstep m bufsz t dir o) ts.

Definition wrun (m : mode) (bufsz : nat) (ts : list tunnel) (sc : sched) : list tunnel := fold_left (wstep m bufsz) sc ts.

Definition t_init (c2s s2c : bytes) : tunnel := mk_t (h_init c2s) (h_init s2c).

(* ---- what enters the tunnel: everything behind the handshake --------------------------- *)
(* The handshake is read through a BufReader: after it, the reader's buffer may hold bytes the client
   pipelined behind its request, and more segments may be in flight.  drain_buffers writes the buffer to
   the other side first; the relay then reads the socket. *)
Definition tunnel_input (after_handshake : bytes * list bytes) : bytes :=
  fst after_handshake ++ concat (snd after_handshake).
