(* Type soundness of the milu evaluator model on a fragment WITH `let` (C08, scalar lets).

   Fragment `wf_sl e` (checker `wf_slb`, `wf_slb_sound`), for B = the let-bound names of e:
     * everything of the let-free fragment wf_lf of MiluSound.v (wf_lf_wf_sl);
     * `let x1 = e1; ..; xn = en in body`, nested and shadowing freely (also shadowing root names
       such as `request`), lets inside bound expressions, where body and the ei are in the fragment,
       each ei has a "strict head" (its value is not produced by an index a[i] / projection t.0,
       looking through if-branches and let-bodies), and
     * a let-bound name occurs only as a direct argument of a builtin that forces its arguments
       (all operators and named builtins except Index, Access, If, IsMemberOf), and
     * elements of array / tuple literals are let-free (wf_lf) and mention no name of B
       (field names in `o.name` do not count as mentions).
   Main results (all closed under the global context):
     soundness_scalar_let, soundness_scalar_let_real, soundness_scalar_let_real_strict,
     soundness_scalar_let_env (the invariant on well-formed environments), type_of_good_let.
   Three further refutation witnesses found on the way (section 7) show that the restrictions
   are needed: hole_thunk_text, hole_addr_let, hole_root_shadow.  See NOTES-c08let.md. *)
From RP Require Import Base Target MiluSyntax MiluDoc MiluEval C08Proofs MiluSound MiluWf.
From Coq Require Import ZArith String List Lia Bool.
Import ListNotations.
Local Open Scope string_scope.

(* ====================================================================================== *)
(* 1. the fragment                                                                         *)
(* ====================================================================================== *)

(* result position analysis: an expression whose value is NOT produced by an index `a[i]` or a
   tuple projection `t.0`, looking through if-branches and let-bodies.  Only such expressions
   may be let-bound (see hole_addr_let below: `let h = [request.target][0] in h =~ "x"`). *)
Fixpoint strict_head (e : expr) : bool :=
  match e with
  | ECall (ENat n) args =>
    if String.eqb n "Index" then false
    else if String.eqb n "Access" then match args with _ :: EInt _ :: _ => false | _ => true end
    else if String.eqb n "If" then
      match args with _ :: y :: n' :: _ => strict_head y && strict_head n' | _ => true end
    else if String.eqb n "Scope" then
      match args with _ :: body :: _ => strict_head body | _ => true end
    else true
  | _ => true
  end.

(* natives that do not force their arguments with real_value_of *)
Definition nonforcing (n : string) : bool := existsb (String.eqb n) ["Index"; "If"; "IsMemberOf"].
Definition special (n : string) : bool :=
  existsb (String.eqb n) ["Index"; "Access"; "If"; "Scope"; "IsMemberOf"].

Definition is_var (a : expr) : Prop := match a with EId _ => True | _ => False end.

Lemma expr_ind' (P : expr -> Prop) :
  (forall z, P (EInt z)) -> (forall b, P (EBool b)) -> (forall s, P (EStr s)) ->
  (forall s, P (EId s)) -> (forall l, Forall P l -> P (EArr l)) -> (forall l, Forall P l -> P (ETup l)) ->
  (forall n, P (ENat n)) -> (forall f args, P f -> Forall P args -> P (ECall f args)) ->
  forall e, P e.
Proof.
  intros Hi Hb Hs Hid Ha Ht Hn Hc. fix IH 1. intros [z|b|s|s|l|l|n|f args].
  - apply Hi.
  - apply Hb.
  - apply Hs.
  - apply Hid.
  - apply Ha. induction l as [|x r IHl]; constructor; [apply IH | exact IHl].
  - apply Ht. induction l as [|x r IHl]; constructor; [apply IH | exact IHl].
  - apply Hn.
  - apply Hc; [apply IH|]. induction args as [|x r IHl]; constructor; [apply IH | exact IHl].
Qed.

Lemma nonforcing_cases n : nonforcing n = true -> n = "Index" \/ n = "If" \/ n = "IsMemberOf".
Proof.
  unfold nonforcing. simpl.
  destruct (String.eqb_spec n "Index"); auto.
  destruct (String.eqb_spec n "If"); auto.
  destruct (String.eqb_spec n "IsMemberOf"); auto. discriminate.
Qed.

Section Frag.
Variable B : list bytes.     (* the let-bound names of the program *)

(* "mentions no let-bound name"; the field name of an access `o.name` is not a mention *)
Inductive bfree : expr -> Prop :=
| bf_int z : bfree (EInt z)
| bf_bool b : bfree (EBool b)
| bf_str s : bfree (EStr s)
| bf_nat n : bfree (ENat n)
| bf_id x : ~ In x B -> bfree (EId x)
| bf_arr l : Forall bfree l -> bfree (EArr l)
| bf_tup l : Forall bfree l -> bfree (ETup l)
| bf_access o i rest : bfree o -> bfree (ECall (ENat "Access") (o :: i :: rest))
| bf_call f args : bfree f -> Forall bfree args -> bfree (ECall f args).

(* elements of array / tuple literals: let-free and without let-bound names *)
Definition elemB (x : expr) : Prop := wf_lf x /\ bfree x.

Inductive sl : expr -> Prop :=
| sl_int z : sl (EInt z)
| sl_bool b : sl (EBool b)
| sl_str s : sl (EStr s)
| sl_nat n : sl (ENat n)
| sl_id x : ~ In x B -> sl (EId x)
| sl_arr l : l <> [] -> Forall elemB l -> sl (EArr l)
| sl_tup l : Forall elemB l -> sl (ETup l)
| sl_let vars body fr :
    scope_frame vars = Ok fr ->
    Forall (fun p => In (fst p) B /\ sl (snd p) /\ strict_head (snd p) = true) fr ->
    sl body ->
    sl (ECall (ENat "Scope") [vars; body])
| sl_access o rest : sl o -> sl (ECall (ENat "Access") (o :: rest))
| sl_call_nf n args : nonforcing n = true -> Forall sl args -> sl (ECall (ENat n) args)
| sl_call_f n args :
    special n = false -> Forall (fun a => sl a \/ is_var a) args -> sl (ECall (ENat n) args)
| sl_call_id s args : Forall (fun a => sl a \/ is_var a) args -> sl (ECall (EId s) args)
| sl_call_other f args : match f with ENat _ | EId _ => False | _ => True end -> sl (ECall f args).

Definition argok (a : expr) : Prop := sl a \/ is_var a.

Definition bind_ok (p : bytes * expr) : Prop :=
  In (fst p) B /\ sl (snd p) /\ strict_head (snd p) = true.
Definition env_ok (en : env) : Prop := Forall (Forall bind_ok) en.

(* ---- environments ---- *)
Lemma bytes_eq_neq a b : a <> b -> bytes_eq a b = false.
Proof. intros H. destruct (bytes_eq a b) eqn:E; auto. apply bytes_eq_eq in E. contradiction. Qed.

Lemma lookup_frame_none x fr : forall found,
  (forall p, In p fr -> fst p <> x) -> lookup_frame x fr found = found.
Proof.
  induction fr as [|[k e] r IH]; intros found H; simpl; auto.
  rewrite IH by (intros p Hp; apply H; right; exact Hp).
  rewrite bytes_eq_neq; auto. apply (H (k, e)). left; reflexivity.
Qed.

Lemma lookup_frame_in x fr : forall found e,
  lookup_frame x fr found = Some e -> found = Some e \/ exists k, In (k, e) fr.
Proof.
  induction fr as [|[k e0] r IH]; intros found e H; simpl in *; auto.
  apply IH in H. destruct H as [H|[k' H]].
  - destruct (bytes_eq k x); auto. inversion H; subst. right. exists k. auto.
  - right. exists k'. auto.
Qed.

Lemma lookup_env_none x en : env_ok en -> ~ In x B -> lookup_env x en = None.
Proof.
  intros He Hx. induction He as [|fr outer Hfr Ho IH]; simpl; auto.
  rewrite lookup_frame_none; auto.
  intros p Hp E. rewrite Forall_forall in Hfr. destruct (Hfr p Hp) as [Hk _]. congruence.
Qed.

Lemma lookup_env_some x en outer e :
  env_ok en -> lookup_env x en = Some (outer, e) -> env_ok outer /\ sl e /\ strict_head e = true.
Proof.
  intros He. induction He as [|fr rest Hfr Ho IH]; simpl; intros H; [discriminate|].
  destruct (lookup_frame x fr None) as [e'|] eqn:E.
  - inversion H; subst. apply lookup_frame_in in E. destruct E as [E|[k E]]; [discriminate|].
    rewrite Forall_forall in Hfr. destruct (Hfr _ E) as [_ [H1 H2]]. auto.
  - auto.
Qed.

Lemma lookup_free x en : env_ok en -> ~ In x B -> lookup x en = root_lookup x.
Proof. intros He Hx. unfold lookup. rewrite lookup_env_none; auto. Qed.

Lemma env_ok_nil : env_ok []. Proof. constructor. Qed.

Section Sound.
Variable regex_match : bytes -> bytes -> option bool.
Variable cidr_match_text : bytes -> bytes -> bool.
Variable rq : request.

Local Notation type_of := (MiluEval.type_of regex_match cidr_match_text rq).
Local Notation value_of := (MiluEval.value_of regex_match cidr_match_text rq).
Local Notation real_type_of := (MiluEval.real_type_of regex_match cidr_match_text rq).
Local Notation real_value_of := (MiluEval.real_value_of regex_match cidr_match_text rq).
Local Notation req_field_type := (MiluEval.req_field_type rq).
Local Notation req_field := (MiluEval.req_field rq).
Local Notation tcall := (MiluSound.tcall regex_match cidr_match_text rq).
Local Notation vcall := (MiluSound.vcall regex_match cidr_match_text rq).
Local Notation vtyped := (MiluSound.vtyped regex_match cidr_match_text rq).
Local Notation elem_rtyped := (MiluSound.elem_rtyped regex_match cidr_match_text rq).
Local Notation elem_typed := (MiluSound.elem_typed regex_match cidr_match_text rq).

Lemma type_of_id_en f en x :
  type_of (S f) en (EId x) =
  match lookup x en with
  | None => Err E_TYPE
  | Some (VThunk en' e') => Ok (TyThunk en' e')
  | Some (VFn n) => Ok (TyFn n)
  | Some VReq => Ok TyReq
  | Some _ => Err E_TYPE
  end.
Proof. reflexivity. Qed.

Lemma value_of_id_en f en x :
  value_of (S f) en (EId x) = match lookup x en with Some v => Ok v | None => Err E_TYPE end.
Proof. reflexivity. Qed.

Lemma map_o_ext {A X} (g g' : X -> outcome A) l :
  (forall x, In x l -> g x = g' x) -> map_o g l = map_o g' l.
Proof.
  induction l as [|x r IH]; intros H; simpl; auto.
  rewrite (H x) by (left; reflexivity). rewrite IH; auto. intros y Hy. apply H. right; exact Hy.
Qed.

(* ====================================================================================== *)
(* 2. the checker does not depend on the environment for let-free, B-free expressions      *)
(* ====================================================================================== *)

Definition ev_args (name : string) (args : list expr) : list expr :=
  if String.eqb name "Access" then firstn 1 args else args.

Lemma real_type_ext f en en' a :
  type_of f en a = type_of f en' a -> real_type_of f en a = real_type_of f en' a.
Proof. intros H. unfold MiluEval.real_type_of. rewrite H. reflexivity. Qed.

Lemma tcall_ext f en en' name args :
  name <> "Scope" ->
  (forall a, In a (ev_args name args) -> type_of f en a = type_of f en' a) ->
  tcall f en name args = tcall f en' name args.
Proof.
  intros NS H. unfold MiluSound.tcall, ev_args in *.
  destruct (String.eqb_spec name "Index") as [->|NI].
  { simpl in H. unfold t_index. destruct args as [|obj [|ix rest]]; try reflexivity.
    rewrite (H ix), (H obj) by (simpl; auto). reflexivity. }
  destruct (String.eqb_spec name "Access") as [->|NA].
  { unfold t_access. destruct args as [|obj [|ix rest]]; try reflexivity.
    rewrite (H obj) by (simpl; auto). reflexivity. }
  assert (Hm : forall l, incl l args -> map_o (type_of f en) l = map_o (type_of f en') l).
  { intros l Hl. apply map_o_ext. intros x Hx. apply H. apply Hl. exact Hx. }
  destruct (String.eqb_spec name "If") as [->|NF].
  { unfold t_if. destruct args as [|c [|y [|n [|d rest]]]].
    - reflexivity.
    - rewrite Hm by apply incl_refl. reflexivity.
    - rewrite Hm by apply incl_refl. reflexivity.
    - rewrite (H c), (H y), (H n) by (simpl; auto). reflexivity.
    - rewrite (H c), (H y), (H n) by (simpl; auto).
      rewrite (Hm (skipn 3 (c :: y :: n :: d :: rest))); [reflexivity|].
      simpl. intros x Hx. simpl. auto. }
  destruct (String.eqb_spec name "Scope") as [->|_]; [congruence|].
  destruct (String.eqb_spec name "IsMemberOf") as [->|NM].
  { unfold t_member. destruct args as [|a [|ary rest]].
    - reflexivity.
    - rewrite Hm by apply incl_refl. reflexivity.
    - rewrite (H a), (H ary) by (simpl; auto).
      rewrite (Hm rest); [reflexivity|]. intros x Hx. simpl. auto. }
  destruct (is_cmp_op name).
  { unfold t_cmp. destruct args as [|a [|b [|]]]; try reflexivity.
    rewrite (real_type_ext f en en' a), (real_type_ext f en en' b) by (apply H; simpl; auto).
    reflexivity. }
  unfold t_sig. destruct (fn_sig name) as [[ats rt]|]; [|reflexivity].
  destruct (negb _); [reflexivity|].
  rewrite (map_o_ext (real_type_of f en) (real_type_of f en')); [reflexivity|].
  intros x Hx. apply real_type_ext. apply H. exact Hx.
Qed.

Lemma ev_args_in name args a : In a (ev_args name args) -> In a args.
Proof.
  unfold ev_args. destruct (String.eqb name "Access"); auto.
  destruct args; simpl; [tauto|]. intros [H|[]]. auto.
Qed.

Lemma type_irrel : forall f en x, env_ok en -> wf_lf x -> bfree x -> type_of f en x = type_of f [] x.
Proof.
  induction f as [|f IH]; intros en x He W F; [reflexivity|].
  inversion W; subst; try reflexivity.
  - (* EId *) inversion F; subst. rewrite !type_of_id_en. rewrite lookup_free; auto.
  - (* EArr *)
    destruct l as [|x r]; [congruence|]. rewrite !type_of_arr. inversion F; subst.
    assert (Hr : forall y, In y (x :: r) -> real_type_of f en y = real_type_of f [] y).
    { intros y Hy. apply real_type_ext. rewrite Forall_forall in *. apply IH; auto. }
    rewrite (Hr x) by (left; reflexivity).
    destruct (real_type_of f [] x) as [t| |]; [|reflexivity|reflexivity].
    cbn [obind].
    erewrite map_o_ext; [reflexivity|].
    intros y Hy. cbv beta. rewrite (Hr y Hy). reflexivity.
  - (* ETup *)
    rewrite !type_of_tup. inversion F; subst.
    rewrite (map_o_ext (type_of f en) (type_of f [])); [reflexivity|].
    intros y Hy. rewrite Forall_forall in *. apply IH; auto.
  - (* ECall *)
    rewrite !type_of_call.
    assert (Hargs : forall a, In a args -> wf_lf a) by (apply Forall_forall; assumption).
    inversion F; subst.
    + (* access, field name unconstrained *)
      simpl. apply tcall_ext; [discriminate|]. simpl. intros a [<-|[]].
      apply IH; auto. apply Hargs. left; reflexivity.
    + assert (Ec : callee (value_of f) en f0 = callee (value_of f) [] f0).
      { destruct f0; try reflexivity. simpl.
        match goal with Hb : bfree (EId _) |- _ => inversion Hb; subst end.
        destruct f as [|f]; [reflexivity|]. rewrite !value_of_id_en, lookup_free; auto. }
      rewrite Ec. destruct (callee (value_of f) [] f0) as [name| |] eqn:En; simpl; try reflexivity.
      apply tcall_ext.
      * eapply callee_not_scope; eauto.
      * intros a Ha. apply ev_args_in in Ha. rewrite Forall_forall in *. apply IH; auto.
Qed.


(* ====================================================================================== *)
(* 3. let-free B-free expressions are in the fragment; types computed in the fragment are   *)
(*    free of TyAny / TyThunk                                                              *)
(* ====================================================================================== *)

Lemma lf_sl : forall x, wf_lf x -> bfree x -> sl x.
Proof.
  induction x using expr_ind'; intros W F; try (constructor; fail).
  - inversion F; subst. constructor; auto.
  - inversion W; subst. inversion F; subst. apply sl_arr; auto.
    rewrite Forall_forall in *. intros x Hx. split; auto.
  - inversion W; subst. inversion F; subst. apply sl_tup.
    rewrite Forall_forall in *. intros x Hx. split; auto.
  - inversion W as [| | | | | | |f' args' Wf Wa Hc]; subst.
    destruct x; try (apply sl_call_other; exact I).
    + (* EId callee *)
      inversion F; subst. apply sl_call_id.
      rewrite Forall_forall in *. intros a Ha. left. auto.
    + (* ENat callee *)
      destruct Hc as [NS [_ Hacc]].
      destruct (String.eqb_spec name "Access") as [->|NA].
      { specialize (Hacc eq_refl). destruct args as [|o [|i [|]]]; try contradiction.
        apply sl_access. inversion H; subst. inversion Wa; subst.
        inversion F; subst; auto.
        match goal with Hb : Forall bfree (_ :: _) |- _ => inversion Hb; subst; auto end. }
      assert (Fa : Forall bfree args).
      { inversion F; subst; auto. congruence. }
      assert (Sa : Forall sl args).
      { rewrite Forall_forall in *. intros a Ha. auto. }
      destruct (nonforcing name) eqn:Enf.
      * apply sl_call_nf; auto.
      * apply sl_call_f.
        -- unfold special, nonforcing in *. simpl in *.
           destruct (String.eqb_spec name "Index"); [discriminate|].
           destruct (String.eqb_spec name "Access"); [contradiction|].
           destruct (String.eqb_spec name "If"); [discriminate|].
           destruct (String.eqb_spec name "Scope"); [contradiction|].
           exact Enf.
        -- eapply Forall_impl; [|exact Sa]. intros a Ha. left. exact Ha.
Qed.

Lemma elemB_sl x : elemB x -> sl x.
Proof. intros [W F]. apply lf_sl; auto. Qed.

Lemma if_inv_en f1 en args T :
  t_if regex_match cidr_match_text rq f1 en args = Ok T ->
  exists c y n rest tc tn, args = c :: y :: n :: rest /\
    type_of f1 en c = Ok tc /\ type_of f1 en y = Ok T /\ type_of f1 en n = Ok tn /\
    ty_eqb TyBool tc = true /\ ty_eqb T tn = true.
Proof.
  intros H. unfold t_if in H.
  destruct args as [|c [|y [|n rest]]].
  - simpl in H. discriminate.
  - apply obind_ok in H. destruct H as [? [_ H]]. discriminate.
  - apply obind_ok in H. destruct H as [? [_ H]]. discriminate.
  - exists c, y, n, rest.
    destruct rest as [|r0 rest].
    + apply obind_ok in H; destruct H as [tc [Htc H]].
      apply obind_ok in H; destruct H as [ty_ [Hty H]].
      apply obind_ok in H; destruct H as [tn [Htn H]].
      destruct (negb (ty_eqb TyBool tc)) eqn:E1; [discriminate|].
      destruct (negb (ty_eqb ty_ tn)) eqn:E2; [discriminate|].
      apply negb_false_iff in E1. apply negb_false_iff in E2. inversion H; subst.
      exists tc, tn. auto 10.
    + apply obind_ok in H; destruct H as [tc [Htc H]].
      apply obind_ok in H; destruct H as [ty_ [Hty H]].
      apply obind_ok in H; destruct H as [tn [Htn H]].
      apply obind_ok in H; destruct H as [? [_ H]].
      destruct (negb (ty_eqb TyBool tc)) eqn:E1; [discriminate|].
      destruct (negb (ty_eqb ty_ tn)) eqn:E2; [discriminate|].
      apply negb_false_iff in E1. apply negb_false_iff in E2. inversion H; subst.
      exists tc, tn. auto 10.
Qed.

Lemma tcall_forcing f en n args :
  special n = false ->
  tcall f en n args = if is_cmp_op n then t_cmp regex_match cidr_match_text rq f en args
                      else t_sig regex_match cidr_match_text rq f en n args.
Proof.
  unfold special, MiluSound.tcall. simpl. intros H.
  destruct (String.eqb n "Index"); [discriminate|].
  destruct (String.eqb n "Access"); [discriminate|].
  destruct (String.eqb n "If"); [discriminate|].
  destruct (String.eqb n "Scope"); [discriminate|].
  destruct (String.eqb n "IsMemberOf"); [discriminate|]. reflexivity.
Qed.

Lemma vcall_forcing f en n args :
  special n = false ->
  vcall f en n args = if is_cmp_op n then v_cmp regex_match cidr_match_text rq f en n args
                      else v_sig regex_match cidr_match_text rq f en n args.
Proof.
  unfold special, MiluSound.vcall. simpl. intros H.
  destruct (String.eqb n "Index"); [discriminate|].
  destruct (String.eqb n "Access"); [discriminate|].
  destruct (String.eqb n "If"); [discriminate|].
  destruct (String.eqb n "Scope"); [discriminate|].
  destruct (String.eqb n "IsMemberOf"); [discriminate|]. reflexivity.
Qed.

Lemma forcing_good f en n args T : special n = false -> tcall f en n args = Ok T -> goodb T = true.
Proof.
  intros Hs H. rewrite tcall_forcing in H by exact Hs.
  destruct (is_cmp_op n).
  - unfold t_cmp in H. destruct args as [|a [|b [|]]]; try discriminate.
    apply obind_ok in H; destruct H as [ta [_ H]].
    apply obind_ok in H; destruct H as [tb [_ H]].
    destruct ta; try discriminate; destruct tb; try discriminate; inversion H; reflexivity.
  - unfold t_sig in H. destruct (fn_sig n) as [[ats rt]|] eqn:Es; [|discriminate].
    destruct (negb _); [discriminate|].
    apply obind_ok in H; destruct H as [ts [_ H]].
    destruct (forallb _ _); [|discriminate]. inversion H; subst. eapply fn_sig_good; eauto.
Qed.

(* the callee of `name(args)` with an identifier callee is one of the root builtins *)
Lemma callee_id_special f en s name :
  callee (value_of f) en (EId s) = Ok name -> special name = false.
Proof.
  simpl. destruct f as [|f]; [discriminate|]. rewrite value_of_id_en.
  unfold lookup. destruct (lookup_env s en) as [[outer e]|]; simpl; [discriminate|].
  destruct (root_lookup s) as [v|] eqn:E; simpl; [|discriminate].
  apply root_lookup_cases in E.
  repeat destruct E as [E|E]; subst v; simpl; intros H; inversion H; reflexivity.
Qed.

Definition tgood_at (f : nat) : Prop :=
  forall en e T, env_ok en -> sl e -> type_of f en e = Ok T -> goodb T = true.

Lemma real_type_good f en a T :
  tgood_at f -> env_ok en -> argok a -> real_type_of f en a = Ok T -> goodb T = true.
Proof.
  intros IH He [Sa|Va] H; unfold MiluEval.real_type_of in H;
    apply obind_ok in H; destruct H as [t [Ht H]].
  - pose proof (IH _ _ _ He Sa Ht) as G.
    destruct t; simpl in G; try discriminate; inversion H; auto.
  - destruct a; try contradiction. destruct f as [|f]; [discriminate|].
    rewrite type_of_id_en in Ht. unfold lookup in Ht.
    destruct (lookup_env s en) as [[outer e]|] eqn:El.
    + inversion Ht; subst t. destruct (lookup_env_some _ _ _ _ He El) as [Ho [Se _]].
      eapply IH; eauto.
    + destruct (root_lookup s) as [v|] eqn:E; [|discriminate].
      apply root_lookup_cases in E.
      repeat destruct E as [E|E]; subst v; inversion Ht; subst t; inversion H; reflexivity.
Qed.

Lemma Forall2_goodb {A} (P : A -> ty -> Prop) l ts :
  Forall2 P l ts -> (forall x t, In x l -> P x t -> goodb t = true) -> forallb goodb ts = true.
Proof.
  induction 1 as [|x t l ts Hx Hl IH]; intros Hg; simpl; auto.
  rewrite (Hg x t) by (simpl; auto). simpl. apply IH. intros y u Hy. apply Hg. right; exact Hy.
Qed.

Lemma type_good : forall f, tgood_at f.
Proof.
  induction f as [|f IH]; intros en e T He W H; [discriminate|].
  inversion W; subst.
  - simpl in H. inversion H. reflexivity.
  - simpl in H. inversion H. reflexivity.
  - simpl in H. inversion H. reflexivity.
  - simpl in H. inversion H. reflexivity.
  - rewrite type_of_id_en, lookup_free in H by assumption.
    destruct (root_lookup x) as [v|] eqn:E; [|discriminate].
    apply root_lookup_cases in E.
    repeat destruct E as [E|E]; subst v; inversion H; reflexivity.
  - destruct l as [|x r]; [congruence|]. rewrite type_of_arr in H.
    apply obind_ok in H; destruct H as [t [Ht H]].
    apply obind_ok in H; destruct H as [us [_ H]]. inversion H; subst T. simpl.
    match goal with Hf : Forall elemB (_ :: _) |- _ => inversion Hf; subst end.
    eapply real_type_good; eauto. left. apply elemB_sl; auto.
  - rewrite type_of_tup in H.
    apply obind_ok in H; destruct H as [ts [Hts H]]. inversion H; subst T. simpl.
    apply map_o_ok in Hts. eapply Forall2_goodb; [exact Hts|].
    intros x t Hx Hxt. cbv beta in Hxt. apply (IH en x t He); [|exact Hxt]. apply elemB_sl.
    match goal with Hf : Forall elemB _ |- _ => rewrite Forall_forall in Hf; auto end.
  - (* let *)
    rewrite type_of_call in H. simpl in H.
    change (tcall f en "Scope" [vars; body])
      with (fr <- scope_frame vars ;; type_of f (fr :: en) body) in H.
    match goal with Hs : scope_frame _ = Ok _ |- _ => rewrite Hs in H end. cbn [obind] in H.
    eapply IH; [|eassumption|exact H]. constructor; assumption.
  - (* access *)
    rewrite type_of_call in H. simpl in H.
    change (tcall f en "Access" (o :: rest)) with (t_access regex_match cidr_match_text rq f en (o :: rest)) in H.
    unfold t_access in H.
    destruct rest as [|ix rest]; [discriminate|].
    apply obind_ok in H; destruct H as [to [Hto H]].
    match goal with Ho : sl o |- _ => pose proof (IH _ _ _ He Ho Hto) as Gto end.
    destruct to; try discriminate.
    + pose proof (tuple_case_tres ix (TyTup l) Gto) as G. rewrite H in G. exact G.
    + destruct ix; try discriminate.
      pose proof (req_field_type_tres rq s) as G. rewrite H in G. exact G.
    + destruct ix; try discriminate.
      pose proof (addr_field_type_tres s) as G. rewrite H in G. exact G.
  - (* Index / If / IsMemberOf *)
    rewrite type_of_call in H. simpl in H.
    match goal with Hn : nonforcing _ = true |- _ => pose proof (nonforcing_cases _ Hn) as Hnf end.
    destruct Hnf as [Hnf|[Hnf|Hnf]]; subst n.
    + change (tcall f en "Index" args) with (t_index regex_match cidr_match_text rq f en args) in H.
      unfold t_index in H. destruct args as [|obj [|ix rest]]; try discriminate.
      apply obind_ok in H; destruct H as [ti [_ H]].
      destruct (negb _); [discriminate|].
      apply obind_ok in H; destruct H as [to [Hto H]].
      destruct to; try discriminate. inversion H; subst.
      match goal with Hf : Forall sl (_ :: _) |- _ => inversion Hf; subst end.
      match goal with Ho : sl obj |- _ => pose proof (IH _ _ _ He Ho Hto) as Gto end. exact Gto.
    + change (tcall f en "If" args) with (t_if regex_match cidr_match_text rq f en args) in H.
      destruct (if_inv_en _ _ _ _ H) as [c [y [n [rest [tc [tn [-> [_ [Hty _]]]]]]]]].
      match goal with Hf : Forall sl (_ :: _) |- _ => inversion Hf as [|? ? _ Hf']; subst;
        inversion Hf'; subst end.
      eapply IH; eauto.
    + change (tcall f en "IsMemberOf" args) with (t_member regex_match cidr_match_text rq f en args) in H.
      unfold t_member in H. destruct args as [|a [|ary rest]].
      * simpl in H. discriminate.
      * apply obind_ok in H. destruct H as [? [_ H]]. discriminate.
      * apply obind_ok in H; destruct H as [ta [_ H]].
        apply obind_ok in H; destruct H as [tary [_ H]].
        apply obind_ok in H; destruct H as [? [_ H]].
        destruct tary; try discriminate. destruct (ty_eqb ta tary); try discriminate.
        inversion H; reflexivity.
  - rewrite type_of_call in H. simpl in H. eapply forcing_good; eauto.
  - rewrite type_of_call in H. apply obind_ok in H; destruct H as [name [Hc H]].
    eapply forcing_good; [|exact H]. eapply callee_id_special; eauto.
  - rewrite type_of_call in H. destruct f0; try contradiction; simpl in H; discriminate.
Qed.

Lemma type_good' f en e T : env_ok en -> sl e -> type_of f en e = Ok T -> goodb T = true.
Proof. intros. eapply type_good; eauto. Qed.

Lemma real_type_good' f en a T : env_ok en -> argok a -> real_type_of f en a = Ok T -> goodb T = true.
Proof. intros. eapply real_type_good; eauto. apply type_good. Qed.


(* ====================================================================================== *)
(* 4. soundness invariant on well-formed environments                                      *)
(* ====================================================================================== *)

(* lazy aggregates hold elements without let-bound names *)
Definition bfv (v : value) : Prop :=
  match v with VArr l | VTup l => Forall bfree l | _ => True end.
(* strictness: a value of static type string is not an un-coerced address object *)
Definition strictv (v : value) (T : ty) : Prop := T = TyStr -> noaddr v.
Definition goodv (v : value) (T : ty) : Prop := vtyped v T /\ bfv v /\ strictv v T.

Ltac gv := unfold goodv, strictv; simpl; repeat split; auto; try discriminate; try (intros; discriminate).

Definition sound_at (f2 : nat) : Prop :=
  forall f1 en e T, env_ok en -> sl e -> type_of f1 en e = Ok T ->
    okres (fun v => vtyped v T /\ bfv v /\ (strict_head e = true -> strictv v T)) (value_of f2 en e).

Definition rsound_at (f2 : nat) : Prop :=
  forall f1 en a T, env_ok en -> argok a -> real_type_of f1 en a = Ok T ->
    okres (fun v => goodv v T) (real_value_of f2 en a).

Ltac fin := simpl; auto; try discriminate; try (intro; discriminate).

Lemma sound_rsound f2 : sound_at f2 -> rsound_at f2.
Proof.
  intros IH f1 en a T He [Sa|Va] H.
  - pose proof H as H0. unfold MiluEval.real_type_of in H.
    apply obind_ok in H; destruct H as [t [Ht H]].
    pose proof (type_good' _ _ _ _ He Sa Ht) as G.
    unfold MiluEval.real_value_of.
    eapply okres_bind; [apply (IH f1 en a t He Sa Ht)|].
    intros v [Hv [Bv _]].
    destruct v, t; simpl in Hv, G |- *; try contradiction; try discriminate;
      inversion H; subst; gv.
  - destruct a; try contradiction. destruct f1 as [|f1]; [discriminate|].
    unfold MiluEval.real_type_of in H. rewrite type_of_id_en in H.
    destruct f2 as [|f2]; [fin|].
    unfold MiluEval.real_value_of. rewrite value_of_id_en.
    unfold lookup in *. destruct (lookup_env s en) as [[outer e]|] eqn:El.
    + simpl in H. simpl.
      destruct (lookup_env_some _ _ _ _ He El) as [Ho [Se Ss]].
      eapply okres_impl; [apply (IH _ _ _ _ Ho Se H)|].
      intros v [Hv [Bv Hs]]. split; auto.
    + destruct (root_lookup s) as [v|] eqn:E; [|discriminate].
      apply root_lookup_cases in E.
      repeat destruct E as [E|E]; subst v; simpl in H; inversion H; subst; gv.
Qed.

Lemma elem_rtyped_value f2 en t x :
  sound_at f2 -> env_ok en -> goodb t = true -> elem_rtyped t x -> bfree x ->
  okres (fun v => vtyped v t /\ bfv v) (value_of f2 en x).
Proof.
  intros IH He Gt [Wx [f [t' [Hrt Heq]]]] Fx.
  destruct (real_type_of_inv' _ _ _ _ _ _ Wx Hrt) as [t0 [Ht0 [G0 ->]]].
  rewrite <- (type_irrel f en x He Wx Fx) in Ht0.
  eapply okres_impl; [apply (IH _ _ _ _ He (lf_sl _ Wx Fx) Ht0)|]. intros v [Hv [Bv _]].
  split; auto.
  apply vtyped_eqb with (a := rty t0); auto using goodb_rty, vtyped_rty.
Qed.

Lemma elem_typed_value f2 en t x :
  sound_at f2 -> env_ok en -> goodb t = true -> elem_typed x t -> bfree x ->
  okres (fun v => vtyped v t /\ bfv v) (value_of f2 en x).
Proof.
  intros IH He Gt [Wx [f [t' [Ht Heq]]]] Fx.
  pose proof (type_of_good _ _ _ _ _ _ Wx Ht) as G'.
  rewrite <- (type_irrel f en x He Wx Fx) in Ht.
  eapply okres_impl; [apply (IH _ _ _ _ He (lf_sl _ Wx Fx) Ht)|]. intros v [Hv [Bv _]].
  split; auto.
  apply vtyped_eqb with (a := t'); auto.
Qed.

Definition shape' (v : value) (at_ : ty) : Prop :=
  shape_ok regex_match cidr_match_text rq v at_ /\ bfv v.

Lemma shape_of' v t at_ :
  goodb t = true -> goodv v t -> ty_eqb t at_ = true -> shape' v at_.
Proof.
  intros G [V [Bv S]] E. split; auto. destruct at_; simpl; auto.
  - apply ty_eqb_str in E; auto; subst. apply (vt_str regex_match cidr_match_text rq); [exact V | apply S; reflexivity].
  - apply ty_eqb_int in E; auto; subst. eapply vt_int; eauto.
  - apply ty_eqb_bool in E; auto; subst. eapply vt_bool; eauto.
  - destruct at_; auto. apply ty_eqb_arrstr in E; auto; subst. eapply vt_arr; eauto.
Qed.

Lemma rshape f1 f2 en a t at_ :
  rsound_at f2 -> env_ok en -> argok a -> real_type_of f1 en a = Ok t -> ty_eqb t at_ = true ->
  okres (fun v => shape' v at_) (real_value_of f2 en a).
Proof.
  intros IHr He W H E. eapply okres_impl; [apply (IHr _ _ _ _ He W H)|].
  intros v Hv. cbv beta in Hv. apply (shape_of' v t at_); auto. eapply real_type_good'; eauto.
Qed.

Lemma args_shapes f1 f2 en args ts : forall ats,
  rsound_at f2 -> env_ok en -> Forall argok args ->
  Forall2 (fun a t => real_type_of f1 en a = Ok t) args ts ->
  List.length args = List.length ats ->
  forallb (fun p => ty_eqb (fst p) (snd p)) (combine ts ats) = true ->
  okres (fun vs => Forall2 shape' vs ats) (map_o (real_value_of f2 en) args).
Proof.
  intros ats IHr He Wa H. revert ats Wa.
  induction H as [|a t args ts Ha Hr IH]; intros [|at_ ats] Wa L E; simpl in L; try discriminate.
  - simpl. constructor.
  - inversion Wa; subst. simpl in E. apply andb_true_iff in E; destruct E as [E1 E2].
    simpl. eapply okres_bind; [eapply rshape; eauto|]. intros v Hv.
    injection L as L.
    eapply okres_bind; [apply (IH ats); auto|]. intros vs Hvs. simpl. constructor; auto.
Qed.

Lemma callee_stable f1 f2 en fe name :
  callee (value_of f1) en fe = Ok name -> okres (fun n => n = name) (callee (value_of f2) en fe).
Proof.
  destruct fe; simpl; try discriminate.
  - destruct f1 as [|f1]; [discriminate|]. rewrite value_of_id_en.
    destruct f2 as [|f2]; [fin|]. rewrite value_of_id_en.
    destruct (lookup s en) as [v|]; simpl; try discriminate.
    destruct v; simpl; try discriminate. intros H; inversion H; auto.
  - intros H; inversion H; auto.
Qed.

(* ---- Index ---- *)
Lemma index_sound f1 f2 en args T :
  sound_at f2 -> env_ok en -> Forall sl args ->
  t_index regex_match cidr_match_text rq f1 en args = Ok T ->
  okres (fun v => vtyped v T /\ bfv v) (v_index regex_match cidr_match_text rq f2 en args).
Proof.
  intros IH He Wa H. unfold t_index in H.
  destruct args as [|obj [|ix rest]]; try discriminate.
  inversion Wa as [|? ? Wo Wa']; subst. inversion Wa' as [|? ? Wi _]; subst.
  apply obind_ok in H; destruct H as [ti [Hti H]].
  destruct (negb (ty_eqb ti TyInt)) eqn:Eti; [discriminate|]. apply negb_false_iff in Eti.
  apply obind_ok in H; destruct H as [to [Hto H]].
  destruct to; try discriminate. inversion H; subst.
  pose proof (type_good' _ _ _ _ He Wi Hti) as Gti.
  pose proof (type_good' _ _ _ _ He Wo Hto) as Gto. simpl in Gto.
  apply ty_eqb_int in Eti; auto. subst ti.
  unfold v_index.
  eapply okres_bind; [apply (IH _ _ _ _ He Wi Hti)|]. intros vi [Hvi _].
  apply vt_int in Hvi. destruct Hvi as [i ->]. simpl.
  eapply okres_bind; [apply (IH _ _ _ _ He Wo Hto)|]. intros vo [Hvo [Bvo _]].
  apply vt_arr in Hvo. destruct Hvo as [l [-> Hl]]. simpl in Bvo.
  eapply okres_bind; [apply (vec_get_okres (fun x => elem_rtyped T x /\ bfree x))|].
  { apply Forall_and; assumption. }
  intros el [Hel Fel]. apply elem_rtyped_value; auto.
Qed.

(* ---- Access ---- *)
Lemma tuple_case_sound f2 en ix l ts T :
  sound_at f2 -> env_ok en -> goodb (TyTup ts) = true -> Forall2 elem_typed l ts -> Forall bfree l ->
  t_tuple_case ix (TyTup ts) = Ok T ->
  okres (fun v => vtyped v T /\ bfv v) (v_tuple_case regex_match cidr_match_text rq f2 en ix (VTup l)).
Proof.
  intros IH He G Hl Fl H. destruct ix; try discriminate. simpl in *.
  destruct (0 <=? z)%Z; try discriminate.
  assert (HL : List.length l = List.length ts) by (clear - Hl; induction Hl; simpl; congruence).
  assert (Hz : zidx l z = zidx ts z) by (unfold zidx; rewrite HL; reflexivity). rewrite Hz.
  destruct (nth_error ts (zidx ts z)) as [t|] eqn:E; try discriminate.
  inversion H; subst t.
  destruct (Forall2_nth _ _ _ _ _ Hl E) as [el [Hn Hel]]. rewrite Hn.
  apply elem_typed_value; auto.
  - apply nth_error_In in E. rewrite forallb_forall in G. auto.
  - apply nth_error_In in Hn. rewrite Forall_forall in Fl. auto.
Qed.

Lemma req_field_sound' nm T :
  req_field_type nm = Ok T -> okres (fun v => goodv v T) (req_field nm).
Proof.
  unfold MiluEval.req_field_type, MiluEval.req_field.
  repeat match goal with |- context [bytes_eq nm ?s] => destruct (bytes_eq nm s) end;
    simpl; intros H; inversion H; gv; auto using addr_eqb_refl.
Qed.

Lemma addr_field_sound' a nm T :
  addr_field_type nm = Ok T -> okres (fun v => goodv v T) (addr_field a nm).
Proof.
  unfold addr_field_type, addr_field.
  repeat match goal with |- context [bytes_eq nm ?s] => destruct (bytes_eq nm s) eqn:? end;
    simpl; intros H; inversion H; gv;
    repeat match goal with E : bytes_eq _ _ = true |- _ => apply bytes_eq_eq in E end;
    subst; discriminate.
Qed.

Definition access_strict (args : list expr) : bool :=
  match args with _ :: EInt _ :: _ => false | _ => true end.

Lemma access_sound f1 f2 en o rest T :
  sound_at f2 -> env_ok en -> sl o ->
  t_access regex_match cidr_match_text rq f1 en (o :: rest) = Ok T ->
  okres (fun v => vtyped v T /\ bfv v /\ (access_strict (o :: rest) = true -> strictv v T))
        (v_access regex_match cidr_match_text rq f2 en (o :: rest)).
Proof.
  intros IH He Wo H. unfold t_access in H.
  destruct rest as [|ix rest]; try discriminate.
  apply obind_ok in H; destruct H as [to [Hto H]].
  pose proof (type_good' _ _ _ _ He Wo Hto) as Gto.
  unfold v_access.
  eapply okres_bind; [apply (IH _ _ _ _ He Wo Hto)|]. intros vo [Hvo [Bvo _]].
  destruct to; try discriminate.
  - apply vt_tup in Hvo. destruct Hvo as [l' [-> Hl]]. simpl in Bvo.
    eapply okres_impl; [eapply tuple_case_sound; eauto|].
    intros v [Hv Bv]. split; auto. split; auto.
    destruct ix; discriminate.
  - apply vt_req in Hvo. subst vo. destruct ix; try discriminate.
    eapply okres_impl; [apply req_field_sound'; eauto|]. intros v [Hv [Bv Sv]]. auto.
  - apply vt_addr in Hvo. destruct Hvo as [b ->]. destruct ix; try discriminate.
    eapply okres_impl; [apply addr_field_sound'; eauto|]. intros v [Hv [Bv Sv]]. auto.
Qed.

(* ---- If ---- *)
Lemma if_sound f1 f2 en args T :
  sound_at f2 -> env_ok en -> Forall sl args ->
  t_if regex_match cidr_match_text rq f1 en args = Ok T ->
  okres (fun v => vtyped v T /\ bfv v /\ (strict_head (ECall (ENat "If") args) = true -> strictv v T))
        (v_if regex_match cidr_match_text rq f2 en args).
Proof.
  intros IH He Wa H.
  destruct (if_inv_en _ _ _ _ H) as [c [y [n [rest [tc [tn [-> [Htc [Hty [Htn [E1 E2]]]]]]]]]]].
  inversion Wa as [|? ? Wc Wa']; subst. inversion Wa' as [|? ? Wy Wa'']; subst.
  inversion Wa'' as [|? ? Wn _]; subst.
  pose proof (type_good' _ _ _ _ He Wc Htc) as Gc.
  pose proof (type_good' _ _ _ _ He Wy Hty) as Gy.
  pose proof (type_good' _ _ _ _ He Wn Htn) as Gn.
  apply ty_eqb_bool' in E1; auto. subst tc.
  unfold v_if.
  eapply okres_bind; [apply (IH _ _ _ _ He Wc Htc)|]. intros vc [Hvc _].
  apply vt_bool in Hvc. destruct Hvc as [b ->]. simpl obind.
  change (strict_head (ECall (ENat "If") (c :: y :: n :: rest)))
    with (strict_head y && strict_head n).
  destruct b.
  - eapply okres_impl; [apply (IH _ _ _ _ He Wy Hty)|]. intros v [Hv [Bv Sv]].
    split; auto. split; auto. intros Hs. apply andb_true_iff in Hs. apply Sv. tauto.
  - eapply okres_impl; [apply (IH _ _ _ _ He Wn Htn)|]. intros v [Hv [Bv Sv]].
    split; [|split; auto].
    + apply vtyped_eqb with (a := tn); auto. apply ty_eqb_sym; auto.
    + intros Hs. apply andb_true_iff in Hs. intros ->.
      apply ty_eqb_sym in E2; auto. apply ty_eqb_str in E2; auto. apply Sv; tauto.
Qed.

(* ---- IsMemberOf ---- *)
Lemma member_go_sound f2 en va t l :
  sound_at f2 -> env_ok en -> goodb t = true -> Forall (elem_rtyped t) l -> Forall bfree l ->
  okres (fun v => goodv v TyBool) (member_go regex_match cidr_match_text rq f2 en va l).
Proof.
  intros IH He G H. induction H as [|x r Hx Hr IHr]; intros Fl; simpl.
  - gv.
  - inversion Fl; subst.
    eapply okres_bind; [eapply elem_rtyped_value; eauto|]. intros vx _.
    destruct (value_eqb vx va); simpl; auto. gv.
Qed.

Lemma type_real_en f en e t :
  env_ok en -> sl e -> type_of f en e = Ok t -> real_type_of f en e = Ok (rty t).
Proof.
  intros He W H. pose proof (type_good' _ _ _ _ He W H) as G.
  unfold MiluEval.real_type_of. rewrite H. simpl.
  destruct t; simpl in *; auto; discriminate.
Qed.

Lemma member_sound f1 f2 en args T :
  sound_at f2 -> env_ok en -> Forall sl args ->
  t_member regex_match cidr_match_text rq f1 en args = Ok T ->
  okres (fun v => goodv v T) (v_member regex_match cidr_match_text rq f2 en args).
Proof.
  intros IH He Wa H. pose proof (sound_rsound _ IH) as IHr. unfold t_member in H.
  destruct args as [|a [|ary rest]].
  - simpl in H. discriminate.
  - apply obind_ok in H. destruct H as [? [_ H]]. discriminate.
  - inversion Wa as [|? ? W1 Wa']; subst. inversion Wa' as [|? ? W2 _]; subst.
    apply obind_ok in H; destruct H as [ta [Hta H]].
    apply obind_ok in H; destruct H as [tary [Htary H]].
    apply obind_ok in H; destruct H as [? [_ H]].
    destruct tary; try discriminate.
    destruct (ty_eqb ta tary); try discriminate. inversion H; subst T.
    pose proof (type_good' _ _ _ _ He W2 Htary) as G2. simpl in G2.
    unfold v_member.
    eapply okres_bind; [apply (IHr _ _ _ _ He (or_introl W1) (type_real_en _ _ _ _ He W1 Hta))|].
    intros va _.
    eapply okres_bind; [apply (IHr _ _ _ _ He (or_introl W2) (type_real_en _ _ _ _ He W2 Htary))|].
    intros vary [Hv [Bv _]].
    simpl in Hv. apply vt_arr in Hv. destruct Hv as [l [-> Hl]]. simpl in Bv.
    eapply member_go_sound; eauto.
Qed.

(* ---- comparisons ---- *)
Lemma cmp_sound f1 f2 en name args T :
  sound_at f2 -> env_ok en -> Forall argok args ->
  t_cmp regex_match cidr_match_text rq f1 en args = Ok T ->
  okres (fun v => goodv v T) (v_cmp regex_match cidr_match_text rq f2 en name args).
Proof.
  intros IH He Wa H. pose proof (sound_rsound _ IH) as IHr. unfold t_cmp in H.
  destruct args as [|a [|b [|]]]; try discriminate.
  inversion Wa as [|? ? W1 Wa']; subst. inversion Wa' as [|? ? W2 _]; subst.
  apply obind_ok in H; destruct H as [ta [Hta H]].
  apply obind_ok in H; destruct H as [tb [Htb H]].
  unfold v_cmp.
  eapply okres_bind; [apply (IHr _ _ _ _ He W1 Hta)|]. intros va [Hva [_ Na]].
  eapply okres_bind; [apply (IHr _ _ _ _ He W2 Htb)|]. intros vb [Hvb [_ Nb]].
  destruct ta; try discriminate; destruct tb; try discriminate; inversion H; subst T.
  - apply vt_str in Hva; [|apply Na; reflexivity]. apply vt_str in Hvb; [|apply Nb; reflexivity].
    destruct Hva as [? ->], Hvb as [? ->]. gv.
  - apply vt_int in Hva. apply vt_int in Hvb.
    destruct Hva as [? ->], Hvb as [? ->]. gv.
  - apply vt_bool in Hva. apply vt_bool in Hvb.
    destruct Hva as [? ->], Hvb as [? ->]. gv.
Qed.


(* ---- declared-signature builtins ---- *)
Lemma goodv_int v : vtyped v TyInt -> goodv v TyInt.
Proof. destruct v; simpl; try contradiction; intros; gv. Qed.

Lemma chk_sound' z : okres (fun v => goodv v TyInt) (chk z).
Proof. eapply okres_impl; [apply (chk_sound regex_match cidr_match_text rq)|]. apply goodv_int. Qed.

Lemma int_op_sound' name x y :
  is_int_op name = true -> okres (fun v => goodv v TyInt) (int_op name x y).
Proof.
  intros H. eapply okres_impl; [apply (int_op_sound regex_match cidr_match_text rq); auto|].
  apply goodv_int.
Qed.

Lemma split_bfree l : Forall bfree (map EStr l).
Proof.
  apply Forall_forall. intros x Hx. apply in_map_iff in Hx. destruct Hx as [s [<- _]]. constructor.
Qed.

Lemma concat_go_sound f2 en l :
  rsound_at f2 -> env_ok en -> Forall (elem_rtyped TyStr) l -> Forall bfree l ->
  forall acc, okres (fun v => goodv v TyStr) (concat_go regex_match cidr_match_text rq f2 en l acc).
Proof.
  intros IHr He H. induction H as [|x r Hx Hr IH]; intros Fl acc; simpl.
  - gv.
  - inversion Fl; subst. destruct Hx as [Wx [f [t' [Hrt Heq]]]].
    assert (Hrt' : real_type_of f en x = Ok t').
    { rewrite <- Hrt. apply real_type_ext. apply type_irrel; auto. }
    eapply okres_bind; [eapply rshape; eauto|].
    { left. apply lf_sl; auto. }
    intros v [Hv _]. simpl in Hv.
    destruct Hv as [s ->]. simpl. apply IH; auto.
Qed.

Lemma bool2_sound f1 f2 en args ts :
  rsound_at f2 -> env_ok en -> Forall argok args ->
  Forall2 (fun a t => real_type_of f1 en a = Ok t) args ts ->
  List.length args = 2%nat ->
  forallb (fun p => ty_eqb (fst p) (snd p)) (combine ts [TyBool; TyBool]) = true ->
  okres (fun v => goodv v TyBool) (v_and regex_match cidr_match_text rq f2 en args) /\
  okres (fun v => goodv v TyBool) (v_or regex_match cidr_match_text rq f2 en args) /\
  okres (fun v => goodv v TyBool) (v_xor regex_match cidr_match_text rq f2 en args).
Proof.
  intros IHr He Wa Hts L Ef.
  destruct args as [|a [|b [|]]]; try discriminate.
  inversion Wa as [|? ? W1 Wa']; subst. inversion Wa' as [|? ? W2 _]; subst.
  inversion Hts as [|? ta ? ts1 Ha Hts1]; subst.
  inversion Hts1 as [|? tb ? ts2 Hb Hts2]; subst.
  inversion Hts2; subst. simpl in Ef.
  apply andb_true_iff in Ef; destruct Ef as [E1 Ef].
  apply andb_true_iff in Ef; destruct Ef as [E2 _].
  pose proof (rshape _ _ _ _ _ _ IHr He W1 Ha E1) as Sa.
  pose proof (rshape _ _ _ _ _ _ IHr He W2 Hb E2) as Sb.
  unfold v_and, v_or, v_xor. repeat split.
  - eapply okres_bind; [exact Sa|]. intros va [Hva _]; simpl in Hva; destruct Hva as [x ->]. simpl.
    destruct x; [|gv].
    eapply okres_bind; [exact Sb|]. intros vb [Hvb _]; simpl in Hvb; destruct Hvb as [y ->]. gv.
  - eapply okres_bind; [exact Sa|]. intros va [Hva _]; simpl in Hva; destruct Hva as [x ->]. simpl.
    destruct x; [gv|].
    eapply okres_bind; [exact Sb|]. intros vb [Hvb _]; simpl in Hvb; destruct Hvb as [y ->]. gv.
  - eapply okres_bind; [exact Sa|]. intros va [Hva _]; simpl in Hva; destruct Hva as [x ->]. simpl.
    eapply okres_bind; [exact Sb|]. intros vb [Hvb _]; simpl in Hvb; destruct Hvb as [y ->]. gv.
Qed.

Lemma sig_sound f1 f2 en name args T :
  sound_at f2 -> env_ok en -> Forall argok args ->
  t_sig regex_match cidr_match_text rq f1 en name args = Ok T ->
  okres (fun v => goodv v T) (v_sig regex_match cidr_match_text rq f2 en name args).
Proof.
  intros IH He Wa H. pose proof (sound_rsound _ IH) as IHr.
  unfold t_sig in H. destruct (fn_sig name) as [[ats rt]|] eqn:Es; [|discriminate].
  destruct (negb (List.length args =? List.length ats)%nat) eqn:El; [discriminate|].
  apply obind_ok in H. destruct H as [ts [Hts H]]. apply map_o_ok in Hts.
  destruct (forallb _ _) eqn:Ef; [|discriminate]. inversion H; subst rt. clear H.
  unfold v_sig. rewrite Es, El.
  apply negb_false_iff, Nat.eqb_eq in El.
  pose proof (args_shapes f1 f2 en args ts ats IHr He Wa Hts El Ef) as Hvs.
  pose proof (fn_sig_names _ _ _ Es) as Hin. unfold sig_names in Hin. simpl in Hin.
  repeat destruct Hin as [Hin|Hin]; try contradiction; subst name;
    vm_compute in Es; inversion Es; subst ats T; clear Es;
    cbn [String.eqb Ascii.eqb Bool.eqb];
    try (apply (bool2_sound f1 f2 en args ts IHr He Wa Hts El Ef));
    (eapply okres_bind; [exact Hvs|]); intros vs Hv; cbv beta in Hv;
    repeat match goal with
           | H : Forall2 shape' _ (_ :: _) |- _ => inversion H; clear H; subst
           | H : Forall2 shape' _ [] |- _ => inversion H; clear H; subst
           end;
    unfold shape' in *; simpl shape_ok in *;
    repeat match goal with
           | H : exists _, _ |- _ => destruct H
           | H : _ /\ _ |- _ => destruct H
           end; subst; simpl bfv in *;
    unfold v_un, v_bin;
    cbn [String.eqb Ascii.eqb Bool.eqb obind as_int as_bool as_str orb is_int_op existsb];
    first [ apply chk_sound'
          | apply int_op_sound'; reflexivity
          | apply concat_go_sound; assumption
          | destruct (parse_i64 _); gv; fail
          | destruct (regex_match _ _); gv; fail
          | gv; [apply split_typed | apply split_bfree]
          | gv; fail ].
Qed.

(* ---- calls of natives that force their arguments ---- *)
Lemma forcing_sound f1 f2 en name args T :
  sound_at f2 -> env_ok en -> Forall argok args -> special name = false ->
  tcall f1 en name args = Ok T ->
  okres (fun v => goodv v T) (vcall f2 en name args).
Proof.
  intros IH He Wa Hs H. rewrite tcall_forcing in H by exact Hs. rewrite vcall_forcing by exact Hs.
  destruct (is_cmp_op name); [eapply cmp_sound; eauto|eapply sig_sound; eauto].
Qed.

Lemma arr_elems f1 en t l us :
  env_ok en -> Forall elemB l ->
  Forall2 (fun y u => (ty' <- real_type_of f1 en y ;; if ty_eqb ty' t then Ok tt else Err E_TYPE) = Ok u) l us ->
  Forall (elem_rtyped t) l.
Proof.
  intros He W H. induction H as [|y u l us Hy Hl IH]; constructor.
  - inversion W as [|? ? [Wy Fy] _]; subst. split; auto.
    apply obind_ok in Hy. destruct Hy as [ty' [Hty Hy]].
    exists f1, ty'. split.
    + rewrite <- Hty. symmetry. apply real_type_ext. apply type_irrel; auto.
    + destruct (ty_eqb ty' t); auto; discriminate.
  - inversion W; subst. auto.
Qed.

Lemma tup_elems f1 en l ts :
  env_ok en -> Forall elemB l -> Forall2 (fun x t => type_of f1 en x = Ok t) l ts -> Forall2 elem_typed l ts.
Proof.
  intros He W H. induction H as [|x t l ts Hx Hl IH]; constructor.
  - inversion W as [|? ? [Wx Fx] _]; subst. split; auto. exists f1, t.
    rewrite (type_irrel f1 en x He Wx Fx) in Hx. split; auto.
    apply ty_eqb_refl. eapply type_of_good; eauto.
  - inversion W; subst. auto.
Qed.

Lemma elemB_bfree l : Forall elemB l -> Forall bfree l.
Proof. intros H. eapply Forall_impl; [|exact H]. intros x [_ F]. exact F. Qed.

Lemma sound_all : forall f2, sound_at f2.
Proof.
  induction f2 as [|f2 IH]; intros f1 en e T He W H.
  - simpl. fin.
  - destruct f1 as [|f1]; [discriminate|].
    inversion W; subst.
    + simpl in H. inversion H. gv.
    + simpl in H. inversion H. gv.
    + simpl in H. inversion H. gv.
    + simpl in H. inversion H. gv.
    + rewrite type_of_id_en, lookup_free in H by assumption.
      rewrite value_of_id_en, lookup_free by assumption.
      destruct (root_lookup x) as [v|] eqn:E; [|discriminate].
      apply root_lookup_cases in E.
      repeat destruct E as [E|E]; subst v; inversion H; gv.
    + destruct l as [|x r]; [congruence|]. rewrite type_of_arr in H.
      apply obind_ok in H; destruct H as [t [Ht H]].
      apply obind_ok in H; destruct H as [us [Hus H]].
      inversion H; subst T. apply map_o_ok in Hus.
      change (value_of (S f2) en (EArr (x :: r))) with (@Ok value (VArr (x :: r))).
      gv.
      * eapply arr_elems; eauto.
      * apply elemB_bfree; assumption.
    + rewrite type_of_tup in H.
      apply obind_ok in H; destruct H as [ts [Hts H]].
      inversion H; subst T. apply map_o_ok in Hts.
      change (value_of (S f2) en (ETup l)) with (@Ok value (VTup l)).
      gv.
      * eapply tup_elems; eauto.
      * apply elemB_bfree; assumption.
    + (* let *)
      rewrite type_of_call in H. simpl in H.
      change (tcall f1 en "Scope" [vars; body])
        with (fr <- scope_frame vars ;; type_of f1 (fr :: en) body) in H.
      rewrite value_of_call. simpl.
      change (vcall f2 en "Scope" [vars; body])
        with (fr <- scope_frame vars ;; value_of f2 (fr :: en) body).
      match goal with Hs : scope_frame _ = Ok _ |- _ => rewrite Hs in H |- * end.
      cbn [obind] in H |- *.
      assert (He' : env_ok (fr :: en)) by (constructor; assumption).
      eapply okres_impl; [apply (IH _ _ _ _ He' ltac:(eassumption) H)|].
      intros v [Hv [Bv Sv]]. split; auto.
    + (* access *)
      rewrite type_of_call in H. simpl in H. rewrite value_of_call. simpl.
      change (tcall f1 en "Access" (o :: rest))
        with (t_access regex_match cidr_match_text rq f1 en (o :: rest)) in H.
      change (vcall f2 en "Access" (o :: rest))
        with (v_access regex_match cidr_match_text rq f2 en (o :: rest)).
      eapply okres_impl; [eapply access_sound; eauto|].
      intros v [Hv [Bv Sv]]. split; auto.
    + (* Index / If / IsMemberOf *)
      rewrite type_of_call in H. simpl in H. rewrite value_of_call. simpl.
      match goal with Hn : nonforcing _ = true |- _ => pose proof (nonforcing_cases _ Hn) as Hnf end.
      destruct Hnf as [Hnf|[Hnf|Hnf]]; subst n.
      * change (tcall f1 en "Index" args) with (t_index regex_match cidr_match_text rq f1 en args) in H.
        change (vcall f2 en "Index" args) with (v_index regex_match cidr_match_text rq f2 en args).
        eapply okres_impl; [eapply index_sound; eauto|].
        intros v [Hv Bv]. split; auto. split; auto. simpl. discriminate.
      * change (tcall f1 en "If" args) with (t_if regex_match cidr_match_text rq f1 en args) in H.
        change (vcall f2 en "If" args) with (v_if regex_match cidr_match_text rq f2 en args).
        eapply if_sound; eauto.
      * change (tcall f1 en "IsMemberOf" args) with (t_member regex_match cidr_match_text rq f1 en args) in H.
        change (vcall f2 en "IsMemberOf" args) with (v_member regex_match cidr_match_text rq f2 en args).
        eapply okres_impl; [eapply member_sound; eauto|].
        intros v [Hv [Bv Sv]]. split; auto.
    + (* forcing natives *)
      rewrite type_of_call in H. simpl in H. rewrite value_of_call. simpl.
      eapply okres_impl; [eapply forcing_sound; eauto|].
      intros v [Hv [Bv Sv]]. split; auto.
    + (* identifier callee *)
      rewrite type_of_call in H. apply obind_ok in H; destruct H as [name [Hc Ht]].
      rewrite value_of_call.
      eapply okres_bind; [eapply callee_stable; eauto|]. intros n' ->.
      eapply okres_impl; [eapply forcing_sound; eauto|].
      * eapply callee_id_special; eauto.
      * intros v [Hv [Bv Sv]]. split; auto.
    + rewrite type_of_call in H. destruct f; try contradiction; simpl in H; discriminate.
Qed.

Lemma rsound_all f2 : rsound_at f2.
Proof. apply sound_rsound. apply sound_all. Qed.

End Sound.
End Frag.

(* ====================================================================================== *)
(* 5. the fragment and the theorems                                                        *)
(* ====================================================================================== *)

(* An expression is in the fragment if it is for SOME set B of "let-bound names":
   every name bound by a let of the expression is in B, identifiers in B occur only as direct
   arguments of argument-forcing builtins, and array / tuple literals are let-free and
   mention no name in B. *)
Definition wf_sl (e : expr) : Prop := exists B, sl B e.

Lemma bfree_nil : forall e, bfree [] e.
Proof.
  induction e using expr_ind'; try (constructor; auto; fail).
Qed.

Theorem wf_lf_wf_sl : forall e, wf_lf e -> wf_sl e.
Proof. intros e W. exists []. apply lf_sl; auto. apply bfree_nil. Qed.

Theorem soundness_scalar_let :
  forall regex_match cidr_match_text rq fuel1 fuel2 e T,
    wf_sl e ->
    type_of regex_match cidr_match_text rq fuel1 [] e = Ok T ->
    match value_of regex_match cidr_match_text rq fuel2 [] e with
    | Ok v => vtyped regex_match cidr_match_text rq v T
    | Err c => c <> E_TYPE
    | Panic _ => False
    end.
Proof.
  intros rm cm rq f1 f2 e T [B W] H.
  pose proof (sound_all B rm cm rq f2 f1 [] e T (env_ok_nil B) W H) as R.
  destruct (value_of rm cm rq f2 [] e); simpl in *; auto. tauto.
Qed.

Theorem soundness_scalar_let_real_strict :
  forall regex_match cidr_match_text rq fuel1 fuel2 e T,
    wf_sl e ->
    real_type_of regex_match cidr_match_text rq fuel1 [] e = Ok T ->
    match real_value_of regex_match cidr_match_text rq fuel2 [] e with
    | Ok v => vtyped_strict regex_match cidr_match_text rq v T
    | Err c => c <> E_TYPE
    | Panic _ => False
    end.
Proof.
  intros rm cm rq f1 f2 e T [B W] H.
  pose proof (rsound_all B rm cm rq f2 f1 [] e T (env_ok_nil B) (or_introl W) H) as R.
  destruct (real_value_of rm cm rq f2 [] e); simpl in *; auto.
  destruct R as [Hv [_ Sv]]. apply vtyped_strict_iff. split; auto.
Qed.

Theorem soundness_scalar_let_real :
  forall regex_match cidr_match_text rq fuel1 fuel2 e T,
    wf_sl e ->
    real_type_of regex_match cidr_match_text rq fuel1 [] e = Ok T ->
    match real_value_of regex_match cidr_match_text rq fuel2 [] e with
    | Ok v => vtyped regex_match cidr_match_text rq v T
    | Err c => c <> E_TYPE
    | Panic _ => False
    end.
Proof.
  intros rm cm rq f1 f2 e T W H.
  pose proof (soundness_scalar_let_real_strict rm cm rq f1 f2 e T W H) as R.
  destruct (real_value_of rm cm rq f2 [] e); auto.
  apply vtyped_strict_iff in R. tauto.
Qed.

(* every type the checker computes on the fragment is free of TyAny / TyThunk *)
Theorem type_of_good_let :
  forall regex_match cidr_match_text rq fuel e T,
    wf_sl e -> type_of regex_match cidr_match_text rq fuel [] e = Ok T -> goodb T = true.
Proof. intros rm cm rq f e T [B W] H. eapply type_good'; eauto. apply env_ok_nil. Qed.

(* the invariant behind the theorems, for the record: in every environment whose thunks are
   fragment expressions with a strict head, evaluation of an accepted fragment expression is sound *)
Theorem soundness_scalar_let_env :
  forall B regex_match cidr_match_text rq fuel1 fuel2 en e T,
    env_ok B en -> sl B e ->
    type_of regex_match cidr_match_text rq fuel1 en e = Ok T ->
    match value_of regex_match cidr_match_text rq fuel2 en e with
    | Ok v => vtyped regex_match cidr_match_text rq v T
    | Err c => c <> E_TYPE
    | Panic _ => False
    end.
Proof.
  intros B rm cm rq f1 f2 en e T He W H.
  pose proof (sound_all B rm cm rq f2 f1 en e T He W H) as R.
  destruct (value_of rm cm rq f2 en e); simpl in *; auto. tauto.
Qed.

(* ====================================================================================== *)
(* 6. executable checker                                                                   *)
(* ====================================================================================== *)

Definition memb (x : bytes) (B : list bytes) : bool := existsb (bytes_eq x) B.

Lemma memb_true x B : memb x B = true -> In x B.
Proof.
  unfold memb. intros H. apply existsb_exists in H. destruct H as [y [Hy E]].
  apply bytes_eq_eq in E. subst. exact Hy.
Qed.

Lemma memb_false x B : memb x B = false -> ~ In x B.
Proof.
  unfold memb. intros H Hin. assert (E : existsb (bytes_eq x) B = true).
  { apply existsb_exists. exists x. split; auto. apply bytes_eq_eq. reflexivity. }
  congruence.
Qed.

(* fuel only bounds the recursion depth; running out of fuel answers false *)
Fixpoint bfreeb (B : list bytes) (n : nat) (e : expr) : bool :=
  match n with
  | O => false
  | S n =>
    match e with
    | EId x => negb (memb x B)
    | EArr l | ETup l => forallb (bfreeb B n) l
    | ECall f args =>
      (bfreeb B n f && forallb (bfreeb B n) args)
      || match f, args with
         | ENat nm, o :: _ :: _ => String.eqb nm "Access" && bfreeb B n o
         | _, _ => false
         end
    | _ => true
    end
  end.

Lemma bfreeb_sound B : forall n e, bfreeb B n e = true -> bfree B e.
Proof.
  induction n as [|n IH]; intros e H; [discriminate|].
  assert (Hall : forall l, forallb (bfreeb B n) l = true -> Forall (bfree B) l).
  { intros l Hl. apply Forall_forall. intros x Hx. rewrite forallb_forall in Hl. auto. }
  destruct e as [z|b|s|x|l|l|nm|fe args]; simpl in H; try (constructor; fail).
  - constructor. apply memb_false. apply negb_true_iff. exact H.
  - constructor. auto.
  - constructor. auto.
  - apply orb_true_iff in H. destruct H as [H|H].
    + apply andb_true_iff in H. destruct H. apply bf_call; auto.
    + destruct fe; try discriminate. destruct args as [|o [|i rest]]; try discriminate.
      apply andb_true_iff in H. destruct H as [H1 H2]. apply String.eqb_eq in H1. subst.
      apply bf_access. auto.
Qed.

Definition argokb (chk : expr -> bool) (a : expr) : bool :=
  chk a || match a with EId _ => true | _ => false end.

Fixpoint slb (B : list bytes) (n : nat) (e : expr) : bool :=
  match n with
  | O => false
  | S n =>
    match e with
    | EInt _ | EBool _ | EStr _ | ENat _ => true
    | EId x => negb (memb x B)
    | EArr l => match l with [] => false | _ => forallb (fun x => wf_lfb x && bfreeb B n x) l end
    | ETup l => forallb (fun x => wf_lfb x && bfreeb B n x) l
    | ECall (ENat nm) args =>
      if String.eqb nm "Scope" then
        match args with
        | [vars; body] =>
          match scope_frame vars with
          | Ok fr => forallb (fun p => memb (fst p) B && slb B n (snd p) && strict_head (snd p)) fr
                     && slb B n body
          | _ => false
          end
        | _ => false
        end
      else if String.eqb nm "Access" then match args with o :: _ => slb B n o | [] => false end
      else if nonforcing nm then forallb (slb B n) args
      else forallb (argokb (slb B n)) args
    | ECall (EId _) args => forallb (argokb (slb B n)) args
    | ECall _ _ => true
    end
  end.

Lemma slb_sound B : forall n e, slb B n e = true -> sl B e.
Proof.
  induction n as [|n IH]; intros e H; [discriminate|].
  assert (Hel : forall l, forallb (fun x => wf_lfb x && bfreeb B n x) l = true -> Forall (elemB B) l).
  { intros l Hl. apply Forall_forall. intros x Hx. rewrite forallb_forall in Hl.
    specialize (Hl x Hx). apply andb_true_iff in Hl. destruct Hl as [H1 H2]. split.
    - apply wf_lfb_sound; auto.
    - eapply bfreeb_sound; eauto. }
  assert (Harg : forall l, forallb (argokb (slb B n)) l = true ->
                           Forall (fun a => sl B a \/ is_var a) l).
  { intros l Hl. apply Forall_forall. intros x Hx. rewrite forallb_forall in Hl.
    specialize (Hl x Hx). unfold argokb in Hl. apply orb_true_iff in Hl. destruct Hl as [Hl|Hl].
    - left. auto.
    - right. destruct x; try discriminate. exact I. }
  destruct e as [z|b|s|x|l|l|nm|fe args]; cbn [slb] in H; try (constructor; fail).
  - constructor. apply memb_false. apply negb_true_iff. exact H.
  - destruct l as [|x r]; [discriminate|]. apply sl_arr; [discriminate|]. auto.
  - apply sl_tup. auto.
  - destruct fe as [| | |s| | |name|]; try (apply sl_call_other; exact I).
    + apply sl_call_id. auto.
    + destruct (String.eqb_spec name "Scope") as [->|NS].
      { destruct args as [|vars [|body [|]]]; try discriminate.
        destruct (scope_frame vars) as [fr| |] eqn:Es; try discriminate.
        apply andb_true_iff in H. destruct H as [H1 H2].
        eapply sl_let; eauto.
        apply Forall_forall. intros p Hp. rewrite forallb_forall in H1. specialize (H1 p Hp).
        apply andb_true_iff in H1. destruct H1 as [H1 H3].
        apply andb_true_iff in H1. destruct H1 as [H0 H1].
        split; [apply memb_true; auto|]. split; auto. }
      destruct (String.eqb_spec name "Access") as [->|NA].
      { destruct args as [|o rest]; [discriminate|]. apply sl_access. auto. }
      destruct (nonforcing name) eqn:Enf.
      * apply sl_call_nf; auto. apply Forall_forall. intros x Hx.
        rewrite forallb_forall in H. auto.
      * apply sl_call_f; auto.
        unfold special, nonforcing in *. simpl in *.
        destruct (String.eqb_spec name "Index"); [discriminate|].
        destruct (String.eqb_spec name "Access"); [contradiction|].
        destruct (String.eqb_spec name "If"); [discriminate|].
        destruct (String.eqb_spec name "Scope"); [contradiction|].
        exact Enf.
Qed.

(* names bound by the lets of an expression, and a size used as fuel *)
Fixpoint binders (e : expr) : list bytes :=
  let fix go (l : list expr) : list bytes :=
    match l with [] => [] | x :: r => (binders x ++ go r)%list end in
  match e with
  | EArr l | ETup l => go l
  | ECall f args =>
    (match f, args with
     | ENat nm, vars :: _ =>
       if String.eqb nm "Scope" then
         match scope_frame vars with Ok fr => map fst fr | _ => [] end
       else []
     | _, _ => []
     end ++ binders f ++ go args)%list
  | _ => []
  end.

Fixpoint esize (e : expr) : nat :=
  let fix go (l : list expr) : nat :=
    match l with [] => O | x :: r => (esize x + go r)%nat end in
  match e with
  | EArr l | ETup l => S (go l)
  | ECall f args => S (esize f + go args)
  | _ => 1%nat
  end.

Definition wf_slb (e : expr) : bool := slb (binders e) (esize e) e.

Theorem wf_slb_sound : forall e, wf_slb e = true -> wf_sl e.
Proof. intros e H. exists (binders e). eapply slb_sound; eauto. Qed.

(* ====================================================================================== *)
(* 7. non-vacuity, and why the restrictions are there                                      *)
(* ====================================================================================== *)

Section Examples.
Let rx : bytes -> bytes -> option bool := fun _ _ => Some false.
Let cm : bytes -> bytes -> bool := fun _ _ => false.
Let z := mk_addr 1 (bytes_of_string "example.org") 8080 (bytes_of_string "domain")
                 (bytes_of_string "example.org:8080").
Let rq := mk_req (bytes_of_string "l") (bytes_of_string "c") [] z z.

Definition let1 (x : string) (e b : expr) : expr := op2 "Scope" (EArr [ETup [id_ x; e]]) b.
Definition let2 (x : string) (e : expr) (y : string) (e' b : expr) : expr :=
  op2 "Scope" (EArr [ETup [id_ x; e]; ETup [id_ y; e']]) b.
Definition str_ (s : string) : expr := EStr (bytes_of_string s).

(* let a = 1 in a + 1 *)
Definition ex_let1 : expr := let1 "a" (EInt 1) (op2 "Plus" (id_ "a") (EInt 1)).
Example ex_let1_ok :
  wf_slb ex_let1 = true /\ type_of rx cm rq 50 [] ex_let1 = Ok TyInt /\
  real_value_of rx cm rq 50 [] ex_let1 = Ok (VInt 2).
Proof. repeat split; vm_compute; reflexivity. Qed.

(* let host = request.target.host in host == "x" || host =~ "y"
   (the bound name coincides with a field name, which is fine) *)
Definition ex_let2 : expr :=
  let1 "host" (op2 "Access" (op2 "Access" (id_ "request") (id_ "target")) (id_ "host"))
    (op2 "Or" (op2 "Equal" (id_ "host") (str_ "x")) (op2 "Like" (id_ "host") (str_ "y"))).
Example ex_let2_ok :
  wf_slb ex_let2 = true /\ type_of rx cm rq 50 [] ex_let2 = Ok TyBool /\
  real_value_of rx cm rq 50 [] ex_let2 = Ok (VBool false).
Proof. repeat split; vm_compute; reflexivity. Qed.

(* nested lets with shadowing:  let a = 2 in let b = a * 3 in let a = b + 1 in a + b *)
Definition ex_let3 : expr :=
  let1 "a" (EInt 2)
    (let1 "b" (op2 "Multiply" (id_ "a") (EInt 3))
      (let1 "a" (op2 "Plus" (id_ "b") (EInt 1)) (op2 "Plus" (id_ "a") (id_ "b")))).
Example ex_let3_ok :
  wf_slb ex_let3 = true /\ type_of rx cm rq 50 [] ex_let3 = Ok TyInt /\
  real_value_of rx cm rq 50 [] ex_let3 = Ok (VInt 13).
Proof. repeat split; vm_compute; reflexivity. Qed.

(* two bindings, a let inside a binding, a builtin called by name, and aggregates in the body:
   let p = request.target.port; t = (let k = "do" in to_string(k)) in
     if p > 1000 && request.target.type in ["domain", "ipv4"] then [1, 2][0] + p else to_integer(t) *)
Definition ex_let4 : expr :=
  let2 "p" (op2 "Access" (op2 "Access" (id_ "request") (id_ "target")) (id_ "port"))
       "t" (let1 "k" (str_ "do") (ECall (id_ "to_string") [id_ "k"]))
    (op3 "If"
       (op2 "And" (op2 "Greater" (id_ "p") (EInt 1000))
                  (op2 "IsMemberOf" (op2 "Access" (op2 "Access" (id_ "request") (id_ "target")) (id_ "type"))
                                    (EArr [str_ "domain"; str_ "ipv4"])))
       (op2 "Plus" (op2 "Index" (EArr [EInt 1; EInt 2]) (EInt 0)) (id_ "p"))
       (ECall (id_ "to_integer") [id_ "t"])).
Example ex_let4_ok :
  wf_slb ex_let4 = true /\ type_of rx cm rq 50 [] ex_let4 = Ok TyInt /\
  real_value_of rx cm rq 50 [] ex_let4 = Ok (VInt 8081).
Proof. repeat split; vm_compute; reflexivity. Qed.

(* every let-free program of MiluSound is in the fragment, e.g. its example *)
Example ex_ok_in_fragment : wf_slb ex_ok = true.
Proof. vm_compute; reflexivity. Qed.

(* ---- the recorded refutation witnesses are outside the fragment ---- *)
Example holes_rejected :
  wf_slb hole_any = false /\ wf_slb hole_scope = false /\ wf_slb hole_shadow = false.
Proof. repeat split; vm_compute; reflexivity. Qed.

(* ---- three further holes found while proving; each shows that a restriction is needed ---- *)

(* (1) thunk types are compared by the TEXT of the bound expression only, so an `if` may mix
   two thunks with the same text and different environments:
     (if false then (let a = 1 in let b = a + 0 in b) else (let a = "s" in let b = a + 0 in b)) + 1
   No aggregate is involved.  Hence: let-bound names only as arguments of forcing builtins. *)
Definition hole_thunk_text : expr :=
  op2 "Plus"
    (op3 "If" (EBool false)
       (let1 "a" (EInt 1) (let1 "b" (op2 "Plus" (id_ "a") (EInt 0)) (id_ "b")))
       (let1 "a" (str_ "s") (let1 "b" (op2 "Plus" (id_ "a") (EInt 0)) (id_ "b"))))
    (EInt 1).
Theorem soundness_refuted_thunk_text :
  type_of rx cm rq 50 [] hole_thunk_text = Ok TyInt /\
  real_value_of rx cm rq 50 [] hole_thunk_text = Err E_TYPE /\ wf_slb hole_thunk_text = false.
Proof. repeat split; vm_compute; reflexivity. Qed.

(* (2) forcing a thunk does not coerce an address to its text (real_value_of coerces only the
   outer value), while an array literal records the coerced element type:
     let h = [request.target][0] in h =~ "x"
   The array mentions no let-bound name.  Hence: let-bound expressions have a strict head. *)
Definition hole_addr_let : expr :=
  let1 "h" (op2 "Index" (EArr [op2 "Access" (id_ "request") (id_ "target")]) (EInt 0))
    (op2 "Like" (id_ "h") (str_ "x")).
Theorem soundness_refuted_addr_let :
  type_of rx cm rq 50 [] hole_addr_let = Ok TyBool /\
  real_value_of rx cm rq 50 [] hole_addr_let = Err E_TYPE /\ wf_slb hole_addr_let = false.
Proof. repeat split; vm_compute; reflexivity. Qed.

(* (3) a let may shadow a ROOT name that a lazy aggregate of an enclosing scope mentions:
     let t = (request.listener, 1) in let request = 5 in t.0 =~ "x"
   Hence: aggregates mention no name that is let-bound ANYWHERE in the program (the set B). *)
Definition hole_root_shadow : expr :=
  let1 "t" (ETup [op2 "Access" (id_ "request") (id_ "listener"); EInt 1])
    (let1 "request" (EInt 5) (op2 "Like" (op2 "Access" (id_ "t") (EInt 0)) (str_ "x"))).
Theorem soundness_refuted_root_shadow :
  type_of rx cm rq 50 [] hole_root_shadow = Ok TyBool /\
  real_value_of rx cm rq 50 [] hole_root_shadow = Err E_TYPE /\ wf_slb hole_root_shadow = false.
Proof. repeat split; vm_compute; reflexivity. Qed.
End Examples.

Print Assumptions soundness_scalar_let.
Print Assumptions soundness_scalar_let_real.
Print Assumptions soundness_scalar_let_real_strict.
Print Assumptions soundness_scalar_let_env.
Print Assumptions type_of_good_let.
Print Assumptions wf_lf_wf_sl.
Print Assumptions wf_slb_sound.
Print Assumptions soundness_refuted_thunk_text.
Print Assumptions soundness_refuted_addr_let.
Print Assumptions soundness_refuted_root_shadow.
