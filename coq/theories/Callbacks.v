(* What the client is told (property C06): the listener callbacks ConnectCallback (h11c.rs) and
   the SOCKS Callback (listeners/socks.rs) applied to the event sequences of process_request. *)
From RP Require Import Base Stream Target Socks Http MiluSyntax MiluParser MiluDoc MiluEval Dispatch.
From Coq Require Import String.
From RP.Gen Require Gen_callbacks.

Inductive proto := PHttp | PSocks5 | PSocks4.

Definition bstr (s : string) : bytes := bytes_of_string s.

Definition http_success : bytes :=
  write_http_response (mk_hresp HTTP11 200 (bstr "Connection established") []).

(* ConnectCallback::on_error: 503 with a text body and its exact Content-Length *)
Definition http_failure (msg : bytes) : bytes :=
  write_http_response (mk_hresp HTTP11 503 (bstr "Service unavailable")
    (with_header (bstr "Content-Length") (dec (len msg)) (with_header (bstr "Content-Type") (bstr "text/plain") []))) ++ msg.

Definition socks_reply (ver : N) (cmd : N) (t : target) : bytes :=
  match write_response (mk_sresp ver cmd t) with Ok b => b | _ => [] end.

Definition success_reply (p : proto) (tgt : target) : bytes :=
  match p with
  | PHttp => http_success
  | PSocks5 => socks_reply 5 0 tgt
  | PSocks4 => socks_reply 4 0 tgt
  end.

Definition failure_reply (p : proto) (msg : bytes) : bytes :=
  match p with
  | PHttp => http_failure msg
  | PSocks5 => socks_reply 5 1 (TV4 0 0)
  | PSocks4 => socks_reply 4 1 (TV4 0 0)
  end.

(* What keeps a later on_error silent once the success reply has been written; each mechanism is read from
   the source by the translator (Gen_callbacks.v):
   - KTunnel (TCP tunnel, any listener): copy_bidi takes both streams out of the context before anything in
     it can fail, so on_error finds no client stream;
   - KHttpUdp (CONNECT with Proxy-Protocol: udp): FrameChannelCallback::on_connect takes the client stream;
   - KSocksUdp (SOCKS5 UDP ASSOCIATE): the control connection stays in the context, Callback::replied is set
     by on_connect and checked by on_error. *)
Inductive ckind := KTunnel | KHttpUdp | KSocksUdp.

Definition silenced_after_success (p : proto) (k : ckind) : bool :=
  match k with
  | KTunnel =>
      Gen_callbacks.copy_bidi_takes_streams_first &&
      match p with PHttp => Gen_callbacks.http_on_error_checks_stream | _ => Gen_callbacks.socks_on_error_checks_stream end
      || match p with PHttp => false | _ => Gen_callbacks.socks_on_connect_sets_replied && Gen_callbacks.socks_on_error_checks_replied end
  | KHttpUdp => Gen_callbacks.http_udp_on_connect_takes_stream && Gen_callbacks.http_on_error_checks_stream
  | KSocksUdp => Gen_callbacks.socks_on_connect_sets_replied && Gen_callbacks.socks_on_error_checks_replied
  end.

(* bytes written to the client, reply by reply *)
Fixpoint replies_k (p : proto) (k : ckind) (tgt : target) (msg : bytes) (evs : list effect) (silent : bool) : list bytes :=
  match evs with
  | [] => []
  | EvOnConnect :: r => success_reply p tgt :: replies_k p k tgt msg r (silenced_after_success p k)
  | EvOnError :: r => (if silent then [] else [failure_reply p msg]) ++ replies_k p k tgt msg r silent
  | _ :: r => replies_k p k tgt msg r silent
  end.
Definition replies (p : proto) (tgt : target) (msg : bytes) (evs : list effect) (silent : bool) : list bytes :=
  replies_k p KTunnel tgt msg evs silent.

(* the event sequences process_request can produce (Dispatch.process_request, plus a relay
   that fails after establishment) *)
Inductive valid_events : list effect -> Prop :=
| ve_denied : valid_events [EvOnError]
| ve_connect_failed c : valid_events [EvConnect c; EvOnError]
| ve_finished c : valid_events [EvConnect c; EvOnConnect; EvOnFinish]
| ve_relay_failed c : valid_events [EvConnect c; EvOnConnect; EvOnError].

Definition established (evs : list effect) : bool :=
  existsb (fun e => match e with EvOnConnect => true | _ => false end) evs.

(* everything the client receives from the proxy itself on a TCP tunnel, for an outcome class
   0 = denied / refused before dispatch, 1 = upstream connect failed, 2 = relay finished, 3 = relay failed *)
Definition events_of_class (k : N) : list effect :=
  match k with
  | 0 => [EvOnError]
  | 1 => [EvConnect []; EvOnError]
  | 2 => [EvConnect []; EvOnConnect; EvOnFinish]
  | _ => [EvConnect []; EvOnConnect; EvOnError]
  end.
Definition client_bytes (p : proto) (tgt : target) (msg : bytes) (k : N) : bytes :=
  List.concat (replies p tgt msg (events_of_class k) false).
