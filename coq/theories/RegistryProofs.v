(* Accounting of connections (property C16): theorems about the registry model and the state log of Registry.v. *)
From RP Require Import Base Registry.
Local Open Scope nat_scope.

(* ---- helper views ------------------------------------------------------------------------ *)
Definition created (s : rstate) : list nat := seq 0 (r_next s).

(* ---- list facts -------------------------------------------------------------------------- *)
Lemma mem_In : forall x l, mem x l = true <-> In x l.
Proof.
  intros x l. unfold mem. rewrite existsb_exists. split.
  - intros [y [Hy He]]. apply Nat.eqb_eq in He. subst. exact Hy.
  - intros H. exists x. split; [exact H | apply Nat.eqb_refl].
Qed.

Lemma mem_false_In : forall x l, mem x l = false <-> ~ In x l.
Proof.
  intros x l. rewrite <- mem_In. destruct (mem x l); split; intros H; congruence.
Qed.

Lemma negb_mem_In : forall x l, negb (mem x l) = true <-> ~ In x l.
Proof. intros x l. rewrite negb_true_iff. apply mem_false_In. Qed.

Lemma firstn_app_firstn_le : forall (A : Type) (a b : list A) n m, n <= m ->
  firstn n (a ++ firstn m b) = firstn n (a ++ b).
Proof.
  intros A a. induction a as [|x a IH]; intros b n m Hle.
  - rewrite !app_nil_l, firstn_firstn, Nat.min_l by exact Hle. reflexivity.
  - destruct n as [|n]; [reflexivity|].
    rewrite <- !app_comm_cons, !firstn_cons. f_equal. apply IH. lia.
Qed.

Lemma firstn_app_firstn : forall (A : Type) n (a b : list A),
  firstn n (a ++ firstn n b) = firstn n (a ++ b).
Proof. intros. apply firstn_app_firstn_le. apply Nat.le_refl. Qed.

Lemma NoDup_snoc : forall (A : Type) (l : list A) x, NoDup l -> ~ In x l -> NoDup (l ++ [x]).
Proof.
  intros A l x Hn Hx. apply NoDup_rev in Hn.
  rewrite <- (rev_involutive (l ++ [x])). apply NoDup_rev. rewrite rev_app_distr. simpl.
  constructor; [rewrite <- in_rev; exact Hx | exact Hn].
Qed.

Lemma NoDup_app_l : forall (A : Type) (l m : list A), NoDup (l ++ m) -> NoDup l.
Proof.
  intros A l m. induction l as [|x l IH]; simpl; intros H; [constructor|].
  inversion H; subst. constructor; [|apply IH; assumption].
  intro Hi. apply H2. apply in_or_app. left. exact Hi.
Qed.

Lemma NoDup_filter' : forall (A : Type) (f : A -> bool) (l : list A), NoDup l -> NoDup (filter f l).
Proof.
  intros A f l. induction l as [|x l IH]; simpl; intros H; [constructor|].
  inversion H; subst. destruct (f x); [|apply IH; assumption].
  constructor; [|apply IH; assumption].
  rewrite filter_In. tauto.
Qed.

(* ---- the invariant ------------------------------------------------------------------------ *)
Record Inv (size : nat) (s : rstate) : Prop := mk_inv {
  inv_alive_nodup : NoDup (r_alive s);
  inv_ended_nodup : NoDup (r_log s ++ r_dropped s);
  inv_ended_lt    : forall i, In i (r_log s ++ r_dropped s) -> i < r_next s;
  inv_alive_spec  : forall i, In i (r_alive s) <-> (i < r_next s /\ ~ In i (r_log s));
  inv_history     : r_history s = firstn size (rev (r_log s))
}.

Lemma Inv_init : forall size, Inv size r_init.
Proof.
  intros size. constructor; simpl.
  - constructor.
  - constructor.
  - intros i [].
  - intros i. split; [intros [] | intros [H _]; lia].
  - rewrite firstn_nil. reflexivity.
Qed.

Lemma Inv_step : forall size s o, Inv size s -> Inv size (rstep size s o).
Proof.
  intros size s o [Han Hen Hlt Hal Hh]. destruct o as [|id|]; simpl.
  - (* Create *)
    constructor; simpl.
    + apply NoDup_snoc; [exact Han|]. intro Hi. apply Hal in Hi. lia.
    + exact Hen.
    + intros i Hi. apply Hlt in Hi. lia.
    + intros i. rewrite in_app_iff. simpl. rewrite Hal. split.
      * intros [[H1 H2] | [H | []]]; [split; [lia | exact H2]|].
        subst i. split; [lia|]. intro Hi.
        assert (r_next s < r_next s) by (apply Hlt; apply in_or_app; left; exact Hi). lia.
      * intros [H1 H2]. destruct (Nat.eq_dec i (r_next s)) as [->|Hne]; [right; left; reflexivity|].
        left. split; [lia | exact H2].
    + exact Hh.
  - (* DropCtx *)
    destruct (mem id (r_alive s) && negb (mem id (r_dropped s))) eqn:E.
    + apply andb_true_iff in E. destruct E as [E1 E2].
      apply mem_In in E1. apply negb_mem_In in E2.
      pose proof (proj1 (Hal id) E1) as [Hid Hnl].
      constructor; simpl.
      * exact Han.
      * rewrite app_assoc. apply NoDup_snoc; [exact Hen|].
        rewrite in_app_iff. tauto.
      * intros i. rewrite app_assoc, in_app_iff. simpl. intros [Hi | [Hi | []]].
        -- apply Hlt. exact Hi.
        -- subst i. exact Hid.
      * exact Hal.
      * exact Hh.
    + constructor; assumption.
  - (* Gc *)
    constructor; simpl.
    + apply NoDup_filter'. exact Han.
    + rewrite app_nil_r. exact Hen.
    + intros i. rewrite app_nil_r. apply Hlt.
    + intros i. rewrite filter_In, negb_mem_In, Hal, in_app_iff. tauto.
    + rewrite Hh, firstn_app_firstn, rev_app_distr. reflexivity.
Qed.

Lemma Inv_fold : forall size ops s, Inv size s -> Inv size (fold_left (rstep size) ops s).
Proof.
  intros size ops. induction ops as [|o ops IH]; intros s H; simpl; [exact H|].
  apply IH. apply Inv_step. exact H.
Qed.

Lemma Inv_run : forall size ops, Inv size (rrun size ops).
Proof. intros. unfold rrun. apply Inv_fold. apply Inv_init. Qed.

Lemma rrun_snoc : forall size ops o, rrun size (ops ++ [o]) = rstep size (rrun size ops) o.
Proof. intros. unfold rrun. rewrite fold_left_app. reflexivity. Qed.

(* ---- the registry theorems ------------------------------------------------------------------ *)
Theorem ids_unique : forall size ops, NoDup (created (rrun size ops)) /\
  (forall i, In i (r_alive (rrun size ops)) -> i < r_next (rrun size ops)).
Proof.
  intros size ops. split.
  - unfold created. apply seq_NoDup.
  - intros i Hi. apply (inv_alive_spec size _ (Inv_run size ops)) in Hi. tauto.
Qed.

Theorem alive_nodup : forall size ops, NoDup (r_alive (rrun size ops)).
Proof. intros. apply (inv_alive_nodup size _ (Inv_run size ops)). Qed.

(* everything that ended is accounted exactly once: either waiting for the collector or in the log, never both,
   never twice *)
Theorem ended_once : forall size ops, NoDup (r_log (rrun size ops) ++ r_dropped (rrun size ops)).
Proof. intros. apply (inv_ended_nodup size _ (Inv_run size ops)). Qed.

(* a connection is listed as live exactly while it exists: registered, not ended *)
Theorem live_view_spec : forall size ops i, let s := rrun size ops in
  In i (live_view s) <-> (i < r_next s /\ ~ In i (r_log s) /\ ~ In i (r_dropped s)).
Proof.
  intros size ops i s. subst s. unfold live_view.
  rewrite filter_In, negb_mem_In.
  rewrite (inv_alive_spec size _ (Inv_run size ops)). tauto.
Qed.

(* the history is the `size` newest collected connections, newest first *)
Theorem history_is_newest_first : forall size ops, let s := rrun size ops in
  r_history s = firstn size (rev (r_log s)).
Proof. intros size ops s. apply (inv_history size _ (Inv_run size ops)). Qed.

Corollary history_bounded : forall size ops, length (r_history (rrun size ops)) <= size.
Proof. intros. rewrite history_is_newest_first. apply firstn_le_length. Qed.

Corollary history_nodup : forall size ops, NoDup (r_history (rrun size ops)).
Proof.
  intros size ops. rewrite history_is_newest_first.
  pose proof (ended_once size ops) as H. apply NoDup_app_l in H. apply NoDup_rev in H.
  rewrite <- (firstn_skipn size (rev (r_log (rrun size ops)))) in H.
  apply NoDup_app_l in H. exact H.
Qed.

(* after a collection nothing is pending, and every ended connection is in the log *)
Theorem gc_collects_everything : forall size ops, r_dropped (rrun size (ops ++ [Gc])) = [] /\
  (forall i, In i (r_dropped (rrun size ops)) -> In i (r_log (rrun size (ops ++ [Gc])))).
Proof.
  intros size ops. rewrite rrun_snoc. simpl. split; [reflexivity|].
  intros i Hi. apply in_or_app. right. exact Hi.
Qed.

(* ---- the state log ---------------------------------------------------------------------------- *)
(* the state log of every outcome class follows the lifecycle *)
Theorem every_outcome_has_a_regular_log : forall o, lifecycle_ok (state_log o) = true.
Proof.
  intros o. destruct o as [| | |[|]|[|] [|]]; reflexivity.
Qed.

(* and the checker means something: examples of logs it rejects *)
Example lifecycle_rejects : lifecycle_ok [ClientConnected] = false /\
  lifecycle_ok [ClientConnected; ClientRequested; ErrorOccured; Terminated] = false /\
  lifecycle_ok [ClientConnected; Connected; ClientRequested; ErrorOccured] = false /\
  lifecycle_ok [ClientConnected; ClientRequested; ServerConnecting; Connected; ClientShutdown; Terminated] = false.
Proof. repeat split; reflexivity. Qed.

Print Assumptions ids_unique.
Print Assumptions alive_nodup.
Print Assumptions ended_once.
Print Assumptions live_view_spec.
Print Assumptions history_is_newest_first.
Print Assumptions history_bounded.
Print Assumptions history_nodup.
Print Assumptions gc_collects_everything.
Print Assumptions every_outcome_has_a_regular_log.
Print Assumptions lifecycle_rejects.
