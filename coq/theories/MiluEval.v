(* Model of the milu type checker and evaluator (milu/src/script.rs, milu/src/script/stdlib.rs)
   in the redproxy environment (src/rules/script_ext.rs: `request`, `cidr_match`).
   Values are lazy exactly as in the Rust code: array and tuple values hold unevaluated
   elements, `let` bindings are thunks that carry their definition environment.
   Outcome classes: Ok | Err class | Panic site.  Error classes:
     1 type error (anything the checker is supposed to exclude: casts, undefined names, wrong
       callee, wrong arity ...)            2 arithmetic (division by zero, overflow, shift range)
     3 index out of range                  4 invalid regular expression
     5 non-numeric string                  9 out of fuel (model artefact, excluded by statements) *)
From RP Require Import Base Target MiluSyntax MiluDoc.
From Coq Require Import ZArith String.

Definition E_TYPE : N := 1.
Definition E_ARITH : N := 2.
Definition E_INDEX : N := 3.
Definition E_REGEX : N := 4.
Definition E_PARSE : N := 5.
Definition E_FUEL : N := 9.

Definition frame := list (bytes * expr).
Definition env := list frame.

(* request.target / request.source as the script sees them *)
Record addrobj := mk_addr { a_kind : N; a_host : bytes; a_port : Z; a_type : bytes; a_text : bytes }.
Record request := mk_req { rq_listener : bytes; rq_connector : bytes; rq_feature : bytes;
                           rq_source : addrobj; rq_target : addrobj }.

Inductive value : Type :=
| VInt (z : Z)
| VBool (b : bool)
| VStr (s : bytes)
| VArr (l : list expr)
| VTup (l : list expr)
| VThunk (en : env) (e : expr)          (* ScopeBinding { ctx, value } *)
| VFn (name : string)                   (* builtin function stub *)
| VReq                                  (* ContextAdaptor *)
| VAddr (a : addrobj).                  (* TargetAddress / SocketAddress *)

Inductive ty : Type :=
| TyStr | TyInt | TyBool
| TyArr (t : ty)
| TyTup (l : list ty)
| TyAny
| TyThunk (en : env) (e : expr)         (* Type::NativeObject(ScopeBinding) *)
| TyFn (name : string)
| TyReq
| TyAddr (a : addrobj).

(* Type's PartialEq: Any matches everything; native objects compare by hash (ScopeBinding
   hashes its expression only) *)
Definition addr_eqb (a b : addrobj) : bool :=
  (a_kind a =? a_kind b) && bytes_eq (a_text a) (a_text b).

Fixpoint ty_eqb (a b : ty) {struct a} : bool :=
  let fix list_eqb (l1 l2 : list ty) {struct l1} : bool :=
    match l1, l2 with
    | [], [] => true
    | x :: r1, y :: r2 => ty_eqb x y && list_eqb r1 r2
    | _, _ => false
    end in
  match a, b with
  | TyAny, _ => true
  | _, TyAny => true
  | TyStr, TyStr => true
  | TyInt, TyInt => true
  | TyBool, TyBool => true
  | TyArr x, TyArr y => ty_eqb x y
  | TyTup x, TyTup y => list_eqb x y
  | TyThunk _ e1, TyThunk _ e2 => expr_eqb e1 e2
  | TyFn n1, TyFn n2 => String.eqb n1 n2
  | TyReq, TyReq => true
  | TyAddr x, TyAddr y => addr_eqb x y
  | _, _ => false
  end.

(* Value's derived PartialEq as far as evaluation results go *)
Definition list_expr_eqb (l1 l2 : list expr) : bool := expr_eqb (EArr l1) (EArr l2).
Definition value_eqb (a b : value) : bool :=
  match a, b with
  | VInt x, VInt y => Z.eqb x y
  | VBool x, VBool y => Bool.eqb x y
  | VStr x, VStr y => bytes_eq x y
  | VArr x, VArr y => list_expr_eqb x y
  | VTup x, VTup y => list_expr_eqb x y
  | VThunk _ e1, VThunk _ e2 => expr_eqb e1 e2
  | VFn n1, VFn n2 => String.eqb n1 n2
  | VReq, VReq => true
  | VAddr x, VAddr y => addr_eqb x y
  | _, _ => false
  end.

(* ---- environments --------------------------------------------------------------------- *)

(* HashMap insert: the last binding of a name wins *)
Fixpoint lookup_frame (x : bytes) (f : frame) (found : option expr) : option expr :=
  match f with
  | [] => found
  | (k, e) :: r => lookup_frame x r (if bytes_eq k x then Some e else found)
  end.

Fixpoint lookup_env (x : bytes) (en : env) : option (env * expr) :=
  match en with
  | [] => None
  | f :: outer => match lookup_frame x f None with
                  | Some e => Some (outer, e)
                  | None => lookup_env x outer
                  end
  end.

Definition bs := bytes_of_string.

Definition root_lookup (x : bytes) : option value :=
  if bytes_eq x (bs "to_string") then Some (VFn "ToString")
  else if bytes_eq x (bs "to_integer") then Some (VFn "ToInteger")
  else if bytes_eq x (bs "split") then Some (VFn "Split")
  else if bytes_eq x (bs "strcat") then Some (VFn "StringConcat")
  else if bytes_eq x (bs "cidr_match") then Some (VFn "CidrMatch")
  else if bytes_eq x (bs "request") then Some VReq
  else None.

Definition lookup (x : bytes) (en : env) : option value :=
  match lookup_env x en with
  | Some (outer, e) => Some (VThunk outer e)
  | None => root_lookup x
  end.

(* Scope::make_context; as_vec / as_str / t[1] panic on shapes the parser never builds *)
Fixpoint make_frame (vars : list expr) : outcome frame :=
  match vars with
  | [] => Ok []
  | v :: rest =>
    match v with
    | EArr (k :: e :: _) | ETup (k :: e :: _) =>
      match k with
      | EId name | EStr name => r <- make_frame rest ;; Ok ((name, e) :: r)
      | _ => Panic 41
      end
    | EArr _ | ETup _ => Panic 42
    | _ => Panic 43
    end
  end.

Definition scope_frame (a0 : expr) : outcome frame :=
  match a0 with
  | EArr vars | ETup vars => make_frame vars
  | _ => Panic 44
  end.

(* ---- integer arithmetic (checked, i64) ------------------------------------------------ *)

Definition I64_MIN : Z := (-9223372036854775808)%Z.
Definition I64_MAXZ : Z := 9223372036854775807%Z.
Definition in_i64 (z : Z) : bool := (I64_MIN <=? z)%Z && (z <=? I64_MAXZ)%Z.
Definition chk (z : Z) : outcome value := if in_i64 z then Ok (VInt z) else Err E_ARITH.
Definition wrap64 (z : Z) : Z :=
  let m := (z mod 18446744073709551616)%Z in if (m <=? I64_MAXZ)%Z then m else (m - 18446744073709551616)%Z.

Definition int_op (name : string) (a b : Z) : outcome value :=
  if String.eqb name "Plus" then chk (a + b)
  else if String.eqb name "Minus" then chk (a - b)
  else if String.eqb name "Multiply" then chk (a * b)
  else if String.eqb name "Divide" then (if (b =? 0)%Z then Err E_ARITH else chk (Z.quot a b))
  else if String.eqb name "Mod" then
    (if (b =? 0)%Z then Err E_ARITH else if (a =? I64_MIN)%Z && (b =? -1)%Z then Err E_ARITH else Ok (VInt (Z.rem a b)))
  else if String.eqb name "BitAnd" then Ok (VInt (Z.land a b))
  else if String.eqb name "BitOr" then Ok (VInt (Z.lor a b))
  else if String.eqb name "BitXor" then Ok (VInt (Z.lxor a b))
  else if String.eqb name "ShiftLeft" then
    (if (0 <=? b)%Z && (b <? 64)%Z then Ok (VInt (wrap64 (Z.shiftl a b))) else Err E_ARITH)
  else if String.eqb name "ShiftRight" then
    (if (0 <=? b)%Z && (b <? 64)%Z then Ok (VInt (Z.shiftr a b)) else Err E_ARITH)
  else if String.eqb name "ShiftRightUnsigned" then
    (if (0 <=? b)%Z && (b <? 64)%Z
     then Ok (VInt (wrap64 (Z.shiftr (a mod 18446744073709551616) b))) else Err E_ARITH)
  else Panic 45.

Definition is_int_op (name : string) : bool :=
  existsb (String.eqb name)
    ["Plus"; "Minus"; "Multiply"; "Divide"; "Mod"; "BitAnd"; "BitOr"; "BitXor"; "ShiftLeft"; "ShiftRight"; "ShiftRightUnsigned"]%string.
Definition is_cmp_op (name : string) : bool :=
  existsb (String.eqb name) ["Greater"; "GreaterOrEqual"; "Lesser"; "LesserOrEqual"; "Equal"; "NotEqual"]%string.

(* byte-wise lexicographic order (String's Ord) *)
Fixpoint bytes_cmp (a b : bytes) : comparison :=
  match a, b with
  | [], [] => Eq
  | [], _ => Lt
  | _, [] => Gt
  | x :: a', y :: b' => match (x ?= y)%N with Eq => bytes_cmp a' b' | c => c end
  end.

Definition cmp_result (name : string) (c : comparison) : bool :=
  if String.eqb name "Greater" then match c with Gt => true | _ => false end
  else if String.eqb name "GreaterOrEqual" then match c with Lt => false | _ => true end
  else if String.eqb name "Lesser" then match c with Lt => true | _ => false end
  else if String.eqb name "LesserOrEqual" then match c with Gt => false | _ => true end
  else if String.eqb name "Equal" then match c with Eq => true | _ => false end
  else match c with Eq => false | _ => true end.

Definition cmp_values (name : string) (a b : value) : outcome value :=
  match a, b with
  | VInt x, VInt y => Ok (VBool (cmp_result name (x ?= y)%Z))
  | VStr x, VStr y => Ok (VBool (cmp_result name (bytes_cmp x y)))
  | VBool x, VBool y => Ok (VBool (cmp_result name (match x, y with
                                                   | false, true => Lt | true, false => Gt | _, _ => Eq end)))
  | _, _ => Err E_TYPE
  end.

(* ---- strings -------------------------------------------------------------------------- *)

(* str::parse::<i64>() *)
Definition parse_i64 (s : bytes) : option Z :=
  let '(neg, d) := match s with 45 :: r => (true, r) | 43 :: r => (false, r) | _ => (false, s) end in
  match parse_dec d with
  | Some v => let z := if neg then (- Z.of_N v)%Z else Z.of_N v in if in_i64 z then Some z else None
  | None => None
  end.

Definition dec_z (z : Z) : bytes :=
  match z with
  | Z0 => [48]
  | Zpos p => dec (Npos p)
  | Zneg p => 45 :: dec (Npos p)
  end.

Fixpoint is_prefix_b (p s : bytes) : bool :=
  match p, s with
  | [], _ => true
  | a :: p', b :: s' => (a =? b) && is_prefix_b p' s'
  | _, [] => false
  end.

(* str::split with a non-empty pattern *)
Fixpoint split_on_pat (fuel : nat) (d s cur : bytes) : list bytes :=
  match fuel with
  | O => [frev cur]
  | S f =>
    match s with
    | [] => [frev cur]
    | b :: r => if is_prefix_b d s then frev cur :: split_on_pat f d (skipn (List.length d) s) []
                else split_on_pat f d r (b :: cur)
    end
  end.

(* str::split(""): every char boundary, including both ends *)
Fixpoint utf8_chars (s cur : bytes) : list bytes :=
  match s with
  | [] => match cur with [] => [] | _ => [frev cur] end
  | b :: r => if (128 <=? b) && (b <=? 191) then utf8_chars r (b :: cur)
              else match cur with [] => utf8_chars r [b] | _ => frev cur :: utf8_chars r [b] end
  end.

Definition split_str (s d : bytes) : list bytes :=
  match d with
  | [] => [] :: utf8_chars s [] ++ [[]]
  | _ => split_on_pat (S (List.length s)) d s []
  end.

(* Display of an evaluated value as to_string sees it; strings print with {:?}.  Only
   printable ASCII is rendered by the model, anything else yields the opaque marker. *)
Definition OPAQUE_MARK : bytes := [255; 255].
Definition printable (b : N) : bool := (32 <=? b) && (b <? 127).
Definition debug_str (s : bytes) : bytes :=
  if forallb printable s then
    34 :: List.concat (map (fun b => if (b =? 34) || (b =? 92) then [92; b] else [b]) s) ++ [34]
  else OPAQUE_MARK.

Fixpoint join_with (sep : bytes) (l : list bytes) : bytes :=
  match l with [] => [] | [x] => x | x :: r => x ++ sep ++ join_with sep r end.

Fixpoint display_expr (e : expr) : bytes :=
  let fix disp_list (l : list expr) : list bytes :=
    match l with [] => [] | x :: r => display_expr x :: disp_list r end in
  match e with
  | EInt z => dec_z z
  | EBool b => if b then bs "true" else bs "false"
  | EStr s => debug_str s
  | EId s => 60 :: s ++ [62]
  | EArr l => 91 :: join_with [44] (disp_list l) ++ [93]
  | ETup l => 40 :: join_with [44] (disp_list l) ++ [41]
  | ENat n => bs n
  | ECall f args => display_expr f ++ 40 :: join_with [44] (disp_list args) ++ [41]
  end.

Definition display_value (v : value) : bytes :=
  match v with
  | VInt z => dec_z z
  | VBool b => if b then bs "true" else bs "false"
  | VStr s => debug_str s
  | VArr l => display_expr (EArr l)
  | VTup l => display_expr (ETup l)
  | VFn n => bs n
  | _ => OPAQUE_MARK
  end.

(* ---- CIDR containment on numbers ------------------------------------------------------ *)

Definition cidr_contains (w len net a : N) : bool := (a / 2 ^ (w - len) =? net / 2 ^ (w - len)).
Definition cidr_net_ok (w len net : N) : bool := (len <=? w) && (net mod 2 ^ (w - len) =? 0).

Section Eval.
(* oracles: the regex crate and the text parsers of std / the cidr crate *)
Variable regex_match : bytes -> bytes -> option bool.          (* pattern, text; None = invalid pattern *)
Variable cidr_match_text : bytes -> bytes -> bool.             (* ip text, cidr text (false on parse failure) *)
Variable rq : request.

Definition req_field_type (name : bytes) : outcome ty :=
  if bytes_eq name (bs "listener") || bytes_eq name (bs "connector") || bytes_eq name (bs "feature") then Ok TyStr
  else if bytes_eq name (bs "target") then Ok (TyAddr (rq_target rq))
  else if bytes_eq name (bs "source") then Ok (TyAddr (rq_source rq))
  else Err E_TYPE.
Definition req_field (name : bytes) : outcome value :=
  if bytes_eq name (bs "listener") then Ok (VStr (rq_listener rq))
  else if bytes_eq name (bs "connector") then Ok (VStr (rq_connector rq))
  else if bytes_eq name (bs "feature") then Ok (VStr (rq_feature rq))
  else if bytes_eq name (bs "target") then Ok (VAddr (rq_target rq))
  else if bytes_eq name (bs "source") then Ok (VAddr (rq_source rq))
  else Err E_TYPE.
Definition addr_field_type (name : bytes) : outcome ty :=
  if bytes_eq name (bs "host") || bytes_eq name (bs "type") then Ok TyStr
  else if bytes_eq name (bs "port") then Ok TyInt
  else Err E_TYPE.
Definition addr_field (a : addrobj) (name : bytes) : outcome value :=
  if bytes_eq name (bs "host") then Ok (VStr (a_host a))
  else if bytes_eq name (bs "port") then Ok (VInt (a_port a))
  else if bytes_eq name (bs "type") then Ok (VStr (a_type a))
  else Err E_TYPE.

(* declared signatures of the function!-macro builtins: argument types and result type *)
Definition fn_sig (name : string) : option (list ty * ty) :=
  if String.eqb name "Not" then Some ([TyBool], TyBool)
  else if String.eqb name "BitNot" || String.eqb name "Negative" then Some ([TyInt], TyInt)
  else if is_int_op name then Some ([TyInt; TyInt], TyInt)
  else if String.eqb name "And" || String.eqb name "Or" || String.eqb name "Xor" then Some ([TyBool; TyBool], TyBool)
  else if String.eqb name "Like" || String.eqb name "NotLike" then Some ([TyStr; TyStr], TyBool)
  else if String.eqb name "ToString" then Some ([TyAny], TyStr)
  else if String.eqb name "ToInteger" then Some ([TyStr], TyInt)
  else if String.eqb name "Split" then Some ([TyStr; TyStr], TyArr TyStr)
  else if String.eqb name "StringConcat" then Some ([TyArr TyStr], TyStr)
  else if String.eqb name "CidrMatch" then Some ([TyStr; TyStr], TyBool)
  else None.

Fixpoint map_o {A B} (f : A -> outcome B) (l : list A) : outcome (list B) :=
  match l with
  | [] => Ok []
  | x :: r => y <- f x ;; ys <- map_o f r ;; Ok (y :: ys)
  end.

(* resolve the callee of a Call *)
Definition callee (vo : env -> expr -> outcome value) (en : env) (f : expr) : outcome string :=
  match f with
  | ENat n => Ok n
  | EId _ => v <- vo en f ;; match v with VFn n => Ok n | _ => Err E_TYPE end
  | _ => Err E_TYPE
  end.

Definition as_int (v : value) : outcome Z := match v with VInt z => Ok z | _ => Err E_TYPE end.
Definition as_bool (v : value) : outcome bool := match v with VBool b => Ok b | _ => Err E_TYPE end.
Definition as_str (v : value) : outcome bytes := match v with VStr s => Ok s | _ => Err E_TYPE end.

(* index into a tuple: a literal far beyond the length must not become a unary number of that size when the model runs *)
Definition zidx {A} (l : list A) (i : Z) : nat := Z.to_nat (Z.min i (Z.of_nat (List.length l))).

(* Vec<Value>::get with negative indices counting from the end *)
Definition vec_get (l : list expr) (i : Z) : outcome expr :=
  let n := Z.of_nat (List.length l) in
  let j := if (0 <=? i)%Z then i else (n + i)%Z in
  if (0 <=? j)%Z && (j <? n)%Z then
    match nth_error l (Z.to_nat j) with Some e => Ok e | None => Err E_INDEX end
  else Err E_INDEX.

(* ---- the two mutually recursive judgements, on fuel ----------------------------------- *)

Fixpoint type_of (fuel : nat) (en : env) (e : expr) {struct fuel} : outcome ty :=
  match fuel with
  | O => Err E_FUEL
  | S f =>
    let real_type_of (en : env) (e : expr) : outcome ty :=
      t <- type_of f en e ;;
      match t with
      | TyThunk en' e' => type_of f en' e'
      | TyAddr _ => Ok TyStr
      | _ => Ok t
      end in
    match e with
    | EStr _ => Ok TyStr
    | EBool _ => Ok TyBool
    | EInt _ => Ok TyInt
    | ENat n => Ok (TyFn n)
    | EId x =>
      match lookup x en with
      | None => Err E_TYPE
      | Some (VThunk en' e') => Ok (TyThunk en' e')
      | Some (VFn n) => Ok (TyFn n)
      | Some VReq => Ok TyReq
      | Some _ => Err E_TYPE
      end
    | EArr [] => Ok (TyArr TyAny)
    | EArr (x :: r) =>
      t <- real_type_of en x ;;
      _ <- map_o (fun y => ty' <- real_type_of en y ;; if ty_eqb ty' t then Ok tt else Err E_TYPE) (x :: r) ;;
      Ok (TyArr t)
    | ETup l => ts <- map_o (type_of f en) l ;; Ok (TyTup ts)
    | ECall fe args =>
      name <- callee (value_of f) en fe ;;
      if String.eqb name "Index" then
        match args with
        | obj :: ix :: _ =>
          ti <- type_of f en ix ;;
          if negb (ty_eqb ti TyInt) then Err E_TYPE else
          to <- type_of f en obj ;;
          match to with TyArr t => Ok t | _ => Err E_TYPE end
        | _ => Panic 46
        end
      else if String.eqb name "Access" then
        match args with
        | obj :: ix :: _ =>
          to <- type_of f en obj ;;
          let tuple_case (tt : ty) : outcome ty :=
            match ix with
            | EInt i => match tt with
                        | TyTup ts => if (0 <=? i)%Z then
                                        match nth_error ts (zidx ts i) with Some t => Ok t | None => Err E_TYPE end
                                      else Err E_TYPE
                        | _ => Err E_TYPE
                        end
            | _ => Err E_TYPE
            end in
          match to with
          | TyReq => match ix with EId nm => req_field_type nm | _ => Err E_TYPE end
          | TyAddr _ => match ix with EId nm => addr_field_type nm | _ => Err E_TYPE end
          | TyThunk en' e' => tt <- type_of f en' e' ;; tuple_case tt
          | TyTup _ => tuple_case to
          | _ => Err E_TYPE
          end
        | _ => Panic 47
        end
      else if String.eqb name "If" then
        match args with
        | [c; y; n] =>
          tc <- type_of f en c ;; ty_ <- type_of f en y ;; tn <- type_of f en n ;;
          if negb (ty_eqb TyBool tc) then Err E_TYPE
          else if negb (ty_eqb ty_ tn) then Err E_TYPE else Ok ty_
        | c :: y :: n :: _ =>
          tc <- type_of f en c ;; ty_ <- type_of f en y ;; tn <- type_of f en n ;;
          _ <- map_o (type_of f en) (skipn 3 args) ;;
          if negb (ty_eqb TyBool tc) then Err E_TYPE
          else if negb (ty_eqb ty_ tn) then Err E_TYPE else Ok ty_
        | _ => t <- map_o (type_of f en) args ;; Panic 48
        end
      else if String.eqb name "Scope" then
        match args with
        | vars :: body :: _ => fr <- scope_frame vars ;; type_of f (fr :: en) body
        | _ => Panic 49
        end
      else if String.eqb name "IsMemberOf" then
        match args with
        | a :: ary :: rest =>
          ta <- type_of f en a ;; tary <- type_of f en ary ;;
          _ <- map_o (type_of f en) rest ;;
          match tary with
          | TyArr t => if ty_eqb ta t then Ok TyBool else Err E_TYPE
          | _ => Err E_TYPE
          end
        | _ => t <- map_o (type_of f en) args ;; Panic 50
        end
      else if is_cmp_op name then
        match args with
        | [a; b] =>
          ta <- real_type_of en a ;; tb <- real_type_of en b ;;
          match ta, tb with
          | TyInt, TyInt | TyStr, TyStr | TyBool, TyBool => Ok TyBool
          | _, _ => Err E_TYPE
          end
        | _ => Err E_TYPE
        end
      else
        match fn_sig name with
        | None => Err E_TYPE
        | Some (ats, rt) =>
          if negb (List.length args =? List.length ats)%nat then Err E_TYPE else
          ts <- map_o (real_type_of en) args ;;
          if forallb (fun p => ty_eqb (fst p) (snd p)) (combine ts ats) then Ok rt else Err E_TYPE
        end
    end
  end

with value_of (fuel : nat) (en : env) (e : expr) {struct fuel} : outcome value :=
  match fuel with
  | O => Err E_FUEL
  | S f =>
    let real_value_of (en : env) (e : expr) : outcome value :=
      v <- value_of f en e ;;
      match v with
      | VThunk en' e' => value_of f en' e'
      | VAddr a => Ok (VStr (a_text a))
      | _ => Ok v
      end in
    match e with
    | EInt z => Ok (VInt z)
    | EBool b => Ok (VBool b)
    | EStr s => Ok (VStr s)
    | EArr l => Ok (VArr l)
    | ETup l => Ok (VTup l)
    | ENat n => Ok (VFn n)
    | EId x => match lookup x en with Some v => Ok v | None => Err E_TYPE end
    | ECall fe args =>
      name <- callee (value_of f) en fe ;;
      if String.eqb name "Index" then
        match args with
        | obj :: ix :: _ =>
          vi <- value_of f en ix ;; i <- as_int vi ;;
          vo <- value_of f en obj ;;
          match vo with
          | VArr l => el <- vec_get l i ;; value_of f en el
          | _ => Err E_TYPE
          end
        | _ => Panic 51
        end
      else if String.eqb name "Access" then
        match args with
        | obj :: ix :: _ =>
          vo <- value_of f en obj ;;
          let tuple_case (tv : value) : outcome value :=
            match ix with
            | EInt i => match tv with
                        | VTup l => if (0 <=? i)%Z then
                                      match nth_error l (zidx l i) with Some el => value_of f en el | None => Err E_TYPE end
                                    else Err E_TYPE
                        | _ => Err E_TYPE
                        end
            | _ => Err E_TYPE
            end in
          match vo with
          | VReq => match ix with EId nm => req_field nm | _ => Err E_TYPE end
          | VAddr a => match ix with EId nm => addr_field a nm | _ => Err E_TYPE end
          | VThunk en' e' => tv <- value_of f en' e' ;; tuple_case tv
          | VTup _ => tuple_case vo
          | _ => Err E_TYPE
          end
        | _ => Panic 52
        end
      else if String.eqb name "If" then
        match args with
        | c :: y :: n :: _ =>
          vc <- value_of f en c ;; b <- as_bool vc ;;
          if b then value_of f en y else value_of f en n
        | [c; _] | [c] => vc <- value_of f en c ;; b <- as_bool vc ;; Panic 53
        | [] => Panic 53
        end
      else if String.eqb name "Scope" then
        match args with
        | vars :: body :: _ => fr <- scope_frame vars ;; value_of f (fr :: en) body
        | _ => Panic 54
        end
      else if String.eqb name "IsMemberOf" then
        match args with
        | a :: ary :: _ =>
          va <- real_value_of en a ;; vary <- real_value_of en ary ;;
          match vary with
          | VArr l =>
            (fix go (l : list expr) : outcome value :=
               match l with
               | [] => Ok (VBool false)
               | x :: r => vx <- value_of f en x ;; if value_eqb vx va then Ok (VBool true) else go r
               end) l
          | _ => Err E_TYPE
          end
        | _ => Panic 55
        end
      else if is_cmp_op name then
        match args with
        | [a; b] => va <- real_value_of en a ;; vb <- real_value_of en b ;; cmp_values name va vb
        | _ => Err E_TYPE
        end
      else
        match fn_sig name with
        | None => Err E_TYPE
        | Some (ats, _) =>
          if negb (List.length args =? List.length ats)%nat then Err E_TYPE else
          if String.eqb name "And" then
            match args with
            | [a; b] => va <- real_value_of en a ;; x <- as_bool va ;;
                        if x then vb <- real_value_of en b ;; y <- as_bool vb ;; Ok (VBool y) else Ok (VBool false)
            | _ => Err E_TYPE
            end
          else if String.eqb name "Or" then
            match args with
            | [a; b] => va <- real_value_of en a ;; x <- as_bool va ;;
                        if x then Ok (VBool true) else vb <- real_value_of en b ;; y <- as_bool vb ;; Ok (VBool y)
            | _ => Err E_TYPE
            end
          else if String.eqb name "Xor" then
            match args with
            | [a; b] => va <- real_value_of en a ;; x <- as_bool va ;;
                        vb <- real_value_of en b ;; y <- as_bool vb ;; Ok (VBool (xorb x y))
            | _ => Err E_TYPE
            end
          else
            vs <- map_o (real_value_of en) args ;;
            match vs with
            | [a] =>
              if String.eqb name "Not" then x <- as_bool a ;; Ok (VBool (negb x))
              else if String.eqb name "BitNot" then x <- as_int a ;; Ok (VInt (- x - 1))
              else if String.eqb name "Negative" then x <- as_int a ;; chk (- x)
              else if String.eqb name "ToString" then Ok (VStr (display_value a))
              else if String.eqb name "ToInteger" then
                s <- as_str a ;; match parse_i64 s with Some z => Ok (VInt z) | None => Err E_PARSE end
              else if String.eqb name "StringConcat" then
                match a with
                | VArr l =>
                  (fix go (l : list expr) (acc : bytes) : outcome value :=
                     match l with
                     | [] => Ok (VStr acc)
                     | x :: r => vx <- real_value_of en x ;; s <- as_str vx ;; go r (acc ++ s)
                     end) l []
                | _ => Err E_TYPE
                end
              else Panic 56
            | [a; b] =>
              if is_int_op name then x <- as_int a ;; y <- as_int b ;; int_op name x y
              else if String.eqb name "Like" || String.eqb name "NotLike" then
                s <- as_str a ;; p <- as_str b ;;
                match regex_match p s with
                | Some m => Ok (VBool (if String.eqb name "Like" then m else negb m))
                | None => Err E_REGEX
                end
              else if String.eqb name "Split" then
                s <- as_str a ;; d <- as_str b ;; Ok (VArr (map EStr (split_str s d)))
              else if String.eqb name "CidrMatch" then
                ip <- as_str a ;; c <- as_str b ;; Ok (VBool (cidr_match_text ip c))
              else Panic 57
            | _ => Panic 58
            end
        end
    end
  end.

Definition real_type_of (fuel : nat) (en : env) (e : expr) : outcome ty :=
  t <- type_of fuel en e ;;
  match t with
  | TyThunk en' e' => type_of fuel en' e'
  | TyAddr _ => Ok TyStr
  | _ => Ok t
  end.

Definition real_value_of (fuel : nat) (en : env) (e : expr) : outcome value :=
  v <- value_of fuel en e ;;
  match v with
  | VThunk en' e' => value_of fuel en' e'
  | VAddr a => Ok (VStr (a_text a))
  | _ => Ok v
  end.

End Eval.
