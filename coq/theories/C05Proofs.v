(* No decoder fed by a peer can panic (property C05): crash-freedom of every reader program,
   totality of the buffer decoders, and the panic-site inventory fingerprint. *)
From RP Require Import Base Stream StreamProofs Target Socks Http Frames Frag FragProofs CodecProofs C03Proofs.
From RP Require PanicSites.
From RP.Gen Require Gen_panics Gen_profile.

(* ---- reader programs ------------------------------------------------------------------ *)

Inductive crashfree {A} : rp A -> Prop :=
| cf_ret a : crashfree (Ret a)
| cf_fail e : crashfree (Fail e)
| cf_u8 k : (forall b, crashfree (k b)) -> crashfree (ReadU8 k)
| cf_exact n k : (forall bs, crashfree (k bs)) -> crashfree (ReadExact n k)
| cf_until d k : (forall bs fd, crashfree (k bs fd)) -> crashfree (ReadUntil d k)
| cf_write bs k : crashfree k -> crashfree (Write bs k).

Lemma crashfree_bind {A B} (p : rp A) (f : A -> rp B) :
  crashfree p -> (forall a, crashfree (f a)) -> crashfree (rbind p f).
Proof. intros Hp Hf. induction Hp; cbn [rbind]; try constructor; auto. Qed.

Definition not_panic {A} (r : res A) : Prop := match r with RPanic _ => False | _ => True end.

Theorem crashfree_run_whole {A} (p : rp A) : crashfree p -> forall s,
  not_panic (fst (fst (run_whole p s))).
Proof.
  induction 1 as [a|e|k Hk IH|n k Hk IH|d k Hk IH|bs k Hk IH]; intros s; cbn [run_whole].
  - exact I.
  - exact I.
  - destruct s; [exact I|apply IH].
  - destruct (n <=? length s)%nat; [apply IH|exact I].
  - destruct (split_until d s) as [[p' r]|]; apply IH.
  - specialize (IH s). destruct (run_whole k s) as [[r rest] w]. exact IH.
Qed.

(* and for the operational interpreter: any segmentation, any content, any point of EOF *)
Theorem crashfree_run_chunked {A} (p : rp A) : crashfree p -> forall cs, wf_chunks cs ->
  not_panic (fst (fst (run_chunked p ([], cs)))).
Proof.
  intros Hp cs Hwf. pose proof (chunking_irrelevant p ([], cs) Hwf) as H.
  pose proof (crashfree_run_whole p Hp (flat ([], cs))) as Hw.
  destruct (run_chunked p ([], cs)) as [[r1 s1] w1].
  destruct (run_whole p (flat ([], cs))) as [[r2 rest2] w2].
  destruct H as (-> & _). exact Hw.
Qed.

Ltac cf_step :=
  first
    [ apply crashfree_bind | apply cf_ret | apply cf_fail | apply cf_u8
    | apply cf_exact | apply cf_until | apply cf_write | intro
    | match goal with |- crashfree (if ?c then _ else _) => destruct c end
    | match goal with |- crashfree (match ?x with _ => _ end) => destruct x end ].
Ltac cf_tac := repeat cf_step.

Lemma cf_read_u8 : crashfree read_u8. Proof. unfold read_u8; cf_tac. Qed.
Lemma cf_read_exact n : crashfree (read_exact n). Proof. unfold read_exact; cf_tac. Qed.
Lemma cf_read_u16 : crashfree read_u16. Proof. unfold read_u16; cf_tac. Qed.
Lemma cf_read_u32 : crashfree read_u32. Proof. unfold read_u32; cf_tac. Qed.
#[export] Hint Resolve cf_read_u8 cf_read_exact cf_read_u16 cf_read_u32 : cf.

Lemma cf_rls : crashfree read_length_and_string.
Proof. unfold read_length_and_string. cf_tac; auto with cf. Qed.
Lemma cf_rnts : crashfree read_null_terminated_string.
Proof. unfold read_null_terminated_string. cf_tac. Qed.
#[export] Hint Resolve cf_rls cf_rnts : cf.

Lemma cf_auth_v5_server m : crashfree (auth_v5_server m).
Proof. unfold auth_v5_server. cf_tac; auto with cf. Qed.
Lemma cf_read_addr_v5 : crashfree read_addr_v5.
Proof. unfold read_addr_v5. cf_tac; auto with cf. Qed.
#[export] Hint Resolve cf_auth_v5_server cf_read_addr_v5 : cf.

Theorem cf_read_request required : crashfree (read_request required).
Proof.
  unfold read_request, read_req_v4, read_req_v5. cf_tac; auto with cf.
Qed.

Theorem cf_read_response : crashfree read_response.
Proof. unfold read_response. cf_tac; auto with cf. Qed.

Lemma cf_read_line : crashfree read_line.
Proof. unfold read_line. cf_tac. Qed.
#[export] Hint Resolve cf_read_line : cf.

Lemma cf_read_headers fuel : forall acc, crashfree (read_headers fuel acc).
Proof.
  induction fuel as [|f IH]; intros acc; cbn [read_headers]; [constructor|].
  apply crashfree_bind; [auto with cf|]. intros l.
  destruct (trim_end l); [constructor|].
  destruct (split_once_colon_sp _); [|constructor].
  destruct (MAX_HEADERS <=? len acc); [constructor|apply IH].
Qed.

Theorem cf_read_http_request fuel : crashfree (read_http_request fuel).
Proof.
  unfold read_http_request. apply crashfree_bind; [auto with cf|]. intros l.
  destruct (split_ascii_whitespace _) as [|m [|r [|v [|]]]]; try constructor.
  destruct (starts_with _ _); [|constructor].
  apply crashfree_bind; [apply cf_read_headers|]. intros; constructor.
Qed.

Theorem cf_read_http_response fuel : crashfree (read_http_response fuel).
Proof.
  unfold read_http_response. apply crashfree_bind; [auto with cf|]. intros l.
  destruct (splitn3 _) as [|v [|c [|s [|]]]]; try constructor.
  destruct (starts_with _ _); [|constructor].
  destruct (parse_u16 c); [|constructor].
  apply crashfree_bind; [apply cf_read_headers|]. intros; constructor.
Qed.

Theorem cf_read_connect parse_sockaddr fuel : crashfree (read_connect parse_sockaddr fuel).
Proof.
  unfold read_connect. apply crashfree_bind; [apply cf_read_http_request|]. intros q.
  destruct (parse_target _ _); constructor.
Qed.

(* the connector side of SOCKS5 reads the upstream's replies: whatever the upstream sends, the
   client program does not crash (the unwrap on the credentials is unreachable: method 2 is
   only accepted when it was offered, and it is only offered with credentials) *)
Lemma addr_v5_not_panic t : t <> TUnknown -> forall s, addr_v5 t <> Panic s.
Proof.
  intros Ht s. destruct t; cbn [addr_v5]; try discriminate; try congruence.
  destruct (255 <? len host); discriminate.
Qed.

Lemma cf_addr_tail cmd t : t <> TUnknown ->
  crashfree (match addr_v5 t with
             | Ok a => Write ([5; cmd; 0] ++ a) (Ret tt)
             | Err e => Fail e
             | Panic s => Crash s
             end).
Proof.
  intros Ht. pose proof (addr_v5_not_panic t Ht) as Hn.
  destruct (addr_v5 t) as [a|e|s]; [repeat constructor|constructor|exfalso; eapply Hn; reflexivity].
Qed.

Theorem cf_write_req_v5 cmd t auth : t <> TUnknown -> crashfree (write_req_v5 cmd t auth).
Proof.
  intros Ht. unfold write_req_v5. apply cf_write.
  apply crashfree_bind; [auto with cf|]. intros _v.
  apply crashfree_bind; [auto with cf|]. intros pm.
  destruct auth as [[u p]|]; cbn [client_methods].
  - destruct (negb (contains pm [0; 2])); [constructor|].
    apply crashfree_bind; [|intros; apply cf_addr_tail; exact Ht].
    unfold auth_v5_client. destruct (pm =? 0); [constructor|].
    destruct (pm =? 2); [|constructor].
    destruct ((255 <? len u) || (255 <? len p)); [constructor|].
    apply cf_write. apply crashfree_bind; [auto with cf|]. intros _x.
    apply crashfree_bind; [auto with cf|]. intros r. destruct (r =? 0); constructor.
  - destruct (N.eqb_spec pm 0) as [->|Hne].
    + cbn [contains existsb N.eqb orb negb].
      apply crashfree_bind; [|intros; apply cf_addr_tail; exact Ht].
      unfold auth_v5_client. cbn [N.eqb]. constructor.
    + assert (Hc : contains pm [0] = false).
      { unfold contains. cbn [existsb]. destruct (N.eqb_spec pm 0); [contradiction|reflexivity]. }
      rewrite Hc. cbn [negb]. constructor.
Qed.

Theorem socks_client_never_panics cmd t auth : t <> TUnknown -> forall s,
  not_panic (fst (fst (run_whole (write_req_v5 cmd t auth) s))).
Proof. intros Ht. apply crashfree_run_whole. apply cf_write_req_v5. exact Ht. Qed.

(* ---- buffer decoders ------------------------------------------------------------------ *)

Theorem decode_address_never_panics buf : is_panic (decode_address buf) = false.
Proof.
  unfold decode_address. destruct buf as [|b0 r]; [reflexivity|].
  repeat match goal with |- is_panic (if ?c then _ else _) = false => destruct c end; reflexivity.
Qed.

Theorem from_buffer_never_panics buf : is_panic (from_buffer buf) = false.
Proof.
  unfold from_buffer.
  repeat match goal with |- is_panic (if ?c then _ else _) = false => destruct c; try reflexivity end.
  pose proof (decode_address_never_panics
    (firstn (N.to_nat (get_u16 (skipn 8 buf))) (skipn 12 buf))) as H.
  destruct (decode_address _); cbn [obind is_panic] in *; congruence.
Qed.

Theorem decode_udp_never_panics b : is_panic (decode_udp b) = false.
Proof.
  unfold decode_udp.
  repeat match goal with
         | |- is_panic (if ?c then _ else _) = false => destruct c; try reflexivity
         | |- is_panic (match ?x with _ => _ end) = false => destruct x; try reflexivity
         end.
Qed.

Lemma read_head_never_panics buf : is_panic (read_head buf) = false.
Proof. unfold read_head. destruct (len buf <? 12); [reflexivity|]. destruct (negb _); reflexivity. Qed.

Theorem sfr_read_never_panics : forall cs rem, is_panic (fst (fst (sfr_read rem cs))) = false.
Proof.
  induction cs as [|c cs IH]; intros rem; cbn [sfr_read].
  - pose proof (read_head_never_panics rem) as H.
    destruct (read_head rem) as [[n|]| |]; cbn [fst is_panic] in *; try congruence.
    destruct (n <=? len rem); [|reflexivity].
    pose proof (from_buffer_never_panics (firstn (N.to_nat n) rem)) as H2.
    destruct (from_buffer _); cbn [fst is_panic] in *; congruence.
  - pose proof (read_head_never_panics rem) as H.
    destruct (read_head rem) as [[n|]| |]; cbn [fst is_panic] in *; try congruence.
    + destruct (n <=? len rem).
      * pose proof (from_buffer_never_panics (firstn (N.to_nat n) rem)) as H2.
        destruct (from_buffer _); cbn [fst is_panic] in *; congruence.
      * destruct c; [reflexivity|apply IH].
    + destruct c; [reflexivity|apply IH].
Qed.

(* ---- inventory fingerprint ------------------------------------------------------------ *)

(* The set of potential panic sites in the peer-facing files is exactly the audited one. *)
Theorem sites_fingerprint : map fst PanicSites.expected = Gen_panics.sites.
Proof. vm_compute. reflexivity. Qed.

(* Premise recorded from Cargo.toml: the shipped binary aborts on panic, so every panic is a
   process death; and release arithmetic does not trap. *)
Theorem profile_premise :
  Gen_profile.release_panic_aborts = true /\ Gen_profile.release_overflow_checks = false.
Proof. split; reflexivity. Qed.
