From RP Require Import Base Idle.
From RP.Gen Require Gen_startup.
From Coq Require Import Lia.

Lemma elapsed_le lr now : elapsed lr now = now - lr.
Proof.
  unfold elapsed. destruct (N.leb_spec lr now) as [H|H]; [reflexivity|].
  change Gen_startup.elapsed_saturates with true. cbn iota. lia.
Qed.

Lemma is_timeout_spec P lr now : is_timeout P lr now = true <-> P <> 0 /\ P * 1000 < now - lr.
Proof.
  unfold is_timeout. rewrite elapsed_le. destruct (N.eqb_spec P 0) as [->|Hp].
  - split; [discriminate|intros [H _]; congruence].
  - rewrite N.ltb_lt. tauto.
Qed.

(* a tunnel is never closed for idleness while either direction has carried data within the period -
   whatever the wall clock does *)
Theorem never_closed_while_active P lc ls now :
  idle_close P lc ls now = true -> P <> 0 /\ P * 1000 < now - lc /\ P * 1000 < now - ls.
Proof.
  unfold idle_close. rewrite andb_true_iff, !is_timeout_spec. tauto.
Qed.

Theorem active_is_not_closed P lc ls now :
  now - lc <= P * 1000 \/ now - ls <= P * 1000 -> idle_close P lc ls now = false.
Proof.
  intros H. destruct (idle_close P lc ls now) eqn:E; [|reflexivity].
  apply never_closed_while_active in E. lia.
Qed.

Lemma idle_close_iff P lc ls t : P <> 0 ->
  idle_close P lc ls t = true <-> N.max lc ls + P * 1000 < t.
Proof.
  intros Hp. unfold idle_close. rewrite andb_true_iff, !is_timeout_spec. lia.
Qed.

Theorem zero_disables lc ls ticks : closed_at 0 lc ls ticks = None.
Proof. induction ticks as [|t r IH]; [reflexivity|]. cbn [closed_at]. unfold idle_close, is_timeout. cbn. exact IH. Qed.

(* ticks arrive at most G ms apart, starting from t0 *)
Fixpoint gaps_le (G prev : N) (ticks : list N) : Prop :=
  match ticks with
  | [] => True
  | t :: r => prev <= t /\ t <= prev + G /\ gaps_le G t r
  end.

(* a silent tunnel is closed at the first tick after the period has passed, hence within the period plus the
   tick granularity *)
Theorem closes_within P lc ls G : P <> 0 -> forall ticks t0,
  N.max lc ls <= t0 -> t0 <= N.max lc ls + P * 1000 -> gaps_le G t0 ticks ->
  (exists t, In t ticks /\ N.max lc ls + P * 1000 < t) ->
  exists t, closed_at P lc ls ticks = Some t /\ N.max lc ls + P * 1000 < t /\ t <= N.max lc ls + P * 1000 + G.
Proof.
  intros Hp. induction ticks as [|t r IH]; intros t0 HL Hu Hg [w [Hin Hw]]; [destruct Hin|].
  cbn [gaps_le] in Hg. destruct Hg as (H1 & H2 & Hg). cbn [closed_at].
  destruct (idle_close P lc ls t) eqn:E.
  - exists t. apply idle_close_iff in E; [|exact Hp]. repeat split; [exact E|lia].
  - assert (Ht : t <= N.max lc ls + P * 1000).
    { destruct (N.le_gt_cases t (N.max lc ls + P * 1000)) as [H|H]; [exact H|].
      apply (idle_close_iff P lc ls t Hp) in H. congruence. }
    apply (IH t); [lia|exact Ht|exact Hg|].
    destruct Hin as [<-|Hin]; [lia|]. exists w. auto.
Qed.

(* and not before: whatever the ticks *)
Theorem not_closed_early P lc ls ticks t : closed_at P lc ls ticks = Some t ->
  P <> 0 /\ N.max lc ls + P * 1000 < t.
Proof.
  induction ticks as [|x r IH]; [discriminate|]. cbn [closed_at].
  destruct (idle_close P lc ls x) eqn:E; [|exact IH].
  intros H; inversion H; subst x. apply never_closed_while_active in E. lia.
Qed.

(* the configured period is the one a TCP tunnel runs with *)
Theorem configured_period_is_used v : tcp_period (Some v) = v /\ udp_period (Some v) = v.
Proof. split; reflexivity. Qed.
Theorem default_period : tcp_period None = 600 /\ udp_period None = 600.
Proof. split; reflexivity. Qed.

Example idle_example :
  closed_at 2 1000 1500 [2000; 3000; 3500; 4000; 5000] = Some 4000 /\ gaps_le 1000 1500 [2000; 3000; 3500; 4000; 5000].
Proof. split; [reflexivity|]. cbn; lia. Qed.
