(* Expected inventory of potential panic sites with the reason each one cannot be reached by
   peer-controlled data.  Written by hand (tools/gen_panicsites.py holds the rules); compared
   with the inventory regenerated from the source on every run (Gen/Gen_panics.v).
   Disposition letters: M = mapped to a Panic outcome of the model and proved unreachable (theorem
   named); G = guarded by an explicit check just before; I = internal invariant of the call
   order; L = local/library fact independent of peer data; S = start-up / constant only;
   R = resource exhaustion (recorded finding). *)
From Coq Require Import String List.
Import ListNotations.
Local Open Scope string_scope.

Definition expected : list (string * string) := [
  ("src/common/fragment.rs::reassemble::split_to#1", "M FragProofs.reassemble_safe: length >= 4 is checked before split_to/get_*");
  ("src/common/fragment.rs::reassemble::get_u16#1", "M FragProofs.reassemble_safe: length >= 4 is checked before split_to/get_*");
  ("src/common/fragment.rs::reassemble::get_u8#1", "M FragProofs.reassemble_safe: length >= 4 is checked before split_to/get_*");
  ("src/common/fragment.rs::reassemble::get_u8#2", "M FragProofs.reassemble_safe: length >= 4 is checked before split_to/get_*");
  ("src/common/fragment.rs::timer::unwrap#1", "M pop_front runs partition_point times over the same deque; HashMap::remove does not panic");
  ("src/common/fragment.rs::timer::remove#1", "M pop_front runs partition_point times over the same deque; HashMap::remove does not panic");
  ("src/common/fragment.rs::new::assert!#1", "L mtu is the local QUIC transport's max_datagram_size (>= 1200 - overhead), not peer data; model site 5");
  ("src/common/fragment.rs::new::as_u8#1", "M truncation of total modelled (mod 256); C11_fragments_cover states the bound");
  ("src/common/fragment.rs::next::advance_mut#1", "M sender side: data_len = min(remaining, mtu-4) bounds advance_mut / copy_to_slice / buf[4..]");
  ("src/common/fragment.rs::next::copy_to_slice#1", "M sender side: data_len = min(remaining, mtu-4) bounds advance_mut / copy_to_slice / buf[4..]");
  ("src/common/fragment.rs::next::index#1", "M sender side: data_len = min(remaining, mtu-4) bounds advance_mut / copy_to_slice / buf[4..]");
  ("src/common/fragment.rs::new::shl#1", "M FragProofs.reassemble_safe: total in 1..127 and seq < total are checked before the bitmap shifts and the fragments[] accesses");
  ("src/common/fragment.rs::new::shl#2", "M FragProofs.reassemble_safe: total in 1..127 and seq < total are checked before the bitmap shifts and the fragments[] accesses");
  ("src/common/fragment.rs::new::index#1", "M FragProofs.reassemble_safe: total in 1..127 and seq < total are checked before the bitmap shifts and the fragments[] accesses");
  ("src/common/fragment.rs::add_fragment::shl#1", "M FragProofs.reassemble_safe: total in 1..127 and seq < total are checked before the bitmap shifts and the fragments[] accesses");
  ("src/common/fragment.rs::add_fragment::shl#2", "M FragProofs.reassemble_safe: total in 1..127 and seq < total are checked before the bitmap shifts and the fragments[] accesses");
  ("src/common/fragment.rs::add_fragment::index#1", "M FragProofs.reassemble_safe: total in 1..127 and seq < total are checked before the bitmap shifts and the fragments[] accesses");
  ("src/common/fragment.rs::assemble::index#1", "M FragProofs.reassemble_safe: total in 1..127 and seq < total are checked before the bitmap shifts and the fragments[] accesses");
  ("src/common/frames.rs::recv_from::truncate#1", "L size returned by recv_from is at most the buffer length");
  ("src/common/frames.rs::read_head::get_u32#1", "G remaining() >= 12 is checked first (Frames.read_head)");
  ("src/common/frames.rs::read_head::get_u32#2", "G remaining() >= 12 is checked first (Frames.read_head)");
  ("src/common/frames.rs::read_head::get_u16#1", "G remaining() >= 12 is checked first (Frames.read_head)");
  ("src/common/frames.rs::read_head::get_u16#2", "G remaining() >= 12 is checked first (Frames.read_head)");
  ("src/common/frames.rs::from_buffer::index#1", "M C05_from_buffer_never_panics: len >= 12 and len >= 12+attr+body are checked before the cursor operations");
  ("src/common/frames.rs::from_buffer::get_u32#1", "M C05_from_buffer_never_panics: len >= 12 and len >= 12+attr+body are checked before the cursor operations");
  ("src/common/frames.rs::from_buffer::get_u32#2", "M C05_from_buffer_never_panics: len >= 12 and len >= 12+attr+body are checked before the cursor operations");
  ("src/common/frames.rs::from_buffer::get_u16#1", "M C05_from_buffer_never_panics: len >= 12 and len >= 12+attr+body are checked before the cursor operations");
  ("src/common/frames.rs::from_buffer::get_u16#2", "M C05_from_buffer_never_panics: len >= 12 and len >= 12+attr+body are checked before the cursor operations");
  ("src/common/frames.rs::from_buffer::advance#1", "M C05_from_buffer_never_panics: len >= 12 and len >= 12+attr+body are checked before the cursor operations");
  ("src/common/frames.rs::from_buffer::split_to#1", "M C05_from_buffer_never_panics: len >= 12 and len >= 12+attr+body are checked before the cursor operations");
  ("src/common/frames.rs::from_buffer::split_to#2", "M C05_from_buffer_never_panics: len >= 12 and len >= 12+attr+body are checked before the cursor operations");
  ("src/common/frames.rs::make_header::split_off#1", "L 12 <= the constant capacity 1024");
  ("src/common/frames.rs::make_header::as_u16#1", "G Frame::check_encodable bounds both lengths (Frames.encodable)");
  ("src/common/frames.rs::make_header::as_u16#2", "G Frame::check_encodable bounds both lengths (Frames.encodable)");
  ("src/common/frames.rs::read::index#1", "M Frames.sfr_read: split_to(ret) only when len >= ret; remaining is Some by construction; set_len follows reserve; truncate(len) with len <= 65536; from_buffer error is propagated");
  ("src/common/frames.rs::read::split_to#1", "M Frames.sfr_read: split_to(ret) only when len >= ret; remaining is Some by construction; set_len follows reserve; truncate(len) with len <= 65536; from_buffer error is propagated");
  ("src/common/frames.rs::read::unwrap#1", "M Frames.sfr_read: split_to(ret) only when len >= ret; remaining is Some by construction; set_len follows reserve; truncate(len) with len <= 65536; from_buffer error is propagated");
  ("src/common/frames.rs::read::set_len#1", "M Frames.sfr_read: split_to(ret) only when len >= ret; remaining is Some by construction; set_len follows reserve; truncate(len) with len <= 65536; from_buffer error is propagated");
  ("src/common/frames.rs::read::truncate#1", "M Frames.sfr_read: split_to(ret) only when len >= ret; remaining is Some by construction; set_len follows reserve; truncate(len) with len <= 65536; from_buffer error is propagated");
  ("src/common/frames.rs::decode_address::get_u8#1", "M C05_decode_address_never_panics: len >= 2 and len <= remaining are checked before the cursor operations");
  ("src/common/frames.rs::decode_address::get_u8#2", "M C05_decode_address_never_panics: len >= 2 and len <= remaining are checked before the cursor operations");
  ("src/common/frames.rs::decode_address::split_to#1", "M C05_decode_address_never_panics: len >= 2 and len <= remaining are checked before the cursor operations");
  ("src/common/frames.rs::decode_address::get_u16#1", "M C05_decode_address_never_panics: len >= 2 and len <= remaining are checked before the cursor operations");
  ("src/common/frames.rs::decode_address::get_u32#1", "M C05_decode_address_never_panics: len >= 2 and len <= remaining are checked before the cursor operations");
  ("src/common/frames.rs::decode_address::get_u16#2", "M C05_decode_address_never_panics: len >= 2 and len <= remaining are checked before the cursor operations");
  ("src/common/frames.rs::decode_address::copy_to_slice#1", "M C05_decode_address_never_panics: len >= 2 and len <= remaining are checked before the cursor operations");
  ("src/common/frames.rs::decode_address::get_u16#3", "M C05_decode_address_never_panics: len >= 2 and len <= remaining are checked before the cursor operations");
  ("src/common/frames.rs::encode_address::unwrap#1", "G addr.is_none() returns first");
  ("src/common/frames.rs::encode_address::as_u8#1", "G Frame::check_encodable bounds the host length");
  ("src/common/quic.rs::create_quic_server::unwrap#1", "S constant Duration -> IdleTimeout conversion at start-up");
  ("src/common/quic.rs::create_quic_client::unwrap#1", "S constant Duration -> IdleTimeout conversion at start-up");
  ("src/common/quic.rs::write::unwrap#1", "G mtu.is_none() returns first");
  ("src/common/quic.rs::quic_frames_thread::unwrap#1", "G is_err()/is_none() are tested first");
  ("src/common/quic.rs::quic_frames_thread::unwrap#2", "G is_err()/is_none() are tested first");
  ("src/common/quic.rs::quic_frames_thread::remove#1", "L CHashMap::remove does not panic");
  ("src/common/h11c.rs::h11c_connect::unwrap#1", "I extra(udp-bind-source) is set together with Feature::UdpBind in h11c_handshake, the only place that sets that feature");
  ("src/common/h11c.rs::h11c_handshake_request::unwrap#1", "I the listener installs the client stream before calling the handshake");
  ("src/common/h11c.rs::on_connect::unwrap#1", "I the client stream is still owned by the context at on_connect (copy_bidi takes it later)");
  ("src/common/h11c.rs::on_error::unwrap#1", "G socket.is_none() returns first");
  ("src/common/h11c.rs::on_error::unwrap#2", "G socket.is_none() returns first");
  ("src/common/http.rs::read_from::index#1", "G a.len() == 3 is tested first (Http.read_http_request / read_http_response)");
  ("src/common/http.rs::read_from::index#2", "G a.len() == 3 is tested first (Http.read_http_request / read_http_response)");
  ("src/common/http.rs::read_from::index#3", "G a.len() == 3 is tested first (Http.read_http_request / read_http_response)");
  ("src/common/http.rs::read_from::index#4", "G a.len() == 3 is tested first (Http.read_http_request / read_http_response)");
  ("src/common/http.rs::read_from::index#5", "G a.len() == 3 is tested first (Http.read_http_request / read_http_response)");
  ("src/common/http.rs::read_from::index#6", "G a.len() == 3 is tested first (Http.read_http_request / read_http_response)");
  ("src/common/http.rs::read_from::index#7", "G a.len() == 3 is tested first (Http.read_http_request / read_http_response)");
  ("src/common/http.rs::read_from::index#8", "G a.len() == 3 is tested first (Http.read_http_request / read_http_response)");
  ("src/common/socks.rs::read_v5::unwrap#1", "G method.is_none() bails first");
  ("src/common/socks.rs::write_v4::index#1", "L slice of the fixed 4-byte octet array");
  ("src/common/socks.rs::write_v4::unreachable!#1", "I TargetAddress::Unknown never reaches a connector: every listener sets the target before enqueue (model: Panic 20/21/23 under TUnknown only)");
  ("src/common/socks.rs::write_v5::as_u8#1", "G lengths above 255 bail first (Socks.addr_v5); methods has at most 2 entries");
  ("src/common/socks.rs::write_v5::insert0#1", "L Vec::insert(0, _) cannot be out of bounds");
  ("src/common/socks.rs::write_v5::as_u8#2", "G lengths above 255 bail first (Socks.addr_v5); methods has at most 2 entries");
  ("src/common/socks.rs::write_v5::unreachable!#1", "I TargetAddress::Unknown never reaches a connector: every listener sets the target before enqueue (model: Panic 20/21/23 under TUnknown only)");
  ("src/common/socks.rs::auth_v5::unwrap#1", "M C05_socks_client_never_panics: method 2 is only offered, hence only accepted, when credentials are present");
  ("src/common/socks.rs::auth_v5::as_u8#1", "G lengths above 255 bail first");
  ("src/common/socks.rs::auth_v5::as_u8#2", "G lengths above 255 bail first");
  ("src/common/socks.rs::write_v4::unreachable!#2", "I TargetAddress::Unknown never reaches a connector: every listener sets the target before enqueue (model: Panic 20/21/23 under TUnknown only)");
  ("src/common/socks.rs::write_v5::as_u8#3", "G lengths above 255 bail first (Socks.addr_v5); methods has at most 2 entries");
  ("src/common/socks.rs::write_v5::unreachable!#2", "I TargetAddress::Unknown never reaches a connector: every listener sets the target before enqueue (model: Panic 20/21/23 under TUnknown only)");
  ("src/common/socks.rs::decode_socks_frame::get_u8#1", "M C05_decode_udp_never_panics: every cursor operation is preceded by a length check");
  ("src/common/socks.rs::decode_socks_frame::get_u8#2", "M C05_decode_udp_never_panics: every cursor operation is preceded by a length check");
  ("src/common/socks.rs::decode_socks_frame::get_u8#3", "M C05_decode_udp_never_panics: every cursor operation is preceded by a length check");
  ("src/common/socks.rs::decode_socks_frame::get_u8#4", "M C05_decode_udp_never_panics: every cursor operation is preceded by a length check");
  ("src/common/socks.rs::decode_socks_frame::get_u32#1", "M C05_decode_udp_never_panics: every cursor operation is preceded by a length check");
  ("src/common/socks.rs::decode_socks_frame::get_u16#1", "M C05_decode_udp_never_panics: every cursor operation is preceded by a length check");
  ("src/common/socks.rs::decode_socks_frame::copy_to_slice#1", "M C05_decode_udp_never_panics: every cursor operation is preceded by a length check");
  ("src/common/socks.rs::decode_socks_frame::get_u16#2", "M C05_decode_udp_never_panics: every cursor operation is preceded by a length check");
  ("src/common/socks.rs::decode_socks_frame::get_u8#5", "M C05_decode_udp_never_panics: every cursor operation is preceded by a length check");
  ("src/common/socks.rs::decode_socks_frame::split_to#1", "M C05_decode_udp_never_panics: every cursor operation is preceded by a length check");
  ("src/common/socks.rs::decode_socks_frame::get_u16#3", "M C05_decode_udp_never_panics: every cursor operation is preceded by a length check");
  ("src/common/socks.rs::encode_socks_frame::as_u8#1", "G lengths above 255 return an error first");
  ("src/common/udp.rs::udp_socket::unwrap#1", "L address family of a SocketAddr is always known");
  ("src/listeners/socks.rs::on_connect::unwrap#1", "I the client stream is installed before the context is enqueued");
  ("src/listeners/socks.rs::on_error::unwrap#1", "S constant address literal");
  ("src/listeners/socks.rs::on_error::unwrap#2", "G socket.is_none() returns first");
  ("src/listeners/reverse.rs::on_error::remove#1", "L map removal does not panic");
  ("src/listeners/reverse.rs::on_finish::remove#1", "L map removal does not panic");
  ("src/listeners/quic.rs::listen::unwrap#1", "S start-up (endpoint creation)");
  ("src/listeners/quic.rs::listen::panic!#1", "S start-up (endpoint creation)");
  ("src/copy.rs::<top>::unwrap#1", "S metric registration at first use");
  ("src/copy.rs::<top>::unwrap#2", "S metric registration at first use");
  ("src/copy.rs::into_owned_fd::unwrap#1", "G has_raw_fd() is tested by the caller");
  ("src/copy.rs::into_owned_fd::unwrap#2", "L deregistration of a live socket");
  ("src/copy.rs::read::unreachable!#1", "G NullFn is only installed when have_rawfd is false, and then never called");
  ("src/copy.rs::write::unreachable!#1", "G NullFn is only installed when have_rawfd is false, and then never called");
  ("src/copy.rs::shutdown::unreachable!#1", "G NullFn is only installed when have_rawfd is false, and then never called");
  ("src/copy.rs::shutdown::unwrap#1", "G each select arm is enabled only when both halves of that kind are present (have_stream / have_frames)");
  ("src/copy.rs::shutdown::unwrap#2", "G each select arm is enabled only when both halves of that kind are present (have_stream / have_frames)");
  ("src/copy.rs::shutdown::unwrap#3", "G each select arm is enabled only when both halves of that kind are present (have_stream / have_frames)");
  ("src/copy.rs::shutdown::unwrap#4", "G each select arm is enabled only when both halves of that kind are present (have_stream / have_frames)");
  ("src/copy.rs::shutdown::index#1", "L len returned by read is at most the buffer length");
  ("src/copy.rs::shutdown::unwrap#5", "G each select arm is enabled only when both halves of that kind are present (have_stream / have_frames)");
  ("src/copy.rs::shutdown::unwrap#6", "G each select arm is enabled only when both halves of that kind are present (have_stream / have_frames)");
  ("src/copy.rs::shutdown::unwrap#7", "G each select arm is enabled only when both halves of that kind are present (have_stream / have_frames)");
  ("src/copy.rs::copy_bidi::unwrap#1", "I process_request sets the connector name before copy_bidi")
].
