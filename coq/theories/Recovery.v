(* Recovery after an upstream outage (property C19): connectors that dial per request (direct, http, socks) and the
   QUIC connector with its cached connection (get_connection / clear_connection, src/connectors/quic.rs; transport
   parameters of src/common/quic.rs).  Time is in seconds. *)
From RP Require Import Base.
From RP.Gen Require Gen_quic.

(* ---- the upstream, as the environment decides ------------------------------------------------ *)
(* an upstream incarnation: the upstream process is up from `born` until `died` (None: still up) *)
Record incarnation := mk_inc { born : N; died : option N }.
Definition up_at (i : incarnation) (t : N) : bool :=
  (born i <=? t) && match died i with Some d => t <? d | None => true end.

(* ---- connectors that dial per request --------------------------------------------------------- *)
Inductive verdict := Served | Failed | Hangs.
Definition stateless_request (upstream_up : bool) : verdict := if upstream_up then Served else Failed.

(* ---- the QUIC connector ------------------------------------------------------------------------ *)
(* the cache holds the incarnation the connection was made to.  A connection whose peer died is closed by the
   transport when nothing has been received for the idle timeout; keep-alives are sent more often than that, so a
   live peer keeps answering and a live connection is never closed for idleness. *)
Definition IDLE : N := Gen_quic.client_idle_timeout_s.

Record qstate := mk_q { cache : option incarnation }.

(* has the transport closed the cached connection by time t? *)
Definition conn_closed (c : incarnation) (t : N) : bool :=
  match died c with Some d => d + IDLE <=? t | None => false end.

(* one request at time t; `now_up`: the incarnation that is up at t, if any *)
Definition qrequest (s : qstate) (t : N) (now_up : option incarnation) : qstate * verdict :=
  match cache s with
  | None =>
      match now_up with
      | Some i => (mk_q (Some i), Served)            (* create_connection succeeds, request served *)
      | None => (mk_q None, Failed)                   (* connect fails: "quic connect" *)
      end
  | Some c =>
      if up_at c t then (s, Served)
      else if conn_closed c t then (mk_q None, Failed)        (* open_bi fails with a quic: error -> clear_connection *)
      else (s, Hangs)                                         (* peer gone, transport has not noticed yet *)
  end.
