From RP Require Import Base Target MiluSyntax MiluParser MiluDoc.
From RP.Gen Require Import Gen_ladder.
From Coq Require Import String.

Lemma singles_ok : forallb check_single (no_dot doc_binary) = true.
Proof. vm_compute. reflexivity. Qed.

Lemma pairs_ok : forallb (fun d1 => forallb (check_pair d1) (no_dot doc_binary)) (no_dot doc_binary) = true.
Proof. vm_compute. reflexivity. Qed.

Lemma pairs_with_access_ok : forallb (fun d1 => forallb (fun d2 => check_pair d1 d2 && check_pair d2 d1) doc_binary) (filter (fun d => String.eqb (snd (fst d)) ".") doc_binary) = true.
Proof. vm_compute. reflexivity. Qed.

Lemma triples_ok :
  let r := reps (no_dot doc_binary) [] in
  forallb (fun d1 => forallb (fun d2 => forallb (check_triple d1 d2) r) r) r = true.
Proof. vm_compute. reflexivity. Qed.

Lemma unary_ok : forallb (fun u => forallb (check_unary u) (no_dot doc_binary)) doc_unary = true.
Proof. vm_compute. reflexivity. Qed.

Lemma unary_chain_ok : forallb (fun u1 => forallb (check_unary_chain u1) doc_unary) doc_unary = true.
Proof. vm_compute. reflexivity. Qed.

Lemma postfix_ok : forallb check_postfix (no_dot doc_binary) && check_postfix_chain = true.
Proof. vm_compute. reflexivity. Qed.

Lemma level0_ok : forallb check_level0 (no_dot doc_binary) && check_level0_nest = true.
Proof. vm_compute. reflexivity. Qed.

Lemma tags_ordered_ok : forallb (fun l => ordered_ok (lv_tags l)) levels = true.
Proof. vm_compute. reflexivity. Qed.

Lemma tags_cross_ok : forallb cross_ok levels = true.
Proof. vm_compute. reflexivity. Qed.

Lemma tags_mapped_ok : every_tag_mapped = true.
Proof. vm_compute. reflexivity. Qed.

Lemma documented_present_ok : documented_present = true.
Proof. vm_compute. reflexivity. Qed.

Lemma fillers_ok : forallb (fun f => forallb (check_filler f) (no_dot doc_binary)) fillers = true.
Proof. vm_compute. reflexivity. Qed.
