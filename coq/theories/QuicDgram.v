(* The QUIC datagram hop (property C10): QuicFrameWriter::write on the sending side and quic_frames_thread on the
   receiving side (src/common/quic.rs), on top of the fragmenter / reassembler of Frag.v and the RPFM frame codec of
   Frames.v.

   Sender.  Every UDP session that is carried as QUIC datagrams has its own QuicFrameWriter; all the writers of a
   connection send into that one connection.  A write stamps the frame with the writer's session id, checks that it
   can be encoded, takes a fragment id, splits the encoded frame into datagrams of at most max_datagram_size bytes
   (make_fragments) and hands them to the connection one after the other.  Nothing orders the datagrams of
   different writers: they interleave arbitrarily, and QUIC datagrams may be reordered.

   Receiver.  One task per connection (quic_frames_thread) owns ONE reassembly table (Fragments<Frame>) for all the
   sessions of the connection; what comes out of it is sent to the session whose id the frame carries.  The table is
   keyed by the fragment id alone - so whether two frames can be told apart depends on how the writers choose ids.

   Fragment ids.  `shared = true`: one counter for all the writers (fix c86bb78; read from the source by the
   translator, Gen_udp.quic_fragment_ids_shared_by_all_writers).  `shared = false`: every writer counts from 0 (the
   code before the fix). *)
From RP Require Import Base Target Frames Frag.
From RP.Gen Require Gen_udp.

(* frame.session_id = self.session_id *)
Definition stamp (sid : N) (f : frame) : frame := mk_frame (f_addr f) sid (f_body f).

(* <Frame as Fragmentable>::from_buffer = Frame::from_buffer(buf).ok() *)
Definition frame_of_buffer (b : bytes) : option frame :=
  match from_buffer b with Ok f => Some f | _ => None end.

(* one write: (session id of the writer, frame) *)
Definition wr := (N * frame)%type.

(* how many of the writes in `before` came from session sid *)
Definition earlier (sid : N) (before : list wr) : N :=
  len (filter (fun w => fst w =? sid) before).

(* the fragment id of a write, given the writes that took their id before it *)
Definition write_id (shared : bool) (start : N) (before : list wr) (sid : N) : N :=
  if shared then (start + len before) mod 65536 else earlier sid before mod 65536.

Fixpoint ids_from (shared : bool) (start : N) (before ws : list wr) : list N :=
  match ws with
  | [] => []
  | w :: rest => write_id shared start before (fst w) :: ids_from shared start (before ++ [w]) rest
  end.
Definition ids_of (shared : bool) (start : N) (ws : list wr) : list N := ids_from shared start [] ws.

(* QuicFrameWriter::write behind the max_datagram_size test: the datagrams handed to the connection *)
Definition send_one (ovf : bool) (mtu id sid : N) (f : frame) : outcome (list bytes) :=
  buf <- encode_frame (stamp sid f) ;;
  r <- make_fragments ovf mtu id buf ;;
  Ok (snd r).

Fixpoint send_all (ovf : bool) (mtu : N) (ids : list N) (ws : list wr) : outcome (list (list bytes)) :=
  match ids, ws with
  | id :: ids', (sid, f) :: ws' =>
      frs <- send_one ovf mtu id sid f ;;
      rest <- send_all ovf mtu ids' ws' ;;
      Ok (frs :: rest)
  | _, _ => Ok []
  end.

(* what the connection delivers: the datagram (write k, fragment i) for every entry of a schedule *)
Definition wire_of (sent : list (list bytes)) (sched : list (nat * nat)) : list bytes :=
  map (fun ki => nth (snd ki) (nth (fst ki) sent []) []) sched.

(* a schedule without loss and without duplication: every fragment of every write exactly once, in any order *)
Definition in_range (sent : list (list bytes)) (ki : nat * nat) : Prop :=
  (fst ki < length sent)%nat /\ (snd ki < length (nth (fst ki) sent []))%nat.
Definition complete (sent : list (list bytes)) (sched : list (nat * nat)) : Prop :=
  NoDup sched /\ Forall (in_range sent) sched /\ forall ki, in_range sent ki -> In ki sched.

(* quic_frames_thread: every datagram goes through the one table; a frame that comes out is sent to its session.
   (The table's timer only discards entries older than 5 s - C11_timer_discards_all; here every fragment arrives.) *)
Fixpoint recv_wire (ovf : bool) (timeout now : N) (st : fstate) (wire : list bytes)
  : list (outcome (option frame)) :=
  match wire with
  | [] => []
  | d :: rest =>
      let '(st', o) := reassemble frame frame_of_buffer ovf now timeout st d in
      o :: recv_wire ovf timeout (now + 1) st' rest
  end.

Definition delivered (outs : list (outcome (option frame))) : list frame :=
  flat_map (fun o => match o with Ok (Some f) => [f] | _ => [] end) outs.

(* what session sid is handed, in order *)
Definition handed_to (sid : N) (outs : list (outcome (option frame))) : list frame :=
  filter (fun f => f_sid f =? sid) (delivered outs).

(* ---- the demultiplexing loop and the per-session queues -------------------------------------------------------- *)
(* quic_frames_thread hands every frame that comes out of the table to the bounded queue of its session
   (create_quic_frames: channel(cap)); the session's relay task takes frames out at its own pace.
   `waits = false`: try_send - a frame for a full queue is dropped (fix 6fd5f9f; read from the source by the translator,
   Gen_udp.quic_demux_never_waits_for_a_session).  `waits = true`: send().await - the loop itself stops until that
   session takes a frame (the code before the fix). *)
Inductive dop := Deliver (f : frame) | Take (sid : N).

Definition queues := list (N * list frame).          (* registered sessions with their queue contents, oldest first *)

Inductive dres := Went (q : queues) (handed : list frame) | Stuck.

(* one event.  handed = the frame a Take gives to its session's relay (at most one) *)
Definition dstep (waits : bool) (cap : nat) (q : queues) (op : dop) : dres :=
  match op with
  | Deliver f =>
      match alookup (f_sid f) q with
      | None => Went q []                                      (* no such session: the frame is dropped *)
      | Some l =>
          if Nat.ltb (length l) cap then Went (ainsert (f_sid f) (l ++ [f]) q) []
          else if waits then Stuck else Went q []
      end
  | Take sid =>
      match alookup sid q with
      | Some (f :: l) => Went (ainsert sid l q) [f]
      | _ => Went q []
      end
  end.

(* a run: what every session is handed, in order; with `waits` the run ends where the loop gets stuck *)
Fixpoint drun (waits : bool) (cap : nat) (q : queues) (ops : list dop) : list frame :=
  match ops with
  | [] => []
  | op :: rest =>
      match dstep waits cap q op with
      | Went q' h => h ++ drun waits cap q' rest
      | Stuck => []
      end
  end.

Definition concerns (sid : N) (op : dop) : bool :=
  match op with Deliver f => f_sid f =? sid | Take s => s =? sid end.

(* ---- UDP frames inline on a stream (HTTP CONNECT udp, QUIC bi-stream): StreamFrameWriter / StreamFrameReader --------- *)
(* the writer puts the encoded frames one after the other on the stream; a frame that cannot be encoded is an error *)
Fixpoint encode_all (fs : list frame) : outcome bytes :=
  match fs with
  | [] => Ok []
  | f :: rest => e <- encode_frame f ;; r <- encode_all rest ;; Ok (e ++ r)
  end.
