(* Model of src/common/http.rs (request / response head reader and writer) and of the
   TargetAddress text form used on the CONNECT line (src/context.rs Display / FromStr). *)
From RP Require Import Base Stream Target.

Definition E_EOF : N := 40.
Definition E_BADREQ : N := 41.
Definition E_BADRESP : N := 42.
Definition E_BADHDR_LINE : N := 43.
Definition E_LINE_UTF8 : N := 44.
Definition E_CODE : N := 45.
Definition E_FUEL : N := 46.
Definition E_TARGET : N := 47.
Definition E_UNSAFE_HOST : N := 48.

(* u8::is_ascii_whitespace: space, \t, \n, \x0C, \r  (not \x0B) *)
Definition is_ascii_ws (b : N) : bool :=
  (b =? 32) || (b =? 9) || (b =? 10) || (b =? 12) || (b =? 13).

(* str::trim_end removes trailing chars with the Unicode White_Space property; on the reversed
   UTF-8 bytes of a valid string these are exactly the following patterns *)
Fixpoint trim_rev (r : bytes) : bytes :=
  match r with
  | [] => []
  | b :: r1 =>
    if (b =? 32) || ((9 <=? b) && (b <=? 13)) then trim_rev r1 else
    match r1 with
    | [] => r
    | c :: r2 =>
      if (c =? 194) && ((b =? 133) || (b =? 160)) then trim_rev r2 else
      match r2 with
      | [] => r
      | d :: r3 =>
        if (d =? 225) && (c =? 154) && (b =? 128) then trim_rev r3
        else if (d =? 226) && (c =? 128) && (((128 <=? b) && (b <=? 138)) || (b =? 168) || (b =? 169) || (b =? 175)) then trim_rev r3
        else if (d =? 226) && (c =? 129) && (b =? 159) then trim_rev r3
        else if (d =? 227) && (c =? 128) && (b =? 128) then trim_rev r3
        else r
      end
    end
  end.
Definition trim_end (s : bytes) : bytes := frev (trim_rev (frev s)).

(* str::split_ascii_whitespace *)
Fixpoint split_ws_go (s cur : bytes) (acc : list bytes) : list bytes :=
  match s with
  | [] => frev (match cur with [] => acc | _ => frev cur :: acc end)
  | b :: r => if is_ascii_ws b
              then split_ws_go r [] (match cur with [] => acc | _ => frev cur :: acc end)
              else split_ws_go r (b :: cur) acc
  end.
Definition split_ascii_whitespace (s : bytes) : list bytes := split_ws_go s [] [].

Fixpoint starts_with (p s : bytes) : bool :=
  match p, s with
  | [], _ => true
  | a :: p', b :: s' => (a =? b) && starts_with p' s'
  | _, [] => false
  end.

Definition HTTP_SLASH : bytes := [72; 84; 84; 80; 47].

(* str::split_once(": ") *)
Fixpoint split_once_colon_sp (s : bytes) : option (bytes * bytes) :=
  match s with
  | [] => None
  | 58 :: 32 :: r => Some ([], r)
  | b :: r => match split_once_colon_sp r with Some (k, v) => Some (b :: k, v) | None => None end
  end.

(* str::splitn(3, ' ') *)
Fixpoint split_sp1 (s : bytes) : bytes * option bytes :=
  match s with
  | [] => ([], None)
  | 32 :: r => ([], Some r)
  | b :: r => let '(h, t) := split_sp1 r in (b :: h, t)
  end.
Definition splitn3 (s : bytes) : list bytes :=
  let '(a, r1) := split_sp1 s in
  match r1 with
  | None => [a]
  | Some s1 => let '(b, r2) := split_sp1 s1 in
               match r2 with None => [a; b] | Some s2 => [a; b; s2] end
  end.

(* tokio read_line into a String, then the "0 bytes = EOF" test of http.rs *)
Definition MAX_LINE : N := 65536.
Definition MAX_HEADERS : N := 256.
Definition E_LINE_LONG : N := 49.
Definition E_MANY_HEADERS : N := 50.

(* read_line through take(MAX_LINE): a line (terminator included) longer than the limit is cut
   and therefore unterminated *)
Definition read_line : rp bytes :=
  ReadUntil 10 (fun bs found =>
    if MAX_LINE <? len bs then Fail E_LINE_LONG
    else if negb (utf8_valid bs) then Fail E_LINE_UTF8
    else if found then Ret bs else Fail E_EOF).

Definition header := (bytes * bytes)%type.

Fixpoint read_headers (fuel : nat) (acc : list header) : rp (list header) :=
  match fuel with
  | O => Fail E_FUEL
  | S f =>
      l <~ read_line ;;
      let l := trim_end l in
      match l with
      | [] => Ret (frev acc)
      | _ => match split_once_colon_sp l with
             | Some kv => if MAX_HEADERS <=? len acc then Fail E_MANY_HEADERS
                          else read_headers f (kv :: acc)
             | None => Fail E_BADHDR_LINE
             end
      end
  end.

Record http_req := mk_hreq { hq_method : bytes; hq_resource : bytes; hq_version : bytes; hq_headers : list header }.
Record http_resp := mk_hresp { hp_version : bytes; hp_code : N; hp_status : bytes; hp_headers : list header }.

Definition read_http_request (fuel : nat) : rp http_req :=
  l <~ read_line ;;
  match split_ascii_whitespace (trim_end l) with
  | [m; r; v] => if starts_with HTTP_SLASH v
                 then hs <~ read_headers fuel [] ;; Ret (mk_hreq m r v hs)
                 else Fail E_BADREQ
  | _ => Fail E_BADREQ
  end.

Definition read_http_response (fuel : nat) : rp http_resp :=
  l <~ read_line ;;
  match splitn3 (trim_end l) with
  | [v; c; s] => if starts_with HTTP_SLASH v
                 then match parse_u16 c with
                      | Some code => hs <~ read_headers fuel [] ;; Ret (mk_hresp v code s hs)
                      | None => Fail E_CODE
                      end
                 else Fail E_BADRESP
  | _ => Fail E_BADRESP
  end.

Definition CRLF : bytes := [13; 10].
Definition write_headers (hs : list header) : bytes :=
  concat (map (fun kv => fst kv ++ [58; 32] ++ snd kv ++ CRLF) hs) ++ CRLF.
Definition write_http_request (q : http_req) : bytes :=
  hq_method q ++ [32] ++ hq_resource q ++ [32] ++ hq_version q ++ CRLF ++ write_headers (hq_headers q).
Definition write_http_response (p : http_resp) : bytes :=
  hp_version p ++ [32] ++ dec (hp_code p) ++ [32] ++ hp_status p ++ CRLF ++ write_headers (hp_headers p).

(* with_header drops empty values *)
Definition with_header (k v : bytes) (hs : list header) : list header :=
  match v with [] => hs | _ => hs ++ [(k, v)] end.

(* ---- the CONNECT line ----------------------------------------------------------------- *)

Section Connect.
(* std's text form of IP socket addresses: printing (Display for SocketAddr) and parsing
   (SocketAddr::from_str) are parameters; see the trusted base. *)
Variable print_sockaddr : target -> bytes.              (* used for TV4 / TV6 *)
Variable parse_sockaddr : bytes -> option target.       (* Some (TV4 ..) / Some (TV6 ..) *)

Definition print_target (t : target) : bytes :=
  match t with
  | TDomain h p => h ++ [58] ++ dec p
  | TUnknown => [117; 110; 107; 110; 111; 119; 110]
  | _ => print_sockaddr t
  end.

Definition parse_target (s : bytes) : option target :=
  match parse_sockaddr s with
  | Some t => Some t
  | None => match rsplit_last 58 s with
            | Some (h, p) => match parse_u16 p with Some port => Some (TDomain h port) | None => None end
            | None => None
            end
  end.

(* ---- header lookup (HttpRequest::header / HttpResponse::header) ------------------------ *)

Definition lower (b : N) : N := if (65 <=? b) && (b <=? 90) then b + 32 else b.
Fixpoint eq_ignore_ascii_case (a b : bytes) : bool :=
  match a, b with
  | [], [] => true
  | x :: a', y :: b' => (lower x =? lower y) && eq_ignore_ascii_case a' b'
  | _, _ => false
  end.
Fixpoint find_header (name : bytes) (hs : list header) (def : bytes) : bytes :=
  match hs with
  | [] => def
  | (k, v) :: r => if eq_ignore_ascii_case k name then v else find_header name r def
  end.

(* str::parse::<u32>() *)
Definition parse_u32 (s : bytes) : option N :=
  let s' := match s with 43 :: r => r | _ => s end in
  match parse_dec s' with
  | Some v => if v <=? 4294967295 then Some v else None
  | None => None
  end.

Definition SESSION_ID : bytes := [83; 101; 115; 115; 105; 111; 110; 45; 73; 100].
Definition PROXY_PROTOCOL : bytes := [80; 114; 111; 120; 121; 45; 80; 114; 111; 116; 111; 99; 111; 108].
Definition PROXY_CHANNEL : bytes := [80; 114; 111; 120; 121; 45; 67; 104; 97; 110; 110; 101; 108].
Definition UDP : bytes := [117; 100; 112].
Definition INLINE : bytes := [105; 110; 108; 105; 110; 101].
Definition E_UPSTREAM : N := 51.
Definition E_SESSION_ID : N := 52.

(* h11c_connect after the request is written: what the connector makes of the upstream's reply.
   TCP: established iff status 200.  UDP: additionally the Session-Id header must be a u32. *)
Definition connect_reply (udp : bool) (fuel : nat) : rp N :=
  p <~ read_http_response fuel ;;
  if negb (hp_code p =? 200) then Fail E_UPSTREAM else
  if udp then
    match parse_u32 (find_header SESSION_ID (hp_headers p) [48]) with
    | Some sid => Ret sid
    | None => Fail E_SESSION_ID
    end
  else Ret 0.

(* hosts the CONNECT line can carry: no ASCII control byte, space or DEL *)
Definition host_line_safe (h : bytes) : bool := forallb (fun b => (32 <? b) && negb (b =? 127)) h.
Definition target_line_safe (t : target) : bool :=
  match t with TDomain h _ => host_line_safe h | _ => true end.

Definition CONNECT : bytes := [67; 79; 78; 78; 69; 67; 84].
Definition HTTP11 : bytes := [72; 84; 84; 80; 47; 49; 46; 49].
Definition HOST : bytes := [72; 111; 115; 116].

(* h11c_connect, TCP case: the request written to the next hop, or a refusal *)
Definition write_connect (t : target) : outcome bytes :=
  if target_line_safe t then
    let r := print_target t in
    Ok (write_http_request (mk_hreq CONNECT r HTTP11 (with_header HOST r [])))
  else Err E_UNSAFE_HOST.

Definition write_connect_udp (t : target) : outcome bytes :=
  if target_line_safe t then
    let r := print_target t in
    Ok (write_http_request (mk_hreq CONNECT r HTTP11
          (with_header PROXY_CHANNEL INLINE (with_header PROXY_PROTOCOL UDP (with_header HOST r [])))))
  else Err E_UNSAFE_HOST.

(* h11c_handshake: the destination the next hop extracts *)
Definition read_connect (fuel : nat) : rp target :=
  q <~ read_http_request fuel ;;
  match parse_target (hq_resource q) with
  | Some t => Ret t
  | None => Fail E_TARGET
  end.
End Connect.

(* SocketAddrV4 text form, executable: "a.b.c.d:port" *)
Definition print_v4_sockaddr (ip port : N) : bytes := print_v4 ip ++ [58] ++ dec port.

(* Ipv4 octet: 1-3 digits, no leading zero unless "0", <= 255 *)
Definition parse_octet (s : bytes) : option N :=
  match s with
  | [] => None
  | 48 :: _ :: _ => None
  | _ => if 3 <? len s then None else
         match parse_dec s with Some v => if v <=? 255 then Some v else None | None => None end
  end.

Fixpoint split_on (c : N) (s cur : bytes) : list bytes :=
  match s with
  | [] => [frev cur]
  | b :: r => if b =? c then frev cur :: split_on c r [] else split_on c r (b :: cur)
  end.

(* port of a socket address: digits only (leading zeros allowed), value <= 65535 *)
Definition parse_port_strict (s : bytes) : option N :=
  match parse_dec s with
  | Some v => if v <=? 65535 then Some v else None
  | None => None
  end.

Definition parse_v4_sockaddr (s : bytes) : option target :=
  match rsplit_last 58 s with
  | Some (h, p) =>
      match split_on 46 h [] with
      | [a; b; c; d] =>
          match parse_octet a, parse_octet b, parse_octet c, parse_octet d, parse_port_strict p with
          | Some a, Some b, Some c, Some d, Some port =>
              Some (TV4 (((a * 256 + b) * 256 + c) * 256 + d) port)
          | _, _, _, _, _ => None
          end
      | _ => None
      end
  | None => None
  end.
