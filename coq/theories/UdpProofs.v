From RP Require Import Base Udp.
From RP.Gen Require Gen_udp.

Lemma accept_handed s d :
  u_handed (accept s d) = u_handed s ++ [d].
Proof.
  unfold accept. destruct d as [src payload]. destruct (memN src (u_sessions s)); cbn [u_handed]; [reflexivity|].
  change Gen_udp.reverse_first_datagram_forwarded with true. reflexivity.
Qed.

Lemma accept_all_handed_from s ds : u_handed (fold_left accept ds s) = u_handed s ++ ds.
Proof.
  revert s. induction ds as [|d ds IH]; intros s; cbn [fold_left]; [rewrite app_nil_r; reflexivity|].
  rewrite IH, accept_handed, <- app_assoc. reflexivity.
Qed.

(* every datagram - the first of a session included - is handed to a session exactly once, in order *)
Theorem every_datagram_handed_once ds : u_handed (accept_all ds) = ds.
Proof. unfold accept_all. rewrite accept_all_handed_from. reflexivity. Qed.

(* ... to the session of the client that sent it, and to no other: what session k has been handed is exactly what
   client k sent *)
Theorem session_isolation ds k : of_session k (u_handed (accept_all ds)) = of_session k ds.
Proof. rewrite every_datagram_handed_once. reflexivity. Qed.

Lemma of_session_other k j p l : k <> j -> of_session k (l ++ [(j, p)]) = of_session k l.
Proof.
  intros H. unfold of_session. rewrite filter_app, map_app. cbn [filter fst].
  destruct (N.eqb_spec j k) as [E|_]; [congruence|]. cbn. rewrite app_nil_r. reflexivity.
Qed.

(* a datagram of one client never changes what another client's session has been handed *)
Theorem other_sessions_unaffected ds j p k : k <> j ->
  of_session k (u_handed (accept_all (ds ++ [(j, p)]))) = of_session k (u_handed (accept_all ds)).
Proof. intros H. rewrite !every_datagram_handed_once. apply of_session_other. exact H. Qed.

(* one session per client address *)
Lemma accept_sessions_nodup s d : NoDup (u_sessions s) -> NoDup (u_sessions (accept s d)).
Proof.
  intros H. unfold accept. destruct d as [src payload]. destruct (memN src (u_sessions s)) eqn:E; cbn [u_sessions]; [exact H|].
  apply NoDup_rev in H. rewrite <- (rev_involutive (u_sessions s ++ [src])). apply NoDup_rev.
  rewrite rev_app_distr. cbn [rev app]. constructor; [|exact H].
  intros Hin. apply in_rev in Hin. unfold memN in E.
  assert (existsb (N.eqb src) (u_sessions s) = true) by (apply existsb_exists; exists src; split; [exact Hin|apply N.eqb_refl]).
  congruence.
Qed.

Theorem one_session_per_client ds : NoDup (u_sessions (accept_all ds)).
Proof.
  unfold accept_all. assert (G : forall s, NoDup (u_sessions s) -> NoDup (u_sessions (fold_left accept ds s))).
  { induction ds as [|d r IH]; intros s H; cbn [fold_left]; [exact H|]. apply IH, accept_sessions_nodup, H. }
  apply G. constructor.
Qed.

(* frames dispatched by session id: each session receives exactly the frames that carry its id, in order *)
Theorem dispatch_by_id sessions frames k : memN k sessions = true ->
  of_session k (dispatch sessions frames) = of_session k frames.
Proof.
  intros Hk. unfold of_session, dispatch. induction frames as [|[i p] r IH]; [reflexivity|].
  cbn [filter fst]. destruct (memN i sessions) eqn:Ei; cbn [filter fst].
  - destruct (N.eqb_spec i k); cbn [map snd]; rewrite IH; reflexivity.
  - destruct (N.eqb_spec i k) as [->|_]; [congruence|exact IH].
Qed.

Theorem dispatch_never_crosses sessions frames k : memN k sessions = false -> of_session k (dispatch sessions frames) = [].
Proof.
  intros Hk. unfold of_session, dispatch. induction frames as [|[i p] r IH]; [reflexivity|].
  cbn [filter fst]. destruct (memN i sessions) eqn:Ei; [|exact IH]. cbn [filter fst].
  destruct (N.eqb_spec i k) as [->|_]; [congruence|exact IH].
Qed.

(* before fix 00495ad: the datagram that opens a session was not handed to it *)
Definition accept_v0 (s : ustate) (d : N * bytes) : ustate :=
  let '(src, payload) := d in
  if memN src (u_sessions s) then mk_u (u_sessions s) (u_handed s ++ [(src, payload)])
  else mk_u (u_sessions s ++ [src]) (u_handed s).
Theorem first_datagram_lost_v0 : exists ds, u_handed (fold_left accept_v0 ds u_init) <> ds.
Proof. exists [(1, [7])]. cbn. discriminate. Qed.
