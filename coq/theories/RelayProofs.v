From RP Require Import Base Stream StreamProofs Relay.
From Coq Require Import Lia.
Local Open Scope nat_scope.

(* ---- the invariant of one direction ---------------------------------------------------- *)

Definition phase_ok (s : hstate) : Prop :=
  match h_phase s with
  | PRead => h_pipe s = [] /\ h_fin s = false
  | PWrite p => p = length (h_pipe s) /\ (0 < p)%nat /\ h_fin s = false
  | PDone => h_src s = [] /\ h_pipe s = [] /\ h_fin s = true
  end.

Definition Inv (input : bytes) (s : hstate) : Prop :=
  h_out s ++ h_pipe s ++ h_src s = input /\ phase_ok s.

Lemma inv_init input : Inv input (h_init input).
Proof. split; [reflexivity|]. split; reflexivity. Qed.

Lemma clamp_bounds hi n : (1 <= hi)%nat -> (1 <= clamp hi n <= hi)%nat.
Proof. unfold clamp. lia. Qed.

Lemma firstn_len_le {A} k (l : list A) : (k <= length l)%nat -> length (firstn k l) = k.
Proof. intros H. rewrite firstn_length. lia. Qed.

Lemma skipn_all_nil {A} (l : list A) : skipn (length l) l = [].
Proof. apply skipn_all. Qed.

Lemma hstep_inv m bufsz input s o : (0 < bufsz)%nat -> Inv input s -> Inv input (hstep m bufsz s o).
Proof.
  intros Hb [Hcat Hph]. unfold hstep. unfold phase_ok in Hph.
  destruct (h_phase s) as [|p|] eqn:Ep.
  - (* PRead *)
    destruct Hph as [Hpipe Hfin].
    destruct (h_src s) as [|b src'] eqn:Es.
    + split; cbn [h_out h_pipe h_src h_phase h_fin]; [rewrite Hpipe in *; exact Hcat|].
      unfold phase_ok; cbn [h_phase h_src h_pipe h_fin]. auto.
    + set (src := b :: src') in *.
      assert (Hlen : (1 <= Nat.min bufsz (length src))%nat) by (unfold src; cbn [length]; lia).
      pose proof (clamp_bounds (Nat.min bufsz (length src)) o Hlen) as Hk.
      set (k := clamp (Nat.min bufsz (length src)) o) in *.
      assert (Hk' : (k <= length src)%nat) by lia.
      destruct m.
      * split; cbn [h_out h_pipe h_src h_phase h_fin].
        -- rewrite Hpipe in *. cbn [app] in *. rewrite <- app_assoc, firstn_skipn. exact Hcat.
        -- unfold phase_ok; cbn [h_phase h_pipe h_fin]. auto.
      * split; cbn [h_out h_pipe h_src h_phase h_fin].
        -- rewrite Hpipe in *. cbn [app] in *. rewrite firstn_skipn. exact Hcat.
        -- unfold phase_ok; cbn [h_phase h_pipe h_fin]. rewrite Hpipe. cbn [app].
           rewrite (firstn_len_le k src Hk'). repeat split; lia.
  - (* PWrite *)
    destruct Hph as (Hp & Hpos & Hfin).
    assert (Hl : (1 <= length (h_pipe s))%nat) by lia.
    pose proof (clamp_bounds (length (h_pipe s)) o Hl) as Hj.
    set (j := clamp (length (h_pipe s)) o) in *.
    assert (Hm : length (firstn j (h_pipe s)) = j) by (apply firstn_len_le; lia).
    split; cbn [h_out h_pipe h_src h_phase h_fin].
    + rewrite <- app_assoc. rewrite (app_assoc (firstn j (h_pipe s))), firstn_skipn. exact Hcat.
    + rewrite Hm. unfold phase_ok.
      destruct (p - j)%nat as [|q] eqn:Eq; cbn [h_phase h_pipe h_fin].
      * split; [|reflexivity]. assert (j = length (h_pipe s)) by lia. subst j.
        match goal with H : clamp _ _ = _ |- _ => rewrite H end. apply skipn_all_nil.
      * rewrite skipn_length. repeat split; lia.
  - (* PDone *)
    split; [exact Hcat|]. unfold phase_ok. rewrite Ep. exact Hph.
Qed.

Lemma hrun_inv m bufsz input os : forall s, (0 < bufsz)%nat -> Inv input s -> Inv input (hrun m bufsz s os).
Proof.
  unfold hrun. induction os as [|o os IH]; intros s Hb Hi; cbn [fold_left]; [exact Hi|].
  apply IH; [exact Hb|]. apply hstep_inv; assumption.
Qed.

(* ---- consequences: in order, exactly once, nothing foreign, FIN after the last byte ---- *)

Theorem delivered_is_prefix m bufsz input os : (0 < bufsz)%nat ->
  exists rest, input = h_out (hrun m bufsz (h_init input) os) ++ rest.
Proof.
  intros Hb. destruct (hrun_inv m bufsz input os (h_init input) Hb (inv_init input)) as [Hcat _].
  eexists. symmetry. exact Hcat.
Qed.

Theorem fin_only_after_everything m bufsz input os : (0 < bufsz)%nat ->
  h_fin (hrun m bufsz (h_init input) os) = true -> h_out (hrun m bufsz (h_init input) os) = input.
Proof.
  intros Hb Hf. destruct (hrun_inv m bufsz input os (h_init input) Hb (inv_init input)) as [Hcat Hph].
  unfold phase_ok in Hph. destruct (h_phase _) as [|p|].
  - destruct Hph as [_ H]. congruence.
  - destruct Hph as (_ & _ & H). congruence.
  - destruct Hph as (Hs & Hp & _). rewrite Hs, Hp, !app_nil_r in Hcat. exact Hcat.
Qed.

Theorem done_means_delivered_and_fin m bufsz input os : (0 < bufsz)%nat ->
  h_phase (hrun m bufsz (h_init input) os) = PDone ->
  h_out (hrun m bufsz (h_init input) os) = input /\ h_fin (hrun m bufsz (h_init input) os) = true.
Proof.
  intros Hb Hd. destruct (hrun_inv m bufsz input os (h_init input) Hb (inv_init input)) as [Hcat Hph].
  unfold phase_ok in Hph. rewrite Hd in Hph. destruct Hph as (Hs & Hp & Hf).
  rewrite Hs, Hp, !app_nil_r in Hcat. auto.
Qed.

(* ---- progress: every sufficiently long run finishes ------------------------------------ *)

Definition mu (s : hstate) : nat :=
  match h_phase s with PDone => 0 | _ => 2 * length (h_src s) + length (h_pipe s) + 1 end.

Lemma hstep_progress m bufsz input s o : (0 < bufsz)%nat -> Inv input s -> h_phase s <> PDone ->
  (mu (hstep m bufsz s o) < mu s)%nat.
Proof.
  intros Hb [Hcat Hph] Hnd. unfold hstep, mu at 2. unfold phase_ok in Hph.
  destruct (h_phase s) as [|p|] eqn:Ep; [| |congruence].
  - destruct Hph as [Hpipe _]. destruct (h_src s) as [|b src'] eqn:Es.
    + unfold mu; cbn [h_phase]. lia.
    + set (src := b :: src') in *.
      assert (Hlen : (1 <= Nat.min bufsz (length src))%nat) by (unfold src; cbn [length]; lia).
      pose proof (clamp_bounds (Nat.min bufsz (length src)) o Hlen) as Hk.
      set (k := clamp (Nat.min bufsz (length src)) o) in *.
      destruct m; unfold mu; cbn [h_phase h_src h_pipe]; rewrite ?skipn_length, ?app_length, ?firstn_length, Hpipe; cbn [length]; lia.
  - destruct Hph as (Hp & Hpos & _).
    assert (Hl : (1 <= length (h_pipe s))%nat) by lia.
    pose proof (clamp_bounds (length (h_pipe s)) o Hl) as Hj.
    set (j := clamp (length (h_pipe s)) o) in *.
    unfold mu. destruct (p - length (firstn j (h_pipe s)))%nat; cbn [h_phase h_src h_pipe]; rewrite skipn_length; lia.
Qed.

Lemma hstep_done m bufsz s o : h_phase s = PDone -> hstep m bufsz s o = s.
Proof. intros H. unfold hstep. rewrite H. reflexivity. Qed.

Lemma hrun_finishes m bufsz input os : forall s, (0 < bufsz)%nat -> Inv input s -> (mu s <= length os)%nat ->
  h_phase (hrun m bufsz s os) = PDone.
Proof.
  unfold hrun. induction os as [|o os IH]; intros s Hb Hi Hm; cbn [fold_left length] in *.
  - unfold mu in Hm. destruct (h_phase s); try reflexivity; lia.
  - destruct (h_phase s) eqn:Ep.
    + apply IH; [exact Hb|apply hstep_inv; assumption|].
      assert (h_phase s <> PDone) by congruence.
      pose proof (hstep_progress m bufsz input s o Hb Hi H). lia.
    + apply IH; [exact Hb|apply hstep_inv; assumption|].
      assert (h_phase s <> PDone) by congruence.
      pose proof (hstep_progress m bufsz input s o Hb Hi H). lia.
    + rewrite hstep_done by exact Ep. apply IH; [exact Hb|exact Hi|].
      unfold mu. rewrite Ep. lia.
Qed.

(* every direction of every tunnel delivers exactly its input, then the end-of-stream mark, whatever the
   environment chooses, once it has been given enough steps *)
Theorem half_delivers_everything m bufsz input os : (0 < bufsz)%nat -> (2 * length input + 1 <= length os)%nat ->
  let s := hrun m bufsz (h_init input) os in
  h_phase s = PDone /\ h_out s = input /\ h_fin s = true.
Proof.
  intros Hb Hl s.
  assert (Hd : h_phase s = PDone).
  { apply (hrun_finishes m bufsz input); [exact Hb|apply inv_init|]. unfold mu, h_init; cbn [h_phase h_src h_pipe length]. lia. }
  split; [exact Hd|]. apply done_means_delivered_and_fin; assumption.
Qed.

(* C04: the two I/O modes are indistinguishable to the endpoints *)
Theorem modes_agree bufsz1 bufsz2 input os1 os2 : (0 < bufsz1)%nat -> (0 < bufsz2)%nat ->
  (2 * length input + 1 <= length os1)%nat -> (2 * length input + 1 <= length os2)%nat ->
  let a := hrun Buffered bufsz1 (h_init input) os1 in
  let b := hrun Splice bufsz2 (h_init input) os2 in
  h_out a = h_out b /\ h_fin a = h_fin b.
Proof.
  intros H1 H2 L1 L2 a b.
  destruct (half_delivers_everything Buffered bufsz1 input os1 H1 L1) as (_ & Ea & Fa).
  destruct (half_delivers_everything Splice bufsz2 input os2 H2 L2) as (_ & Eb & Fb).
  unfold a, b. rewrite Ea, Eb, Fa, Fb. auto.
Qed.

(* what fixes dd0dab2 and f9fc70e repaired: with one splice out per splice in, and no shutdown, a run can
   end with the tail of the stream still in the pipe and without end-of-stream mark *)
Theorem splice_v0_loses_tail : exists input bufsz os,
  let s := fold_left (hstep_v0 bufsz) os (h_init input) in
  h_phase s = PDone /\ h_out s <> input /\ h_fin s = false.
Proof.
  exists [1; 2; 3]%N, 3, [3; 1; 0]. cbn. repeat split; discriminate.
Qed.

(* ---- tunnels do not interfere ---------------------------------------------------------- *)

Definition TInv (inp : bytes * bytes) (t : tunnel) : Prop := Inv (fst inp) (t_c2s t) /\ Inv (snd inp) (t_s2c t).

Lemma update_nth_forall2 {A B} (R : A -> B -> Prop) (f : B -> B) :
  (forall a b, R a b -> R a (f b)) ->
  forall i l1 l2, Forall2 R l1 l2 -> Forall2 R l1 (update_nth i f l2).
Proof.
  intros Hf i l1 l2 H. revert i. induction H as [|a b l1 l2 Hab H IH]; intros i; [destruct i; constructor|].
  destruct i; cbn [update_nth]; constructor; auto.
Qed.

Theorem world_invariant m bufsz inputs sc : (0 < bufsz)%nat ->
  forall ts, Forall2 TInv inputs ts -> Forall2 TInv inputs (wrun m bufsz ts sc).
Proof.
  intros Hb. unfold wrun. induction sc as [|[[i dir] o] sc IH]; intros ts H; cbn [fold_left]; [exact H|].
  apply IH. unfold wstep. apply update_nth_forall2; [|exact H].
  intros inp t [H1 H2]. unfold tstep. destruct dir; split; cbn [t_c2s t_s2c]; try assumption; apply hstep_inv; assumption.
Qed.

Lemma init_world inputs : Forall2 TInv inputs (map (fun io => t_init (fst io) (snd io)) inputs).
Proof. induction inputs as [|[a b] r IH]; constructor; [split; apply inv_init|exact IH]. Qed.

(* whatever the interleaving of any number of tunnels: what each endpoint has received so far is a prefix of
   what its own peer sent, and an end-of-stream mark means it has received all of it *)
Theorem no_crosstalk m bufsz inputs sc i t inp : (0 < bufsz)%nat ->
  nth_error (wrun m bufsz (map (fun io => t_init (fst io) (snd io)) inputs) sc) i = Some t ->
  nth_error inputs i = Some inp ->
  (exists r, fst inp = h_out (t_c2s t) ++ r) /\ (exists r, snd inp = h_out (t_s2c t) ++ r) /\
  (h_fin (t_c2s t) = true -> h_out (t_c2s t) = fst inp) /\ (h_fin (t_s2c t) = true -> h_out (t_s2c t) = snd inp).
Proof.
  intros Hb Ht Hi.
  pose proof (world_invariant m bufsz inputs sc Hb _ (init_world inputs)) as H.
  assert (G : forall l1 l2 k, Forall2 TInv l1 l2 -> nth_error l2 k = Some t -> nth_error l1 k = Some inp -> TInv inp t).
  { intros l1 l2 k HF. revert k. induction HF as [|a b l1 l2 Hab HF IH]; intros [|k] H1 H2; cbn in *; try discriminate.
    - inversion H1; inversion H2; subst; exact Hab.
    - eauto. }
  destruct (G _ _ _ H Ht Hi) as [[Hc1 Hp1] [Hc2 Hp2]].
  assert (F : forall input s, h_out s ++ h_pipe s ++ h_src s = input -> phase_ok s -> h_fin s = true -> h_out s = input).
  { intros input s Hc Hp Hf. unfold phase_ok in Hp. destruct (h_phase s).
    - destruct Hp; congruence.
    - destruct Hp as (_ & _ & ?); congruence.
    - destruct Hp as (Hs & Hq & _). rewrite Hs, Hq, !app_nil_r in Hc. exact Hc. }
  repeat split.
  - eexists; symmetry; exact Hc1.
  - eexists; symmetry; exact Hc2.
  - apply F; assumption.
  - apply F; assumption.
Qed.

(* ---- nothing of the handshake enters the tunnel, nothing behind it is lost ------------- *)

(* For every handshake decoder (any reader program) and every segmentation of the client's bytes: what the
   tunnel starts from - the BufReader's read-ahead followed by the segments still in flight - is exactly what
   the same decoder leaves unread on the unsegmented input. *)
Theorem tunnel_starts_behind_handshake {A} (p : rp A) (segs : list bytes) : wf_chunks segs ->
  let '(r1, s1, _) := run_chunked p ([], segs) in
  let '(r2, rest, _) := run_whole p (concat segs) in
  r1 = r2 /\ tunnel_input s1 = rest.
Proof.
  intros Hwf. pose proof (chunking_irrelevant p ([], segs) Hwf) as H.
  destruct (run_chunked p ([], segs)) as [[r1 s1] w1]. cbn [flat fst snd app] in H.
  destruct (run_whole p (concat segs)) as [[r2 rest] w2].
  destruct H as (H1 & H2 & _). split; [exact H1|]. exact H2.
Qed.

(* end to end, client to origin: handshake in any segmentation, then the relay under any environment *)
Theorem origin_receives_exactly_the_payload {A} (p : rp A) (segs : list bytes) m bufsz os : wf_chunks segs ->
  (0 < bufsz)%nat ->
  let '(_, s1, _) := run_chunked p ([], segs) in
  let '(_, rest, _) := run_whole p (concat segs) in
  (2 * length rest + 1 <= length os)%nat ->
  h_out (hrun m bufsz (h_init (tunnel_input s1)) os) = rest.
Proof.
  intros Hwf Hb. pose proof (tunnel_starts_behind_handshake p segs Hwf) as H.
  destruct (run_chunked p ([], segs)) as [[r1 s1] w1]. destruct (run_whole p (concat segs)) as [[r2 rest] w2].
  destruct H as [_ H]. intros Hl. rewrite H.
  destruct (half_delivers_everything m bufsz rest os Hb Hl) as (_ & E & _). exact E.
Qed.

Example relay_example :
  let s := hrun Splice 4 (h_init [1; 2; 3; 4; 5; 6; 7]%N) [9; 1; 1; 5; 2; 2; 7; 1; 3; 3; 3; 3; 3; 3; 3] in
  h_out s = [1; 2; 3; 4; 5; 6; 7]%N /\ h_fin s = true.
Proof. vm_compute. auto. Qed.
