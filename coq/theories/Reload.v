(* Model of rule hot reload (GlobalState::set_rules via POST /api/rules) interleaved with
   requests: the state is the rule list in force (with the source texts it was built from, which
   is what GET /api/rules returns). *)
From RP Require Import Base Target MiluSyntax MiluParser MiluDoc MiluEval Dispatch.

Record rstate := mk_rstate { rs_rules : list rule; rs_srcs : list (bytes * option bytes) }.

Inductive rop :=
| RSet (srcs : list (bytes * option bytes))     (* POST /api/rules *)
| RIdentity                                     (* GET /api/rules, then POST the answer back *)
| RProbe (rq : request) (feature : N).          (* a request decided by process_request *)

Inductive rout := RoSet (ok : bool) | RoTrace (t : outcome trace).

Section Reload.
Variable parse_src : bytes -> pres expr.
Variable regex_match : bytes -> bytes -> option bool.
Variable cidr_match_text : bytes -> bytes -> bool.
Variable fuel : nat.
Variable rq0 : request.
Variable conns : list connector.

Definition do_set (st : rstate) (srcs : list (bytes * option bytes)) : rstate * rout :=
  match set_rules parse_src regex_match cidr_match_text fuel rq0 conns srcs with
  | Ok rs => (mk_rstate rs srcs, RoSet true)
  | _ => (st, RoSet false)
  end.

Definition rstep (st : rstate) (op : rop) : rstate * rout :=
  match op with
  | RSet srcs => do_set st srcs
  | RIdentity => do_set st (rs_srcs st)
  | RProbe rq feature => (st, RoTrace (process_request regex_match cidr_match_text fuel rq (rs_rules st) conns feature []))
  end.

Fixpoint rrun (st : rstate) (ops : list rop) : list rout :=
  match ops with
  | [] => []
  | op :: rest => let '(st', o) := rstep st op in o :: rrun st' rest
  end.

End Reload.
