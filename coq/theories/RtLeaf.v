(* Tag/token lemmas and leaf parsers (identifiers, decimal integers, failures on non-operands). *)
From RP Require Import Base Target MiluSyntax MiluParser MiluDoc RtBlank.
From Coq Require Import ZArith String Lia.

Ltac lit_cases c :=
  let p := fresh "p" in
  destruct c as [|p]; [|do 7 (try destruct p as [p|p|])].

(* a remaining input that is empty or begins with a space: what follows every printed token *)
Definition sep (r : bytes) : Prop := r = [] \/ exists r', r = 32 :: r'.

Lemma sep_nil : sep []. Proof. left; reflexivity. Qed.
Lemma sep_sp r : sep (32 :: r). Proof. right; eexists; reflexivity. Qed.
#[export] Hint Resolve sep_nil sep_sp : rt.

Definition nospace (t : bytes) : bool := forallb (fun a => negb (lower_b a =? 32)) t.

Lemma lower_b_32 a : (lower_b a =? 32) = false -> (a =? 32) = false.
Proof.
  intros H. destruct (N.eqb_spec a 32) as [->|]; [|reflexivity]. discriminate H.
Qed.

Lemma tag_sep t : nospace t = true -> forall tk r, sep r ->
  tag t (tk ++ r) = match tag t tk with Some rem => Some (rem ++ r) | None => None end.
Proof.
  induction t as [|a t IH]; intros Ht tk r Hr; [reflexivity|].
  cbn [nospace forallb] in Ht. apply andb_true_iff in Ht. destruct Ht as [Ha Ht].
  apply negb_true_iff in Ha. apply lower_b_32 in Ha.
  destruct tk as [|b tk].
  - cbn [app tag]. destruct Hr as [->|[r' ->]]; [reflexivity|]. cbn [tag]. rewrite Ha. reflexivity.
  - cbn [app tag]. destruct (a =? b); [|reflexivity]. apply IH; assumption.
Qed.

Lemma tag_nc_sep t : nospace t = true -> forall tk r, sep r ->
  tag_nc t (tk ++ r) = match tag_nc t tk with Some rem => Some (rem ++ r) | None => None end.
Proof.
  induction t as [|a t IH]; intros Ht tk r Hr; [reflexivity|].
  cbn [nospace forallb] in Ht. apply andb_true_iff in Ht. destruct Ht as [Ha Ht].
  apply negb_true_iff in Ha.
  destruct tk as [|b tk].
  - cbn [app tag_nc]. destruct Hr as [->|[r' ->]]; [reflexivity|]. cbn [tag_nc].
    change (lower_b 32) with 32. rewrite Ha. reflexivity.
  - cbn [app tag_nc]. destruct (lower_b a =? lower_b b); [|reflexivity]. apply IH; assumption.
Qed.

Lemma tag_length t : forall tk rem, tag t tk = Some rem -> (List.length t <= List.length tk)%nat.
Proof.
  induction t as [|a t IH]; intros tk rem H; [cbn; lia|].
  destruct tk as [|b tk]; [discriminate|]. cbn [tag] in H.
  destruct (a =? b); [|discriminate]. apply IH in H. cbn [List.length]. lia.
Qed.

Lemma tag_nc_length t : forall tk rem, tag_nc t tk = Some rem -> (List.length t <= List.length tk)%nat.
Proof.
  induction t as [|a t IH]; intros tk rem H; [cbn; lia|].
  destruct tk as [|b tk]; [discriminate|]. cbn [tag_nc] in H.
  destruct (lower_b a =? lower_b b); [|discriminate]. apply IH in H. cbn [List.length]. lia.
Qed.

Lemma firstn_app_le {A} n (a b : list A) : (n <= List.length a)%nat -> firstn n (a ++ b) = firstn n a.
Proof.
  intros H. rewrite firstn_app. replace (n - List.length a)%nat with 0%nat by lia.
  cbn [firstn]. apply app_nil_r.
Qed.

Lemma match_tags_sep tags :
  forallb (fun t => nospace (bytes_of_string (fst t))) tags = true -> forall tk r, sep r ->
  match_tags tags (tk ++ r) =
  match match_tags tags tk with Some (op, rem) => Some (op, rem ++ r) | None => None end.
Proof.
  induction tags as [|[t nc] tags IH]; intros Ht tk r Hr; [reflexivity|].
  cbn [forallb fst] in Ht. apply andb_true_iff in Ht. destruct Ht as [Ht Hts].
  cbn [match_tags]. destruct nc.
  - rewrite tag_nc_sep by assumption.
    destruct (tag_nc (bytes_of_string t) tk) as [rem|] eqn:E.
    + apply tag_nc_length in E. rewrite firstn_app_le by exact E. reflexivity.
    + apply IH; assumption.
  - rewrite tag_sep by assumption.
    destruct (tag (bytes_of_string t) tk) as [rem|] eqn:E.
    + apply tag_length in E. rewrite firstn_app_le by exact E. reflexivity.
    + apply IH; assumption.
Qed.

(* no tag begins with the character c (case-insensitively): the ordered choice fails *)
Definition head_free (c : N) (tags : list (string * bool)) : bool :=
  forallb (fun t => match bytes_of_string (fst t) with
                    | a :: _ => negb (lower_b a =? lower_b c)
                    | [] => false end) tags.

Lemma lower_neq a c : (lower_b a =? lower_b c) = false -> (a =? c) = false.
Proof.
  intros H. destruct (N.eqb_spec a c) as [->|]; [|reflexivity].
  rewrite N.eqb_refl in H. discriminate.
Qed.

Lemma match_tags_head_free tags c r : head_free c tags = true -> match_tags tags (c :: r) = None.
Proof.
  induction tags as [|[t nc] tags IH]; intros H; [reflexivity|].
  cbn [head_free forallb fst] in H. apply andb_true_iff in H. destruct H as [H1 H2].
  cbn [match_tags]. destruct (bytes_of_string t) as [|a t']; [discriminate|].
  apply negb_true_iff in H1.
  destruct nc; cbn [tag tag_nc].
  - rewrite H1. apply IH. exact H2.
  - rewrite (lower_neq _ _ H1). apply IH. exact H2.
Qed.

(* ---- leaf parsers ---------------------------------------------------------------------- *)

Lemma p_string_no c r : nonblank c r = true -> c <> 34 -> p_string (c :: r) = PErr.
Proof.
  intros Hb Hc. unfold p_string. rewrite skip_blank_nonblank by exact Hb.
  lit_cases c; try reflexivity. exfalso; apply Hc; reflexivity.
Qed.

Lemma p_boolean_no c r : nonblank c r = true -> c <> 116 -> c <> 102 -> p_boolean (c :: r) = PErr.
Proof.
  intros Hb H1 H2. unfold p_boolean. rewrite skip_blank_nonblank by exact Hb.
  cbn [tag].
  destruct (N.eqb_spec 116 c); [congruence|]. destruct (N.eqb_spec 102 c); [congruence|]. reflexivity.
Qed.

Lemma try_prefixed_no (c : N) (r : bytes) (k : N -> bytes -> pres expr) : c <> 48 ->
  match c :: r with 48 :: x :: r' => k x r' | _ => PErr end = PErr.
Proof.
  intros Hc. lit_cases c; try reflexivity. exfalso; apply Hc; reflexivity.
Qed.

Lemma p_integer_no c r : nonblank c r = true -> is_dec c = false -> p_integer (c :: r) = PErr.
Proof.
  intros Hb Hd. unfold p_integer. rewrite skip_blank_nonblank by exact Hb.
  assert (Hc : c <> 48) by (intros ->; discriminate Hd).
  rewrite !(try_prefixed_no c r (fun x r' => if lower_b x =? _ then _ else PErr)) by exact Hc.
  unfold p_radix. rewrite Hd. reflexivity.
Qed.

Lemma p_identifier_no c r : nonblank c r = true -> is_alpha c = false -> c <> 95 -> p_identifier (c :: r) = PErr.
Proof.
  intros Hb Ha Hc. unfold p_identifier. rewrite skip_blank_nonblank by exact Hb.
  rewrite Ha. destruct (N.eqb_spec c 95); [congruence|]. reflexivity.
Qed.

Lemma span_all (p : N -> bool) (a r : bytes) : forallb p a = true -> p 32 = false -> sep r ->
  span p (a ++ r) = (a, r).
Proof.
  intros Ha H32 Hr. induction a as [|b a IH].
  - cbn [app]. destruct Hr as [->|[r' ->]]; [reflexivity|]. cbn [span]. rewrite H32. reflexivity.
  - cbn [forallb] in Ha. apply andb_true_iff in Ha. destruct Ha as [Hb Ha].
    cbn [app span]. rewrite Hb, (IH Ha). reflexivity.
Qed.

Definition id_rest (x : N) : bool := is_alnum x || (x =? 95).

(* any identifier (used for field names after `.`) *)
Lemma p_identifier_ok b a r : is_alpha b || (b =? 95) = true -> forallb id_rest a = true -> sep r ->
  forall lead, lead = [] \/ lead = [32] -> p_identifier (lead ++ (b :: a) ++ r) = POk (EId (b :: a)) r.
Proof.
  intros Hb Ha Hr lead Hl. unfold p_identifier.
  assert (NB : nonblank b (a ++ r) = true).
  { unfold nonblank. apply orb_true_iff in Hb.
    destruct Hb as [Hb|Hb].
    - unfold is_alpha, in_range in Hb. unfold is_space.
      destruct (N.eqb_spec b 32), (N.eqb_spec b 9), (N.eqb_spec b 10), (N.eqb_spec b 13),
        (N.eqb_spec b 35), (N.eqb_spec b 47); subst; try discriminate Hb; reflexivity.
    - apply N.eqb_eq in Hb. subst b. reflexivity. }
  assert (E : skip_blank (lead ++ (b :: a) ++ r) = b :: a ++ r).
  { destruct Hl as [->| ->]; cbn [app].
    - apply skip_blank_nonblank; exact NB.
    - apply skip_blank_sp; exact NB. }
  rewrite E, Hb. fold id_rest. change (fun x => is_alnum x || (x =? 95)) with id_rest.
  rewrite span_all; auto.
Qed.

Lemma existsb_95_dec ds : forallb is_dec ds = true -> existsb (N.eqb 95) ds = false.
Proof.
  induction ds as [|d ds IH]; intros H; [reflexivity|].
  cbn [forallb] in H. apply andb_true_iff in H. destruct H as [Hd H].
  cbn [existsb]. rewrite (IH H). destruct (N.eqb_spec 95 d) as [<-|]; [discriminate Hd|reflexivity].
Qed.

Lemma is_dec_facts d : is_dec d = true -> (48 <= d <= 57).
Proof. unfold is_dec, in_range. intros H. apply andb_true_iff in H. destruct H as [H1 H2].
  apply N.leb_le in H1, H2. lia. Qed.

Lemma prefixed_dec (x c : N) (A B : pres expr) : (is_dec x || (x =? 32)) = true -> (97 <= c) ->
  (if lower_b x =? c then A else B) = B.
Proof.
  intros Hx Hc.
  assert (L : x <= 57).
  { apply orb_true_iff in Hx. destruct Hx as [Hx|Hx]; [apply is_dec_facts in Hx; lia|].
    apply N.eqb_eq in Hx. lia. }
  unfold lower_b, in_range.
  destruct (N.leb_spec 65 x); [lia|]. cbn [andb].
  destruct (N.eqb_spec x c); [lia|reflexivity].
Qed.

Lemma p_integer_dec d ds r : forallb is_dec (d :: ds) = true -> sep r ->
  radix_val 10 (d :: ds) 0 <= I64_MAX ->
  p_integer ((d :: ds) ++ r) = POk (EInt (Z.of_N (radix_val 10 (d :: ds) 0))) r.
Proof.
  intros Hds Hr Hv. pose proof Hds as Hds0.
  cbn [forallb] in Hds. apply andb_true_iff in Hds. destruct Hds as [Hd Hds'].
  assert (NB : nonblank d (ds ++ r) = true).
  { pose proof (is_dec_facts d Hd). unfold nonblank, is_space.
    destruct (N.eqb_spec d 32), (N.eqb_spec d 9), (N.eqb_spec d 10), (N.eqb_spec d 13),
      (N.eqb_spec d 35), (N.eqb_spec d 47); try lia; reflexivity. }
  unfold p_integer. cbn [app]. rewrite skip_blank_nonblank by exact NB.
  assert (P : forall c radix isd, 97 <= c ->
    match d :: ds ++ r with
    | 48 :: x :: r' => if lower_b x =? c then p_radix radix isd r' else PErr
    | _ => PErr end = PErr).
  { intros c radix isd Hc.
    destruct (N.eq_dec d 48) as [->|Hne]; [|apply try_prefixed_no with (k := fun x r' => if lower_b x =? c then p_radix radix isd r' else PErr); exact Hne].
    destruct (ds ++ r) as [|x r'] eqn:E; [reflexivity|].
    apply prefixed_dec; [|exact Hc].
    destruct ds as [|x' ds'].
    - cbn [app] in E. destruct Hr as [->|[r'' ->]]; [discriminate|]. inversion E; subst. reflexivity.
    - cbn [app] in E. inversion E; subst. cbn [forallb] in Hds'. apply andb_true_iff in Hds'.
      destruct Hds' as [Hx _]. rewrite Hx. reflexivity. }
  rewrite !P by lia.
  unfold p_radix. rewrite Hd.
  change (d :: ds ++ r) with ((d :: ds) ++ r).
  rewrite span_all; auto.
  - rewrite existsb_95_dec by exact Hds0.
    apply N.leb_le in Hv. rewrite Hv. reflexivity.
  - apply forallb_forall. intros x Hx. rewrite forallb_forall in Hds0. rewrite (Hds0 x Hx). reflexivity.
Qed.

(* ---- decimal numerals of N -------------------------------------------------------------- *)

Fixpoint digs (fuel : nat) (n : N) (acc : bytes) : bytes :=
  match fuel with
  | O => acc
  | S f => let acc' := (48 + n mod 10) :: acc in
           if n / 10 =? 0 then acc' else digs f (n / 10) acc'
  end.

Definition dec_of_N (n : N) : bytes := digs (S (N.to_nat (N.log2 n))) n [].

Lemma digit_dec x : x < 10 -> is_dec (48 + x) = true /\ digit_val (48 + x) = x.
Proof.
  intros H. assert (D : is_dec (48 + x) = true).
  { unfold is_dec, in_range. apply andb_true_iff. split; apply N.leb_le; lia. }
  split; [exact D|]. unfold digit_val. rewrite D. lia.
Qed.

Lemma digs_dec : forall f n acc, forallb is_dec acc = true -> forallb is_dec (digs f n acc) = true.
Proof.
  induction f as [|f IH]; intros n acc H; [exact H|]. cbn [digs].
  assert (H' : forallb is_dec ((48 + n mod 10) :: acc) = true).
  { cbn [forallb]. rewrite H. rewrite (proj1 (digit_dec (n mod 10) (N.mod_lt n 10 ltac:(lia)))). reflexivity. }
  destruct (n / 10 =? 0); [exact H'|apply IH; exact H'].
Qed.

Lemma digs_nonempty : forall f n acc, acc <> [] -> digs f n acc <> [].
Proof.
  induction f as [|f IH]; intros n acc H; [exact H|]. cbn [digs].
  destruct (n / 10 =? 0); [discriminate|apply IH; discriminate].
Qed.

Lemma digs_val : forall f n acc, n < 2 ^ N.of_nat f ->
  radix_val 10 (digs f n acc) 0 = radix_val 10 acc n.
Proof.
  induction f as [|f IH]; intros n acc H.
  - cbn in H. assert (n = 0) by lia. subst n. reflexivity.
  - cbn [digs]. pose proof (N.mod_lt n 10 ltac:(lia)) as Hm.
    pose proof (N.div_mod n 10 ltac:(lia)) as Hd.
    destruct (N.eqb_spec (n / 10) 0) as [E|E].
    + cbn [radix_val]. rewrite (proj2 (digit_dec _ Hm)). f_equal. rewrite E in Hd. lia.
    + rewrite IH.
      * cbn [radix_val]. rewrite (proj2 (digit_dec _ Hm)). f_equal. lia.
      * rewrite Nat2N.inj_succ, N.pow_succ_r' in H.
        apply N.div_lt_upper_bound; [lia|]. lia.
Qed.

Lemma dec_of_N_ok n : dec_of_N n <> [] /\ forallb is_dec (dec_of_N n) = true /\ radix_val 10 (dec_of_N n) 0 = n.
Proof.
  unfold dec_of_N. split; [|split].
  - cbn [digs]. destruct (n / 10 =? 0); [discriminate|apply digs_nonempty; discriminate].
  - apply digs_dec. reflexivity.
  - rewrite digs_val; [reflexivity|].
    rewrite Nat2N.inj_succ, N2Nat.id.
    destruct n as [|p]; [reflexivity|]. apply N.log2_spec. lia.
Qed.
